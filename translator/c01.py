"""C01 translator -> lean/XonshVerif/Gen/PyTokens.lean

From /repo's working tree:
  * xonsh/parsers/lexer.py   `token_map()`  : the operator dict literal `_op_map` and the `tm[X] = "Y"` entries (read with `ast`),
                              `special_handlers()` : operator keys `(OP, "...")` and the `_make_matcher_handler(tok, typ, …)` calls,
                              `handle_name`       : the keyword test `token.string in kwmod.kwlist + [...]` (its extra words) and
                                                    `NEED_WHITESPACE`,
                              `handle_error_token`: the `token.string == "!"` → BANG branch,
                              `handle_double_amps/pipe`, `handle_r*`: the token type each yields,
                              `Lexer.tokens`      : the PLY token names (dumped from a fresh interpreter importing /repo),
  * xonsh/parsers/tokenize.py `Funny` (= Operator | Bracket | Special): every alternative of the star-free pattern, expanded
                              to its strings IN THE ORDER PYTHON'S BACKTRACKING MATCHER TRIES THEM (sre parse tree),
  * xonsh/parsers/base.py     production `name : …` (docstring of p_name),
  * xonsh/parsers/context_check.py `_not_assignable`: the isinstance chain as an ordered table class-name -> message.
From the running interpreter: token.EXACT_TOKEN_TYPES, keyword.kwlist, keyword.softkwlist, the expression classes of `ast`.

Strings are emitted as lists of code points (`List Nat`) so that `decide` over the complete tables stays cheap."""

from __future__ import annotations

import ast
import json
import subprocess

from . import pylite

DUMP = r"""
import json, sys
sys.dont_write_bytecode = True
sys.path.insert(0, sys.argv[1])
import warnings; warnings.simplefilter("ignore")
try:
    import re._parser as sre_parse
    import re._constants as sre_c
except ImportError:
    import sre_parse, sre_constants as sre_c
import token, keyword, ast
import xonsh.parsers.tokenize as T
import xonsh.parsers.lexer as L

class Unsupported(Exception):
    pass

def chars_of_in(items):
    out = []
    for op, av in items:
        if op is sre_c.LITERAL:
            out.append(chr(av))
        elif op is sre_c.RANGE:
            out += [chr(c) for c in range(av[0], av[1] + 1)]
        else:
            raise Unsupported("set item %r" % (op,))
    return out

def lang(seq):
    # every string a star-free pattern matches, in the order the backtracking matcher tries them
    # (first item outermost; branches in order; greedy repeats longest first)
    items = list(seq)
    if not items:
        return [""]
    (op, av), rest = items[0], items[1:]
    if op is sre_c.LITERAL:
        heads = [chr(av)]
    elif op is sre_c.IN:
        heads = chars_of_in(av)
    elif op is sre_c.BRANCH:
        heads = []
        for b in av[1]:
            heads += lang(b)
    elif op is sre_c.SUBPATTERN:
        heads = lang(av[3])
    elif op in (sre_c.MAX_REPEAT, sre_c.MIN_REPEAT):
        lo, hi, sub = av
        if hi is sre_c.MAXREPEAT or hi > 3:
            raise Unsupported("unbounded repetition")
        one = lang(sub)
        counts = range(hi, lo - 1, -1) if op is sre_c.MAX_REPEAT else range(lo, hi + 1)
        heads = []
        for n in counts:
            cur = [""]
            for _ in range(n):
                cur = [a + b for a in cur for b in one]
            heads += cur
    else:
        raise Unsupported("regex op %r" % (op,))
    tails = lang(rest)
    return [h + t for h in heads for t in tails]

out = {}
try:
    # `\r?\n` (a Special alternative) is the NEWLINE token, not an operator: kept, it is part of what `Funny` matches
    out["funny"] = lang(sre_parse.parse(T.Funny))
except Unsupported as e:
    out["funny_error"] = str(e)
out["OP"] = T.OP
tm = dict(L.token_map)
out["token_map_ops"] = sorted([k[1], v] for k, v in tm.items() if isinstance(k, tuple) and k[0] == T.OP)
out["token_map_types"] = sorted([T.tok_name.get(k, str(k)), v] for k, v in tm.items() if not isinstance(k, tuple))
sh = dict(L.special_handlers)
out["special_ops"] = sorted([k[1], v.__name__] for k, v in sh.items() if isinstance(k, tuple) and k[0] == T.OP)
out["ply_tokens"] = list(L.Lexer().tokens)
out["cpy_ops"] = sorted(token.EXACT_TOKEN_TYPES)
out["kwlist"] = list(keyword.kwlist)
out["softkwlist"] = list(keyword.softkwlist)
out["expr_classes"] = sorted(c.__name__ for c in ast.expr.__subclasses__())
print(json.dumps(out))
"""


def codes(s):
    return "[" + ", ".join(str(ord(c)) for c in s) + "]"


def lean_comment(s):
    return s.replace("\n", "\\n").replace("\r", "\\r").replace("-/", "- /")


def table(name, doc, rows, ty="List (List Nat × List Nat)"):
    out = [f"/-- {doc} -/", f"def {name} : {ty} := ["]
    out.append(",\n".join(f"  ({codes(a)}, {codes(b)})  -- {lean_comment(a)!s} ↦ {lean_comment(b)!s}" if False else f"  ({codes(a)}, {codes(b)})" for a, b in rows))
    out.append("]")
    out.append("-- " + "  ".join(f"{lean_comment(a)}↦{lean_comment(b)}" for a, b in rows)[:3000])
    return out


def strlist(name, doc, xs):
    return [f"/-- {doc} -/", f"def {name} : List (List Nat) := [", ",\n".join(f"  {codes(x)}" for x in xs), "]", "-- " + " ".join(lean_comment(x) for x in xs)[:3000]]


def _find_func(tree, name):
    for n in ast.walk(tree):
        if isinstance(n, (ast.FunctionDef,)) and n.name == name:
            return n
    raise pylite.Unsupported(f"function {name} not found")


def generate(repo):
    errors, fps = [], {}
    p = subprocess.run(["/venv/bin/python", "-c", DUMP, str(repo)], capture_output=True, text=True, timeout=180)
    if p.returncode != 0:
        return None, fps, ["cannot import the xonsh lexer/tokenizer from the working tree: " + p.stderr[-400:]]
    d = json.loads(p.stdout.strip().splitlines()[-1])
    if "funny_error" in d:
        errors.append("tokenize.Funny is no longer a star-free pattern: " + d["funny_error"])
        d["funny"] = []
    lex_src = (repo / "xonsh/parsers/lexer.py").read_text()
    lex = ast.parse(lex_src)

    # ---- token_map(): the dict literal and the tm[...] entries, read from the source text
    op_map_src = []
    try:
        fn = _find_func(lex, "token_map")
        fps["lexer.token_map"] = pylite.fingerprint(fn)
        for n in ast.walk(fn):
            if isinstance(n, ast.Assign) and isinstance(n.targets[0], ast.Name) and n.targets[0].id == "_op_map" and isinstance(n.value, ast.Dict):
                for k, v in zip(n.value.keys, n.value.values):
                    if not (isinstance(k, ast.Constant) and isinstance(v, ast.Constant)):
                        raise pylite.Unsupported("_op_map has a computed entry")
                    op_map_src.append((k.value, v.value))
        if not op_map_src:
            raise pylite.Unsupported("no `_op_map = {…}` literal in token_map()")
        if sorted(op_map_src) != sorted((a, b) for a, b in d["token_map_ops"]):
            raise pylite.Unsupported("the `_op_map` literal and the imported token_map disagree on the operator entries")
    except pylite.Unsupported as e:
        errors.append(f"lexer.token_map: {e}")

    # ---- handle_name: `elif token.string in kwmod.kwlist + [...]: typ = token.string.upper()`
    kw_extra = None
    need_ws = None
    try:
        fn = _find_func(lex, "handle_name")
        fps["lexer.handle_name"] = pylite.fingerprint(fn)
        for n in ast.walk(fn):
            if isinstance(n, ast.Compare) and len(n.ops) == 1 and isinstance(n.ops[0], ast.In) and ast.unparse(n.left) == "token.string":
                c = n.comparators[0]
                if isinstance(c, ast.BinOp) and isinstance(c.op, ast.Add) and ast.unparse(c.left) == "kwmod.kwlist" and isinstance(c.right, ast.List):
                    kw_extra = [e.value for e in c.right.elts]
                elif ast.unparse(c) == "kwmod.kwlist":
                    kw_extra = []
        ups = [n for n in ast.walk(fn) if isinstance(n, ast.Assign) and ast.unparse(n) == "typ = token.string.upper()"]
        if kw_extra is None or len(ups) != 1:
            raise pylite.Unsupported("the keyword branch is no longer `token.string in kwmod.kwlist + [...]` / `typ = token.string.upper()`")
        for n in lex.body:
            if isinstance(n, ast.Assign) and ast.unparse(n.targets[0]) == "NEED_WHITESPACE":
                need_ws = sorted(ast.literal_eval(n.value.args[0]))
        if need_ws is None:
            raise pylite.Unsupported("NEED_WHITESPACE not found")
    except (pylite.Unsupported, ValueError, AttributeError, IndexError) as e:
        errors.append(f"lexer.handle_name: {e}")
        kw_extra, need_ws = kw_extra or [], need_ws or []

    # ---- handlers that yield a fixed token type: handler name -> type
    handler_type = {}
    err_map = []
    try:
        for hname in ("handle_rparen", "handle_rbrace", "handle_rbracket", "handle_double_amps", "handle_double_pipe"):
            fn = _find_func(lex, hname)
            tys = []
            for n in ast.walk(fn):
                if isinstance(n, ast.Call) and ast.unparse(n.func) == "_new_token" and isinstance(n.args[0], ast.Constant):
                    tys.append(n.args[0].value)
            tys = [t for t in tys if t != "ERRORTOKEN"]
            if len(set(tys)) != 1:
                raise pylite.Unsupported(f"{hname} yields {tys}")
            handler_type[hname] = tys[0]
        fn = _find_func(lex, "handle_error_token")
        fps["lexer.handle_error_token"] = pylite.fingerprint(fn)
        for n in ast.walk(fn):
            if isinstance(n, ast.If) and isinstance(n.test, ast.Compare) and ast.unparse(n.test.left) == "token.string" and isinstance(n.test.ops[0], ast.Eq) and isinstance(n.test.comparators[0], ast.Constant):
                b = n.body[0]
                if isinstance(b, ast.Assign) and ast.unparse(b.targets[0]) == "typ" and isinstance(b.value, ast.Constant):
                    err_map.append((n.test.comparators[0].value, b.value.value))
        # matcher handlers: _make_matcher_handler("(", "LPAREN", True, ")", sh)
        fn = _find_func(lex, "special_handlers")
        fps["lexer.special_handlers"] = pylite.fingerprint(fn)
        matcher = {}
        for n in ast.walk(fn):
            if isinstance(n, ast.Call) and ast.unparse(n.func) == "_make_matcher_handler":
                matcher[n.args[0].value] = n.args[1].value
    except (pylite.Unsupported, AttributeError, IndexError) as e:
        errors.append(f"lexer handlers: {e}")
        matcher = {}
    # special operator keys -> the PLY type they produce in Python mode
    tm_ops = dict((a, b) for a, b in d["token_map_ops"])
    special_rows = []
    for opstr, h in d["special_ops"]:
        if h == "_inner_handler":
            if opstr not in matcher:
                errors.append(f"lexer.special_handlers: matcher for {opstr!r} not found in the source")
                continue
            special_rows.append((opstr, matcher[opstr]))
        elif h == "handle_redirect":
            # Python mode, plain `<`, `>`, `>>`: yields token_map[(OP, op)]
            if opstr in tm_ops:
                special_rows.append((opstr, tm_ops[opstr]))
            else:
                errors.append(f"lexer.special_handlers: redirect operator {opstr!r} has no token_map entry")
        elif h in handler_type:
            special_rows.append((opstr, handler_type[h]))
        else:
            errors.append(f"lexer.special_handlers: unknown handler {h} for {opstr!r}")

    # ---- grammar: production `name`
    name_alts = []
    try:
        base = ast.parse((repo / "xonsh/parsers/base.py").read_text())
        fn = _find_func(base, "p_name")
        doc = ast.get_docstring(fn) or ""
        fps["base.p_name"] = pylite.fingerprint(fn)
        body = doc.replace("\n", " ")
        if not body.strip().startswith("name :"):
            raise pylite.Unsupported("p_name docstring is not a `name : …` production")
        alts = [a.strip() for a in body.split(":", 1)[1].split("|")]
        for a in alts:
            if not a.endswith("_tok") or " " in a:
                raise pylite.Unsupported(f"alternative {a!r} of `name` is not a single token rule")
            name_alts.append(a[: -len("_tok")].upper())
    except pylite.Unsupported as e:
        errors.append(f"base.p_name: {e}")

    # ---- context_check._not_assignable: the isinstance chain
    na_rows, na_shape = [], {}
    try:
        cc = ast.parse((repo / "xonsh/parsers/context_check.py").read_text())
        fn = _find_func(cc, "_not_assignable")
        fps["context_check._not_assignable"] = pylite.fingerprint(fn)
        na_rows, na_shape = not_assignable_table(fn)
        for cname in ("visit_Delete", "visit_Assign", "visit_AugAssign"):
            f2 = _find_func(cc, cname)
            fps["context_check." + cname] = pylite.fingerprint(f2)
            calls = [ast.unparse(n) for n in ast.walk(f2) if isinstance(n, ast.Call) and ast.unparse(n.func) == "_not_assignable"]
            want = {"visit_Delete": ["_not_assignable(i)"], "visit_Assign": ["_not_assignable(i)"], "visit_AugAssign": ["_not_assignable(node.target, True)"]}[cname]
            if calls != want:
                raise pylite.Unsupported(f"{cname} calls {calls}, expected {want}")
        visitors = sorted(n.name for n in ast.walk(cc) if isinstance(n, ast.FunctionDef) and n.name.startswith("visit_"))
        if visitors != ["visit_Assign", "visit_AugAssign", "visit_Delete"]:
            raise pylite.Unsupported(f"ContextCheckingVisitor now has visitors {visitors}")
    except pylite.Unsupported as e:
        errors.append(f"context_check: {e}")

    out = [
        "/- GENERATED by translator/c01.py from xonsh/parsers/lexer.py, tokenize.py, base.py, context_check.py and the running",
        "   interpreter's token / keyword / ast modules — do not edit; regenerated on every check run.  Strings are code-point lists. -/",
        "namespace Gen.PyTokens",
    ]
    out += strlist("cpythonOps", "token.EXACT_TOKEN_TYPES of the running interpreter (every operator / delimiter spelling)", d["cpy_ops"])
    out += strlist("kwlist", "keyword.kwlist", d["kwlist"])
    out += strlist("softkwlist", "keyword.softkwlist", d["softkwlist"])
    out += strlist("funnyAlts", "every string of tokenize.Funny = group(Operator, Bracket, Special), in the order the regex engine tries them", d["funny"])
    out += table("tokenMapOps", "lexer token_map: (OP, spelling) ↦ PLY token type", d["token_map_ops"])
    out += table("specialOps", "lexer special_handlers for operator spellings, resolved to the PLY type they yield in Python mode", special_rows)
    out += table("errorTokenMap", "handle_error_token: spellings of an ERRORTOKEN that get their own PLY type", err_map)
    out += strlist("kwExtra", "handle_name: words besides keyword.kwlist that are upper-cased into their own token type", kw_extra)
    out += strlist("needWhitespace", "lexer NEED_WHITESPACE", need_ws)
    out += strlist("plyTokens", "Lexer.tokens: every token type the grammar knows", d["ply_tokens"])
    out += strlist("nameAlts", "token types accepted by the grammar production `name`", name_alts)
    out += strlist("exprClasses", "the expression classes of the running interpreter's ast module", d["expr_classes"])
    out.append("/-- context_check._not_assignable: the isinstance chain after the Tuple/List branches, in source order: (ast class, message) -/")
    out.append("def notAssignableRows : List (List Nat × List Nat) := [")
    out.append(",\n".join(f"  ({codes(a)}, {codes(b)})" for a, b in na_rows))
    out.append("]")
    out.append("-- " + "  ".join(f"{a}↦{b}" for a, b in na_rows))
    out.append(f"/-- shape facts of _not_assignable read from the source: message for an augmented Tuple/List target, message for an empty one, and whether the recursive call passes `augassign` on -/")
    out.append(f"def augSeqMsg : List Nat := {codes(na_shape.get('aug_seq', ''))}")
    out.append(f"def emptySeqMsg : Option (List Nat) := {('some ' + codes(na_shape['empty_seq'])) if na_shape.get('empty_seq') is not None else 'none'}")
    out.append(f"def recursionPassesAug : Bool := {'true' if na_shape.get('rec_aug') else 'false'}")
    out.append("end Gen.PyTokens\n")
    fps["tables"] = f"{len(d['cpy_ops'])} CPython operators, {len(d['funny'])} Funny strings, {len(d['token_map_ops'])} token_map operators, {len(d['kwlist'])} keywords"
    return "\n".join(out), fps, errors


# the classes `_not_assignable` tests through helper predicates rather than isinstance
_HELPERS = {"xast.is_const_num": "Constant:num", "xast.is_const_str": "Constant:str", "xast.is_const_bytes": "Constant:bytes", "xast.is_const_name": "Constant:name"}


def _classes_of(test):
    """isinstance(x, A | B) / helper(x) / any([...]) -> list of class tags, or raise"""
    if isinstance(test, ast.Call) and ast.unparse(test.func) == "isinstance" and ast.unparse(test.args[0]) == "x":
        t = test.args[1]
        names = []

        def flat(n):
            if isinstance(n, ast.BinOp) and isinstance(n.op, ast.BitOr):
                flat(n.left)
                flat(n.right)
            elif isinstance(n, ast.Attribute) and ast.unparse(n.value) == "ast":
                names.append(n.attr)
            else:
                raise pylite.Unsupported("isinstance class " + ast.unparse(n))

        flat(t)
        return names
    if isinstance(test, ast.Call) and ast.unparse(test.func) in _HELPERS and ast.unparse(test.args[0]) == "x":
        return [_HELPERS[ast.unparse(test.func)]]
    if isinstance(test, ast.Call) and ast.unparse(test.func) == "any" and isinstance(test.args[0], ast.List):
        out = []
        for e in test.args[0].elts:
            out += _classes_of(e)
        return out
    if isinstance(test, ast.BoolOp) and isinstance(test.op, ast.And) and len(test.values) == 2 and ast.unparse(test.values[1]) == "x.id in _all_keywords":
        c = _classes_of(test.values[0])
        if c == ["Name"]:
            return ["Name:keyword"]
    raise pylite.Unsupported("test " + ast.unparse(test))


def not_assignable_table(fn):
    """the if/elif chain of `_not_assignable` -> ordered [(class tag, message)] for the non-sequence branches and the
    shape of the two sequence branches"""
    body = [s for s in fn.body if not (isinstance(s, ast.Expr) and isinstance(s.value, ast.Constant))]
    if len(body) != 1 or not isinstance(body[0], ast.If):
        raise pylite.Unsupported("_not_assignable is no longer a single if/elif chain")
    shape = {}
    node = body[0]
    # branch 1: augassign and isinstance(x, Tuple | List) -> return "<msg>"
    t = node.test
    if not (isinstance(t, ast.BoolOp) and isinstance(t.op, ast.And) and ast.unparse(t.values[0]) == "augassign" and sorted(_classes_of(t.values[1])) == ["List", "Tuple"]):
        raise pylite.Unsupported("first branch is not `augassign and isinstance(x, Tuple | List)`")
    if not (len(node.body) == 1 and isinstance(node.body[0], ast.Return) and isinstance(node.body[0].value, ast.Constant)):
        raise pylite.Unsupported("first branch does not return a constant")
    shape["aug_seq"] = node.body[0].value.value
    node = node.orelse[0] if node.orelse and isinstance(node.orelse[0], ast.If) else None
    if node is None or sorted(_classes_of(node.test)) != ["List", "Tuple"]:
        raise pylite.Unsupported("second branch is not `isinstance(x, Tuple | List)`")
    shape["empty_seq"] = None
    saw_loop = False
    for s in node.body:
        if isinstance(s, ast.If) and ast.unparse(s.test) == "len(x.elts) == 0" and isinstance(s.body[0], ast.Return) and isinstance(s.body[0].value, ast.Constant):
            shape["empty_seq"] = s.body[0].value.value
        elif isinstance(s, ast.For) and ast.unparse(s.iter) == "x.elts":
            calls = [n for n in ast.walk(s) if isinstance(n, ast.Call) and ast.unparse(n.func) == "_not_assignable"]
            if len(calls) != 1:
                raise pylite.Unsupported("sequence loop shape")
            shape["rec_aug"] = len(calls[0].args) + len(calls[0].keywords) > 1
            txt = ast.unparse(s.body)
            if "if res is not None" not in txt or "return res" not in txt:
                raise pylite.Unsupported("sequence loop does not return the first non-None result")
            saw_loop = True
        else:
            raise pylite.Unsupported("unexpected statement in the sequence branch: " + ast.unparse(s)[:60])
    if not saw_loop:
        raise pylite.Unsupported("no loop over x.elts")
    rows = []
    node = node.orelse[0] if node.orelse and isinstance(node.orelse[0], ast.If) else None
    while node is not None:
        if not (len(node.body) == 1 and isinstance(node.body[0], ast.Return) and isinstance(node.body[0].value, ast.Constant)):
            raise pylite.Unsupported("a branch does not return a constant: " + ast.unparse(node.test)[:60])
        for c in _classes_of(node.test):
            rows.append((c, node.body[0].value.value))
        if node.orelse and not (len(node.orelse) == 1 and isinstance(node.orelse[0], ast.If)):
            raise pylite.Unsupported("the chain ends with an else branch")
        node = node.orelse[0] if node.orelse else None
    return rows, shape
