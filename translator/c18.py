"""C18 translator: xonsh/lib/completion_quoting.py + xonsh/completers/path.py -> lean/XonshVerif/Gen/Quote.lean

  * `_PATTERN`: the regex is parsed (re._parser) into ONE character class plus `\\bWORD\\b` alternatives; the class
    is interpreted over every code point and cross-checked against `_PATTERN.search(chr(c))`; anything else in the
    pattern is a translator error that names the construct,
  * `_CONTROL_CHAR_ESCAPE` (dumped from the imported module),
  * `name_needs_quotes`, `_quote_to_use`, `_raw_quote`: StrLite translation (below) of the function bodies,
  * Python's `\\w` and `str.isidentifier` classes (CPython facts the model needs for word boundaries, `$NAME`
    extents and name tokens), as code-point ranges.

StrLite: straight-line string code -> Lean.  Statements: `x = e`, `x += e`, `if t: <assignments>` (re-binding),
`if t: return e` / `if … else …`, `return e`, docstrings.  Expressions: str / bool / None constants, names,
`a + b`, `and / or / not`, `a in b`, `a not in b`, `a == b`, `a != b`, `a is None`, `x.endswith(e)`,
`x.startswith(e)`, and call substitutions supplied by the caller.  Anything else raises Unsupported(<construct>)."""

from __future__ import annotations

import ast
import json
import re
import subprocess

from . import pylite
from .pylite import Unsupported

EXTRA_BREAKS = {0x1C, 0x1D, 0x1E, 0x85, 0x2028, 0x2029}  # = PathQuote.unescapedBreaks
SRC_Q = "xonsh/lib/completion_quoting.py"
SRC_P = "xonsh/completers/path.py"

DUMP = r"""
import json, sys
sys.dont_write_bytecode = True
sys.path.insert(0, sys.argv[1])
import warnings; warnings.simplefilter("ignore")
import xonsh.lib.completion_quoting as cq
import xonsh.completers.path as xp
print(json.dumps({"pattern": cq._PATTERN.pattern, "flags": cq._PATTERN.flags,
                  "ctrl": sorted((int(k), v) for k, v in dict(xp._CONTROL_CHAR_ESCAPE).items())}))
"""


def lean_str(s):
    return "[" + ", ".join(f"Char.ofNat {ord(c)}" for c in s) + "]"


def ranges(pred):
    out, start = [], None
    for c in range(0x110000):
        ok = False if 0xD800 <= c <= 0xDFFF else pred(chr(c))
        if ok and start is None:
            start = c
        if not ok and start is not None:
            out.append((start, c - 1))
            start = None
    if start is not None:
        out.append((start, 0x10FFFF))
    return out


def lean_ranges(name, doc, rs):
    body = ",\n  ".join(", ".join(f"({a}, {b})" for a, b in rs[i : i + 8]) for i in range(0, len(rs), 8))
    return f"/-- {doc} -/\ndef {name} : List (Nat × Nat) := [\n  {body}]\n"


# --------------------------------------------------------------------------- the regex
def split_pattern(pattern, flags):
    """-> (class predicate over single characters, [keywords]); raises Unsupported"""
    import re._constants as sc
    import re._parser as sp

    tree = sp.parse(pattern, flags)
    items = list(tree)
    if len(items) == 1 and items[0][0] is sc.BRANCH:
        alts = [list(a) for a in items[0][1][1]]
    else:
        alts = [items]
    class_items, keywords = [], []
    for alt in alts:
        if len(alt) == 1 and alt[0][0] is sc.IN:
            class_items += list(alt[0][1])
        elif len(alt) == 1 and alt[0][0] is sc.LITERAL:
            class_items.append(alt[0])
        elif (
            len(alt) >= 3
            and alt[0] == (sc.AT, sc.AT_BOUNDARY)
            and alt[-1] == (sc.AT, sc.AT_BOUNDARY)
            and all(op is sc.LITERAL for op, _ in alt[1:-1])
        ):
            keywords.append("".join(chr(av) for _, av in alt[1:-1]))
        else:
            raise Unsupported(f"_PATTERN alternative is neither a character class nor \\bWORD\\b: {alt!r}")
    negate = False
    tests = []
    cats = {
        sc.CATEGORY_SPACE: re.compile(r"\s"),
        sc.CATEGORY_NOT_SPACE: re.compile(r"\S"),
        sc.CATEGORY_DIGIT: re.compile(r"\d"),
        sc.CATEGORY_NOT_DIGIT: re.compile(r"\D"),
        sc.CATEGORY_WORD: re.compile(r"\w"),
        sc.CATEGORY_NOT_WORD: re.compile(r"\W"),
    }
    for op, av in class_items:
        if op is sc.NEGATE:
            negate = True
        elif op is sc.LITERAL:
            tests.append(lambda ch, av=av: ord(ch) == av)
        elif op is sc.RANGE:
            tests.append(lambda ch, av=av: av[0] <= ord(ch) <= av[1])
        elif op is sc.CATEGORY and av in cats:
            tests.append(lambda ch, rx=cats[av]: rx.match(ch) is not None)
        else:
            raise Unsupported(f"_PATTERN character class item {op} {av}")
    if negate:
        raise Unsupported("_PATTERN: a negated class cannot be merged with the other alternatives")

    def in_class(ch):
        return any(t(ch) for t in tests)

    return in_class, keywords


# --------------------------------------------------------------------------- StrLite
class StrLite:
    def __init__(self, subst=None, types=None):
        self.subst = subst or {}  # ast.unparse(call) -> (lean text, type)
        self.types = dict(types or {})  # name -> "Str" | "Bool"

    def expr(self, e):
        key = ast.unparse(e)
        if key in self.subst:
            return self.subst[key]
        if isinstance(e, ast.Constant):
            if isinstance(e.value, str):
                return lean_str(e.value) if e.value else "([] : Str)", "Str"
            if e.value is True:
                return "true", "Bool"
            if e.value is False:
                return "false", "Bool"
            raise Unsupported(f"constant {e.value!r}")
        if isinstance(e, ast.Name):
            if e.id not in self.types:
                raise Unsupported(f"unknown name {e.id}")
            return e.id + ("_" if e.id in ("end", "from", "at") else ""), self.types[e.id]
        if isinstance(e, ast.BinOp) and isinstance(e.op, ast.Add):
            (a, ta), (b, tb) = self.expr(e.left), self.expr(e.right)
            if ta != "Str" or tb != "Str":
                raise Unsupported("+ on non-strings")
            return f"({a} ++ {b})", "Str"
        if isinstance(e, ast.BoolOp):
            parts = [self.truth(v) for v in e.values]
            op = " && " if isinstance(e.op, ast.And) else " || "
            return "(" + op.join(parts) + ")", "Bool"
        if isinstance(e, ast.UnaryOp) and isinstance(e.op, ast.Not):
            return f"(!{self.truth(e.operand)})", "Bool"
        if isinstance(e, ast.Compare) and len(e.ops) == 1:
            op, (a, ta), (b, tb) = e.ops[0], self.expr(e.left), self.expr(e.comparators[0])
            if isinstance(op, (ast.In, ast.NotIn)) and ta == tb == "Str":
                t = f"PathQuote.isInfix {a} {b}"
                return (f"({t})" if isinstance(op, ast.In) else f"(!({t}))"), "Bool"
            if isinstance(op, (ast.Eq, ast.NotEq)) and ta == tb:
                return (f"({a} == {b})" if isinstance(op, ast.Eq) else f"({a} != {b})"), "Bool"
            raise Unsupported(f"comparison {ast.unparse(e)}")
        if isinstance(e, ast.Call) and isinstance(e.func, ast.Attribute) and e.func.attr in ("endswith", "startswith") and len(e.args) == 1 and not e.keywords:
            (x, tx), (a, ta) = self.expr(e.func.value), self.expr(e.args[0])
            if tx != "Str" or ta != "Str":
                raise Unsupported(f"{e.func.attr} on non-strings")
            fn = "PathQuote.endsWith" if e.func.attr == "endswith" else "PathQuote.startsWith"
            return f"({fn} {x} {a})", "Bool"
        raise Unsupported(f"expression {ast.unparse(e)}")

    def truth(self, e):
        t, ty = self.expr(e)
        if ty == "Bool":
            return t
        if ty == "Str":  # Python truthiness of a string
            return f"(!({t}).isEmpty)"
        raise Unsupported(f"truth value of {ast.unparse(e)}")

    def lname(self, n):
        return n + ("_" if n in ("end", "from", "at") else "")

    def block(self, stmts, indent="  "):
        """Lean term for a statement list that ends in a return"""
        if not stmts:
            raise Unsupported("a path through the function does not return")
        s, rest = stmts[0], stmts[1:]
        if isinstance(s, ast.Expr) and isinstance(s.value, ast.Constant) and isinstance(s.value.value, str):
            return self.block(rest, indent)
        if isinstance(s, ast.Return):
            if s.value is None:
                raise Unsupported("bare return")
            return indent + self.expr(s.value)[0]
        if isinstance(s, ast.Assign) and len(s.targets) == 1 and isinstance(s.targets[0], ast.Name):
            t, ty = self.expr(s.value)
            self.types[s.targets[0].id] = ty
            return f"{indent}let {self.lname(s.targets[0].id)} : {ty} := {t}\n" + self.block(rest, indent)
        if isinstance(s, ast.AugAssign) and isinstance(s.target, ast.Name) and isinstance(s.op, ast.Add):
            t, ty = self.expr(s.value)
            n = s.target.id
            if self.types.get(n) != "Str" or ty != "Str":
                raise Unsupported("+= on non-strings")
            return f"{indent}let {self.lname(n)} : Str := {self.lname(n)} ++ {t}\n" + self.block(rest, indent)
        if isinstance(s, ast.If):
            test = self.truth(s.test)

            def returns(b):
                return bool(b) and isinstance(b[-1], ast.Return)

            if returns(s.body):
                saved = dict(self.types)
                a = self.block(s.body, indent + "  ")
                self.types = dict(saved)
                b = self.block((s.orelse or []) + rest, indent + "  ")
                return f"{indent}if {test} then\n{a}\n{indent}else\n{b}"
            # a branch that only re-binds string variables
            if s.orelse:
                raise Unsupported("if/else whose branches do not return")
            names = []
            for b in s.body:
                if isinstance(b, ast.AugAssign) and isinstance(b.target, ast.Name):
                    names.append(b.target.id)
                elif isinstance(b, ast.Assign) and len(b.targets) == 1 and isinstance(b.targets[0], ast.Name):
                    names.append(b.targets[0].id)
                else:
                    raise Unsupported(f"statement in a non-returning if: {ast.unparse(b)}")
            if len(set(names)) != 1:
                raise Unsupported("a non-returning if must re-bind exactly one variable")
            n = names[0]
            if n not in self.types:
                raise Unsupported(f"{n} assigned only conditionally")
            inner = StrLite(self.subst, self.types)
            body = inner.block(list(s.body) + [ast.Return(value=ast.Name(id=n, ctx=ast.Load()))], indent + "    ")
            return f"{indent}let {self.lname(n)} : {self.types[n]} :=\n{indent}  if {test} then\n{body}\n{indent}  else {self.lname(n)}\n" + self.block(rest, indent)
        raise Unsupported(f"statement {ast.unparse(s)[:60]}")


def translate_function(tree, qualname, lean_name, params, ret, subst=None, doc=""):
    """params: [(python name, lean type)] in Lean order"""
    fn = pylite.find_function(tree, qualname)
    tl = StrLite(subst, {p: t for p, t in params if t in ("Str", "Bool")})
    body = tl.block(list(fn.body))
    sig = " ".join(f"({tl.lname(p)} : {t})" for p, t in params)
    return f"/-- {doc} -/\ndef {lean_name} {sig} : {ret} :=\n{body}\n", pylite.fingerprint(fn)


# --------------------------------------------------------------------------- main
def generate(repo):
    errors, fps = [], {}
    out = [
        "/- GENERATED by translator/c18.py from " + SRC_Q + " and " + SRC_P + " — do not edit; regenerated on every check run. -/",
        "import XonshVerif.Model.PathQuote",
        "namespace Gen.Quote",
        "open PathQuote (Str)",
        "",
        "def inRanges (r : List (Nat × Nat)) (c : Char) : Bool := r.any fun p => p.1 ≤ c.toNat && c.toNat ≤ p.2",
        "",
    ]
    p = subprocess.run(["/venv/bin/python", "-c", DUMP, str(repo)], capture_output=True, text=True, timeout=120)
    info = None
    if p.returncode != 0:
        errors.append("cannot import completion_quoting / completers.path from the working tree: " + p.stderr[-300:])
    else:
        info = json.loads(p.stdout.strip().splitlines()[-1])
    special, keywords, ctrl = [], [], []
    if info is not None:
        fps["_PATTERN"] = info["pattern"]
        try:
            in_class, keywords = split_pattern(info["pattern"], info["flags"])
            special = ranges(in_class)
            rx = re.compile(info["pattern"], info["flags"])
            whole = ranges(lambda ch: rx.search(ch) is not None)
            if whole != special and not any(len(k) == 1 for k in keywords):
                raise Unsupported("the interpreted character class disagrees with _PATTERN.search on single characters")
        except Unsupported as e:
            errors.append(f"_PATTERN: {e}")
        ctrl = [(k, v) for k, v in info["ctrl"] if not 0xD800 <= k <= 0xDFFF]
        fps["_CONTROL_CHAR_ESCAPE"] = f"{len(ctrl)} entries"
    out.append(lean_ranges("specialRanges", "the character class of completion_quoting._PATTERN: " + (info["pattern"] if info else "?").replace("-/", "- /"), special))
    out.append("/-- the `\\bWORD\\b` alternatives of _PATTERN -/")
    out.append("def keywords : List Str := [" + ", ".join(lean_str(k) for k in keywords) + "]\n")
    # Entries for the six FIXED extra line boundaries of str.splitlines (the `lineSeparator` class of the model: names with
    # them are outside the theorem's guard whatever the table says) are emitted separately, so that a repair which adds
    # escapes for them does not invalidate the obligations about the documented five; for every name WITHOUT those
    # characters `str.translate` with the full table and with `ctrl` coincide.  Today `ctrlExtra` is empty.
    base = [(k, v) for k, v in ctrl if k not in EXTRA_BREAKS]
    extra = [(k, v) for k, v in ctrl if k in EXTRA_BREAKS]
    out.append("/-- path._CONTROL_CHAR_ESCAPE (without entries for the six extra line boundaries, see `ctrlExtra`) -/")
    out.append("def ctrl : List (Char × Str) := [" + ", ".join(f"(Char.ofNat {k}, {lean_str(v)})" for k, v in base) + "]\n")
    out.append("/-- entries of _CONTROL_CHAR_ESCAPE whose key is one of PathQuote.unescapedBreaks (none in the unchanged source) -/")
    out.append("def ctrlExtra : List (Char × Str) := [" + ", ".join(f"(Char.ofNat {k}, {lean_str(v)})" for k, v in extra) + "]\n")
    out.append("theorem ctrlExtra_keys : ctrlExtra.all (fun kv => PathQuote.unescapedBreaks.contains kv.1) = true := by decide\n")
    fps["_CONTROL_CHAR_ESCAPE"] = f"{len(base)} entries" + (f" + {len(extra)} for extra line boundaries" if extra else "")
    rw = re.compile(r"\w")
    out.append(lean_ranges("wordRanges", "CPython: characters matching `\\w` in a str pattern", ranges(lambda ch: rw.match(ch) is not None)))
    out.append(lean_ranges("idStartRanges", "CPython: characters c with `c.isidentifier()`", ranges(lambda ch: ch.isidentifier())))
    tree_q = ast.parse((repo / SRC_Q).read_text())
    tree_p = ast.parse((repo / SRC_P).read_text())
    for tree, qual, lean, params, ret, subst, doc in [
        (
            tree_q,
            "name_needs_quotes",
            "nameNeedsQuotes",
            [("patternSearch", "Str → Bool"), ("name", "Str"), ("sep", "Str")],
            "Bool",
            {"_PATTERN.search(name)": ("patternSearch name", "Bool"), "sep is None": ("false", "Bool"), "os.sep": ("[Char.ofNat 47]", "Str")},
            "completion_quoting.name_needs_quotes(name, sep) with `_PATTERN.search` as a parameter (sep is always given)",
        ),
        (tree_p, "_quote_to_use", "quoteToUse", [("x", "Str")], "Str", {}, "path._quote_to_use"),
        (tree_p, "_raw_quote", "rawQuote", [("s", "Str")], "Str", {}, "path._raw_quote"),
    ]:
        try:
            text, fp = translate_function(tree, qual, lean, params, ret, subst, doc)
            out.append(text)
            fps[qual] = fp
        except Unsupported as e:
            errors.append(f"{qual}: {e}")
    # hand-modelled functions: fingerprints only (a change raises nothing by itself; the correspondence streams are the tie)
    for tree, qual in [(tree_p, "_quote_paths"), (tree_p, "_complete_path_raw"), (tree_p, "_path_from_partial_string"), (tree_p, "contextual_complete_path")]:
        try:
            fps[qual + " (hand-modelled)"] = pylite.fingerprint(pylite.find_function(tree, qual))
        except Unsupported as e:
            errors.append(str(e))
    out.append("/-- the tables as the model takes them -/")
    out.append(
        "def tables : PathQuote.Tables :=\n"
        "  { special := inRanges specialRanges, word := inRanges wordRanges, idStart := inRanges idStartRanges,\n"
        "    keywords := keywords, ctrl := ctrl, quoteToUse := quoteToUse, rawQuote := rawQuote }\n"
    )
    out.append("end Gen.Quote\n")
    return "\n".join(out), fps, errors
