"""C03 translator: xonsh/execer.py  Execer._parse_ctx_free / _try_parse  ->  lean/XonshVerif/Gen/TryParse.lean

A *control skeleton* (DESIGN.md §2.2, generator 3): every non-control expression is abstracted to an opaque name; what is kept is
exactly what the termination argument rests on — the retry counter (`if v <= 0: raise`, `v -= 1`, every other write to any variable),
`continue` / `raise` / `return`, the try/except structure, every call (by dotted name, in evaluation order), and the recursive call
`self._parse_ctx_free(..., logical_input=True)` together with the fact that it sits under a test with the conjunct `not logical_input`.
The Lean side (Model/TrySkel.lean, Lemmas/TrySkel.lean) proves shape => bound once; the generated file re-states the shape
obligations for THIS source text (`by decide`).  Anything outside the subset is a translator error naming the construct.
"""

from __future__ import annotations

import ast

from . import pylite

SRC = "xonsh/execer.py"
PARSER_CALL = "self.parser.parse"
REC_NAME = "self._parse_ctx_free"
FLAG = "logical_input"


class Unsupported(pylite.Unsupported):
    pass


def lstr(s):
    return '"' + s.replace("\\", "\\\\").replace('"', '\\"') + '"'


def dotted(node):
    if isinstance(node, ast.Name):
        return node.id
    if isinstance(node, ast.Attribute):
        return dotted(node.value) + "." + node.attr
    if isinstance(node, ast.Call):
        return dotted(node.func) + "()"
    if isinstance(node, ast.Subscript):
        return dotted(node.value) + "[]"
    return "<expr>"


def seq(items):
    items = [i for i in items if i != ".skip"]
    if not items:
        return ".skip"
    out = items[-1]
    for i in reversed(items[:-1]):
        out = f"(.seq {i} {out})"
    return out


class Skel:
    def __init__(self, self_name):
        self.self_name = self_name  # name of the enclosing function, to recognise recursion

    # ---- expressions: only their calls matter, in (approximate) evaluation order
    def calls(self, expr):
        if expr is None:
            return []
        out = []
        for n in ast.walk(expr):
            if isinstance(n, (ast.Lambda,)):
                raise Unsupported("lambda inside the recovery loop")
            if isinstance(n, (ast.Await, ast.Yield, ast.YieldFrom)):
                raise Unsupported("await/yield inside the recovery loop")
        # post-order: arguments before the call itself
        def visit(e):
            for ch in ast.iter_child_nodes(e):
                visit(ch)
            if isinstance(e, ast.Call):
                name = dotted(e.func)
                if name == REC_NAME or name.endswith("." + self.self_name) or name == self.self_name:
                    kw = {k.arg: k.value for k in e.keywords}
                    v = kw.get(FLAG)
                    if not (isinstance(v, ast.Constant) and v.value is True):
                        raise Unsupported(f"recursive call of {self.self_name} that does not pass {FLAG}=True")
                    out.append(".recCall")
                else:
                    out.append(f"(.call {lstr(name)})")

        visit(expr)
        return out

    def targets(self, t):
        if isinstance(t, ast.Name):
            return [t.id]
        if isinstance(t, (ast.Tuple, ast.List)):
            return [x for e in t.elts for x in self.targets(e)]
        if isinstance(t, ast.Starred):
            return self.targets(t.value)
        if isinstance(t, (ast.Subscript, ast.Attribute)):
            base = t
            while isinstance(base, (ast.Subscript, ast.Attribute)):
                base = base.value
            return self.targets(base) if isinstance(base, ast.Name) else ["<target>"]
        raise Unsupported(f"assignment target {type(t).__name__}")

    @staticmethod
    def has_not_flag(test):
        def is_not_flag(e):
            return isinstance(e, ast.UnaryOp) and isinstance(e.op, ast.Not) and isinstance(e.operand, ast.Name) and e.operand.id == FLAG

        if is_not_flag(test):
            return True
        return isinstance(test, ast.BoolOp) and isinstance(test.op, ast.And) and any(is_not_flag(v) for v in test.values)

    def block(self, stmts):
        return seq([self.stmt(s) for s in stmts])

    def stmt(self, s):
        if isinstance(s, ast.Pass):
            return ".skip"
        if isinstance(s, ast.Expr):
            if isinstance(s.value, ast.Constant):
                return ".skip"  # docstring
            return seq(self.calls(s.value))
        if isinstance(s, ast.Assign):
            names = [n for t in s.targets for n in self.targets(t)]
            return seq(self.calls(s.value) + [c for t in s.targets for c in self.calls(t)] + [f"(.assign {lstr(n)})" for n in names])
        if isinstance(s, ast.AnnAssign):
            return seq(self.calls(s.value) + [f"(.assign {lstr(n)})" for n in self.targets(s.target)])
        if isinstance(s, ast.AugAssign):
            if isinstance(s.target, ast.Name) and isinstance(s.op, ast.Sub) and isinstance(s.value, ast.Constant) and s.value.value == 1:
                return f"(.decCtr {lstr(s.target.id)})"
            return seq(self.calls(s.value) + [f"(.assign {lstr(n)})" for n in self.targets(s.target)])
        if isinstance(s, ast.Delete):
            return seq([c for t in s.targets for c in self.calls(t)] + [f"(.assign {lstr(n)})" for t in s.targets for n in self.targets(t)])
        if isinstance(s, ast.If):
            t = s.test
            if (
                isinstance(t, ast.Compare)
                and isinstance(t.left, ast.Name)
                and len(t.ops) == 1
                and isinstance(t.ops[0], ast.LtE)
                and isinstance(t.comparators[0], ast.Constant)
                and t.comparators[0].value == 0
                and not s.orelse
                and len(s.body) >= 1
                and isinstance(s.body[-1], ast.Raise)
                and all(isinstance(b, (ast.Raise, ast.Expr)) and not (isinstance(b, ast.Expr) and not isinstance(b.value, ast.Constant)) for b in s.body)
            ):
                return f"(.guardCtr {lstr(t.left.id)})"
            nl = "true" if self.has_not_flag(t) else "false"
            return seq(self.calls(t) + [f"(.ite {nl} {self.block(s.body)} {self.block(s.orelse)})"])
        if isinstance(s, ast.Try):
            if s.orelse or s.finalbody:
                raise Unsupported("try with else/finally")
            h = ".raise"
            for hd in reversed(s.handlers):
                h = f"(.ite false {self.block(hd.body)} {h})"
            return f"(.tryExc {self.block(s.body)} {h})"
        if isinstance(s, ast.Continue):
            return ".cont"
        if isinstance(s, ast.Raise):
            return seq(self.calls(s.exc) + [".raise"])
        if isinstance(s, ast.Return):
            return seq(self.calls(s.value) + [".ret"])
        if isinstance(s, (ast.While, ast.For, ast.AsyncFor)):
            raise Unsupported("nested loop inside the recovery loop")
        raise Unsupported(f"statement {type(s).__name__}")


def budget_expr(e, line_count_src):
    """the initial value of the retry counter as a Lean expression over L = len(input.splitlines()) (natural numbers)"""
    if isinstance(e, ast.Constant) and isinstance(e.value, int) and not isinstance(e.value, bool) and e.value >= 0:
        return str(e.value)
    if isinstance(e, ast.Call) and ast.unparse(e) == line_count_src:
        return "L"
    if isinstance(e, ast.BinOp) and isinstance(e.op, (ast.Add, ast.Mult, ast.Sub, ast.FloorDiv)):
        op = {ast.Add: "+", ast.Mult: "*", ast.Sub: "-", ast.FloorDiv: "/"}[type(e.op)]
        return f"({budget_expr(e.left, line_count_src)} {op} {budget_expr(e.right, line_count_src)})"
    raise Unsupported(f"retry budget expression {ast.unparse(e)!r} (expected arithmetic over {line_count_src})")


def generate(repo):
    """returns (lean text, fingerprints, errors)"""
    errors, fps = [], {}
    out = [
        "/- GENERATED by translator/c03.py from " + SRC + " — do not edit; regenerated on every check run. -/",
        "import XonshVerif.Model.TrySkel",
        "namespace Gen.TryParse",
        "open TrySkel",
        f"def parserCall : String := {lstr(PARSER_CALL)}",
    ]
    fn_txt = '{ ctr := "", pre := .skip, body := .skip, post := .skip }'
    budget = "0"
    budget_src = "<not found>"
    outer_pre, outer = ".skip", ".skip"
    try:
        tree = ast.parse((repo / SRC).read_text())
        pcf = pylite.find_function(tree, "Execer._parse_ctx_free")
        fps["Execer._parse_ctx_free"] = pylite.fingerprint(pcf)
        inner = [s for s in pcf.body if isinstance(s, ast.FunctionDef)]
        if len(inner) != 1 or inner[0].name != "_try_parse":
            raise Unsupported("_parse_ctx_free no longer has exactly one inner function `_try_parse`")
        tp = inner[0]
        sk = Skel("_parse_ctx_free")
        loops = [i for i, s in enumerate(tp.body) if isinstance(s, (ast.While, ast.For))]
        if len(loops) != 1 or not isinstance(tp.body[loops[0]], ast.While):
            raise Unsupported("_try_parse is no longer `prologue; while …: …; epilogue` with a single loop")
        w = tp.body[loops[0]]
        if w.orelse:
            raise Unsupported("while … else")
        if sk.calls(w.test):
            raise Unsupported("a call in the loop test")
        first = w.body[0] if w.body else None
        ctr = ""
        if isinstance(first, ast.If) and isinstance(first.test, ast.Compare) and isinstance(first.test.left, ast.Name):
            ctr = first.test.left.id
        pre = sk.block(tp.body[: loops[0]])
        inits = [st for st in tp.body[: loops[0]] if isinstance(st, ast.Assign) and any(isinstance(t, ast.Name) and t.id == ctr for t in st.targets)]
        if len(inits) != 1:
            raise Unsupported(f"the retry counter {ctr!r} is not initialised by exactly one assignment before the loop")
        budget_src = ast.unparse(inits[0].value)
        budget = budget_expr(inits[0].value, "len(input.splitlines())")
        body = sk.block(w.body)
        post = sk.block(tp.body[loops[0] + 1 :])
        fn_txt = "{ ctr := " + lstr(ctr) + ",\n    pre := " + pre + ",\n    body := " + body + ",\n    post := " + post + " }"
        own = [s for s in pcf.body if not isinstance(s, ast.FunctionDef)]
        sk2 = Skel("_parse_ctx_free")
        outer_pre = sk2.block(own[:-1])
        outer = sk2.stmt(own[-1])
    except (pylite.Unsupported, SyntaxError, OSError) as e:
        errors.append(f"Execer._parse_ctx_free: {e}")
    out += [
        "/-- `_try_parse` (inner function of Execer._parse_ctx_free): prologue, loop body, epilogue -/",
        "def tryParseSkel : Fn :=\n  " + fn_txt,
        f"/-- the INITIAL VALUE of the retry counter, `{budget_src}`, as a function of L = len(input.splitlines()) -/",
        "def budget (L : Nat) : Nat := " + budget,
        "/-- `_parse_ctx_free`'s own statements before its final try/except -/",
        "def outerPre : Stmt :=\n  " + outer_pre,
        "/-- `_parse_ctx_free`'s final statement -/",
        "def outerSkel : Stmt :=\n  " + outer,
        "",
        "/-- REGENERATED OBLIGATION: the loop starts with `if max_retries <= 0: raise; max_retries -= 1`, nothing later in the body",
        "writes the counter (so no `continue` can skip the decrement), recursion is guarded by `not logical_input` -/",
        "theorem shape_ok : shapeOk tryParseSkel parserCall = true := by decide",
        "/-- REGENERATED OBLIGATION: `_parse_ctx_free` itself is `…; try: return _try_parse(…) except …: return _try_parse(…)` -/",
        'theorem outer_ok : (outerSkel == outerExpected && noRec outerPre && maxCalls "_try_parse" outerPre == 0) = true := by decide',
        "/-- REGENERATED OBLIGATION: one parser call and at most one recursive call per round -/",
        "theorem per_round : maxCalls parserCall (bodyRest tryParseSkel) = 1 ∧ maxRec (bodyRest tryParseSkel) = 1 := by decide",
        "/-- REGENERATED OBLIGATION: the budget covers the work a well-formed input needs — every bare segment that is not valid Python",
        "costs one round and the accepting parse one more, so L lines of at most two such segments each need 2·L + 1 rounds -/",
        "theorem budget_ok : ∀ L : Nat, 2 * L + 1 ≤ budget L := by intro L; unfold budget; omega",
        "end Gen.TryParse",
        "",
    ]
    return "\n".join(out), fps, errors
