"""PyLite -> Lean 4 translator (DESIGN.md §2.2, generator 2).

A deliberately tiny, *typed* translator for straight-line / loop code over ints, bools, tuples
and lists.  It reads the function's AST from /repo's working tree (never bytecode) and emits

  * one Lean `def <name>_loop<k>` per `for` loop: the loop BODY as a function
        (captured locals…) → (item) → (loop-carried state) → Except state state
    where `.error s` is `break` (see `Py.loopBreak`);
  * one Lean `def <name>` for the function itself.

Supported statements : `x = e`, `x += e`, `x -= e`, `for pat in xs | reversed(xs): …` (tuple
patterns, `_`), `if / elif / else`, `break`, `continue` (only as last statement of a branch),
`return e`, bare docstrings / `pass`.
Supported expressions: int / bool constants, names, `+ - *`, unary `-`, comparisons (chained too),
`and / or / not`, `len(e)`, `e[:k]`, `e[k:]`, `e[const]`, conditional expressions, tuples, `[]`,
plus *opaque call substitutions* supplied by the caller (e.g. `time.time()` ↦ parameter `now`).
Anything else raises `Unsupported(<construct>)`, which the check reports by name.

Types: "Int", "Bool", ("list", T), ("tuple", [T…]).  Parameter types are supplied by the caller
(the Python source is untyped); local types are inferred.
"""

from __future__ import annotations

import ast
import hashlib


class Unsupported(Exception):
    pass


def ty_str(t):
    if isinstance(t, str):
        return t
    if t[0] == "list":
        inner = ty_str(t[1])
        return f"List {inner}" if " " not in inner else f"List ({inner})"
    if t[0] == "tuple":
        return " × ".join(ty_str(x) if not (isinstance(x, tuple) and x[0] == "tuple") else f"({ty_str(x)})" for x in t[1])
    raise ValueError(t)


def proj(expr, i, n):
    """Lean projection of component i of an n-tuple (right-nested product)."""
    if n == 1:
        return expr
    s = expr
    for _ in range(i):
        s += ".2"
    if i < n - 1:
        s += ".1"
    return s


def find_function(tree, qualname):
    parts = qualname.split(".")
    node = tree
    for p in parts:
        for ch in ast.iter_child_nodes(node):
            if isinstance(ch, (ast.FunctionDef, ast.ClassDef)) and ch.name == p:
                node = ch
                break
        else:
            raise Unsupported(f"cannot find {qualname}")
    return node


def fingerprint(node):
    return hashlib.sha1(ast.dump(node, include_attributes=False).encode()).hexdigest()[:16]


def _assigned(stmts):
    out = []
    for s in stmts:
        for n in ast.walk(s):
            if isinstance(n, ast.Name) and isinstance(n.ctx, ast.Store) and n.id not in out:
                out.append(n.id)
    return out


def _terminates(stmts):
    """True when control never falls off the end of the block."""
    if not stmts:
        return False
    last = stmts[-1]
    if isinstance(last, (ast.Break, ast.Continue, ast.Return)):
        return True
    if isinstance(last, ast.If):
        return _terminates(last.body) and _terminates(last.orelse)
    return False


class FnTranslator:
    def __init__(self, fn: ast.FunctionDef, lean_name: str, params, aliases=None, subst=None, extra_params=()):
        """params: list of (python name, type); extra_params: list of (lean name, type) appended
        (used by `subst`, a dict  ast.dump-free source text of a call -> (lean expr, type))."""
        self.fn, self.lean_name = fn, lean_name
        self.params = list(params)
        self.extra_params = list(extra_params)
        self.aliases = aliases or {}  # type-name -> structural type, e.g. F -> ("tuple",[...])
        self.subst = subst or {}
        self.loops = []
        self.nloops = 0

    # ---- types
    def resolve(self, t):
        while isinstance(t, str) and t in self.aliases:
            t = self.aliases[t]
        return t

    # ---- expressions: returns (lean text, type)
    def expr(self, e, env):
        src = ast.unparse(e)
        if src in self.subst:
            return self.subst[src]
        if isinstance(e, ast.Constant):
            if isinstance(e.value, bool):
                return ("true" if e.value else "false"), "Bool"
            if isinstance(e.value, int):
                return f"({e.value} : Int)", "Int"
            raise Unsupported(f"constant {e.value!r}")
        if isinstance(e, ast.Name):
            if e.id not in env:
                raise Unsupported(f"unbound name {e.id}")
            return env[e.id]
        if isinstance(e, ast.BinOp):
            op = {ast.Add: "+", ast.Sub: "-", ast.Mult: "*"}.get(type(e.op))
            if op is None:
                raise Unsupported(f"operator {type(e.op).__name__}")
            (a, ta), (b, tb) = self.expr(e.left, env), self.expr(e.right, env)
            if ta != "Int" or tb != "Int":
                raise Unsupported(f"arithmetic on {ta},{tb}")
            return f"({a} {op} {b})", "Int"
        if isinstance(e, ast.UnaryOp):
            a, ta = self.expr(e.operand, env)
            if isinstance(e.op, ast.USub) and ta == "Int":
                return f"(-{a})", "Int"
            if isinstance(e.op, ast.Not):
                return f"(!{self.truth(a, ta)})", "Bool"
            raise Unsupported(f"unary {type(e.op).__name__}")
        if isinstance(e, ast.Compare) and len(e.ops) == 1 and isinstance(e.ops[0], (ast.Is, ast.IsNot)) and isinstance(e.comparators[0], ast.Constant) and e.comparators[0].value is None:
            # `x is None` / `x is not None` on an Option-like leaf supplied by the caller as a Bool "is some"
            a, ta = self.expr(e.left, env)
            if ta != "IsSome":
                raise Unsupported("`is None` on a value that is not declared optional")
            return (f"(!{a})" if isinstance(e.ops[0], ast.Is) else a), "Bool"
        if isinstance(e, ast.Compare):
            parts = []
            left = e.left
            for op, right in zip(e.ops, e.comparators):
                o = {ast.Lt: "<", ast.LtE: "≤", ast.Gt: ">", ast.GtE: "≥", ast.Eq: "==", ast.NotEq: "!="}.get(type(op))
                if o is None:
                    raise Unsupported(f"comparison {type(op).__name__}")
                (a, ta), (b, tb) = self.expr(left, env), self.expr(right, env)
                if ta != tb or ta not in ("Int", "Bool"):
                    raise Unsupported(f"comparison of {ta} with {tb}")
                parts.append(f"decide ({a} {o} {b})" if o not in ("==", "!=") else f"({a} {o} {b})")
                left = right
            return ("(" + " && ".join(parts) + ")"), "Bool"
        if isinstance(e, ast.BoolOp):
            op = "&&" if isinstance(e.op, ast.And) else "||"
            vals = [self.expr(v, env) for v in e.values]
            return "(" + f" {op} ".join(self.truth(a, t) for a, t in vals) + ")", "Bool"
        if isinstance(e, ast.IfExp):
            c = self.truth(*self.expr(e.test, env))
            (a, ta), (b, tb) = self.expr(e.body, env), self.expr(e.orelse, env)
            if ta == ("list", None):
                ta = tb
            if tb == ("list", None):
                tb = ta
            if ta != tb:
                raise Unsupported(f"conditional expression of {ta} and {tb}")
            return f"(if {c} then {a} else {b})", ta
        if isinstance(e, ast.Tuple):
            vals = [self.expr(v, env) for v in e.elts]
            return "(" + ", ".join(a for a, _ in vals) + ")", ("tuple", [t for _, t in vals])
        if isinstance(e, ast.List) and not e.elts:
            return "[]", ("list", None)
        if isinstance(e, ast.Call) and isinstance(e.func, ast.Name) and not e.keywords:
            if (
                e.func.id in ("all", "any")
                and len(e.args) == 1
                and isinstance(e.args[0], ast.GeneratorExp)
                and len(e.args[0].generators) == 1
                and not e.args[0].generators[0].ifs
                and isinstance(e.args[0].generators[0].target, ast.Name)
            ):
                # all(ELT for x in XS) / any(…)  ->  XS.all (fun x => ELT)
                g = e.args[0].generators[0]
                xs, txs = self.expr(g.iter, env)
                rt = self.resolve(txs)
                if rt[0] != "list":
                    raise Unsupported("all/any over a non-list")
                x = g.target.id
                env2 = dict(env)
                env2[x] = (x, rt[1])
                elt = self.truth(*self.expr(e.args[0].elt, env2))
                return f"(({xs}).{e.func.id} (fun {x} => {elt}))", "Bool"
            if e.func.id == "len" and len(e.args) == 1:
                a, ta = self.expr(e.args[0], env)
                if self.resolve(ta)[0] != "list":
                    raise Unsupported(f"len of {ta}")
                return f"(Py.len {a})", "Int"
            if e.func.id == "reversed" and len(e.args) == 1:
                a, ta = self.expr(e.args[0], env)
                if self.resolve(ta)[0] != "list":
                    raise Unsupported(f"reversed of {ta}")
                return f"({a}).reverse", ta
            raise Unsupported(f"call {e.func.id}")
        if isinstance(e, ast.Subscript):
            a, ta = self.expr(e.value, env)
            rta = self.resolve(ta)
            if isinstance(e.slice, ast.Slice):
                if rta[0] != "list" or e.slice.step is not None:
                    raise Unsupported("slice form")
                lo, hi = e.slice.lower, e.slice.upper
                if lo is None and hi is not None:
                    k, tk = self.expr(hi, env)
                    if tk != "Int":
                        raise Unsupported("slice bound type")
                    return f"(Py.sliceTo {a} {k})", ta
                if hi is None and lo is not None:
                    k, tk = self.expr(lo, env)
                    if tk != "Int":
                        raise Unsupported("slice bound type")
                    return f"(Py.sliceFrom {a} {k})", ta
                raise Unsupported("slice with both/no bounds")
            if isinstance(e.slice, ast.Constant) and isinstance(e.slice.value, int):
                i = e.slice.value
                if rta[0] == "tuple":
                    if not 0 <= i < len(rta[1]):
                        raise Unsupported("tuple index out of range")
                    return proj(a, i, len(rta[1])), rta[1][i]
                if rta[0] == "list":
                    return f"(Py.idx {a} ({i} : Int))", rta[1]
            raise Unsupported("subscript form")
        raise Unsupported(f"expression {type(e).__name__}: {src[:60]}")

    def truth(self, a, t):
        if t == "Bool":
            return a
        if t == "Int":
            return f"({a} != 0)"
        rt = self.resolve(t)
        if rt[0] == "list":
            return f"(!({a}).isEmpty)"
        raise Unsupported(f"truthiness of {t}")

    # ---- statements (continuation style).  `fall` = lean text to use when control falls off
    # the end of the block; `brk` = text for `break`; `cont` for `continue`.
    def block(self, stmts, env, fall, brk, cont, ind):
        pad = "  " * ind
        if not stmts:
            return pad + fall(env)
        s, rest = stmts[0], stmts[1:]
        if isinstance(s, ast.Expr) and isinstance(s.value, ast.Constant):
            return self.block(rest, env, fall, brk, cont, ind)
        if isinstance(s, ast.Pass):
            return self.block(rest, env, fall, brk, cont, ind)
        if isinstance(s, ast.Assign):
            if len(s.targets) != 1 or not isinstance(s.targets[0], ast.Name):
                raise Unsupported("assignment target")
            v = s.targets[0].id
            a, ta = self.expr(s.value, env)
            if ta == ("list", None):
                raise Unsupported("untyped empty list")
            env2 = dict(env)
            env2[v] = (v, ta)
            return f"{pad}let {v} : {ty_str(ta)} := {a}\n" + self.block(rest, env2, fall, brk, cont, ind)
        if isinstance(s, ast.AugAssign):
            if not isinstance(s.target, ast.Name) or s.target.id not in env:
                raise Unsupported("augmented assignment target")
            v = s.target.id
            op = {ast.Add: "+", ast.Sub: "-", ast.Mult: "*"}.get(type(s.op))
            if op is None:
                raise Unsupported("augmented operator")
            a, ta = self.expr(s.value, env)
            if ta != "Int" or env[v][1] != "Int":
                raise Unsupported("augmented assignment on non-int")
            return f"{pad}let {v} : Int := {env[v][0]} {op} {a}\n" + self.block(rest, env, fall, brk, cont, ind)
        if isinstance(s, ast.Return):
            if s.value is None:
                raise Unsupported("bare return")
            a, ta = self.expr(s.value, env)
            self.ret_types.append(ta)
            return pad + a
        if isinstance(s, ast.Break):
            if brk is None:
                raise Unsupported("break outside loop")
            return pad + brk(env)
        if isinstance(s, ast.Continue):
            if cont is None:
                raise Unsupported("continue outside loop")
            return pad + cont(env)
        if isinstance(s, ast.If):
            c = self.truth(*self.expr(s.test, env))
            tb, eb = _terminates(s.body), _terminates(s.orelse)
            if tb and eb:
                if rest:
                    raise Unsupported("unreachable code after if")
                a = self.block(s.body, env, fall, brk, cont, ind + 1)
                b = self.block(s.orelse, env, fall, brk, cont, ind + 1)
                return f"{pad}if {c} then\n{a}\n{pad}else\n{b}"
            if tb:
                a = self.block(s.body, env, fall, brk, cont, ind + 1)
                b = self.block(list(s.orelse) + rest, env, fall, brk, cont, ind + 1)
                return f"{pad}if {c} then\n{a}\n{pad}else\n{b}"
            if eb:
                a = self.block(list(s.body) + rest, env, fall, brk, cont, ind + 1)
                b = self.block(s.orelse, env, fall, brk, cont, ind + 1)
                return f"{pad}if {c} then\n{a}\n{pad}else\n{b}"
            # join point: variables (already defined) assigned in either branch
            vs = [v for v in _assigned(list(s.body) + list(s.orelse)) if v in env]
            # (a variable first assigned inside a branch is not added to the environment, so a
            #  later read of it is reported as `unbound name`)
            if not vs:
                return self.block(rest, env, fall, brk, cont, ind)
            tup = lambda e_: "(" + ", ".join(e_[v][0] for v in vs) + ")" if len(vs) > 1 else e_[vs[0]][0]
            a = self.block(s.body, env, tup, brk, cont, ind + 2)
            b = self.block(s.orelse, env, tup, brk, cont, ind + 2)
            jn = f"j{ind}_{len(rest)}"
            out = f"{pad}let {jn} :=\n{pad}  if {c} then\n{a}\n{pad}  else\n{b}\n"
            for i, v in enumerate(vs):
                out += f"{pad}let {v} : {ty_str(env[v][1])} := {proj(jn, i, len(vs))}\n"
            return out + self.block(rest, env, fall, brk, cont, ind)
        if isinstance(s, ast.For):
            if s.orelse:
                raise Unsupported("for-else")
            it, tit = self.expr(s.iter, env)
            rt = self.resolve(tit)
            if rt[0] != "list":
                raise Unsupported("iteration over non-list")
            elem_t = rt[1]
            # pattern
            penv = {}
            if isinstance(s.target, ast.Name):
                penv[s.target.id] = ("it", elem_t)
            elif isinstance(s.target, ast.Tuple):
                et = self.resolve(elem_t)
                if et[0] != "tuple" or len(et[1]) != len(s.target.elts):
                    raise Unsupported("loop pattern arity")
                for i, el in enumerate(s.target.elts):
                    if not isinstance(el, ast.Name):
                        raise Unsupported("nested loop pattern")
                    if el.id != "_":
                        penv[el.id] = (proj("it", i, len(et[1])), et[1][i])
            else:
                raise Unsupported("loop target")
            carried = sorted(v for v in _assigned(s.body) if v in env and v not in penv)
            # pattern variables and locals first assigned in the body are NOT added to the
            # environment after the loop: a later read is reported as `unbound name`.  A pattern
            # variable that shadows a live local would leak its last value in Python: reject.
            if any(v in env for v in penv):
                raise Unsupported("loop variable shadows a live local")
            if not carried:
                raise Unsupported("loop without loop-carried state")
            st_t = ("tuple", [env[v][1] for v in carried]) if len(carried) > 1 else env[carried[0]][1]
            used_in_body = {n.id for b_ in s.body for n in ast.walk(b_) if isinstance(n, ast.Name)}
            captured = [v for v in env if v in used_in_body and v not in carried and v not in penv]
            self.nloops += 1
            lname = f"{self.lean_name}_loop{self.nloops}"
            benv = {v: (v, env[v][1]) for v in captured}
            for v in captured:
                if env[v][0] != v:
                    raise Unsupported("captured variable is not a plain local")
            head = "".join(f"  let {v} : {ty_str(t)} := {e_}\n" for v, (e_, t) in penv.items())
            for i, v in enumerate(carried):
                head += f"  let {v} : {ty_str(env[v][1])} := {proj('st', i, len(carried))}\n"
                benv[v] = (v, env[v][1])
            for v, (e_, t) in penv.items():
                benv[v] = (v, t)
            pack = lambda e_: ("(" + ", ".join(e_[v][0] for v in carried) + ")") if len(carried) > 1 else e_[carried[0]][0]
            body = self.block(
                s.body, benv, lambda e_: ".ok " + pack(e_), lambda e_: ".error " + pack(e_), lambda e_: ".ok " + pack(e_), 1
            )
            params = "".join(f" ({v} : {ty_str(env[v][1])})" for v in captured)
            sts = ty_str(st_t)
            self.loops.append(
                f"def {lname}{params} (it : {ty_str(elem_t)}) (st : {sts}) : Except ({sts}) ({sts}) :=\n{head}{body}\n"
            )
            call = f"Py.loopBreak {it} {pack(env)} ({lname}{''.join(' ' + v for v in captured)})"
            out = f"{pad}let st{self.nloops} := {call}\n"
            k = self.nloops
            for i, v in enumerate(carried):
                out += f"{pad}let {v} : {ty_str(env[v][1])} := {proj(f'st{k}', i, len(carried))}\n"
            return out + self.block(rest, env, fall, brk, cont, ind)
        raise Unsupported(f"statement {type(s).__name__}")

    def translate(self):
        self.ret_types = []
        env = {}
        args = [a.arg for a in self.fn.args.args]
        want = [p for p, _ in self.params]
        if args != want:
            raise Unsupported(f"signature changed: {args} (expected {want})")
        for p, t in self.params:
            env[p] = (p, t)

        def no_fall(_):
            raise Unsupported("function may fall off its end (implicit return None)")

        body = self.block(self.fn.body, env, no_fall, None, None, 1)
        rts = {repr(t) for t in self.ret_types}
        if len(rts) != 1:
            raise Unsupported(f"return types differ: {rts}")
        rt = self.ret_types[0]
        sig = "".join(f" ({p} : {ty_str(t)})" for p, t in self.params)
        sig += "".join(f" ({p} : {ty_str(t)})" for p, t in self.extra_params)
        text = "".join(l + "\n" for l in self.loops)
        text += f"def {self.lean_name}{sig} : {ty_str(rt)} :=\n{body}\n"
        return text


def translate_expr(e: ast.expr, names: dict, env: dict | None = None):
    """Translate one boolean/int expression with an explicit leaf mapping
    (source text of a sub-expression -> (lean, type)).  Used for decision expressions that are
    extracted from larger, otherwise untranslatable methods."""
    t = FnTranslator.__new__(FnTranslator)
    t.aliases, t.subst = {}, names
    return t.expr(e, dict(env or {}))
