"""C02 translator: xonsh/execer.py -> lean/XonshVerif/Gen/ExecerOrder.lean

A control skeleton (lean/XonshVerif/Model/ExecOrder.lean `Sk`) of `Execer.exec`, `Execer.eval` and `Execer.compile`: assignments
classified by where the value comes from, branches, returns, raises, try/except; every other expression is opaque.  Plus the count of
builtin `exec(` / `eval(` calls in every other function that takes part in parsing (they must not run anything).
The generated file carries the decidable obligations; Props/C02.lean restates them as `C02_parse_before_exec`."""

from __future__ import annotations

import ast

from xv import common

SRC = "xonsh/execer.py"
OTHER_FILES = {
    "xonsh/execer.py": None,  # every function except Execer.exec / Execer.eval
    "xonsh/parsers/ast.py": None,
    "xonsh/parsers/base.py": ["wrap_subproc_raise_checks", "_SubprocChainRaiseWrapper"],
}


class Unsupported(Exception):
    pass


def _is_run_call(n):
    return isinstance(n, ast.Call) and isinstance(n.func, ast.Name) and n.func.id in ("exec", "eval")


def _has_run(n):
    return any(_is_run_call(x) for x in ast.walk(n))


class Tr:
    def __init__(self):
        self.vars = {"input": 0}

    def var(self, name):
        return self.vars.setdefault(name, len(self.vars))

    def src(self, e):
        if isinstance(e, ast.Constant) and e.value is None:
            return "Src.noneLit"
        if isinstance(e, ast.Name):
            return f"Src.copy {self.var(e.id)}"
        if isinstance(e, ast.Call):
            f = e.func
            if isinstance(f, ast.Attribute) and isinstance(f.value, ast.Name) and f.value.id == "self" and f.attr in ("compile", "parse"):
                arg = None
                for kw in e.keywords:
                    if kw.arg == "input":
                        arg = kw.value
                if arg is None and e.args:
                    arg = e.args[0]
                if isinstance(arg, ast.Name):
                    return f"Src.{'selfCompile' if f.attr == 'compile' else 'selfParse'} {self.var(arg.id)}"
                return "Src.other"
            if isinstance(f, ast.Name) and f.id == "compile" and e.args:
                a0 = e.args[0]
                if isinstance(a0, ast.Name):
                    return f"Src.pyCompile {self.var(a0.id)}"
                if isinstance(a0, ast.Constant) and isinstance(a0.value, str):
                    return "Src.constCode"
                return "Src.other"
            # `v.rstrip("\n")`: keeps the whole text
            if (isinstance(f, ast.Attribute) and f.attr == "rstrip" and isinstance(f.value, ast.Name) and len(e.args) == 1
                    and isinstance(e.args[0], ast.Constant) and e.args[0].value == "\n"):
                return f"Src.wholeOf {self.var(f.value.id)}"
        if (isinstance(e, ast.BinOp) and isinstance(e.op, ast.Add) and isinstance(e.left, ast.Name)
                and isinstance(e.right, ast.Constant) and e.right.value == "\n"):
            return f"Src.wholeOf {self.var(e.left.id)}"
        return "Src.other"

    def cond(self, t):
        if (isinstance(t, ast.Call) and isinstance(t.func, ast.Name) and t.func.id == "isinstance" and len(t.args) == 2
                and isinstance(t.args[0], ast.Name) and ast.unparse(t.args[1]) == "types.CodeType"):
            return f"Cond.isCode {self.var(t.args[0].id)}"
        if (isinstance(t, ast.Compare) and isinstance(t.left, ast.Name) and len(t.ops) == 1 and isinstance(t.ops[0], ast.Is)
                and isinstance(t.comparators[0], ast.Constant) and t.comparators[0].value is None):
            return f"Cond.isNone {self.var(t.left.id)}"
        return "Cond.other"

    def assigned(self, nodes):
        out = []
        for n in nodes:
            for x in ast.walk(n):
                if isinstance(x, ast.Name) and isinstance(x.ctx, ast.Store):
                    out.append(self.var(x.id))
        return sorted(set(out))

    def block(self, body):
        items = []
        for s in body:
            items += self.stmt(s)
        out = "Sks.nil"
        for it in reversed(items):
            out = f"(Sks.cons ({it}) {out})"
        return out

    def run_of(self, call):
        a0 = call.args[0] if call.args else None
        if isinstance(a0, ast.Name):
            return self.var(a0.id)
        raise Unsupported("exec/eval applied to something that is not a plain variable: " + ast.unparse(call))

    def stmt(self, s):
        if isinstance(s, ast.Expr):
            if isinstance(s.value, ast.Constant):
                return []
            if _is_run_call(s.value):
                return [f"Sk.run {self.run_of(s.value)}"]
            if _has_run(s.value):
                raise Unsupported("exec/eval nested in an expression: " + ast.unparse(s))
            return ["Sk.skip"]
        if isinstance(s, ast.Return):
            v = s.value
            if v is None:
                return ["Sk.ret Src.noneLit"]
            if _is_run_call(v):
                return [f"Sk.retRun {self.run_of(v)}"]
            if _has_run(v):
                raise Unsupported("exec/eval nested in a return expression: " + ast.unparse(s))
            if isinstance(v, ast.IfExp):
                return [f"Sk.ite Cond.other (Sks.cons (Sk.ret ({self.src(v.body)})) Sks.nil) (Sks.cons (Sk.ret ({self.src(v.orelse)})) Sks.nil)"]
            return [f"Sk.ret ({self.src(v)})"]
        if isinstance(s, ast.Assign):
            if _has_run(s.value):
                raise Unsupported("exec/eval inside an assignment: " + ast.unparse(s))
            out = []
            for t in s.targets:
                if isinstance(t, ast.Name):
                    out.append(f"Sk.assign {self.var(t.id)} ({self.src(s.value)})")
                else:
                    for v in self.assigned([t]):
                        out.append(f"Sk.assign {v} Src.other")
            return out or ["Sk.skip"]
        if isinstance(s, ast.AugAssign):
            if _has_run(s.value):
                raise Unsupported("exec/eval inside an assignment: " + ast.unparse(s))
            if isinstance(s.target, ast.Name):
                e = ast.BinOp(left=ast.Name(id=s.target.id, ctx=ast.Load()), op=s.op, right=s.value)
                return [f"Sk.assign {self.var(s.target.id)} ({self.src(e)})"]
            return ["Sk.skip"]
        if isinstance(s, ast.If):
            if _has_run(s.test):
                raise Unsupported("exec/eval inside a condition")
            return [f"Sk.ite ({self.cond(s.test)}) {self.block(s.body)} {self.block(s.orelse)}"]
        if isinstance(s, ast.Raise):
            return ["Sk.raise"]
        if isinstance(s, ast.Try):
            hs = "(Sks.cons Sk.raise Sks.nil)"  # no handler matches: the exception propagates
            for h in reversed(s.handlers):
                hs = f"(Sks.cons (Sk.ite Cond.other {self.block(h.body)} {hs}) Sks.nil)"
            asg = "[" + ", ".join(str(v) for v in self.assigned(s.body)) + "]"
            return [f"Sk.tryCatch {asg} {self.block(s.body + s.orelse)} {hs}"] + [x for f in s.finalbody for x in self.stmt(f)]
        if isinstance(s, (ast.For, ast.While)):
            if _has_run(s):
                raise Unsupported("exec/eval inside a loop")
            return [f"Sk.assign {v} Src.other" for v in self.assigned([s])] or ["Sk.skip"]
        if isinstance(s, (ast.Delete, ast.Pass, ast.Assert, ast.Global, ast.Nonlocal, ast.Import, ast.ImportFrom)):
            return ["Sk.skip"]
        if isinstance(s, ast.With):
            if any(_has_run(i.context_expr) for i in s.items):
                raise Unsupported("exec/eval in a with header")
            return [f"Sk.assign {v} Src.other" for v in self.assigned([i.optional_vars for i in s.items if i.optional_vars is not None])] + \
                   [x for b in s.body for x in self.stmt(b)]
        raise Unsupported(type(s).__name__)


def _functions(tree, only=None):
    """(qualified name, node) of every function / method"""
    out = []

    def walk(node, prefix):
        for n in ast.iter_child_nodes(node):
            if isinstance(n, (ast.FunctionDef, ast.AsyncFunctionDef)):
                out.append((prefix + n.name, n))
                walk(n, prefix + n.name + ".")
            elif isinstance(n, ast.ClassDef):
                walk(n, prefix + n.name + ".")
            else:
                walk(n, prefix)

    walk(tree, "")
    if only is not None:
        out = [(q, n) for q, n in out if any(q == o or q.startswith(o + ".") for o in only)]
    return out


def generate(repo):
    errors, fps = [], {}
    out = [
        "/- GENERATED by translator/c02.py from " + SRC + " (Execer.exec / eval / compile) — do not edit; regenerated on every check run. -/",
        "import XonshVerif.Model.ExecOrder",
        "namespace Gen.ExecerOrder",
        "open ExecOrder",
    ]
    tree = ast.parse((repo / SRC).read_text())
    methods = dict(_functions(tree))
    for meth in ("exec", "eval", "compile"):
        q = "Execer." + meth
        name = meth + "Sk"
        if q not in methods:
            errors.append(f"{q} not found")
            out.append(f"def {name} : Sks := Sks.cons (Sk.run 99) Sks.nil  -- {q} not found: an unknown run")
            continue
        fn = methods[q]
        fps[q] = common.ast_fingerprint(fn)
        tr = Tr()
        try:
            body = tr.block(fn.body)
        except Unsupported as e:
            errors.append(f"{q}: {e}")
            body = "Sks.cons (Sk.run 99) Sks.nil"
        out.append(f"/-- {q} (fingerprint {fps[q]}); variables: " + ", ".join(f"{v} = {k}" for k, v in tr.vars.items()) + " -/")
        out.append(f"def {name} : Sks := {body}")
    # functions that take part in parsing must not run anything
    counts = []
    for path, only in OTHER_FILES.items():
        t = ast.parse((repo / path).read_text())
        for q, fn in _functions(t, only):
            if path == SRC and q in ("Execer.exec", "Execer.eval"):
                continue
            own = [x for x in ast.walk(fn) if _is_run_call(x)]
            counts.append((f"{path}:{q}", len(own)))
    fps["functions_scanned_for_exec_eval"] = str(len(counts))
    out.append("/-- builtin `exec(` / `eval(` calls in every other function of the parse path -/")
    out.append("def runCallsElsewhere : List Nat := [" + ", ".join(str(c) for _q, c in counts) + "]")
    bad = [q for q, c in counts if c]
    out.append("-- functions with such a call: " + (", ".join(bad) if bad else "none"))
    out.append("theorem exec_runs_only_compiled_whole_input : orderOk false execSk = true := by decide")
    out.append("theorem eval_runs_only_compiled_whole_input : orderOk false evalSk = true := by decide")
    out.append("theorem compile_returns_code_of_whole_input : orderOk true compileSk = true := by decide")
    out.append("theorem nothing_else_runs : runCallsElsewhere.all (· == 0) = true := by decide")
    out.append("end Gen.ExecerOrder")
    return "\n".join(out) + "\n", fps, errors
