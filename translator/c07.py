"""C07 translator: the redirect decoding tables of xonsh/procs/specs.py, the COMPLETE language of `_REDIR_REGEX`
(enumerated from the parsed pattern, groups taken from the real compiled regex), the tokenizer's redirect spellings
(xonsh/parsers/tokenize.py), the lexer's plain `<`, `>`, `>>` tokens (xonsh/parsers/lexer.py token_map) and the
shape of the grammar rule `p_subproc_atom_redirect` (xonsh/parsers/base.py, read with `ast`)
-> lean/XonshVerif/Gen/Redir.lean.

The tables are built lazily at import time, so they are dumped by a FRESH interpreter that imports xonsh from
/repo's working tree."""

from __future__ import annotations

import ast
import hashlib
import json
import subprocess

DUMP = r"""
import json, sys
sys.dont_write_bytecode = True
sys.path.insert(0, sys.argv[1])
import warnings; warnings.simplefilter("ignore")
import re
try:
    import re._parser as sre_parse
    import re._constants as sre_c
except ImportError:
    import sre_parse, sre_constants as sre_c
import xonsh.procs.specs as S
import xonsh.parsers.tokenize as T
import xonsh.parsers.lexer as L

class Unsupported(Exception):
    pass

def chars_of_in(items):
    out = []
    neg = False
    for op, av in items:
        if op is sre_c.LITERAL:
            out.append(chr(av))
        elif op is sre_c.RANGE:
            out += [chr(c) for c in range(av[0], av[1] + 1)]
        elif op is sre_c.CATEGORY:
            if av is sre_c.CATEGORY_DIGIT:
                out += list("0123456789")      # ASCII digits (the other Unicode decimal digits are not enumerated)
            else:
                raise Unsupported("character category %r" % (av,))
        elif op is sre_c.NEGATE:
            neg = True
        else:
            raise Unsupported("set item %r" % (op,))
    if neg:
        raise Unsupported("negated character set")
    return out

def lang(seq):
    # all strings matched by a star-free pattern (as a list, duplicates removed later)
    res = [""]
    for op, av in seq:
        if op is sre_c.LITERAL:
            alts = [chr(av)]
        elif op is sre_c.IN:
            alts = chars_of_in(av)
        elif op is sre_c.BRANCH:
            alts = []
            for b in av[1]:
                alts += lang(b)
        elif op is sre_c.SUBPATTERN:
            alts = lang(av[3])
        elif op in (sre_c.MAX_REPEAT, sre_c.MIN_REPEAT):
            lo, hi, sub = av
            if hi is sre_c.MAXREPEAT or hi > 4:
                raise Unsupported("unbounded repetition")
            one = lang(sub)
            alts = []
            for n in range(lo, hi + 1):
                cur = [""]
                for _ in range(n):
                    cur = [a + b for a in cur for b in one]
                alts += cur
        elif op is sre_c.AT:
            if av in (sre_c.AT_END, sre_c.AT_END_STRING, sre_c.AT_BEGINNING, sre_c.AT_BEGINNING_STRING):
                alts = [""]
            else:
                raise Unsupported("anchor %r" % (av,))
        elif op is sre_c.CATEGORY and av is sre_c.CATEGORY_DIGIT:
            alts = list("0123456789")
        else:
            raise Unsupported("regex node %r" % (op,))
        res = [a + b for a in res for b in alts]
        if len(res) > 200000:
            raise Unsupported("language too large")
    return res

out = {"errors": []}
rx = S._REDIR_REGEX
rx = getattr(rx, "_lazy_obj", rx)
pat = S._REDIR_REGEX.pattern
out["pattern"] = pat
try:
    words = sorted(set(lang(sre_parse.parse(pat))))
    rows = []
    for w in words:
        m = S._REDIR_REGEX.match(w)
        if m is None:
            out["errors"].append("enumerated word %r is not matched by _REDIR_REGEX" % w)
            continue
        g = m.groups()
        if len(g) != 3 or m.end() != len(w):
            out["errors"].append("unexpected group structure for %r: %r" % (w, g))
            continue
        rows.append([w, g[0] or "", g[1] or "", g[2] or ""])
    out["regex"] = rows
except Unsupported as e:
    out["errors"].append("_REDIR_REGEX is outside the enumerable (star-free) subset: %s" % e)
    out["regex"] = []
out["modes"] = sorted([k, v] for k, v in dict(S._MODES).items())
out["write_modes"] = sorted(S._WRITE_MODES)
out["redir_all"] = sorted(S._REDIR_ALL)
out["redir_err"] = sorted(S._REDIR_ERR)
out["redir_out"] = sorted(S._REDIR_OUT)
out["e2o"] = sorted(S._E2O_MAP)
out["o2e"] = sorted(S._O2E_MAP)
out["a2p"] = sorted(S._A2P_MAP)
out["e2p"] = sorted(S._E2P_MAP)
out["tok_names"] = list(T._redir_names)
out["tok_map"] = list(T._redir_map)
out["tok_check_map"] = sorted(T._redir_check_map)
out["tok_check_single"] = sorted(T._redir_check_single)
tm = dict(L.token_map)
plain = sorted(k[1] for k, v in tm.items() if isinstance(k, tuple) and v in ("LT", "GT", "RSHIFT"))
out["plain"] = plain
out["plain_names"] = {k[1]: v for k, v in tm.items() if isinstance(k, tuple) and v in ("LT", "GT", "RSHIFT")}
print(json.dumps(out))
"""

GRAMMAR_SRC = "xonsh/parsers/base.py"


def lstr(s):
    for ch in s:
        if ch in "'\\" or ord(ch) < 32 or ord(ch) > 126:
            raise ValueError(f"character {ch!r} in a redirect table")
    return "[" + ", ".join(f"'{ch}'" for ch in s) + "]"


def llist(xs):
    return "[" + ", ".join(lstr(x) for x in xs) + "]"


def regex_chunks(rows, size=96):
    """the table in chunks (one huge list literal exceeds the elaborator's recursion depth)"""
    out, names = [], []
    for k in range(0, len(rows), size):
        nm = f"regexLang{k // size}"
        names.append(nm)
        out.append(f"def {nm} : List (List Char × (List Char × List Char × List Char)) := [")
        out.append(",\n".join(f"  ({lstr(w)}, ({lstr(a)}, {lstr(b)}, {lstr(c)}))" for w, a, b, c in rows[k : k + size]))
        out.append("]")
    out.append("def regexLang : List (List Char × (List Char × List Char × List Char)) :=")
    out.append("  " + (" ++ ".join(names) if names else "[]"))
    return out


def grammar_rule(repo):
    """alternatives of `p_subproc_atom_redirect`: which token kinds carry a target (`TOK WS subproc_atom`) and which stand alone"""
    tree = ast.parse((repo / GRAMMAR_SRC).read_text())
    for n in ast.walk(tree):
        if isinstance(n, ast.FunctionDef) and n.name == "p_subproc_atom_redirect":
            doc = ast.get_docstring(n) or ""
            with_target, bare, other = [], [], []
            body = doc.replace("subproc_atom :", "|", 1)
            for alt in body.split("|"):
                toks = alt.split()
                if not toks:
                    continue
                if len(toks) == 3 and toks[1] == "WS" and toks[2] == "subproc_atom":
                    with_target.append(toks[0])
                elif len(toks) == 1:
                    bare.append(toks[0])
                else:
                    other.append(" ".join(toks))
            fp = hashlib.sha1(ast.dump(n, include_attributes=False).encode()).hexdigest()[:16]
            return sorted(with_target), sorted(bare), other, fp
    return None


def generate(repo):
    errors, fps = [], {}
    p = subprocess.run(["/venv/bin/python", "-c", DUMP, str(repo)], capture_output=True, text=True, timeout=180)
    if p.returncode != 0:
        return None, {}, ["cannot import the redirect tables from the working tree: " + p.stderr[-400:]], None
    d = json.loads(p.stdout.strip().splitlines()[-1])
    errors += d.pop("errors")
    g = grammar_rule(repo)
    if g is None:
        errors.append("p_subproc_atom_redirect not found in " + GRAMMAR_SRC)
        with_target, bare, other = [], [], []
    else:
        with_target, bare, other, fp = g
        fps["p_subproc_atom_redirect"] = fp
        if other:
            errors.append("p_subproc_atom_redirect has an alternative of unknown shape: " + "; ".join(other))
    d["grammar_with_target"], d["grammar_bare"] = with_target, bare
    # which spellings reach the parser as ONE redirect token, and whether the grammar gives them a target
    tokname = {s: "IOREDIRECT1" for s in d["tok_check_single"]}
    for s in d["tok_check_map"]:
        tokname.setdefault(s, "IOREDIRECT2")  # the tokenizer tests _redir_check_single first
    for s, nm in d["plain_names"].items():
        tokname[s] = nm
    tokenizable = sorted(tokname)
    takes_target = [s for s in tokenizable if tokname[s] in with_target]
    stands_alone = [s for s in tokenizable if tokname[s] in bare]
    lost = [s for s in tokenizable if tokname[s] not in with_target and tokname[s] not in bare]
    if lost:
        errors.append("redirect tokens without a grammar rule: " + ", ".join(lost))
    d["tokenizable"], d["takes_target"], d["stands_alone"] = tokenizable, takes_target, stands_alone
    try:
        out = [
            "/- GENERATED by translator/c07.py from xonsh/procs/specs.py, xonsh/parsers/tokenize.py, xonsh/parsers/lexer.py,",
            "   xonsh/parsers/base.py — do not edit; regenerated on every check run. -/",
            "namespace Gen.Redir",
            f"/-- every string of the language of specs._REDIR_REGEX = {d['pattern']!r} (ASCII digits) with its groups (orig, mode, dest) -/",
            *regex_chunks(d["regex"]),
            "/-- specs._MODES -/",
            "def modes : List (List Char × List Char) := [" + ", ".join(f"({lstr(k)}, {lstr(v)})" for k, v in d["modes"]) + "]",
            "/-- specs._WRITE_MODES -/",
            "def writeModes : List (List Char) := " + llist(d["write_modes"]),
            "def redirAll : List (List Char) := " + llist(d["redir_all"]),
            "def redirErr : List (List Char) := " + llist(d["redir_err"]),
            "def redirOut : List (List Char) := " + llist(d["redir_out"]),
            "def e2oMap : List (List Char) := " + llist(d["e2o"]),
            "def o2eMap : List (List Char) := " + llist(d["o2e"]),
            "def a2pMap : List (List Char) := " + llist(d["a2p"]),
            "def e2pMap : List (List Char) := " + llist(d["e2p"]),
            "/-- tokenize._redir_names / _redir_map (in source order) -/",
            "def tokNames : List (List Char) := " + llist(d["tok_names"]),
            "def tokMap : List (List Char) := " + llist(d["tok_map"]),
            "/-- tokenize._redir_check_single (IOREDIRECT1) and _redir_check_map (IOREDIRECT2) -/",
            "def tokCheckSingle : List (List Char) := " + llist(d["tok_check_single"]),
            "def tokCheckMap : List (List Char) := " + llist(d["tok_check_map"]),
            "/-- lexer.token_map: operator strings lexed as LT / GT / RSHIFT -/",
            "def plainOps : List (List Char) := " + llist(d["plain"]),
            "/-- every spelling that reaches the parser as one redirect token, split by the shape of its alternative in",
            "    p_subproc_atom_redirect (`TOK WS subproc_atom` carries a target, a lone `TOK` does not) -/",
            "def tokenizable : List (List Char) := " + llist(tokenizable),
            "def takesTarget : List (List Char) := " + llist(takes_target),
            "def standsAlone : List (List Char) := " + llist(stands_alone),
            "end Gen.Redir\n",
        ]
    except ValueError as e:
        return None, fps, errors + [str(e)], d
    fps["_REDIR_REGEX"] = d["pattern"] + f" ({len(d['regex'])} words)"
    fps["tokenizable"] = f"{len(tokenizable)} spellings"
    return "\n".join(out), fps, errors, d
