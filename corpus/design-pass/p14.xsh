import os, tempfile
from xonsh.completers.path import _quote_paths
d = tempfile.mkdtemp(); os.chdir(d); $PWD = d
def _rec(args): 
    global got; got = list(args)
aliases['rec'] = _rec
names = ["a b", "a\\", "a!b", "~x", "a'b\"$c", "a\tb$HOME", "-x", "#x", "and", "a$HOME", "a'b", 'a"b', "a\\b", "a{b", "a=b", "a\nb", "é", "a`b", "@x", "a;b", "%x", "a^b", "!x"]
bad = []
for n in names:
    open(os.path.join(d, n), "w").close()
    out, _ = _quote_paths({n}, "", "")
    ins = next(iter(out))
    got = None
    try:
        __xonsh__.execer.exec("rec " + ins, glbs=globals())
    except BaseException as e:
        got = f"EXC {type(e).__name__}"
    ok = (got == [n])
    if not ok: bad.append((n, ins, got))
for b in bad: print("MISMATCH name=%r inserted=%r argv=%r" % b)
print("checked", len(names), "bad", len(bad))
