import sys
def _w1(args, stdout=None):
    stdout.buffer.write(b'a'*1023 + b'\r\n' + b'b\n'); stdout.flush()
def _w2(args, stdout=None):
    stdout.buffer.write(b'a'*1023 + 'é'.encode() + b'\n'); stdout.flush()
aliases['w1']=_w1; aliases['w2']=_w2
r = !(w1)
o = r.out
print("crlf straddle: newlines in out =", o.count("\n"), repr(o[-6:]), "raw", repr(r.raw_out[-6:]))
r = !(w2)
print("utf8 straddle:", ascii(r.out[-4:]))
s = $(w2)
print("$():", ascii(s[-4:]))
r = !(w2 | cat)
print("utf8 straddle via cat:", ascii(r.out[-4:]))
