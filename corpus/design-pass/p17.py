import os, sys, tempfile, builtins
from xonsh.built_ins import XSH
from xonsh.environ import Env
d = tempfile.mkdtemp()
XSH.env = Env({"XONSH_DATA_DIR": d, "XONSH_HISTORY_SIZE": (100, "commands")})
import xonsh.lib.lazyjson as xlj
from xonsh.history.json import JsonHistoryGC, _xhj_get_data_dir
hd = _xhj_get_data_dir()
f = os.path.join(hd, "xonsh-old.json")
hist = {"cmds": [{"inp": "echo %d\n" % i, "rtn": 0, "ts": [1.0, 2.0]} for i in range(50)],
        "sessionid": "old", "ts": [1.0, None], "locked": True}     # ts[0]=1.0 is before boot
with open(f, "w", newline="\n", encoding="utf-8") as fp: xlj.ljdump(hist, fp, sort_keys=True)
size0 = os.path.getsize(f)
events = []
def hook(ev, args):
    if ev == "open" and isinstance(args[0], str) and args[0] == f: events.append(("open", args[1]))
    if ev in ("os.rename",): events.append((ev, args[0], args[1]))
sys.addaudithook(hook)
# crash in the middle of the in-place rewrite: fork, make ljdump die after truncation
pid = os.fork()
if pid == 0:
    real = xlj.ljdump
    def dying(obj, fp, **kw):
        fp.write("{"); fp.flush(); os._exit(9)       # simulated kill right after the truncating open
    xlj.ljdump = dying
    import xonsh.history.json as hj; hj.xlj.ljdump = dying
    gc = JsonHistoryGC.__new__(JsonHistoryGC); gc.files(only_unlocked=True); os._exit(0)
os.waitpid(pid, 0)
print("size before", size0, "after simulated kill", os.path.getsize(f))
try:
    print("cmds readable:", len(xlj.LazyJSON(f).load()["cmds"]))
except Exception as e:
    print("file no longer loadable:", type(e).__name__, e)
