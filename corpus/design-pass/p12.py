import ast
from xonsh.built_ins import XSH
from xonsh.execer import Execer
XSH.load(execer=Execer(), inherit_env=True) if hasattr(XSH,'load') else None
ex = XSH.execer
P = ex.parser
def nd(t):
    return ast.dump(t, include_attributes=False)
print("== C01")
for src in ["self.x: int = 1\n", "for i, in xs:\n    pass\n", "1>=1\n", "{a, *b}\n", "def f(a, *args: T, **kw: T):\n    pass\n", "with (a as b, c as d):\n    pass\n"]:
    try:
        t = P.parse(src)
        try:
            compile(t, "<x>", "exec"); c = "compiles"
        except Exception as e: c = f"compile fails: {type(e).__name__}: {e}"
        ref = ast.parse(src)
        print(repr(src[:30]), "parsed;", c)
    except SyntaxError as e:
        print(repr(src[:30]), "REJECTED:", str(e).splitlines()[0][:70])
print("== C03")
for src in ["mkdir x || ls --color=auto\n", "echo a && echo --b=c\n", "![mkdir x] || ![ls --color=auto]\n"]:
    try:
        t = ex.parse(src, ctx=set()); print(repr(src), "ok")
    except SyntaxError as e:
        print(repr(src), "REJECTED:", str(e).splitlines()[0][:70])
print("== C17")
from xonsh.formatter.core import format_source
s = 'x = """a  \nb"""\n'
print(repr(s), "->", repr(format_source(s)))
