import ast as _ast
ex = __xonsh__.execer
for src in ["import os.path\nos.getcwd()\n", "import os\nos.getcwd()\n", "import os.path\nos.sep\n", "import os.path as q\nq.sep\n"]:
    t = ex.parse(src, ctx=set())
    print(repr(src), "-> converted:", "subproc" in _ast.dump(t.body[1]))
def _rec(args): print("ARGS", args)
aliases['rec'] = _rec
cd /tmp/probe
rec p@("*.py")
rec @("p*.py")
rec x@("$HOME")/y
rec @("$HOME")
