import os, tempfile, time
from xonsh.built_ins import XSH
from xonsh.environ import Env
d = tempfile.mkdtemp()
XSH.env = Env({"XONSH_DATA_DIR": d, "HISTCONTROL": {"ignoredups"}, "XONSH_STORE_STDOUT": False})
from xonsh.history.json import JsonHistory
h = JsonHistory(filename=os.path.join(d, "xonsh-t.json"), buffersize=4, gc=False, sessionid="t")
h._cond.acquire()                      # hold the ticket lock: flusher cannot run yet
for inp in ["a", "a", "a", "b"]:       # 4th append triggers flush(); 2 dups will be skipped by dump()
    h.append({"inp": inp, "rtn": 0, "ts": [1.0, 2.0]})
h.append({"inp": "c", "rtn": 0, "ts": [1.0, 2.0]})
n = len(h)
print("len while flush in flight:", n, "buffer:", [c["inp"] for c in h.buffer])
try:
    print("h.inps[n-2] =", h.inps[n-2])
except Exception as e:
    print("h.inps[n-2] raised", type(e).__name__, e)
print("len after:", len(h))
try:
    print("all:", [h.inps[i] for i in range(len(h))])
except Exception as e:
    print("raised", type(e).__name__, e)
h._cond.release()
