import sys
$XONSH_SHOW_TRACEBACK = True
code1 = "import sys; sys.stdout.buffer.write(b'a'*1023 + b'\\r\\n' + b'b\\n')"
r = !(python3 -c @(code1))
o = r.out
print("crlf straddle: newlines in out =", o.count("\n"), repr(o[-6:]), "raw", repr(r.raw_out[-6:]))
code2 = "import sys; sys.stdout.buffer.write(b'a'*1023 + 'é'.encode() + b'\\n')"
r = !(python3 -c @(code2))
print("utf8 straddle:", ascii(r.out[-4:]))
s = $(python3 -c @(code2))
print("$():", ascii(s[-4:]))
