import os, gc
$XONSH_SHOW_TRACEBACK = False
def nfd(): return sorted(os.listdir('/proc/self/fd'))
cd /tmp/probe
echo warm > /dev/null
b = nfd()
for i in range(20):
    try:
        echo hi > ok_@(i).txt < missing_zz.txt
    except Exception as e:
        last = e          # keep the exception (and its traceback) alive, as sys.last_exc does interactively
a = nfd()
print("fds before", len(b), "after 20 failing redirects (exception kept):", len(a))
del last; gc.collect()
print("after dropping exception:", len(nfd()))
for i in range(20):
    try: os.remove(f"ok_{i}.txt")
    except OSError: pass
