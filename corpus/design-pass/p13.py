import os, tempfile, subprocess
from xonsh.parsers import tokenize as T
import xonsh.procs.specs as S
d = tempfile.mkdtemp(); loc = os.path.join(d, "f"); open(loc,"w").close()
sp = sorted(set(T._redir_map) | set(T._redir_check_single) | {">", ">>", "<"})
print(len(sp), "tokenizable spellings")
def cls(x):
    if x is None: return "-"
    if x is subprocess.STDOUT: return "MERGE>out"
    if x is S._PIPE_ALL: return "PIPE_ALL"
    if x is S._PIPE_ERR: return "PIPE_ERR"
    if x == 2: return "FD2"
    m = getattr(x, "mode", "?"); x.close(); return f"file({m})"
rows = {}
for r in sp:
    try:
        a = S._redirect_streams(r, loc) if not (r in T._redir_map) else S._redirect_streams(r)
        res = tuple(cls(x) for x in a)
    except Exception as e:
        res = ("ERR", type(e).__name__, str(e)[:40])
    rows.setdefault(res, []).append(r)
for k, v in rows.items(): print(k, v)
# strings of the regex language that are not tokenizable spellings: what happens
import itertools
names = ["o","out","e","err","a","all","","&","1","2","&1","&2","3","&3"]
bad = {}
for o,m,dd in itertools.product(names, [">",">>","<"], names):
    r = o+m+dd
    if r in sp: continue
    try:
        a = S._redirect_streams(r, loc); res = tuple(cls(x) for x in a)
    except Exception as e: res = ("ERR",)
    bad.setdefault(res, []).append(r)
for k, v in bad.items(): print(k, len(v), v[:12])
