from xonsh.environ import Env
e = Env({"PATH":["/a"]}); from xonsh.built_ins import XSH; XSH.env = e
p = e["PATH"]
print(e.detype()["PATH"])
p.append("/b")
print("after held-ref append:", e.detype()["PATH"], "| actual", list(e["PATH"]))
# () = () target
from xonsh.parser import Parser
import ast
P = Parser()
for src in ["() = ()\n", "[] = []\n", "import os.path\nos.sep -x\n"]:
    try:
        t = P.parse(src); print("xonsh ok", src.strip().splitlines()[0])
    except SyntaxError as ex:
        print("xonsh rejects", repr(src), ex)
    try: ast.parse(src); print("cpython ok")
    except SyntaxError as ex: print("cpython rejects", ex)
