import ast as _ast
ex = __xonsh__.execer
src = "import os.path\nos.sep -x\n"
t = ex.parse(src, ctx=set(dir(__builtins__)) if not isinstance(__builtins__, dict) else set(__builtins__))
print("dotted import:", "subproc" in _ast.dump(t.body[1]))
src2 = "import os\nos.sep -x\n"
t = ex.parse(src2, ctx=set())
print("plain import :", "subproc" in _ast.dump(t.body[1]))
def _rec(args): print("ARGS", args)
aliases['rec'] = _rec
cd /tmp/probe
rec a@("*")
rec @("*")
rec x@("$HOME")y
