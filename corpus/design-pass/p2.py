import os, tempfile, stat
from xonsh.environ import Env
from xonsh.commands_cache import CommandsCache
from xonsh.aliases import Aliases
from xonsh.built_ins import XSH
d=tempfile.mkdtemp()
A=os.path.join(d,"A"); B=os.path.join(d,"B"); os.mkdir(A); os.mkdir(B)
for x in (A,B):
    p=os.path.join(x,"foo"); open(p,"w").write("#!/bin/sh\n"); os.chmod(p,0o755)
env=Env({"PATH":[A,B]})
XSH.env=env
cc=CommandsCache(env, aliases={})
print("1", cc.locate_binary("foo"), "foo" in cc)
env["PATH"]=[B,A]
print("2 reorder", cc.locate_binary("foo"))
env["PATH"]=[B]
print("3 only B", cc.locate_binary("foo"))
env["PATH"]=[]
print("4 empty", cc.locate_binary("foo"), "foo" in cc)
env["PATH"]=[A,B]
os.chmod(os.path.join(A,"foo"),0o644)
print("5 chmod -x A/foo", cc.locate_binary("foo"))
from xonsh.procs.executables import locate_executable
print("5 exec", locate_executable("foo", env))
