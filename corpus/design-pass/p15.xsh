$XONSH_SHOW_TRACEBACK = False
def _t(args):
    print("ran", args[0]); return int(args[1])
aliases['t']=_t
$XONSH_SUBPROC_CMD_RAISE_ERROR = True
for src in ["t a 1 || t b 0", "t a 1 && t b 0", "t a 0 && t b 1 || t c 0", "false x || t b 0", "ls /nope_zz || t b 0"]:
    print("---", src)
    try:
        __xonsh__.execer.exec(src + "\n", glbs=globals())
        print("no raise")
    except Exception as e:
        print("EXC", type(e).__name__, getattr(e, "cmd", None))
