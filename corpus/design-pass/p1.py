from xonsh.environ import Env
e = Env({"A":"1"})
print("before", sorted(e.detype().items()), 'XONSH_DEBUG' in e._d)
with e.swap(XONSH_DEBUG=2):
    pass
print("after ", sorted(e.detype().items()), 'XONSH_DEBUG' in e._d, e._d._local)
with e.swap(A="2"):
    pass
print(e._d._local, e._d._global.get("A"))
import threading
e2 = Env({"A":"1"})
res={}
def t1():
    with e2.swap(A="T1"):
        res['t1']=e2.detype()["A"]
        ev1.set(); ev2.wait()
def t2():
    ev1.wait()
    res['t2']=e2.detype()["A"]
    ev2.set()
ev1=threading.Event(); ev2=threading.Event()
a=threading.Thread(target=t1); b=threading.Thread(target=t2); a.start(); b.start(); a.join(); b.join()
print(res)
