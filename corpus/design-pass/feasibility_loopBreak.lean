-- feasibility probe 2: translator target = fold-with-break combinator (structural recursion)
def loopBreak {α σ : Type} : List α → σ → (α → σ → Except σ σ) → σ
  | [], s, _ => s
  | x :: xs, s, body =>
    match body x s with
    | .error s' => s'          -- break
    | .ok s' => loopBreak xs s' body

def pyTakeNeg {α : Type} (xs : List α) (n : Nat) : List α :=
  if n = 0 then [] else xs.take (xs.length - n)

abbrev F := Nat × Nat × Nat × Nat   -- (ts, cmds, name, size)

/-- as the translator would emit `_xhj_gc_commands_to_rmfiles` -/
def genCommands (hsize : Nat) (files : List F) : Nat × List F :=
  let (n, _) := loopBreak files.reverse (0, 0) (fun f (n, ncmds) =>
    if ncmds + f.2.1 > hsize then .error (n, ncmds) else .ok (n + 1, ncmds + f.2.1))
  let removed := if n > 0 then pyTakeNeg files n else files
  let cr := loopBreak removed 0 (fun f cr => .ok (cr + f.2.1))
  (cr, removed)

def weight (fs : List F) : Nat := (fs.map (·.2.1)).sum

/-- number of leading elements (of the reversed list) that fit -/
def fit (hsize : Nat) : List F → Nat → Nat
  | [], _ => 0
  | f :: fs, acc => if acc + f.2.1 > hsize then 0 else 1 + fit hsize fs (acc + f.2.1)

theorem loop_fit (hsize : Nat) (xs : List F) (n acc : Nat) :
    (loopBreak xs (n, acc) (fun f (s : Nat × Nat) =>
      if s.2 + f.2.1 > hsize then .error (s.1, s.2) else .ok (s.1 + 1, s.2 + f.2.1))).1
      = n + fit hsize xs acc := by
  induction xs generalizing n acc with
  | nil => simp [loopBreak, fit]
  | cons x xs ih =>
    by_cases hx : acc + x.2.1 > hsize
    · simp [loopBreak, fit, hx]
    · simp [loopBreak, fit, hx, ih]; omega

theorem fit_le (hsize : Nat) (xs : List F) (acc : Nat) : fit hsize xs acc ≤ xs.length := by
  induction xs generalizing acc with
  | nil => simp [fit]
  | cons x xs ih => simp only [fit]; split <;> simp; have := ih (acc + x.2.1); omega

/-- the kept prefix of the reversed list fits the limit -/
theorem fit_fits (hsize : Nat) (xs : List F) (acc : Nat) (h : acc ≤ hsize) :
    acc + weight (xs.take (fit hsize xs acc)) ≤ hsize := by
  induction xs generalizing acc with
  | nil => simp [fit, weight]; exact h
  | cons x xs ih =>
    simp only [fit]
    split
    · simp [weight]; exact h
    · rename_i hx
      have := ih (acc + x.2.1) (by omega)
      simp [weight, List.take_succ_cons] at *
      have e : 1 + fit hsize xs (acc + x.2.1) = fit hsize xs (acc + x.2.1) + 1 := by omega
      rw [e, List.take_succ_cons]; simp; omega

#eval genCommands 5 [(1,3,1,0),(2,4,2,0),(3,1,3,0)]
#eval genCommands 0 [(1,3,1,0),(2,4,2,0)]
#print axioms fit_fits
