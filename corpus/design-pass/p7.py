import os, tempfile, shutil
from xonsh.environ import Env
from xonsh.built_ins import XSH
import xonsh.dirstack as ds
d = os.path.realpath(tempfile.mkdtemp())
a=os.path.join(d,"a"); b=os.path.join(d,"b"); os.mkdir(a); os.mkdir(b)
os.chdir(d)
XSH.env = Env({"PWD": d, "PUSHD_SILENT": True, "DIRSTACK_SIZE": 20, "CDPATH": [], "AUTO_PUSHD": False, "HOME": d})
print(ds.pushd_fn(a)); print(ds.pushd_fn(b)); print("stack", ds.DIRSTACK, "pwd", XSH.env["PWD"])
os.rmdir(a)
r = ds.pushd_fn("+1")
print("pushd +1 to deleted:", r, "stack", ds.DIRSTACK, "pwd", XSH.env["PWD"], "cwd", os.getcwd())
# rotation semantics
ds.DIRSTACK[:] = []
for n in "xyz": os.mkdir(os.path.join(d,n))
XSH.env["PWD"]=d; os.chdir(d)
for n in "xyz": ds.pushd_fn(os.path.join(d,n))
print("dirs:", ds.dirs_fn()[0].strip())
ds.pushd_fn("+2")
print("after pushd +2:", ds.dirs_fn()[0].strip())
# GC files unit with hsize 0
from xonsh.history.json import _xhj_gc_files_to_rmfiles, _xhj_gc_commands_to_rmfiles
files=[(1.0,3,"f1",10),(2.0,4,"f2",10)]
print("files hsize=0:", _xhj_gc_files_to_rmfiles(0, files))
print("cmds hsize=0:", _xhj_gc_commands_to_rmfiles(0, files))
shutil.rmtree(d)
