print("before:", 'XONSH_CAPTURE_ALWAYS' in __xonsh__.env.detype())
echo hi | cat
print("after pipeline:", 'XONSH_CAPTURE_ALWAYS' in __xonsh__.env.detype(), repr(__xonsh__.env.detype().get('XONSH_CAPTURE_ALWAYS')))
print("THREAD_SUBPROCS before:", 'THREAD_SUBPROCS' in __xonsh__.env.detype())
$THREAD_SUBPROCS=False echo x
print("THREAD_SUBPROCS after prefix cmd:", 'THREAD_SUBPROCS' in __xonsh__.env.detype())
