$XONSH_SHOW_TRACEBACK = False
def _t(args): 
    print("ran", args[0]); return int(args[1])
aliases['t']=_t
print("--- $[t a 0] && t b 0")
$[t a 0] && t b 0
print("--- $(t a 1) && t b 0   (a prints output, rc 1)")
try:
    $(t a 1) && t b 0
except Exception as e: print("EXC", type(e).__name__)
print("--- $(t a 0) || t b 0   (rc 0 but nonempty)")
$(t a 0) || t b 0
print("--- @$(t a 0) && t b 0")
try:
    echo @$(t a 0) && t b 0
except Exception as e: print("EXC", type(e).__name__)
print("--- !(t a 1) || t b 0")
!(t a 1) || t b 0
print("--- ![t a 1] || t b 0")
![t a 1] || t b 0
