#!/bin/sh
# usage: selftest/confirm_seeded.sh <seed-id> <srcdir> <worktree> <pytest targets...>
# Confirms in a scratch worktree (never /repo): demo passes clean, fails with the patch, the given tests pass with it.
ID=$1; SRC=$2; WT=$3; shift 3
cd "$WT" || exit 2
git checkout -q -- . && git clean -fdq
cp "$SRC/demo.py" /var/tmp/seed_demo_$$.py
timeout 600 /venv/bin/python /var/tmp/seed_demo_$$.py >/var/tmp/seed_clean_$$.out 2>&1; C=$?
git apply "$SRC/patch.diff" || { echo "$ID: patch does not apply"; exit 2; }
timeout 600 /venv/bin/python /var/tmp/seed_demo_$$.py >/var/tmp/seed_mut_$$.out 2>&1; M=$?
/venv/bin/python -m pytest -q -p no:cacheprovider --timeout=900 "$@" >/var/tmp/seed_tests_$$.out 2>&1; T=$?
TL=$(tail -1 /var/tmp/seed_tests_$$.out)
git checkout -q -- . && git clean -fdq
echo "$ID: demo clean exit=$C, demo mutated exit=$M, tests exit=$T ($TL)"
rm -f /var/tmp/seed_*_$$.out /var/tmp/seed_demo_$$.py
[ $C -eq 0 ] && [ $M -ne 0 ] && [ $T -eq 0 ]
