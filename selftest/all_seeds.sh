#!/bin/sh
# usage: selftest/all_seeds.sh [property ...]   — re-run every kept seeded change against the current checks.
# Prints one line per seed (DETECTED / MISSED / DOES-NOT-APPLY) and exits 1 if any seed is missed.
cd /verif || exit 2
miss=0
for d in seeded/*/; do
  id=$(basename "$d"); p=${id%-*}
  if [ $# -gt 0 ]; then case " $* " in *" $p "*) ;; *) continue;; esac; fi
  if grep -q '"obsolete_since"' "/verif/seeded/$id/meta.json" 2>/dev/null; then echo "$id OBSOLETE (a later repair made the seeded change harmless; see meta.json)"; continue; fi
  src="/verif/seeded/$id"
  if [ -f "$src/patch.rebased.diff" ]; then
    mkdir -p "/var/tmp/rb-$id"; cp "$src/patch.rebased.diff" "/var/tmp/rb-$id/patch.diff"; src="/var/tmp/rb-$id"
  fi
  out=$(timeout 1800 selftest/try_seeded.sh "$p" "$src" 2>&1)
  if echo "$out" | grep -q "refusing"; then echo "$id NOT-RUN (/repo had uncommitted changes)"; miss=1
  elif echo "$out" | grep -q "patch does not apply"; then echo "$id DOES-NOT-APPLY"; miss=1
  elif echo "$out" | grep -q "^VIOLATION property=$p"; then echo "$id DETECTED"
  else echo "$id MISSED"; miss=1; fi
  rm -rf "/var/tmp/rb-$id"
done
exit $miss
