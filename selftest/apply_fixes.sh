#!/bin/sh
# usage: selftest/apply_fixes.sh <dir> <prefix> <pytest targets...>
# For every <dir>/<prefix>-*.diff (+ .msg): apply to /repo, run the tests, commit with the message; skip on failure.
# Run under selftest/with_repo_lock.sh.
D=$1; P=$2; shift 2
cd /repo || exit 2
git diff --quiet || { echo "/repo dirty"; exit 2; }
for d in "$D"/"$P"-*.diff; do
  k=$(basename "$d" .diff); m="$D/$k.msg"
  [ -f "$m" ] || { echo "$k: no message file"; continue; }
  git apply "$d" || { echo "$k APPLY-FAILED"; continue; }
  r=$(/venv/bin/python -m pytest -q -p no:cacheprovider "$@" 2>&1 | tail -1)
  if echo "$r" | grep -Eq "[0-9]+ (failed|error)"; then echo "$k TESTS FAIL: $r"; git checkout -- .; git clean -fdq
  else git add -A && git commit -q -F "$m" && echo "$k $(git log --oneline | head -1 | cut -c1-8) :: $r"; fi
done
