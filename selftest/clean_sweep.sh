#!/bin/sh
# usage: selftest/clean_sweep.sh [seeds...]   — every claimed check on the UNCHANGED tree; any non-zero exit is a bug in the check.
# The last pass uses VERIF_SEED unset (default 0) so that the evidence files left behind come from the default run.
cd /verif || exit 2
git -C /repo diff --quiet || { echo "/repo has uncommitted changes"; exit 2; }
SEEDS="${*:-1 2 3}"
PROPS=$(python3 -c "import json; print(' '.join(c['property_id'] for c in json.load(open('MANIFEST.json'))['checks']))")
bad=0
for s in $SEEDS default; do
  for p in $PROPS; do
    if [ "$s" = default ]; then out=$(./check "$p" 2>&1); rc=$?; else out=$(VERIF_SEED=$s ./check "$p" 2>&1); rc=$?; fi
    if [ $rc -ne 0 ] || echo "$out" | grep -q "^VIOLATION"; then echo "ALARM seed=$s $p rc=$rc: $(echo "$out" | grep -v KNOWN-FINDING | head -3 | cut -c1-200)"; bad=1; fi
  done
done
[ $bad -eq 0 ] && echo "clean sweep ok (seeds: $SEEDS default)"
exit $bad
