#!/bin/sh
# usage: selftest/try_seeded.sh <property> <dir with patch.diff [demo.py]> [tier]
# Applies the seeded change to /repo, runs the property's check, and ALWAYS reverts /repo afterwards.
P=$1; D=$2; T=${3:-quick}
# /repo is shared: hold the exclusive repo lock while it is mutated (checks take it shared)
exec 8>/var/tmp/xv-repo.gate; flock 8; exec 9>/var/tmp/xv-repo.lock; flock 9; export XV_HOLDS_REPO_LOCK=1
cd /repo || exit 2
git diff --quiet || { echo "/repo has uncommitted changes; refusing"; exit 2; }
git apply "$D/patch.diff" || { echo "patch does not apply"; exit 2; }
trap 'git -C /repo checkout -- . ; git -C /repo clean -fdq' EXIT INT TERM
if [ -f "$D/demo.py" ]; then (cd /repo && timeout 300 /venv/bin/python "$D/demo.py" >/dev/null 2>&1; echo "demo on mutated tree: exit $?"); fi
cp /verif/evidence/$P.json /var/tmp/try_seeded_evidence_$P.json 2>/dev/null
cd /verif && ./check "$P" --tier "$T" > /var/tmp/try_seeded_$P.out 2>&1
rc=$?
# the evidence file committed in /verif must come from the UNCHANGED tree: put the clean one back
cp /var/tmp/try_seeded_evidence_$P.json /verif/evidence/$P.json 2>/dev/null
cut -c1-300 /var/tmp/try_seeded_$P.out
echo "check exit: $rc"
