#!/usr/bin/env python3
"""usage: keep_seeded.py <seed-id> <srcdir> <confirm line> <caught: yes|no|after-strengthening> <by what>"""
import json
import os
import shutil
import sys

sid, src, confirm, caught, how = sys.argv[1:6]
dst = os.path.join(os.path.dirname(os.path.dirname(os.path.abspath(__file__))), "seeded", sid)
os.makedirs(dst, exist_ok=True)
shutil.copy(os.path.join(src, "patch.diff"), dst)
shutil.copy(os.path.join(src, "demo.py"), dst)
m = json.load(open(os.path.join(src, "meta.json")))
meta = {
    "id": sid,
    "property": m["property"],
    "summary": m["summary"],
    "breaks": m["breaks"],
    "needs_to_manifest": m["needs"],
    "author": "independent sub-agent given only the property text and a scratch worktree",
    "author_tests_run": m.get("tests_run"),
    "confirmed_by_me": confirm,
    "detected_by_check": caught,
    "detected_how": how,
}
json.dump(meta, open(os.path.join(dst, "meta.json"), "w"), indent=1)
print("kept", dst)
