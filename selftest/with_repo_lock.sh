#!/bin/sh
# usage: selftest/with_repo_lock.sh <command...> — run a command that edits /repo while holding the exclusive repo lock
exec 8>/var/tmp/xv-repo.gate; flock 8; exec 9>/var/tmp/xv-repo.lock; flock 9
export XV_HOLDS_REPO_LOCK=1
"$@"
