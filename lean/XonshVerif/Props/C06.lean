/-
C06 — Captured output is complete, ordered and exactly what the command wrote.
Theorems over `Capture` (tied to xonsh/procs/{readers,posix,pipelines,proxies}.py by xv/props/c06.py).

A  queue reader: safety for all chunkings and all schedules (induction on the schedule, invariant
   `handed on ++ queue ++ in flight ++ unread = payload`).
B  in-memory buffer of PopenThread: with the reader taking the writer's lock (the code since /repo f545504) ALL schedules
   are safe (C06_B_locked); without it (the pinned snapshot) only the schedules in which no read lands between the writer's
   tell() and seek(0, END) are (C06_B_partial), and C06_B_cex is the duplicated output the snapshot could produce.
C  text shaping: independence of the fragmentation for whole-line fragmentations, exactness for plain text, the $() path,
   counterexamples where a CRLF / multi-byte sequence / escape sequence / one-line output is cut by a fragment boundary.
Return code = last stage.
Liveness (the drain loop is eventually left, nothing deadlocks) and the OS's pipe semantics are NOT modelled.
-/
import XonshVerif.Model.Capture
open Capture Capture.Shape

/-! ## A. queue reader -/

theorem splitLinesAux_flatten (b cur : List Nat) : (splitLinesAux b cur).flatten = cur.reverse ++ b := by
  fun_induction splitLinesAux b cur <;> simp_all

theorem splitLinesB_flatten (b : List Nat) : (splitLinesB b).flatten = b := by
  simp [splitLinesB, splitLinesAux_flatten]

namespace QA
open QReader

def pending : PPc → List Nat
  | .putting c => c
  | _ => []

/-- the invariant of the queue-reader protocol -/
structure Good (payload : List Nat) (s : St) : Prop where
  data : s.frags.flatten ++ s.queue.flatten ++ pending s.ppc ++ s.unread.flatten = payload
  nonempty : ∀ c ∈ s.unread, c ≠ []
  eof : (s.ppc = .closing ∨ s.ppc = .exiting ∨ s.ppc = .dead) → s.unread = []
  closedLate : s.closed = true → (s.ppc = .exiting ∨ s.ppc = .dead)
  chk : (s.cpc = .chk2 ∨ s.cpc = .chk3) → s.closed = true
  fin : s.cpc = .done → s.closed = true ∧ s.queue = []

theorem good_init (chunks : List (List Nat)) (h : ∀ c ∈ chunks, c ≠ []) : Good chunks.flatten (init chunks) := by
  constructor <;> simp_all [init, pending]

theorem good_stepP {payload s} (g : Good payload s) : Good payload (stepP s) := by
  obtain ⟨data, ne, eof, cl, chk, fin⟩ := g
  unfold stepP
  split
  · -- reading
    rename_i hp
    split
    · rename_i hu
      constructor <;> simp_all [pending]
    · rename_i c rest hu
      have hc : c ≠ [] := ne c (by simp [hu])
      have hce : c.isEmpty = false := by cases c <;> simp_all
      simp only [hce]
      constructor <;> simp_all [pending]
  · rename_i c hp
    constructor <;> simp_all [pending]
  · rename_i hp
    constructor <;> simp_all [pending]
  · rename_i hp
    constructor <;> simp_all [pending]
  · exact ⟨data, ne, eof, cl, chk, fin⟩

theorem good_pop {payload s} (g : Good payload s) (hnd : s.cpc ≠ .done) : Good payload (pop s) ∧ (pop s).cpc = s.cpc ∧ (pop s).closed = s.closed := by
  obtain ⟨data, ne, eof, cl, chk, fin⟩ := g
  unfold pop
  split
  · exact ⟨⟨data, ne, eof, cl, chk, fin⟩, rfl, rfl⟩
  · rename_i c q hq
    refine ⟨?_, rfl, rfl⟩
    constructor <;> simp_all [pending, splitLinesB_flatten]

theorem good_stepC {payload s} (g : Good payload s) : Good payload (stepC s) := by
  unfold stepC
  split
  · rename_i h
    exact (good_pop g (by simp [h])).1
  · rename_i h
    obtain ⟨data, ne, eof, cl, chk, fin⟩ := g
    split <;> constructor <;> simp_all
  · rename_i h
    obtain ⟨data, ne, eof, cl, chk, fin⟩ := g
    split <;> constructor <;> simp_all
  · rename_i h
    obtain ⟨data, ne, eof, cl, chk, fin⟩ := g
    split <;> constructor <;> simp_all
  · rename_i h
    have ⟨g', hc, hcl⟩ := good_pop g (by simp [h])
    obtain ⟨data, ne, eof, cl, chk, fin⟩ := g'
    constructor <;> simp_all
  · exact g

theorem good_stepD {payload s} (g : Good payload s) : Good payload (stepD s) := by
  obtain ⟨data, ne, eof, cl, chk, fin⟩ := g
  unfold stepD
  split
  · constructor <;> simp_all
  · exact ⟨data, ne, eof, cl, chk, fin⟩

theorem good_run {payload} (sched : List Tid) : ∀ s, Good payload s → Good payload (run s sched) := by
  induction sched with
  | nil => intro s g; exact g
  | cons t ts ih =>
    intro s g
    apply ih
    cases t
    · exact good_stepP g
    · exact good_stepC g
    · exact good_stepD g

theorem good_done {payload s} (g : Good payload s) (h : s.cpc = .done) : s.collected = payload := by
  obtain ⟨data, ne, eof, cl, chk, fin⟩ := g
  have ⟨hc, hq⟩ := fin h
  have hp := cl hc
  have hu : s.unread = [] := eof (Or.inr hp)
  have hpend : pending s.ppc = [] := by rcases hp with hp | hp <;> simp [hp, pending]
  simp [St.collected]
  simpa [hq, hpend, hu] using data

end QA

/-- C06 (A, safety): for EVERY payload, EVERY way the writer's output is cut into non-empty `os.read` results, and EVERY
interleaving of the producer thread, the polling consumer and the moment the final drain starts: if the drain loop is left
(`is_fully_read()` was observed true) then the fragments handed on are, joined, exactly the payload — complete, once, in order. -/
theorem C06_A_safety (chunks : List (List Nat)) (hne : ∀ c ∈ chunks, c ≠ []) (sched : List QReader.Tid)
    (hdone : (QReader.run (QReader.init chunks) sched).cpc = .done) :
    (QReader.run (QReader.init chunks) sched).collected = chunks.flatten :=
  QA.good_done (QA.good_run sched _ (QA.good_init chunks hne)) hdone

/-- at every moment of every run what was handed on is a prefix of the payload (nothing duplicated, nothing out of order,
even before the end) -/
theorem C06_A_prefix (chunks : List (List Nat)) (hne : ∀ c ∈ chunks, c ≠ []) (sched : List QReader.Tid) :
    ∃ rest, (QReader.run (QReader.init chunks) sched).collected ++ rest = chunks.flatten := by
  have g := QA.good_run sched _ (QA.good_init chunks hne)
  exact ⟨_, by simpa [QReader.St.collected, List.append_assoc] using g.data⟩

/-- non-vacuity: a schedule in which the consumer polls while the producer is still copying, then drains, and leaves the loop -/
example :
    let s := QReader.run (QReader.init [[97, 13], [10, 98, 10], [99]])
      [.P, .P, .C, .P, .C, .P, .D, .C, .C, .P, .P, .C, .C, .P, .P, .P, .C, .C, .C, .C, .C, .C, .C, .C, .C, .C]
    s.cpc = .done ∧ s.collected = [97, 13, 10, 98, 10, 99] ∧ s.frags = [[97, 13], [10], [98, 10], [99]] := by decide

/-- non-vacuity of the hypothesis `done`: without EOF the loop is not left -/
example : (QReader.run (QReader.init [[97]]) [.P, .P, .D, .C, .C, .C, .C, .C, .C, .C, .C]).cpc ≠ .done := by decide

/-! ## B. the in-memory buffer -/

namespace MB
open MemBuf

def q (s : St) : Nat :=
  match s.wpc with
  | .idle => s.pos
  | .told p => p
  | .atEnd p => p
  | .written p => p

def rem (s : St) : List (List Nat) :=
  match s.wpc with
  | .written _ => s.todo.tail
  | _ => s.todo

structure Good (payload : List Nat) (s : St) : Prop where
  deliv : s.delivered = s.buf.take (q s)
  le : q s ≤ s.buf.length
  told : ∀ p, s.wpc = .told p → s.pos = p
  atend : ∀ p, (s.wpc = .atEnd p ∨ s.wpc = .written p) → s.pos = s.buf.length
  data : s.buf ++ (rem s).flatten = payload
  busy : s.wpc ≠ .idle → s.todo ≠ []

theorem good_init (chunks : List (List Nat)) : Good chunks.flatten (init chunks) := by
  constructor <;> simp [init, q, rem]

theorem writeAt_end (buf c : List Nat) : writeAt buf buf.length c = buf ++ c := by
  simp [writeAt]

theorem good_stepW {payload s} (g : Good payload s) : Good payload (stepW s) := by
  obtain ⟨deliv, le, told, atend, data, busy⟩ := g
  unfold stepW
  split
  · rename_i hw
    split
    · exact ⟨deliv, le, told, atend, data, busy⟩
    · rename_i c t ht
      constructor <;> simp_all [q, rem]
  · rename_i p hw
    constructor <;> simp_all [q, rem]
  · rename_i p hw
    split
    · rename_i ht
      exact absurd ht (busy (by simp [hw]))
    · rename_i c t ht
      have hpos : s.pos = s.buf.length := atend p (Or.inl hw)
      constructor
      · simp only [q, hpos, writeAt_end]
        simp only [q, hw] at deliv le
        rw [deliv, List.take_append_of_le_length le]
      · simp only [q, hpos, writeAt_end]
        simp only [q, hw] at le
        simp; omega
      · intro p' h; simp at h
      · intro p' _; simp [hpos, writeAt_end]
      · simp only [rem, hpos, writeAt_end, ht, List.tail_cons]
        simp only [rem, hw, ht] at data
        simpa using data
      · intro _; simp [ht]
  · rename_i p hw
    constructor <;> simp_all [q, rem]

theorem good_stepR {payload s} (g : Good payload s) (k : Nat) (hw : ∀ p, s.wpc ≠ .told p) : Good payload (stepR s k) := by
  obtain ⟨deliv, le, told, atend, data, busy⟩ := g
  unfold stepR
  cases hwpc : s.wpc with
  | idle =>
    simp only [q, hwpc] at deliv le
    constructor
    · simp only [q, hwpc]
      rw [deliv, List.take_add]
      congr 1
      rw [List.length_take]
      exact (List.take_eq_take_min ..)
    · simp only [q, hwpc, List.length_take, List.length_drop]; omega
    · intro p h; simp [hwpc] at h
    · intro p h; simp [hwpc] at h
    · simpa [rem, hwpc] using data
    · intro h; simp [hwpc] at h
  | told p => exact absurd hwpc (hw p)
  | atEnd p =>
    have hpos : s.pos = s.buf.length := atend p (Or.inl hwpc)
    constructor <;> simp_all [q, rem]
  | written p =>
    have hpos : s.pos = s.buf.length := atend p (Or.inr hwpc)
    constructor <;> simp_all [q, rem]

theorem good_run {payload} (locked : Bool) (evs : List Ev) : ∀ s, Good payload s → tame locked s evs = true → Good payload (run locked s evs) := by
  induction evs with
  | nil => intro s g _; exact g
  | cons e es ih =>
    intro s g ht
    simp only [tame, Bool.and_eq_true, Bool.not_eq_true', Bool.and_eq_false_iff] at ht
    apply ih _ _ ht.2
    cases e with
    | W => exact good_stepW g
    | R k =>
      simp only [step]
      split
      · exact g
      · rename_i hl
        apply good_stepR g
        intro p hp
        rcases ht.1 with h | h
        · simp [inWindow, hp] at h
        · simp at h; subst h; simp [hp] at hl

theorem good_final {payload s} (g : Good payload s) (hi : s.wpc = .idle) (ht : s.todo = []) : final s = payload := by
  obtain ⟨deliv, le, told, atend, data, busy⟩ := g
  simp only [final, deliv, q, hi, List.take_append_drop]
  simpa [rem, hi, ht] using data

theorem tame_locked (evs : List Ev) : ∀ s, tame true s evs = true := by
  induction evs with
  | nil => intro s; rfl
  | cons e es ih => intro s; simp [tame, ih]

end MB

/-- C06 (B, partial): for EVERY chunking and EVERY interleaving of the writer's statements with reads of any size in which no
read lands between the writer's `tell()` and `seek(0, END)`: once the writer is finished, what the reader got plus what the
final `readlines()` returns is exactly the payload. -/
theorem C06_B_partial (chunks : List (List Nat)) (evs : List MemBuf.Ev)
    (htame : MemBuf.tame false (MemBuf.init chunks) evs = true)
    (hidle : (MemBuf.run false (MemBuf.init chunks) evs).wpc = .idle)
    (hdone : (MemBuf.run false (MemBuf.init chunks) evs).todo = []) :
    MemBuf.final (MemBuf.run false (MemBuf.init chunks) evs) = chunks.flatten :=
  MB.good_final (MB.good_run false evs _ (MB.good_init chunks) htame) hidle hdone

/-- C06 (B, the code as it is since /repo f545504): `iterraw` takes the writer's lock around `readlines`, so a read never
happens while the writer is inside `_alt_mode_writer` — EVERY interleaving is safe.  (The harness checks on every run that the
reader still takes the lock and drives the real threads through the counterexample's schedule: no duplicate may appear.) -/
theorem C06_B_locked (chunks : List (List Nat)) (evs : List MemBuf.Ev)
    (hidle : (MemBuf.run true (MemBuf.init chunks) evs).wpc = .idle)
    (hdone : (MemBuf.run true (MemBuf.init chunks) evs).todo = []) :
    MemBuf.final (MemBuf.run true (MemBuf.init chunks) evs) = chunks.flatten :=
  MB.good_final (MB.good_run true evs _ (MB.good_init chunks) (MB.tame_locked evs _)) hidle hdone

/-- C06 (B, behaviour of the PINNED SNAPSHOT, repaired in /repo f545504): with an unlocked reader the full statement is
false — chunks `a\n`, `b\n`; the reader runs once between the writer's `tell()` and `seek(0, END)` for the second chunk:
`a\n` is delivered twice.  Kept as the reason why the lock is needed (and as what a regression would look like). -/
theorem C06_B_cex :
    let evs : List MemBuf.Ev := [.W, .W, .W, .W, .W, .R 100, .W, .W, .W]
    let s := MemBuf.run false (MemBuf.init [[97, 10], [98, 10]]) evs
    s.wpc = .idle ∧ s.todo = [] ∧ MemBuf.final s = [97, 10, 97, 10, 98, 10] := by
  decide

/-- non-vacuity: a tame interleaving with reads while the writer works -/
example :
    let evs : List MemBuf.Ev := [.W, .W, .W, .W, .R 1, .W, .W, .R 100, .W, .R 1, .W, .R 0]
    MemBuf.tame false (MemBuf.init [[97, 10], [98, 10]]) evs = true ∧
    (MemBuf.run false (MemBuf.init [[97, 10], [98, 10]]) evs).wpc = .idle ∧
    MemBuf.final (MemBuf.run false (MemBuf.init [[97, 10], [98, 10]]) evs) = [97, 10, 98, 10] := by decide

/-- the counterexample's schedule is not tame, and under the lock the same schedule is harmless -/
example :
    let evs : List MemBuf.Ev := [.W, .W, .W, .W, .W, .R 100, .W, .W, .W]
    MemBuf.tame false (MemBuf.init [[97, 10], [98, 10]]) evs = false ∧
    MemBuf.final (MemBuf.run true (MemBuf.init [[97, 10], [98, 10]]) evs) = [97, 10, 98, 10] := by decide

/-! ## C. text shaping -/

namespace SH

theorem linesLFAux_pre (pre rest cur : List Nat) (h : ∀ x ∈ pre, x ≠ 10) :
    linesLFAux (pre ++ 10 :: rest) cur = (cur.reverse ++ pre ++ [10]) :: linesLFAux rest [] := by
  induction pre generalizing cur with
  | nil => simp [linesLFAux]
  | cons a as ih =>
    have ha : a ≠ 10 := h a (by simp)
    simp only [List.cons_append, linesLFAux, ha, if_false]
    rw [ih _ (fun x hx => h x (by simp [hx]))]
    simp

theorem linesLFAux_free (f cur : List Nat) (h : ∀ x ∈ f, x ≠ 10) :
    linesLFAux f cur = if (cur.reverse ++ f).isEmpty then [] else [cur.reverse ++ f] := by
  induction f generalizing cur with
  | nil => simp [linesLFAux]
  | cons a as ih =>
    have ha : a ≠ 10 := h a (by simp)
    simp only [linesLFAux, ha, if_false]
    rw [ih _ (fun x hx => h x (by simp [hx]))]
    simp

theorem linesLF_of_aligned (fs : List (List Nat)) (h : LFAligned fs) : linesLF fs.flatten = fs := by
  induction fs with
  | nil => simp [linesLF, linesLFAux]
  | cons f rest ih =>
    cases rest with
    | nil =>
      obtain ⟨hne, hfree⟩ := h
      simp only [List.flatten_cons, List.flatten_nil, List.append_nil, linesLF]
      rcases List.eq_nil_or_concat f with hnil | ⟨pre, x, hf⟩
      · exact absurd hnil hne
      · subst hf
        simp only [List.concat_eq_append, List.dropLast_concat] at hfree ⊢
        by_cases hx : x = 10
        · subst hx
          rw [linesLFAux_pre pre [] [] hfree]
          simp [linesLFAux]
        · rw [linesLFAux_free]
          · simp
          · intro y hy
            simp at hy
            rcases hy with hy | hy
            · exact hfree y hy
            · subst hy; exact hx
    | cons g rest' =>
      obtain ⟨⟨pre, hf, hfree⟩, hrest⟩ := h
      subst hf
      have := ih hrest
      simp only [linesLF] at this ⊢
      simp only [List.flatten_cons, List.append_assoc, List.singleton_append]
      rw [linesLFAux_pre pre _ [] hfree]
      simp only [List.flatten_cons] at this
      rw [this]
      simp

/-- whole-line fragmentations of the same bytes are the same fragmentation -/
theorem aligned_unique (fs gs : List (List Nat)) (hf : LFAligned fs) (hg : LFAligned gs) (h : fs.flatten = gs.flatten) : fs = gs := by
  rw [← linesLF_of_aligned fs hf, ← linesLF_of_aligned gs hg, h]

theorem decodeF_plain (l : List Nat) (h : ∀ x ∈ l, x < 128) : ∀ fuel, l.length ≤ fuel → decodeF fuel l = l := by
  induction l with
  | nil => intro fuel _; cases fuel <;> simp [decodeF]
  | cons a as ih =>
    intro fuel hf
    cases fuel with
    | zero => simp at hf
    | succ n =>
      have ha : a < 128 := h a (by simp)
      simp only [decodeF, ha, if_true]
      rw [ih (fun x hx => h x (by simp [hx])) n (by simpa using hf)]

theorem decodeU8_plain (l : List Nat) (h : ∀ x ∈ l, x < 128) : decodeU8 l = l :=
  decodeF_plain l h _ (Nat.le_refl _)

theorem matchAt_none (c : Nat) (rest : List Nat) (h1 : c ≠ 1) (h2 : c ≠ 155) (h3 : c ≠ 27) : matchAt (c :: rest) = none := by
  unfold matchAt
  split <;> simp_all

theorem stripEscF_plain (l : List Nat) (h : ∀ x ∈ l, x ≠ 1 ∧ x ≠ 155 ∧ x ≠ 27) : ∀ fuel, stripEscF fuel l = l := by
  induction l with
  | nil => intro fuel; cases fuel <;> simp [stripEscF]
  | cons a as ih =>
    intro fuel
    cases fuel with
    | zero => simp [stripEscF]
    | succ n =>
      have ⟨h1, h2, h3⟩ := h a (by simp)
      simp only [stripEscF, matchAt_none a as h1 h2 h3]
      rw [ih (fun x hx => h x (by simp [hx])) n]

theorem stripEsc_plain (l : List Nat) (h : ∀ x ∈ l, x ≠ 1 ∧ x ≠ 155 ∧ x ≠ 27) : stripEsc l = l :=
  stripEscF_plain l h _

theorem normNL_plain (l : List Nat) (h : ∀ x ∈ l, x ≠ 13) : normNL l = l := by
  induction l with
  | nil => simp [normNL]
  | cons a as ih =>
    have ha : a ≠ 13 := h a (by simp)
    have := ih (fun x hx => h x (by simp [hx]))
    unfold normNL
    split <;> simp_all

theorem fixEnd_plain (f : List Nat) (h : ∀ x ∈ f, x ≠ 13) : fixEnd f = f := by
  unfold fixEnd
  split
  · rename_i r hr
    have : (13 : Nat) ∈ f.reverse := by rw [hr]; simp
    exact absurd rfl (h 13 (by simpa using this))
  · rename_i r hr
    have : (13 : Nat) ∈ f.reverse := by rw [hr]; simp
    exact absurd rfl (h 13 (by simpa using this))
  · rfl

theorem plain_facts (l : List Nat) (h : ∀ x ∈ l, plainB x = true) :
    (∀ x ∈ l, x < 128) ∧ (∀ x ∈ l, x ≠ 1 ∧ x ≠ 155 ∧ x ≠ 27) ∧ (∀ x ∈ l, x ≠ 13) := by
  refine ⟨?_, ?_, ?_⟩ <;> intro x hx <;> have := h x hx <;> simp [plainB] at this <;> omega

theorem shapeFrag_plain (f : List Nat) (h : ∀ x ∈ f, plainB x = true) : shapeFrag f = f := by
  have ⟨h1, h2, h3⟩ := plain_facts f h
  simp [shapeFrag, fixEnd_plain f h3, decodeU8_plain f h1, stripEsc_plain f h2]

theorem specText_plain (b : List Nat) (h : ∀ x ∈ b, plainB x = true) : specText b = b := by
  have ⟨h1, h2, h3⟩ := plain_facts b h
  simp [specText, canon, decodeU8_plain b h1, normNL_plain b h3, stripEsc_plain b h2]

theorem objLines_plain (fs : List (List Nat)) (h : ∀ f ∈ fs, ∀ x ∈ f, plainB x = true) : objLines fs = fs := by
  induction fs with
  | nil => rfl
  | cons f rest ih =>
    simp only [objLines, List.map_cons]
    rw [shapeFrag_plain f (h f (by simp))]
    have := ih (fun g hg => h g (by simp [hg]))
    simp only [objLines] at this
    rw [this]

end SH

/-- C06 (C, partial — fragmentation independence): two fragmentations of the SAME bytes into whole lines give the same
`lines`, `.out` and `.raw_out`; i.e. as long as the reader hands on whole lines, the text views do not depend on chunking and
timing. -/
theorem C06_C_independent_partial (fs gs : List (List Nat)) (hf : LFAligned fs) (hg : LFAligned gs)
    (h : fs.flatten = gs.flatten) : objLines fs = objLines gs ∧ objOut fs = objOut gs ∧ objRaw fs = objRaw gs := by
  rw [SH.aligned_unique fs gs hf hg h]; exact ⟨rfl, rfl, rfl⟩

/-- C06 (C, plain text): for printable-ASCII text, iteration over ANY fragmentation yields exactly the bytes written, which is
also what the property's text is. -/
theorem C06_C_plain_exact (fs : List (List Nat)) (h : ∀ f ∈ fs, ∀ x ∈ f, plainB x = true) :
    (objLines fs).flatten = fs.flatten ∧ specText fs.flatten = fs.flatten ∧ specIter fs.flatten (objLines fs) = true := by
  have hfl : ∀ x ∈ fs.flatten, plainB x = true := by
    intro x hx
    obtain ⟨f, hf, hxf⟩ := List.mem_flatten.mp hx
    exact h f hf x hxf
  have h1 := SH.objLines_plain fs h
  have h2 := SH.specText_plain fs.flatten hfl
  refine ⟨by rw [h1], h2, ?_⟩
  simp only [specIter, h1, h2, canon]
  have ⟨_, h4, h5⟩ := SH.plain_facts fs.flatten hfl
  simp [SH.normNL_plain _ h5, SH.stripEsc_plain _ h4]

/-! ### the full statement is false: the same bytes, cut differently, give different text -/

/-- `a\r\n b\n` cut between `\r` and `\n`: a blank line appears -/
theorem C06_C_cex_crlf :
    objOut [[97, 13], [10, 98, 10]] = [97, 10, 10, 98, 10] ∧ objOut [[97, 13, 10], [98, 10]] = [97, 10, 98, 10] ∧
    specObjOut [97, 13, 10, 98, 10] (objOut [[97, 13], [10, 98, 10]]) = false := by decide

/-- `é\n` (C3 A9 0A) cut inside the two-byte sequence: two lone surrogates instead of U+00E9 -/
theorem C06_C_cex_multibyte :
    objOut [[195], [169, 10]] = [56515, 56489, 10] ∧ objOut [[195, 169, 10]] = [233] ∧
    specObjOut [195, 169, 10] (objOut [[195], [169, 10]]) = false := by decide

/-- `ESC[31mx\n` cut inside the escape sequence: it is not removed -/
theorem C06_C_cex_escape :
    objOut [[27, 91, 51], [49, 109, 120, 10]] = [27, 91, 51, 49, 109, 120, 10] ∧ objOut [[27, 91, 51, 49, 109, 120, 10]] = [120] := by decide

/-- a one-line output delivered as `a` and `\n` keeps its newline; delivered in one piece it loses it -/
theorem C06_C_cex_oneline : objOut [[97], [10]] = [97, 10] ∧ objOut [[97, 10]] = [97] := by decide

/-- `\r\r\n` inside one fragment: only the last `\r\n` is turned into `\n`, the `\r` before it stays, and normalising the view
gives one line break where the bytes have two -/
theorem C06_C_cex_crcrlf :
    objOut [[97, 13, 13, 10], [98, 10]] = [97, 13, 10, 98, 10] ∧ specObjOut [97, 13, 13, 10, 98, 10] (objOut [[97, 13, 13, 10], [98, 10]]) = false := by decide

/-- `a\rb\n` arriving as ONE fragment (the BytesIO path breaks at `\n` only): "one line" is decided by counting fragments, so
the final newline is dropped although the normalised text has two lines -/
theorem C06_C_cex_cr_onefragment :
    objOut [[97, 13, 98, 10]] = [97, 13, 98] ∧ specObjOut [97, 13, 98, 10] (objOut [[97, 13, 98, 10]]) = false ∧
    specObjOut [97, 13, 98, 10] (objOut [[97, 13], [98, 10]]) = true := by decide

/-- `$()`: a one-line output that contains a vertical tab keeps its final newline (`str.splitlines` breaks at `\v`) -/
theorem C06_C_cex_stdout_vt :
    stdoutOut [97, 11, 98, 10] = [97, 11, 98, 10] ∧ specStdout [97, 11, 98, 10] (stdoutOut [97, 11, 98, 10]) = false ∧
    specStdout [97, 11, 98, 10] [97, 11, 98] = true := by decide

/-! ### the `$()` path and the return code -/

/-- C06 (C, `$()` path): `iterraw` joins everything the queue reader delivered BEFORE decoding, so for every chunking and every
schedule the value of `$()` is a function of the payload alone. -/
theorem C06_C_stdout_path (chunks : List (List Nat)) (hne : ∀ c ∈ chunks, c ≠ []) (sched : List QReader.Tid)
    (hdone : (QReader.run (QReader.init chunks) sched).cpc = .done) :
    stdoutOut (QReader.run (QReader.init chunks) sched).collected = stdoutOut chunks.flatten := by
  rw [C06_A_safety chunks hne sched hdone]

/-- the `!()` path end to end: for every chunking and schedule `.raw_out` is the payload -/
theorem C06_raw_out (chunks : List (List Nat)) (hne : ∀ c ∈ chunks, c ≠ []) (sched : List QReader.Tid)
    (hdone : (QReader.run (QReader.init chunks) sched).cpc = .done) :
    specRaw chunks.flatten (objRaw (QReader.run (QReader.init chunks) sched).frags) = true := by
  have := C06_A_safety chunks hne sched hdone
  simp only [QReader.St.collected] at this
  simp [specRaw, objRaw, this]

namespace SH
theorem strSplitAux_free (t cur : List Nat) (h : ∀ x ∈ t, isStrBreak x = false) :
    strSplitAux (t ++ [10]) cur = [cur.reverse ++ t ++ [10]] := by
  induction t generalizing cur with
  | nil => simp [strSplitAux, isStrBreak]
  | cons a as ih =>
    have ha : isStrBreak a = false := h a (by simp)
    simp only [List.cons_append, strSplitAux, ha, Bool.false_eq_true, if_false]
    rw [ih _ (fun x hx => h x (by simp [hx]))]
    simp

theorem strSplitAux_free' (t cur : List Nat) (h : ∀ x ∈ t, isStrBreak x = false) (hne : t ≠ []) :
    strSplitAux t cur = [cur.reverse ++ t] := by
  induction t generalizing cur with
  | nil => exact absurd rfl hne
  | cons a as ih =>
    have ha : isStrBreak a = false := h a (by simp)
    simp only [strSplitAux, ha, Bool.false_eq_true, if_false]
    cases as with
    | nil => simp [strSplitAux]
    | cons b bs =>
      rw [ih _ (fun x hx => h x (by simp [hx])) (by simp)]
      simp

theorem dropWhile_free (l : List Nat) (h : ∀ x ∈ l, x ≠ 10) : l.dropWhile (· == 10) = l := by
  cases l with
  | nil => rfl
  | cons a as =>
    have : (a == 10) = false := by simpa using h a (by simp)
    simp [List.dropWhile, this]

theorem rstripNL_line (t : List Nat) (h : ∀ x ∈ t, x ≠ 10) : rstripNL (t ++ [10]) = t ∧ rstripNL t = t := by
  have hr : ∀ x ∈ t.reverse, x ≠ 10 := fun x hx => h x (by simpa using hx)
  constructor
  · simp [rstripNL, List.dropWhile, dropWhile_free _ hr]
  · simp [rstripNL, dropWhile_free _ hr]
end SH

/-- C06 (C, `$()` one line): a one-line plain text loses exactly its final newline, with or without one it comes out as the
line itself — and that is what the property's text says. -/
theorem C06_C_stdout_oneline (t : List Nat) (hp : ∀ x ∈ t, plainB x = true) (hl : ∀ x ∈ t, x ≠ 10) (hne : t ≠ []) :
    stdoutOut (t ++ [10]) = t ∧ stdoutOut t = t := by
  have ⟨h1, _, h3⟩ := SH.plain_facts t hp
  have hbrk : ∀ x ∈ t, isStrBreak x = false := by
    intro x hx
    have := hp x hx
    have := hl x hx
    simp [plainB] at *
    simp [isStrBreak]
    omega
  have hp' : ∀ x ∈ t ++ [10], plainB x = true := by
    intro x hx
    simp at hx
    rcases hx with hx | hx
    · exact hp x hx
    · subst hx; decide
  have ⟨h1', _, h3'⟩ := SH.plain_facts _ hp'
  constructor
  · simp only [stdoutOut, stdoutLines, SH.decodeU8_plain _ h1', SH.normNL_plain _ h3', strSplitLines]
    rw [SH.strSplitAux_free t [] hbrk]
    simp only [fmtLines, List.reverse_nil, List.nil_append]
    exact (SH.rstripNL_line t hl).1
  · simp only [stdoutOut, stdoutLines, SH.decodeU8_plain _ h1, SH.normNL_plain _ h3, strSplitLines]
    rw [SH.strSplitAux_free' t [] hbrk hne]
    simp only [fmtLines, List.reverse_nil, List.nil_append]
    exact (SH.rstripNL_line t hl).2

/-- non-vacuity -/
example : stdoutOut [104, 105, 10] = [104, 105] ∧ specStdout [104, 105, 10] (stdoutOut [104, 105, 10]) = true ∧
    stdoutOut [97, 10, 98, 10] = [97, 10, 98, 10] ∧ specStdout [97, 10, 98, 10] (stdoutOut [97, 10, 98, 10]) = true := by decide

/-! ## the `output` view over a history of reads -/
namespace HI
open Capture.Hist

/-- invariant: once ended, the cache (if any) is the formatted text of ALL lines -/
theorem run_after_end (ops : List Op) : ∀ (c : Option (List Nat)) (ls : List (List Nat)), (c = none ∨ c = some (fmtLines ls)) →
    ∀ r ∈ run false ⟨true, c, ls⟩ ops, r = (true, fmtLines ls) := by
  induction ops with
  | nil => intro c ls _ r hr; simp [run] at hr
  | cons op ops ih =>
    intro c ls hc r hr
    cases op with
    | deliver l =>
      simp only [run, step, if_true] at hr
      exact ih c ls hc r hr
    | finish =>
      simp only [run, step] at hr
      exact ih c ls hc r hr
    | read =>
      rcases hc with hc | hc
      · subst hc
        simp only [run, step, Bool.false_eq_true, if_false, if_true, List.mem_cons] at hr
        rcases hr with hr | hr
        · exact hr
        · exact ih _ ls (Or.inr rfl) r hr
      · subst hc
        simp only [run, step, Bool.false_eq_true, if_false, if_true, List.mem_cons] at hr
        rcases hr with hr | hr
        · exact hr
        · exact ih _ ls (Or.inr rfl) r hr

theorem delivered_true (ops : List Op) : delivered true ops = [] := by
  induction ops with
  | nil => rfl
  | cons o os ih => simpa [delivered] using ih

theorem run_general (ops : List Op) : ∀ (ls : List (List Nat)),
    ∀ r ∈ run false ⟨false, none, ls⟩ ops, (r.1 = true → r.2 = fmtLines (ls ++ delivered false ops)) ∧
      (r.1 = false → ∃ k, r.2 = fmtLines (ls ++ (delivered false ops).take k)) := by
  induction ops with
  | nil => intro ls r hr; simp [run] at hr
  | cons op ops ih =>
    intro ls r hr
    cases op with
    | deliver l =>
      simp only [run, step, Bool.false_eq_true, if_false] at hr
      have := ih (ls ++ [l]) r hr
      simp only [delivered, List.append_assoc, List.singleton_append] at this ⊢
      refine ⟨this.1, fun h => ?_⟩
      obtain ⟨k, hk⟩ := this.2 h
      exact ⟨k + 1, by simpa using hk⟩
    | finish =>
      simp only [run, step] at hr
      have h1 := run_after_end ops none ls (Or.inl rfl) r hr
      simp only [delivered, delivered_true, List.append_nil]
      subst h1
      exact ⟨fun _ => rfl, fun h => by simp at h⟩
    | read =>
      simp only [run, step, Bool.false_eq_true, if_false, List.mem_cons] at hr
      rcases hr with hr | hr
      · subst hr
        exact ⟨fun h => by simp at h, fun _ => ⟨0, by simp⟩⟩
      · simpa [delivered] using ih ls r hr

end HI

/-- C06 (history of views): whatever was read before — `.output` right after creation, in the middle of an iteration, any
number of times — every read AFTER the pipeline has ended (`.out`, `str()`, `==`, `.output`) is the formatted text of ALL the
lines delivered, and every read BEFORE the end is the formatted text of a prefix of them. -/
theorem C06_H_reads (ops : List Hist.Op) :
    ∀ r ∈ Hist.run false Hist.init ops,
      (r.1 = true → r.2 = fmtLines (Hist.delivered false ops)) ∧
      (r.1 = false → ∃ k, r.2 = fmtLines ((Hist.delivered false ops).take k)) := by
  intro r hr
  simpa [Hist.init] using HI.run_general ops [] r hr

/-- non-vacuity, and what caching an early read would do: `.output` after one of two lines, then `.out` after the end — the
machine of the code returns both lines, the early-caching variant keeps returning the first -/
theorem C06_H_cex_stale_cache :
    Hist.run false Hist.init [.deliver [97, 10], .read, .deliver [98, 10], .finish, .read] = [(false, [97]), (true, [97, 10, 98, 10])] ∧
    Hist.run true Hist.init [.deliver [97, 10], .read, .deliver [98, 10], .finish, .read] = [(false, [97]), (true, [97])] := by decide

open Capture.Rtn in
/-- C06 (return code): whatever runs before it, the pipeline's return code is the LAST stage's: the exit status of a process,
or for a callable alias what `parse_proxy_return` makes of its return value. -/
theorem C06_rtn (pre : List Stage) (last : Stage) : pipelineRc (pre ++ [last]) = stageRc last := by
  simp [pipelineRc]

open Capture.Rtn in
/-- the alias return-value table: int ↦ itself, `(out, err, rc)` ↦ `rc`, str / None / other object ↦ 0, `SystemExit(n)` ↦ `n`,
an exception ↦ 1 -/
theorem C06_rtn_alias_table (n : Int) :
    aliasRc (.int n) = n ∧ aliasRc (.tuple (some n)) = n ∧ aliasRc .none = 0 ∧ aliasRc .str = 0 ∧ aliasRc (.tuple none) = 0 ∧
    aliasRc .other = 0 ∧ aliasRc (.exit (some n) true) = n ∧ aliasRc (.exit none true) = 1 ∧ aliasRc (.exit none false) = 0 ∧
    aliasRc .raised = 1 := by
  simp [aliasRc]

open Capture.Rtn in
example : pipelineRc [.proc 3, .alias (.int 0), .proc 7] = 7 ∧ pipelineRc [.proc 0, .alias (.tuple (some 5))] = 5 ∧
    pipestatus [.proc 3, .alias .str] = [3, 0] := by decide
