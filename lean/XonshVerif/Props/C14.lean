/-
C14 — History garbage collection only ever discards the oldest, unlocked history.

Obligations about the code AS TRANSLATED from /repo on this run (`Gen/HistGc.lean`):
  tie_*        each translated loop body is pointwise the recursive twin's body
  refines_*    each translated selection function equals the SPEC (`HistGc.specRemoved`)
  C14_*        the property's clauses, for all file lists and all limits
-/
import XonshVerif.Gen.HistGc
import XonshVerif.Lemmas.HistGc
open HistGc Py

namespace C14
abbrev gcCommands := Gen.HistGc.gcCommands
abbrev gcFiles := Gen.HistGc.gcFiles
abbrev gcSeconds := Gen.HistGc.gcSeconds
abbrev gcBytes := Gen.HistGc.gcBytes
end C14
open C14

/-! ## tie: translated loop bodies = twins -/

theorem C14_tie_commands_loop1 (hsize : Int) (it : F) (st : Int × Int) :
    Gen.HistGc.gcCommands_loop1 hsize it st = cumBody ncmds hsize it st := by
  unfold Gen.HistGc.gcCommands_loop1 cumBody ncmds
  grind

theorem C14_tie_commands_loop2 (it : F) (st : Int) :
    Gen.HistGc.gcCommands_loop2 it st = sumBody ncmds it st := by
  unfold Gen.HistGc.gcCommands_loop2 sumBody ncmds; grind

theorem C14_tie_bytes_loop1 (hsize : Int) (it : F) (st : Int × Int) :
    Gen.HistGc.gcBytes_loop1 hsize it st = cumBody fsize hsize it st := by
  unfold Gen.HistGc.gcBytes_loop1 cumBody fsize
  grind

theorem C14_tie_bytes_loop2 (it : F) (st : Int) :
    Gen.HistGc.gcBytes_loop2 it st = sumBody fsize it st := by
  unfold Gen.HistGc.gcBytes_loop2 sumBody fsize; grind

theorem C14_tie_seconds_loop1 (hsize now : Int) (it : F) (st : Int) :
    Gen.HistGc.gcSeconds_loop1 hsize now it st = oldBody hsize now it st := by
  unfold Gen.HistGc.gcSeconds_loop1 oldBody ts
  grind

/-! ## spec lemmas -/

theorem specRemoved_commands (limit now : Int) (fs : List F) :
    specRemoved .commands limit now fs = cumSpec ncmds limit fs := by
  induction fs with
  | nil => rfl
  | cons f fs ih => simp [specRemoved, cumSpec, fits, ih]

theorem specRemoved_bytes (limit now : Int) (fs : List F) :
    specRemoved .bytes limit now fs = cumSpec fsize limit fs := by
  induction fs with
  | nil => rfl
  | cons f fs ih => simp [specRemoved, cumSpec, fits, ih]

/-- the shared shape of `_xhj_gc_commands_to_rmfiles` / `_xhj_gc_bytes_to_rmfiles` -/
theorem cum_function_is_spec (w : F → Int) (hsize : Int) (files : List F)
    (hn : ∀ f ∈ files, 0 ≤ w f) :
    (let st1 := loopBreak files.reverse ((0 : Int), (0 : Int)) (cumBody w hsize)
     let n := st1.1
     let removed := if decide (n > 0) then sliceTo files (-n) else files
     (loopBreak removed (0 : Int) (sumBody w), removed))
      = (sumW w (cumSpec w hsize files), cumSpec w hsize files) := by
  simp only [loop_cum, loop_sum]
  have hk := fitCount_le w hsize files.reverse 0
  simp only [List.length_reverse] at hk
  have hspec := cum_is_spec w hsize files hn
  by_cases hpos : fitCount w hsize files.reverse 0 > 0
  · have h1 : ((0 : Int) + (fitCount w hsize files.reverse 0 : Int) > 0) := by omega
    simp only [h1, decide_true, if_true]
    have : (0 : Int) + (fitCount w hsize files.reverse 0 : Int) = ((fitCount w hsize files.reverse 0 : Nat) : Int) := by omega
    rw [this, sliceTo_negSucc _ _ hpos, hspec]; simp
  · have h0 : fitCount w hsize files.reverse 0 = 0 := by omega
    have h1 : ¬ ((0 : Int) + (fitCount w hsize files.reverse 0 : Int) > 0) := by omega
    simp only [h1, decide_false]
    rw [h0] at hspec
    simp at hspec
    simp [← hspec]

/-! ## refinement: the translated functions are the spec -/

theorem C14_refines_commands (hsize now : Int) (files : List F) (hn : ∀ f ∈ files, 0 ≤ ncmds f) :
    gcCommands hsize files =
      (specSizeOver .commands hsize now (specRemoved .commands hsize now files),
       specRemoved .commands hsize now files) := by
  have h := cum_function_is_spec ncmds hsize files hn
  have e1 : Gen.HistGc.gcCommands_loop1 hsize = cumBody ncmds hsize := by
    funext it st; exact C14_tie_commands_loop1 hsize it st
  have e2 : Gen.HistGc.gcCommands_loop2 = sumBody ncmds := by
    funext it st; exact C14_tie_commands_loop2 it st
  unfold C14.gcCommands Gen.HistGc.gcCommands
  simp only [e1, e2, specRemoved_commands, specSizeOver]
  simp only [] at h
  exact h

theorem C14_refines_bytes (hsize now : Int) (files : List F) (hn : ∀ f ∈ files, 0 ≤ fsize f) :
    gcBytes hsize files =
      (specSizeOver .bytes hsize now (specRemoved .bytes hsize now files),
       specRemoved .bytes hsize now files) := by
  have h := cum_function_is_spec fsize hsize files hn
  have e1 : Gen.HistGc.gcBytes_loop1 hsize = cumBody fsize hsize := by
    funext it st; exact C14_tie_bytes_loop1 hsize it st
  have e2 : Gen.HistGc.gcBytes_loop2 = sumBody fsize := by
    funext it st; exact C14_tie_bytes_loop2 it st
  unfold C14.gcBytes Gen.HistGc.gcBytes
  simp only [e1, e2, specRemoved_bytes, specSizeOver]
  simp only [] at h
  exact h

theorem old_is_spec (limit now : Int) (files : List F) (hs : SortedTs files) :
    files.take (oldCount limit now files) = specRemoved .seconds limit now files := by
  induction files with
  | nil => simp [specRemoved]
  | cons f fs ih =>
    have hs' : SortedTs fs := (List.pairwise_cons.mp hs).2
    have hle : ∀ g ∈ fs, ts f ≤ ts g := (List.pairwise_cons.mp hs).1
    by_cases hy : now - ts f < limit
    · have : fits .seconds limit now (f :: fs) = true := by
        simp only [fits, List.all_cons, hy, decide_true, Bool.true_and, List.all_eq_true, decide_eq_true_eq]
        intro g hg; have := hle g hg; omega
      simp [oldCount, hy, specRemoved, this]
    · have : fits .seconds limit now (f :: fs) = false := by
        simp [fits, hy]
      have e : 1 + oldCount limit now fs = oldCount limit now fs + 1 := by omega
      simp only [oldCount, hy, if_false, specRemoved, this, e, List.take_succ_cons, ih hs']
      simp

theorem C14_refines_seconds (hsize now : Int) (files : List F) (hs : SortedTs files) :
    gcSeconds hsize files now =
      (specSizeOver .seconds hsize now (specRemoved .seconds hsize now files),
       specRemoved .seconds hsize now files) := by
  have e1 : Gen.HistGc.gcSeconds_loop1 hsize now = oldBody hsize now := by
    funext it st; exact C14_tie_seconds_loop1 hsize now it st
  unfold C14.gcSeconds Gen.HistGc.gcSeconds
  simp only [e1, loop_old, sliceTo_nonneg, Int.zero_add]
  rw [← old_is_spec hsize now files hs]
  cases files with
  | nil => simp [oldCount, specSizeOver]
  | cons f fs =>
    by_cases hy : now - ts f < hsize
    · simp [oldCount, hy, specSizeOver]
    · have e : 1 + oldCount hsize now fs = oldCount hsize now fs + 1 := by omega
      simp only [oldCount, hy, if_false, e, List.take_succ_cons, specSizeOver, idx]
      simp [ts]

theorem files_spec (limit now : Int) (files : List F) (h0 : 0 ≤ limit) :
    specRemoved .files limit now files = files.take (files.length - limit.toNat) := by
  induction files with
  | nil => simp [specRemoved]
  | cons f fs ih =>
    by_cases hf : ((f :: fs).length : Int) ≤ limit
    · have : (f :: fs).length - limit.toNat = 0 := by simp at hf ⊢; omega
      simp only [specRemoved, fits, hf, decide_true, if_true, this, List.take_zero]
    · have : (f :: fs).length - limit.toNat = (fs.length - limit.toNat) + 1 := by simp at hf ⊢; omega
      simp only [specRemoved, fits, hf, decide_false, this, List.take_succ_cons, ih]
      simp

/-- `_xhj_gc_files_to_rmfiles` — for every limit ≥ 0, *including 0* -/
theorem C14_refines_files (hsize now : Int) (files : List F) (h0 : 0 ≤ hsize) :
    gcFiles hsize files =
      (specSizeOver .files hsize now (specRemoved .files hsize now files),
       specRemoved .files hsize now files) := by
  unfold C14.gcFiles Gen.HistGc.gcFiles
  simp only [files_spec hsize now files h0, specSizeOver, Py.len]
  by_cases hgt : (files.length : Int) > hsize
  · have e : (files.length : Int) - hsize = ((files.length - hsize.toNat : Nat) : Int) := by omega
    simp only [hgt, decide_true, if_true, e, sliceTo_nonneg]
  · have e : files.length - hsize.toNat = 0 := by omega
    simp [hgt, e]

/-! ## the whole GC pass, as the code composes it (dispatch table, lock filter, refuse rule) -/

/-- the dispatch table in `JsonHistoryGC.__init__` maps each canonical unit to its function -/
theorem C14_dispatch_table :
    Gen.HistGc.gcDispatch =
      [("commands", "gcCommands"), ("files", "gcFiles"), ("s", "gcSeconds"), ("b", "gcBytes")] := by
  decide

def cands (all : List (F × Bool)) : List F :=
  (all.filter (fun p => !Gen.HistGc.gcSkips true p.2)).map (·.1)

def select (u : Units) (hsize now : Int) (cs : List F) : Int × List F :=
  match u with
  | .commands => gcCommands hsize cs
  | .files => gcFiles hsize cs
  | .seconds => gcSeconds hsize cs now
  | .bytes => gcBytes hsize cs

/-- files deleted by `JsonHistoryGC.run` given the (file, locked) pairs of the data dir -/
def codeRun (u : Units) (force : Bool) (hsize now : Int) (all : List (F × Bool)) : List F :=
  let r := select u hsize now (cands all)
  if Gen.HistGc.gcProceeds force r.1 hsize then r.2 else []

/-- what is true of every real data dir: a limit is not negative, counts and sizes are not
negative, and `files.sort()` has put the candidates oldest first -/
structure WF (hsize : Int) (cs : List F) : Prop where
  limit : 0 ≤ hsize
  nonneg : ∀ f ∈ cs, 0 ≤ ncmds f ∧ 0 ≤ fsize f
  sorted : SortedTs cs

theorem C14_select_refines (u : Units) (hsize now : Int) (cs : List F) (wf : WF hsize cs) :
    select u hsize now cs =
      (specSizeOver u hsize now (specRemoved u hsize now cs), specRemoved u hsize now cs) := by
  cases u with
  | commands => exact C14_refines_commands hsize now cs (fun f hf => (wf.nonneg f hf).1)
  | files => exact C14_refines_files hsize now cs wf.limit
  | seconds => exact C14_refines_seconds hsize now cs wf.sorted
  | bytes => exact C14_refines_bytes hsize now cs (fun f hf => (wf.nonneg f hf).2)

theorem cands_eq (all : List (F × Bool)) :
    cands all = (all.filter (fun p => !p.2)).map (·.1) := by
  unfold cands Gen.HistGc.gcSkips; simp

/-- REFINEMENT: the code's GC pass deletes exactly what the spec's pass deletes -/
theorem C14_run_refines (u : Units) (force : Bool) (hsize now : Int) (all : List (F × Bool))
    (wf : WF hsize (cands all)) :
    codeRun u force hsize now all = specRun u force hsize now all := by
  unfold codeRun specRun
  rw [C14_select_refines u hsize now _ wf, ← cands_eq]
  unfold Gen.HistGc.gcProceeds
  simp

/-! ## the clauses of the property, over the spec (all units, all limits, all lists) -/

/-- strictly oldest-first: what is discarded is a prefix of the oldest-first list -/
theorem C14_prefix (u : Units) (l n : Int) (fs : List F) :
    specRemoved u l n fs = fs.take (specRemoved u l n fs).length := by
  induction fs with
  | nil => simp [specRemoved]
  | cons f fs ih =>
    simp only [specRemoved]
    split
    · simp
    · simp only [List.length_cons, List.take_succ_cons]; rw [← ih]

/-- the kept set is the LARGEST set of newest files that fits: keeping any more does not fit -/
theorem C14_maximal (u : Units) (l n : Int) (fs : List F) (j : Nat)
    (hj : j < (specRemoved u l n fs).length) : fits u l n (fs.drop j) = false := by
  induction fs generalizing j with
  | nil => simp [specRemoved] at hj
  | cons f fs ih =>
    simp only [specRemoved] at hj
    split at hj
    · simp at hj
    · rename_i hfit
      cases j with
      | zero => simpa using hfit
      | succ j => simp only [List.drop_succ_cons]; exact ih j (by simpa using hj)

theorem fits_nil (u : Units) (l n : Int) (h0 : 0 ≤ l) : fits u l n [] = true := by
  cases u <;> simp [fits, sumW, h0]

/-- what is kept fits the limit -/
theorem C14_fits (u : Units) (l n : Int) (fs : List F) (h0 : 0 ≤ l) :
    fits u l n (fs.drop (specRemoved u l n fs).length) = true := by
  induction fs with
  | nil => simpa [specRemoved] using fits_nil u l n h0
  | cons f fs ih =>
    simp only [specRemoved]
    split
    · rename_i h; simpa using h
    · simpa using ih

/-- nothing is deleted when the history is already within the limit -/
theorem C14_noop_within_limit (u : Units) (l n : Int) (fs : List F)
    (h : fits u l n fs = true) : specRemoved u l n fs = [] := by
  cases fs with
  | nil => rfl
  | cons f fs => simp [specRemoved, h]

/-! ## the same clauses for the CODE's pass (via the refinement) -/

theorem C14_code_oldest_first (u : Units) (force : Bool) (hsize now : Int) (all : List (F × Bool))
    (wf : WF hsize (cands all)) :
    ∃ k, codeRun u force hsize now all = (cands all).take k := by
  rw [C14_run_refines u force hsize now all wf, cands_eq]
  unfold specRun
  simp only []
  split
  · exact ⟨_, C14_prefix u hsize now _⟩
  · exact ⟨0, by simp⟩

/-- the file of a live (locked) session is never deleted: every deleted file was listed unlocked -/
theorem C14_locked_never (u : Units) (force : Bool) (hsize now : Int) (all : List (F × Bool))
    (wf : WF hsize (cands all)) (x : F) (hx : x ∈ codeRun u force hsize now all) :
    (x, false) ∈ all := by
  obtain ⟨k, hk⟩ := C14_code_oldest_first u force hsize now all wf
  rw [hk, cands_eq] at hx
  have := List.mem_of_mem_take hx
  simp only [List.mem_map, List.mem_filter] at this
  obtain ⟨⟨a, b⟩, ⟨hm, hb⟩, rfl⟩ := this
  simp at hb
  subst hb
  exact hm

/-- unless forced, GC refuses when the units it would discard reach the limit it keeps -/
theorem C14_refuse (u : Units) (hsize now : Int) (all : List (F × Bool))
    (wf : WF hsize (cands all))
    (hover : specSizeOver u hsize now (specRemoved u hsize now (cands all)) ≥ hsize) :
    codeRun u false hsize now all = [] := by
  rw [C14_run_refines u false hsize now all wf]
  unfold specRun
  rw [← cands_eq]
  have : ¬ (specSizeOver u hsize now (specRemoved u hsize now (cands all)) < hsize) := by omega
  simp [this]

/-- when it does run (forced, or below the refuse threshold) the kept candidates fit, and they are
the largest fitting set of newest candidates -/
theorem C14_code_keeps_largest_fitting (u : Units) (hsize now : Int) (all : List (F × Bool))
    (wf : WF hsize (cands all)) :
    let del := codeRun u true hsize now all
    del = (cands all).take del.length ∧
    fits u hsize now ((cands all).drop del.length) = true ∧
    ∀ j, j < del.length → fits u hsize now ((cands all).drop j) = false := by
  have e : codeRun u true hsize now all = specRemoved u hsize now (cands all) := by
    rw [C14_run_refines u true hsize now all wf]; unfold specRun; rw [← cands_eq]; simp
  simp only [e]
  exact ⟨C14_prefix u hsize now _, C14_fits u hsize now _ wf.limit, fun j hj => C14_maximal u hsize now _ j hj⟩

/-! ## non-vacuity: the hypotheses are met by a concrete, non-trivial data dir -/

example : WF 3 (cands [((10, 2, 1, 100), false), ((20, 5, 2, 300), true), ((30, 2, 3, 50), false)]) := by
  refine ⟨by decide, ?_, ?_⟩
  · intro f hf; simp [cands, Gen.HistGc.gcSkips] at hf; rcases hf with rfl | rfl <;> decide
  · simp [cands, Gen.HistGc.gcSkips, SortedTs, ts]

example : specRun .commands true 3 0 [((10, 2, 1, 100), false), ((20, 5, 2, 300), true), ((30, 2, 3, 50), false)]
    = [(10, 2, 1, 100)] := by decide

/-! ## SQLite keep-newest-N (hand model `HistGc.sqlKept` of `_xh_sqlite_delete_records`) -/

def descLe (a b : Int) : Bool := decide (b ≤ a)

theorem sorted_desc (rows : List Int) : (rows.mergeSort descLe).Pairwise (fun a b => b ≤ a) := by
  have h := List.pairwise_mergeSort (le := descLe)
    (by intro a b c; simp [descLe]; omega) (by intro a b; simp [descLe]; omega) rows
  exact h.imp (by intro a b; simp [descLe])

theorem sqlKept_eq (n : Nat) (rows : List Int) :
    sqlKept n rows =
      match ((rows.mergeSort descLe).take n).getLast? with
      | none => []
      | some t => rows.filter (fun r => !decide (r < t)) := by
  unfold sqlKept sqlThreshold descLe; rfl

/-- everything SQLite deletes is strictly older than everything it keeps -/
theorem C14_sql_deleted_older (n : Nat) (rows : List Int) (d k : Int)
    (hd : d ∈ rows) (hnd : d ∉ sqlKept n rows) (hk : k ∈ sqlKept n rows) : d < k := by
  rw [sqlKept_eq] at hnd hk
  split at hnd
  · rename_i hn; rw [hn] at hk; cases hk
  · rename_i t ht
    rw [ht] at hk
    simp only [List.mem_filter, Bool.not_eq_true', decide_eq_false_iff_not] at hnd hk
    have : d < t := by
      by_cases h : d < t
      · exact h
      · exact absurd ⟨hd, h⟩ hnd
    omega

/-- nothing is invented: the surviving rows are a sub-list of the table -/
theorem C14_sql_sublist (n : Nat) (rows : List Int) : (sqlKept n rows).Sublist rows := by
  rw [sqlKept_eq]
  split
  · exact List.nil_sublist _
  · exact List.filter_sublist

theorem take_all_ge_last (s : List Int) (hs : s.Pairwise (fun a b => b ≤ a)) (n : Nat) (t : Int)
    (ht : (s.take n).getLast? = some t) : ∀ x ∈ s.take n, t ≤ x := by
  intro x hx
  have hp : (s.take n).Pairwise (fun a b => b ≤ a) := hs.sublist (List.take_sublist n s)
  obtain ⟨l', hl'⟩ : ∃ l', s.take n = l' ++ [t] := by
    have := List.getLast?_eq_some_iff.mp ht
    obtain ⟨ys, hys⟩ := this
    exact ⟨ys, hys⟩
  rw [hl'] at hx hp
  rcases List.mem_append.mp hx with h | h
  · exact (List.pairwise_append.mp hp).2.2 x h t (by simp)
  · simp at h; omega

/-- at least the newest N commands survive (all of them when the table is smaller) -/
theorem C14_sql_keeps_at_least (n : Nat) (rows : List Int) :
    min n rows.length ≤ (sqlKept n rows).length := by
  rw [sqlKept_eq]
  split
  · rename_i hn
    -- no threshold: N = 0 or the table is empty
    have hperm : (rows.mergeSort descLe).Perm rows := List.mergeSort_perm rows descLe
    have h0 : ((rows.mergeSort descLe).take n) = [] := List.getLast?_eq_none_iff.mp hn
    have h1 : ((rows.mergeSort descLe).take n).length = min n rows.length := by
      simp [List.length_take, hperm.length_eq]
    rw [h0] at h1
    simp only [List.length_nil] at h1 ⊢
    omega
  · rename_i t ht
    have hs := sorted_desc rows
    have hperm : (rows.mergeSort descLe).Perm rows := List.mergeSort_perm rows descLe
    have hall := take_all_ge_last _ hs n t ht
    have h1 : (rows.filter (fun r => !decide (r < t))).length =
        ((rows.mergeSort descLe).filter (fun r => !decide (r < t))).length :=
      (hperm.filter _).length_eq.symm
    have h2 : (((rows.mergeSort descLe).take n).filter (fun r => !decide (r < t))).Sublist
        ((rows.mergeSort descLe).filter (fun r => !decide (r < t))) :=
      (List.take_sublist n _).filter _
    have h3 : ((rows.mergeSort descLe).take n).filter (fun r => !decide (r < t)) =
        (rows.mergeSort descLe).take n := by
      apply List.filter_eq_self.mpr
      intro x hx; have := hall x hx; simp; omega
    rw [h3] at h2
    have h4 := h2.length_le
    have h5 : ((rows.mergeSort descLe).take n).length = min n rows.length := by
      simp [List.length_take, hperm.length_eq]
    omega

/-- a limit of 0 commands keeps nothing (repaired; `sqlite-keep-zero`) -/
theorem C14_sql_zero (rows : List Int) : sqlKept 0 rows = [] := by
  rw [sqlKept_eq]; simp

/-- the pinned snapshot kept every row for N = 0 (`tsb < NULL` matches nothing) -/
theorem C14_sql_zero_old_cex : sqlKeptOld 0 [3, 1, 2] = [3, 1, 2] := by decide

example : min 2 ([5, 1, 9, 3] : List Int).length ≤ (sqlKept 2 [5, 1, 9, 3]).length :=
  C14_sql_keeps_at_least 2 [5, 1, 9, 3]
