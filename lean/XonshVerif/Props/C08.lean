/-
C08 — Command lookup equals a POSIX $PATH search and never goes stale.
Theorems over `PathLookup` (tied to xonsh/procs/executables.py and xonsh/commands_cache.py by
xv/props/c08.py).
-/
import XonshVerif.Model.PathLookup
open PathLookup

/-! ## `locate_file_in_path_env` is the POSIX walk of `$PATH` -/

theorem find_congr {α : Type} (l : List α) (p q : α → Bool) (h : ∀ x, x ∈ l → p x = q x) : l.find? p = l.find? q := by
  induction l with
  | nil => rfl
  | cons a as ih =>
    simp only [List.find?_cons, h a (List.mem_cons_self ..)]
    rw [ih (fun x hx => h x (List.mem_cons_of_mem _ hx))]

theorem find_dedup (l seen : List Dir) (q : Dir → Bool) :
    (dedup l seen).find? q = l.find? (fun x => !seen.contains x && q x) := by
  induction l generalizing seen with
  | nil => rfl
  | cons d ds ih =>
    simp only [dedup]
    by_cases hs : seen.contains d = true
    · simp only [hs, if_true, List.find?_cons, Bool.not_true, Bool.false_and]
      exact ih seen
    · have hs' : seen.contains d = false := by simpa using hs
      simp only [hs', Bool.false_eq_true, if_false, List.find?_cons, Bool.not_false, Bool.true_and]
      cases hq : q d with
      | true => rfl
      | false =>
        simp only []
        rw [ih (d :: seen)]
        apply find_congr
        intro x _
        by_cases e : x = d
        · subst e; simp [hq]
        · have : (d :: seen).contains x = seen.contains x := by
            simp [List.contains_cons, e]
          rw [this]

/-- C08 (lookup): for EVERY `$PATH` list — duplicates, symlinked, relative, missing and
non-directory entries included — and EVERY file-system oracle, xonsh's scan (realpath, first
occurrence only, existing directories only) finds exactly what walking `$PATH` in its own order
finds: the first entry that is a directory holding an executable regular file of that name. -/
theorem C08_locate_is_posix (fs : Fs) (ok : FsOk fs) (paths : List Dir) (n : Name) :
    locate fs paths n = posixFirst fs paths n := by
  unfold locate posixFirst clearPaths
  rw [List.find?_filter, find_dedup, List.find?_map]
  congr 1
  apply find_congr
  intro d _
  simp [Function.comp, ok.dirRp, ok.execRp]

/-- a bare name is never resolved against anything but `$PATH` entries: the directory of a hit is (the
real path of) an entry of `$PATH` — the current directory only if `$PATH` lists it -/
theorem C08_hit_is_on_path (fs : Fs) (ok : FsOk fs) (paths : List Dir) (n : Name) (d : Dir)
    (h : locate fs paths n = some d) : ∃ p ∈ paths, fs.rp p = d ∧ fs.hasExec p n = true := by
  rw [C08_locate_is_posix fs ok] at h
  unfold posixFirst at h
  cases hf : paths.find? (fun d => fs.isDir d && fs.hasExec d n) with
  | none => simp [hf] at h
  | some p =>
    simp [hf] at h
    have hp := List.find?_some hf
    simp at hp
    exact ⟨p, List.mem_of_find?_eq_some hf, h, hp.2⟩

/-! ## the commands cache agrees with the file system -/

theorem lookup_setAssoc_self {α : Type} (l : List (Nat × α)) (k : Nat) (v : α) : (setAssoc l k v).lookup k = some v := by
  simp [setAssoc, List.lookup]

theorem lookup_filter_ne' {α : Type} (m : List (Nat × α)) (k k' : Nat) (h : k' ≠ k) :
    (m.filter (fun p => p.1 != k)).lookup k' = m.lookup k' := by
  induction m with
  | nil => rfl
  | cons p ps ih =>
    obtain ⟨a, c⟩ := p
    by_cases ha : a = k
    · subst ha
      have h1 : (k' == a) = false := by simpa using h
      simp [List.filter, List.lookup, h1, ih]
    · have h2 : ((a != k) = true) := by simpa using ha
      simp only [List.filter, h2, List.lookup]
      split <;> simp_all

theorem lookup_setAssoc_ne {α : Type} (l : List (Nat × α)) (k k' : Nat) (v : α) (h : k' ≠ k) :
    (setAssoc l k v).lookup k' = l.lookup k' := by
  have h1 : (k' == k) = false := by simpa using h
  simp [setAssoc, List.lookup, h1, lookup_filter_ne' l k k' h]

/-- the table after registering the names of one directory -/
theorem foldl_setAssoc_lookup (names : List Name) (d : Dir) (acc : List (Name × Dir)) (n : Name) :
    (names.foldl (fun a m => setAssoc a m d) acc).lookup n = if names.contains n then some d else acc.lookup n := by
  induction names generalizing acc with
  | nil => simp
  | cons m ms ih =>
    simp only [List.foldl, ih]
    by_cases hm : ms.contains n = true
    · have : (m :: ms).contains n = true := by
        rw [List.contains_cons, hm, Bool.or_true]
      rw [if_pos hm, if_pos this]
    · have hm' : ms.contains n = false := by simpa using hm
      by_cases e : n = m
      · subst e
        have : (n :: ms).contains n = true := by simp
        rw [if_neg hm, if_pos this, lookup_setAssoc_self]
      · have h1 : (n == m) = false := by simpa using e
        have : (m :: ms).contains n = false := by
          rw [List.contains_cons, hm', h1]; rfl
        rw [if_neg hm, this]
        simp only [Bool.false_eq_true, if_false]
        exact lookup_setAssoc_ne acc m n d e

def namesOf (pc : List (Dir × Nat × List Name)) (d : Dir) : List Name := ((pc.lookup d).map (·.2)).getD []

/-- FRONT OF `$PATH` WINS: iterating back to front, the table serves a name from the front-most
directory whose cached listing has it -/
theorem buildCmds_lookup (pc : List (Dir × Nat × List Name)) (ds : List Dir) (acc : List (Name × Dir)) (n : Name) :
    (buildCmds pc ds acc).lookup n =
      match ds.reverse.find? (fun d => (namesOf pc d).contains n) with
      | some d => some d
      | none => acc.lookup n := by
  induction ds generalizing acc with
  | nil => simp [buildCmds]
  | cons d rest ih =>
    simp only [buildCmds, List.reverse_cons, List.find?_append]
    rw [ih]
    cases hr : rest.reverse.find? (fun d => (namesOf pc d).contains n) with
    | some d' => simp
    | none =>
      simp only [Option.none_or, List.find?_cons, List.find?_nil]
      rw [foldl_setAssoc_lookup]
      unfold namesOf
      split <;> simp_all

/-- what the per-directory refresh leaves behind -/
theorem refreshDirs_spec (w : World) (ds : List Dir) (pc : List (Dir × Nat × List Name)) (upd : Bool) :
    let r := refreshDirs w ds pc upd
    (∀ d, d ∈ ds → ∃ names, r.1.lookup d = some (w.mt d, names) ∧
        (names = w.ex d ∨ pc.lookup d = some (w.mt d, names))) ∧
    (∀ d, d ∉ ds → r.1.lookup d = pc.lookup d) ∧
    (r.2 = false → r.1 = pc ∧ upd = false) := by
  induction ds generalizing pc upd with
  | nil =>
    refine ⟨?_, ?_, ?_⟩
    · intro d hd; cases hd
    · intro d _; rfl
    · intro h; exact ⟨rfl, h⟩
  | cons d rest ih =>
    simp only [refreshDirs]
    -- the two shapes of one step: refreshed, or kept because the mtime matches
    have keep : ∀ m names, pc.lookup d = some (m, names) → m = w.mt d →
        refreshDirs w (d :: rest) pc upd = refreshDirs w rest pc upd := by
      intro m names hl hm; simp [refreshDirs, hl, hm]
    cases hl : pc.lookup d with
    | none =>
      simp only []
      obtain ⟨i1, i2, i3⟩ := ih (setAssoc pc d (w.mt d, w.ex d)) true
      refine ⟨?_, ?_, ?_⟩
      · intro x hx
        by_cases hxr : x ∈ rest
        · obtain ⟨names, h1, h2⟩ := i1 x hxr
          refine ⟨names, h1, ?_⟩
          rcases h2 with h2 | h2
          · exact Or.inl h2
          · by_cases e : x = d
            · subst e; rw [lookup_setAssoc_self] at h2; simp at h2; exact Or.inl h2.symm
            · rw [lookup_setAssoc_ne _ _ _ _ e] at h2; exact Or.inr h2
        · have e : x = d := by simpa [hxr] using hx
          subst e
          exact ⟨w.ex x, by rw [i2 x hxr, lookup_setAssoc_self], Or.inl rfl⟩
      · intro x hx
        simp only [List.mem_cons, not_or] at hx
        rw [i2 x hx.2, lookup_setAssoc_ne _ _ _ _ hx.1]
      · intro h; have := (i3 h).2; cases this
    | some mn =>
      obtain ⟨m, names⟩ := mn
      simp only []
      by_cases hm : (m != w.mt d) = true
      · simp only [hm, if_true]
        obtain ⟨i1, i2, i3⟩ := ih (setAssoc pc d (w.mt d, w.ex d)) true
        refine ⟨?_, ?_, ?_⟩
        · intro x hx
          by_cases hxr : x ∈ rest
          · obtain ⟨nm, h1, h2⟩ := i1 x hxr
            refine ⟨nm, h1, ?_⟩
            rcases h2 with h2 | h2
            · exact Or.inl h2
            · by_cases e : x = d
              · subst e; rw [lookup_setAssoc_self] at h2; simp at h2; exact Or.inl h2.symm
              · rw [lookup_setAssoc_ne _ _ _ _ e] at h2; exact Or.inr h2
          · have e : x = d := by simpa [hxr] using hx
            subst e
            exact ⟨w.ex x, by rw [i2 x hxr, lookup_setAssoc_self], Or.inl rfl⟩
        · intro x hx
          simp only [List.mem_cons, not_or] at hx
          rw [i2 x hx.2, lookup_setAssoc_ne _ _ _ _ hx.1]
        · intro h; have := (i3 h).2; cases this
      · have hm' : m = w.mt d := by simpa using hm
        simp only [hm, Bool.false_eq_true, if_false]
        obtain ⟨i1, i2, i3⟩ := ih pc upd
        refine ⟨?_, ?_, i3⟩
        · intro x hx
          by_cases hxr : x ∈ rest
          · exact i1 x hxr
          · have e : x = d := by simpa [hxr] using hx
            subst e
            exact ⟨names, by rw [i2 x hxr, hl, hm'], Or.inr (by rw [hl, hm'])⟩
        · intro x hx
          simp only [List.mem_cons, not_or] at hx
          exact i2 x hx.2

/-- the cache invariant: a cached listing whose mtime is the directory's current mtime is the
directory's current content, and the command table was built from the cached listings for the
`$PATH` it remembers -/
structure CacheInv (w : World) (c : Cache) : Prop where
  valid : ∀ d m names, c.paths.lookup d = some (m, names) → m = w.mt d → names = w.ex d
  built : ∀ p, c.lastPath = some p → c.cmds = buildCmds c.paths p.reverse []

theorem C08_cache_lookup (w : World) (c : Cache) (h : CacheInv w c) (n : Name) :
    (cacheLookup w c n).2 = worldLocate w n ∧ CacheInv w (cacheLookup w c n).1 := by
  unfold cacheLookup updateCache
  obtain ⟨r1, r2, r3⟩ := refreshDirs_spec w w.path.reverse c.paths false
  rcases hr : refreshDirs w w.path.reverse c.paths false with ⟨pc, upd⟩
  rw [hr] at r1 r2 r3
  simp only [] at r1 r2 r3 ⊢
  -- every $PATH directory now has its CURRENT listing cached
  have hnames : ∀ d ∈ w.path, namesOf pc d = w.ex d := by
    intro d hd
    obtain ⟨names, h1, h2⟩ := r1 d (by simpa using hd)
    unfold namesOf
    rw [h1]
    simp only [Option.map_some, Option.getD_some]
    rcases h2 with h2 | h2
    · exact h2
    · exact h.valid d (w.mt d) names h2 rfl
  have hvalid : ∀ d m names, pc.lookup d = some (m, names) → m = w.mt d → names = w.ex d := by
    intro d m names hl hm
    by_cases hd : d ∈ w.path.reverse
    · obtain ⟨nm, h1, h2⟩ := r1 d hd
      rw [h1] at hl; simp at hl
      rcases h2 with h2 | h2
      · rw [← hl.2]; exact h2
      · rw [← hl.2]; exact h.valid d (w.mt d) nm h2 rfl
    · rw [r2 d hd] at hl; exact h.valid d m names hl hm
  have hfind : (buildCmds pc w.path.reverse []).lookup n = worldLocate w n := by
    rw [buildCmds_lookup]
    simp only [List.reverse_reverse, List.lookup]
    unfold worldLocate
    have : w.path.find? (fun d => (namesOf pc d).contains n) = w.path.find? (fun d => (w.ex d).contains n) := by
      apply find_congr
      intro d hd; rw [hnames d hd]
    rw [this]
    cases w.path.find? (fun d => (w.ex d).contains n) <;> rfl
  by_cases hre : (upd || c.lastPath != some w.path) = true
  · simp only [hre, if_true]
    exact ⟨hfind, ⟨hvalid, by intro p hp; simp at hp; subst hp; rfl⟩⟩
  · simp only [hre, Bool.false_eq_true, if_false]
    have hupd : upd = false := by
      cases upd <;> simp_all
    have hlp : c.lastPath = some w.path := by
      cases hc : (c.lastPath != some w.path) with
      | true => simp [hc, hupd] at hre
      | false => simpa using hc
    have hpc : pc = c.paths := (r3 hupd).1
    refine ⟨?_, ⟨hvalid, ?_⟩⟩
    · rw [h.built w.path hlp, ← hpc]; exact hfind
    · intro p hp
      simp only [] at hp ⊢
      rw [h.built p hp, hpc]

/-- file-system events that obey the clock assumption keep the invariant: creating or deleting an
entry moves the directory's mtime to a value no cached listing carries (`Fresh`), a `$PATH` edit
touches no directory -/
def Fresh (w : World) (c : Cache) (d : Dir) : Prop := ∀ m names, c.paths.lookup d = some (m, names) → m ≤ w.mt d

theorem inv_of_bump (w : World) (c : Cache) (d : Dir) (ex' : List Name) (h : CacheInv w c) (hf : Fresh w c d) :
    CacheInv (bump { w with execs := setAssoc w.execs d ex' } d) c := by
  refine ⟨?_, h.built⟩
  intro x m names hl hm
  by_cases e : x = d
  · subst e
    exfalso
    have h1 := hf m names hl
    simp only [bump, World.mt, lookup_setAssoc_self, Option.getD_some] at hm
    unfold World.mt at h1
    omega
  · have hmt : (bump { w with execs := setAssoc w.execs d ex' } d).mt x = w.mt x := by
      simp [bump, World.mt, lookup_setAssoc_ne _ _ _ _ e]
    have hex : (bump { w with execs := setAssoc w.execs d ex' } d).ex x = w.ex x := by
      simp [bump, World.ex, lookup_setAssoc_ne _ _ _ _ e]
    rw [hex]; exact h.valid x m names hl (by rw [← hmt]; exact hm)

/-- PARTIAL: after a `$PATH` edit (any reorder, removal, emptying) the next lookup agrees with the file system -/
theorem C08_cache_after_path_edit (w : World) (c : Cache) (h : CacheInv w c) (p : List Dir) (n : Name) :
    (cacheLookup { w with path := p } c n).2 = worldLocate { w with path := p } n :=
  (C08_cache_lookup { w with path := p } c ⟨h.valid, h.built⟩ n).1

/-- PARTIAL: after an executable appeared or disappeared (directory mtime moved on) the next lookup agrees -/
theorem C08_cache_after_create (w : World) (c : Cache) (h : CacheInv w c) (d : Dir) (x n : Name)
    (hf : Fresh w c d) (hx : (w.ex d).contains x = false) :
    (cacheLookup (stepWorld w (.create d x)) c n).2 = worldLocate (stepWorld w (.create d x)) n := by
  have e : stepWorld w (.create d x) = bump { w with execs := setAssoc w.execs d (w.ex d ++ [x]) } d := by
    simp only [stepWorld]; rw [if_neg (by rw [hx]; exact Bool.false_ne_true)]
  rw [e]
  exact (C08_cache_lookup _ c (inv_of_bump w c d _ h hf) n).1

theorem C08_cache_after_delete (w : World) (c : Cache) (h : CacheInv w c) (d : Dir) (x n : Name)
    (hf : Fresh w c d) (hx : (w.ex d).contains x = true) :
    (cacheLookup (stepWorld w (.delete d x)) c n).2 = worldLocate (stepWorld w (.delete d x)) n := by
  have e : stepWorld w (.delete d x) = bump { w with execs := setAssoc w.execs d ((w.ex d).filter (· != x)) } d := by
    simp only [stepWorld]; rw [if_pos hx]
  rw [e]
  exact (C08_cache_lookup _ c (inv_of_bump w c d _ h hf) n).1

theorem empty_inv (w : World) : CacheInv w Cache.empty :=
  ⟨by intro d m names hl; simp [Cache.empty] at hl, by intro p hp; simp [Cache.empty] at hp⟩

/-- the very first lookup of a session agrees with the file system, whatever it looks like -/
theorem C08_cache_first_lookup (w : World) (n : Name) : (cacheLookup w Cache.empty n).2 = worldLocate w n :=
  (C08_cache_lookup w Cache.empty (empty_inv w) n).1


/-! ## every history of lookups, creations, deletions and `$PATH` edits -/

def Mono (w : World) (c : Cache) : Prop := ∀ d, Fresh w c d

theorem updateCache_paths (w : World) (c : Cache) :
    (updateCache w c).paths = (refreshDirs w w.path.reverse c.paths false).1 := by
  unfold updateCache
  rcases refreshDirs w w.path.reverse c.paths false with ⟨pc, upd⟩
  simp only []
  split <;> rfl

theorem lookup_mono (w : World) (c : Cache) (h : Mono w c) (n : Name) : Mono w (cacheLookup w c n).1 := by
  intro d m names hl
  simp only [cacheLookup, updateCache_paths] at hl
  obtain ⟨r1, r2, _⟩ := refreshDirs_spec w w.path.reverse c.paths false
  by_cases hd : d ∈ w.path.reverse
  · obtain ⟨nm, h1, _⟩ := r1 d hd
    rw [h1] at hl; simp at hl; omega
  · rw [r2 d hd] at hl; exact h d m names hl

theorem bump_mono (w : World) (c : Cache) (d : Dir) (ex' : List Name) (h : Mono w c) :
    Mono (bump { w with execs := setAssoc w.execs d ex' } d) c := by
  intro x m names hl
  have h1 := h x m names hl
  by_cases e : x = d
  · subst e
    have : (bump { w with execs := setAssoc w.execs x ex' } x).mt x = w.mt x + 1 := by
      simp [bump, World.mt, lookup_setAssoc_self]
    rw [this]; omega
  · have hmt : (bump { w with execs := setAssoc w.execs d ex' } d).mt x = w.mt x := by
      simp [bump, World.mt, lookup_setAssoc_ne _ _ _ _ e]
    rw [hmt]; exact h1

/-- operations that obey the cache's assumption about the file system -/
def tame : Op → Bool
  | .chmodOff _ _ => false
  | .setMtime _ _ => false
  | _ => true

/-- run a history; each lookup records (what the cache answered, what the file system says) -/
def runOps (w : World) (c : Cache) : List Op → List (Option Dir × Option Dir)
  | [] => []
  | .lookup n :: ops => ((cacheLookup w c n).2, worldLocate w n) :: runOps w (cacheLookup w c n).1 ops
  | op :: ops => runOps (stepWorld w op) c ops

theorem step_tame_inv (w : World) (c : Cache) (op : Op) (ht : tame op = true) (h : CacheInv w c) (hm : Mono w c) :
    CacheInv (stepWorld w op) c ∧ Mono (stepWorld w op) c := by
  cases op with
  | lookup n => exact ⟨h, hm⟩
  | create d x =>
    simp only [stepWorld]
    split
    · exact ⟨h, hm⟩
    · exact ⟨inv_of_bump w c d _ h (hm d), bump_mono w c d _ hm⟩
  | delete d x =>
    simp only [stepWorld]
    split
    · exact ⟨inv_of_bump w c d _ h (hm d), bump_mono w c d _ hm⟩
    · exact ⟨h, hm⟩
  | chmodOff d x => cases ht
  | setPath p => exact ⟨⟨h.valid, h.built⟩, hm⟩
  | setMtime d m => cases ht

/-- C08 (cache), PARTIAL — the full property also quantifies over histories with `chmod` and with
directory mtimes that are set back, where it fails (`C08_cex_chmod`, known finding).  For EVERY
history of lookups, executables appearing and disappearing, and arbitrary `$PATH` edits, of any
length and from any reachable cache state, EVERY lookup through the cache returns exactly what the
file system says at that moment. -/
theorem C08_cache_partial (ops : List Op) (hops : ∀ op ∈ ops, tame op = true) (w : World) (c : Cache)
    (h : CacheInv w c) (hm : Mono w c) : ∀ r ∈ runOps w c ops, r.1 = r.2 := by
  induction ops generalizing w c with
  | nil => intro r hr; cases hr
  | cons op rest ih =>
    have hrest : ∀ op ∈ rest, tame op = true := fun o ho => hops o (List.mem_cons_of_mem _ ho)
    cases op with
    | lookup n =>
      intro r hr
      simp only [runOps, List.mem_cons] at hr
      obtain ⟨a, b⟩ := C08_cache_lookup w c h n
      rcases hr with hr | hr
      · subst hr; exact a
      · exact ih hrest w _ b (lookup_mono w c hm n) r hr
    | create d x =>
      obtain ⟨a, b⟩ := step_tame_inv w c (.create d x) rfl h hm
      exact ih hrest _ c a b
    | delete d x =>
      obtain ⟨a, b⟩ := step_tame_inv w c (.delete d x) rfl h hm
      exact ih hrest _ c a b
    | setPath p =>
      obtain ⟨a, b⟩ := step_tame_inv w c (.setPath p) rfl h hm
      exact ih hrest _ c a b
    | chmodOff d x => have := hops (.chmodOff d x) (List.mem_cons_self ..); cases this
    | setMtime d m => have := hops (.setMtime d m) (List.mem_cons_self ..); cases this

theorem empty_mono (w : World) : Mono w Cache.empty := by
  intro d m names hl; simp [Cache.empty] at hl

/-- from session start: every tame history -/
theorem C08_cache_from_start (ops : List Op) (hops : ∀ op ∈ ops, tame op = true) (w : World) :
    ∀ r ∈ runOps w Cache.empty ops, r.1 = r.2 :=
  C08_cache_partial ops hops w Cache.empty (empty_inv w) (empty_mono w)

/-- non-vacuity: a tame history with real content whose lookups hit, miss, move and come back -/
example : runOps ⟨[], [(0, [1]), (1, [1, 2])], [0, 1]⟩ Cache.empty
    [.lookup 1, .lookup 2, .delete 0 1, .lookup 1, .setPath [1], .create 0 2, .lookup 2, .setPath [0, 1], .lookup 2] =
    [(some 0, some 0), (some 1, some 1), (some 1, some 1), (some 1, some 1), (some 0, some 0)] := by decide

/-- KNOWN FINDING `cache-ignores-mode-changes-and-mtime-resets` (open): `chmod -x` does not move the
directory's mtime, so the cache keeps serving the file -/
theorem C08_cex_chmod :
    let w0 : World := ⟨[], [(0, [1])], [0]⟩
    let c1 := (cacheLookup w0 Cache.empty 1).1
    let w1 := stepWorld w0 (.chmodOff 0 1)
    (cacheLookup w1 c1 1).2 = some 0 ∧ worldLocate w1 1 = none := by decide

/-- the pinned snapshot's update rule (before fix 157516f) did not notice `$PATH` edits -/
theorem C08_old_rule_cex_path_edit :
    let w0 : World := ⟨[], [(0, [1]), (1, [1])], [0, 1]⟩
    let c1 := updateCacheOld w0 Cache.empty
    let w1 : World := { w0 with path := [1, 0] }
    (updateCacheOld w1 c1).cmds.lookup 1 = some 0 ∧ worldLocate w1 1 = some 1 ∧
    (updateCache w1 c1).cmds.lookup 1 = some 1 := by decide

/-- the hypotheses are satisfiable by a non-trivial file system: entry 5 is a symlink to directory 1 -/
example : FsOk ⟨fun d => if d = 5 then 1 else d, fun d => d < 4 || d == 5, fun d n => (d == 1 || d == 5) && n == 0⟩ := by
  refine ⟨?_, ?_, ?_⟩
  · intro d; by_cases h : d = 5 <;> simp [h]
  · intro d; by_cases h : d = 5 <;> simp [h]
  · intro d n; by_cases h : d = 5 <;> simp [h]
