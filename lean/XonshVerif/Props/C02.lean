/-
C02 — Python wins: code whose names are all bound runs as Python, never as a command.

Theorems over `Scope` (Model/Scope.lean; tied to xonsh/parsers/ast.py `CtxAwareTransformer` and xonsh/execer.py by
xv/props/c02.py).  `Scope.run env p` walks a program once and gives, per statement, what the PROPERTY says (`ok`: every
name the statement reads is defined — builtin, session name, or bound earlier in the source by Python's lexical rules;
`tame`: every `del` so far is one Python can execute) and what the CODE decides (`decs`: keep | offer to command
interpretation | builtin_cmd, one verdict per `is_in_scope` test).  `env.fx = Fixes.none` is the code as it is.
-/
import XonshVerif.Lemmas.ScopeWalk
import XonshVerif.Gen.ExecerOrder
open Scope

/-- C02, general form: for EVERY program (any nesting, any scope depth), every session and every combination of repaired
mechanisms: a statement all of whose reads are defined is never offered to command interpretation, as long as no
unrepaired mechanism has been triggered before it (`g`). -/
theorem C02_python_wins_gen (env : Env) (p : Stmts) (r : Rec) (hr : r ∈ run env p)
    (hok : r.ok = true) (ht : r.tame = true) (hg : r.g = true) : ∀ d ∈ r.decs, d.v ≠ Verdict.offer := by
  have h0 : Good env (St.init env) := fun _ _ => Sim.init env
  exact ((runL_post env p (St.init env) h0).recs r hr).1 hok ht hg

/-- C02 for the code as it is: the guards of `g` (all syntactic; see Model/Scope.lean "guards") are
no plain dotted import, no walrus outside the reach of generic_visit, no lambda whose parameters are read under an
`is_in_scope` test, no comprehension variable under a BoolOp/UnaryOp of the element expression, no nested unpacking
target in `=`, no module-level `del` of a session name that is also a builtin, no `del` of an except-name inside its `try`. -/
theorem C02_python_wins_partial (B U : List Name) (p : Stmts) (r : Rec) (hr : r ∈ run ⟨B, U, Fixes.none⟩ p)
    (hok : r.ok = true) (ht : r.tame = true) (hg : r.g = true) : ∀ d ∈ r.decs, d.v ≠ Verdict.offer :=
  C02_python_wins_gen ⟨B, U, Fixes.none⟩ p r hr hok ht hg

/-- the `user_names` shield: a bare name that the session or the source binds is never rewritten into a lookup in `builtins` -/
theorem C02_user_name_shield (env : Env) (p : Stmts) (r : Rec) (hr : r ∈ run env p)
    (hs : r.shadow = true) (ht : r.tame = true) (hg : r.g = true) : ∀ d ∈ r.decs, d.v ≠ Verdict.builtin := by
  have h0 : Good env (St.init env) := fun _ _ => Sim.init env
  exact ((runL_post env p (St.init env) h0).recs r hr).2 hs ht hg

/-- names stored and loaded by the same expression (comprehension variables, walrus targets) do not count against it:
`is_in_scope` succeeds as soon as the OTHER names are visible -/
theorem C02_store_same_stmt (env : Env) (c : Ctxs) (e : Expr)
    (h : ∀ x ∈ loads e, x ∈ stores env.fx.lam e ∨ c.vis x = true) : inScope env c [] e = true := by
  simp only [inScope, List.all_eq_true]
  intro x hx
  rcases h x hx with h1 | h1
  · simp [h1]
  · simp [h1]

/-! ## witnesses.  Names: 0 = `ls`, 1 = `l`, 2 = `os`, 3 = `n`, 4 = `q`, 5 = `x`, 6 = `id` (a builtin), 7 = `z` -/

namespace C02w
def nm (x : Name) : Expr := .name x
/-- `a -b` / `a.b` / `a < b` …: any form the transformer visits generically -/
def bin (a b : Expr) : Expr := .node .binop (.cons a (.cons b .nil))
def offered (rs : List Rec) (sid : Nat) : Bool := rs.any fun r => r.sid == sid && r.decs.any (·.v == .offer)
def okAt (rs : List Rec) (sid : Nat) : Bool := rs.all fun r => r.sid != sid || (r.ok && r.tame)
def B : List Name := [6]
def code (U : List Name) : Env := ⟨B, U, Fixes.none⟩

/-- `ls = 1; l = 1; ls -l` stays Python; without the bindings it is a command -/
def pBound : Stmts := .cons (.assign 0 (.cons (.name 0) .nil) (.const false)) (.cons (.assign 1 (.cons (.name 1) .nil) (.const false))
  (.cons (.expr 2 (bin (nm 0) (nm 1))) .nil))
def pUnbound : Stmts := .cons (.expr 2 (bin (nm 0) (nm 1))) .nil
/-- `import os.path; os.sep` -/
def pDotted : Stmts := .cons (.imp 0 [⟨2, true, none⟩]) (.cons (.expr 1 (.node .attr (.cons (nm 2) .nil))) .nil)
/-- `if (n := z) > 10 and n < 20: pass` with z in the session -/
def pWalrus : Stmts := .cons (.if_ 0 (.boolop (.cons (bin (.walrus 3 (nm 7)) (.const false)) (.cons (bin (nm 3) (.const false)) .nil)))
  (.cons (.pass 1) .nil) .nil) .nil
/-- `(n := 5); n` -/
def pWalrusStmt : Stmts := .cons (.expr 0 (.walrus 3 (.const false))) (.cons (.expr 1 (nm 3)) .nil)
/-- `x = sorted(z, key=lambda q: -q)` -/
def pLambda : Stmts := .cons (.assign 0 (.cons (.name 5) .nil) (.node .call (.cons (nm 6) (.cons (nm 7) (.cons (.lam [4] (.unary (nm 4))) .nil))))) .nil
/-- `x = any(not q for q in z)` -/
def pComp : Stmts := .cons (.assign 0 (.cons (.name 5) .nil) (.node .call (.cons (nm 6) (.cons (.comp (.unary (nm 4)) [4] (nm 7) .nil) .nil)))) .nil
/-- `x, (n, q) = z; q` -/
def pNested : Stmts := .cons (.assign 0 (.cons (.seq false (.cons (.name 5) (.cons (.seq false (.cons (.name 3) (.cons (.name 4) .nil))) .nil))) .nil) (nm 7))
  (.cons (.expr 1 (nm 4)) .nil)
/-- `del id; id -z` with `id` (a builtin) also a session name -/
def pDelBuiltin : Stmts := .cons (.del 0 [6] []) (.cons (.expr 1 (bin (nm 6) (nm 7))) .nil)
/-- `x = 2; del x; x -z` with x already in the session: stays Python although x is gone -/
def pDelSess : Stmts := .cons (.assign 0 (.cons (.name 5) .nil) (.const false)) (.cons (.del 1 [5] []) (.cons (.expr 2 (bin (nm 5) (nm 7))) .nil))
/-- `x = 2; del (x,); x -z` -/
def pDelSeq : Stmts := .cons (.assign 0 (.cons (.name 5) .nil) (.const false)) (.cons (.del 1 [] [5]) (.cons (.expr 2 (bin (nm 5) (nm 7))) .nil))
/-- `x = 1; del x; x -z`: back to command interpretation -/
def pDelReturns : Stmts := .cons (.assign 0 (.cons (.name 5) .nil) (.const false)) (.cons (.del 1 [5] []) (.cons (.expr 2 (bin (nm 5) (nm 7))) .nil))
/-- `def ls(l): ls -l` then `ls -l` outside: inside Python, outside (l is gone) a command -/
def pScope : Stmts := .cons (.fdef 0 0 [1] .nil (.cons (.expr 1 (bin (nm 0) (nm 1))) .nil) .nil) (.cons (.expr 2 (bin (nm 0) (nm 1))) .nil)
end C02w
open C02w

/-- non-vacuity of C02_python_wins_partial: a statement that looks like a command, with all names bound, under the
theorem's hypotheses — and the same text with the names unbound IS offered (the verdict is not constant) -/
example : (run (code []) pBound).any (fun r => r.sid == 2 && r.ok && r.tame && r.g && !r.decs.isEmpty) = true ∧
    offered (run (code []) pBound) 2 = false ∧ offered (run (code []) pUnbound) 2 = true := by decide

/-- THE FULL STATEMENT IS FALSE for the code as it is — one witness per mechanism.
`import os.path` records the string "os.path", not `os`: a following `os.sep` is offered to command interpretation. -/
theorem C02_cex_dotted_import : okAt (run (code []) pDotted) 1 = true ∧ offered (run (code []) pDotted) 1 = true := by decide
/-- a walrus below a BoolOp is never recorded: `if (n := z) > 10 and n < 20:` has its second operand offered -/
theorem C02_cex_walrus_in_boolop : okAt (run (code [7]) pWalrus) 0 = true ∧ offered (run (code [7]) pWalrus) 0 = true := by decide
/-- … nor a walrus in an expression statement: `(n := 5)` then `n` -/
theorem C02_cex_walrus_in_expr_stmt : okAt (run (code []) pWalrusStmt) 1 = true ∧ offered (run (code []) pWalrusStmt) 1 = true := by decide
/-- lambda parameters are not names in scope: `sorted(z, key=lambda q: -q)` has `q` offered -/
theorem C02_cex_lambda_param : okAt (run (code [7]) pLambda) 0 = true ∧ offered (run (code [7]) pLambda) 0 = true := by decide
/-- comprehension variables are not in scope for operands inside the element: `any(not q for q in z)` -/
theorem C02_cex_comprehension_var : okAt (run (code [7]) pComp) 0 = true ∧ offered (run (code [7]) pComp) 0 = true := by decide
/-- `x, (n, q) = z` records only the first name of the inner tuple -/
theorem C02_cex_nested_target : okAt (run (code [7]) pNested) 1 = true ∧ offered (run (code [7]) pNested) 1 = true := by decide
/-- `del id` with a session variable `id` strikes the builtin's only record -/
theorem C02_cex_del_builtin : okAt (run (code [6, 7]) pDelBuiltin) 1 = true ∧ offered (run (code [6, 7]) pDelBuiltin) 1 = true := by decide

/-- every one of these disappears when exactly that mechanism is repaired (what the harness uses to attribute a failure) -/
example : offered (run ⟨B, [], { Fixes.none with dotted := true }⟩ pDotted) 1 = false ∧
    offered (run ⟨B, [7], { Fixes.none with walrus := true }⟩ pWalrus) 0 = false ∧
    offered (run ⟨B, [], { Fixes.none with walrus := true }⟩ pWalrusStmt) 1 = false ∧
    offered (run ⟨B, [7], { Fixes.none with lam := true }⟩ pLambda) 0 = false ∧
    offered (run ⟨B, [7], { Fixes.none with comp := true }⟩ pComp) 0 = false ∧
    offered (run ⟨B, [7], { Fixes.none with nested := true }⟩ pNested) 1 = false ∧
    offered (run ⟨B, [6, 7], { Fixes.none with delB := true }⟩ pDelBuiltin) 1 = false := by decide

/-! ## "the decision is made for the whole input before anything runs" -/

/-- On every path through `Execer.exec` and `Execer.eval` (skeletons regenerated from xonsh/execer.py on every run), builtin
`exec` / `eval` is applied only to a code object that `Execer.compile` made from the WHOLE input text (or that the caller passed
as a code object); `Execer.compile` returns only what builtin `compile` made from the tree `Execer.parse` produced for the whole
text (or None / the empty program); and no other function on the parse path calls `exec` / `eval`.  So the Python-vs-command
decision for every statement, and every syntax error, precede the first executed instruction. -/
theorem C02_parse_before_exec :
    ExecOrder.orderOk false Gen.ExecerOrder.execSk = true ∧ ExecOrder.orderOk false Gen.ExecerOrder.evalSk = true ∧
    ExecOrder.orderOk true Gen.ExecerOrder.compileSk = true ∧ Gen.ExecerOrder.runCallsElsewhere.all (· == 0) = true :=
  ⟨Gen.ExecerOrder.exec_runs_only_compiled_whole_input, Gen.ExecerOrder.eval_runs_only_compiled_whole_input,
   Gen.ExecerOrder.compile_returns_code_of_whole_input, Gen.ExecerOrder.nothing_else_runs⟩

open ExecOrder in
/-- non-vacuity: the obligation rejects a method that runs the first line before compiling the rest, one that compiles only
a part of the input, and one that runs inside the exception handler of the compile -/
example :
    orderOk false (.cons (.run 0) (.cons (.assign 1 (.selfCompile 0)) (.cons (.retRun 1) .nil))) = false ∧
    orderOk false (.cons (.assign 2 .other) (.cons (.assign 1 (.selfCompile 2)) (.cons (.retRun 1) .nil))) = false ∧
    orderOk false (.cons (.tryCatch [1] (.cons (.assign 1 (.selfCompile 0)) .nil) (.cons (.run 1) .nil)) (.cons (.retRun 1) .nil)) = false ∧
    orderOk false (.cons (.assign 1 (.selfCompile 0)) (.cons (.retRun 1) .nil)) = true := by decide
