/-
C02 — Python wins: code whose names are all bound runs as Python, never as a command.

Theorems over `Scope` (Model/Scope.lean; tied to xonsh/parsers/ast.py `CtxAwareTransformer` and xonsh/execer.py by
xv/props/c02.py).  `Scope.run env p` walks a program once and gives, per statement, what the PROPERTY says (`ok`: every
name the statement reads is defined — builtin, session name, or bound earlier in the source by Python's lexical rules;
`tame`: every `del` so far is one Python can execute) and what the CODE decides (`decs`: keep | offer to command
interpretation | builtin_cmd, one verdict per `is_in_scope` test).  `env.fx = Fixes.all` is the transformer as it is now
(after the nine fix commits be20ece 3de5a37 f8236d9 722d38f de68657 40ae2dd dd4c90f 067d356 0f3d5e1 to xonsh/parsers/ast.py),
`Fixes.none` the transformer before them; the harness picks the variant per mechanism by replaying the findings' witnesses.
-/
import XonshVerif.Lemmas.ScopeAll
import XonshVerif.Lemmas.ScopeShape
import XonshVerif.Gen.ExecerOrder
open Scope

/-- C02, general form: for EVERY program (any nesting, any scope depth), every session and every combination of repaired
mechanisms: a statement all of whose reads are defined is never offered to command interpretation, as long as no
unrepaired mechanism has been triggered before it (`g`). -/
theorem C02_python_wins_gen (env : Env) (p : Stmts) (r : Rec) (hr : r ∈ run env p)
    (hok : r.ok = true) (ht : r.tame = true) (hg : r.g = true) : ∀ d ∈ r.decs, d.v ≠ Verdict.offer := by
  have h0 : Good env (St.init env) := fun _ _ => Sim.init env
  exact ((runL_post env p (St.init env) h0).recs r hr).1 hok ht hg

/-- C02 for the transformer BEFORE the repairs (`Fixes.none`): the guards of `g` (all syntactic; see Model/Scope.lean "guards") are
no plain dotted import, no walrus outside the reach of generic_visit, no lambda whose parameters are read under an
`is_in_scope` test, no comprehension variable under a BoolOp/UnaryOp of the element expression, no nested unpacking
target in `=`, no module-level `del` of a session name that is also a builtin, no `del` of an except-name inside its `try`. -/
theorem C02_python_wins_partial (B U : List Name) (p : Stmts) (r : Rec) (hr : r ∈ run ⟨B, U, Fixes.none⟩ p)
    (hok : r.ok = true) (ht : r.tame = true) (hg : r.g = true) : ∀ d ∈ r.decs, d.v ≠ Verdict.offer :=
  C02_python_wins_gen ⟨B, U, Fixes.none⟩ p r hr hok ht hg

/-- THE HEADLINE.  C02 at full strength for the transformer as it is now (all nine mechanisms repaired, `Fixes.all`):
for every program, every set of builtins and every session, a statement all of whose reads are defined is never offered to
command interpretation.  No guard is left. -/
theorem C02_python_wins_repaired (B U : List Name) (p : Stmts) (r : Rec) (hr : r ∈ run ⟨B, U, Fixes.all⟩ p)
    (hok : r.ok = true) (ht : r.tame = true) : ∀ d ∈ r.decs, d.v ≠ Verdict.offer :=
  C02_python_wins_gen ⟨B, U, Fixes.all⟩ p r hr hok ht ((runL_gAll B U p (St.init _) rfl).1 r hr)

/-- the `user_names` shield: a bare name that the session or the source binds is never rewritten into a lookup in `builtins` -/
theorem C02_user_name_shield (env : Env) (p : Stmts) (r : Rec) (hr : r ∈ run env p)
    (hs : r.shadow = true) (ht : r.tame = true) (hg : r.g = true) : ∀ d ∈ r.decs, d.v ≠ Verdict.builtin := by
  have h0 : Good env (St.init env) := fun _ _ => Sim.init env
  exact ((runL_post env p (St.init env) h0).recs r hr).2 hs ht hg

/-- names stored and loaded by the same expression (comprehension variables, walrus targets) do not count against it:
`is_in_scope` succeeds as soon as the OTHER names are visible -/
theorem C02_store_same_stmt (env : Env) (c : Ctxs) (e : Expr)
    (h : ∀ x ∈ loads e, x ∈ stores env.fx.lam e ∨ c.vis x = true) : inScope env c [] e = true := by
  simp only [inScope, List.all_eq_true]
  intro x hx
  rcases h x hx with h1 | h1
  · simp [h1]
  · simp [h1]

/-! ## scopes end, `del` returns a name to command interpretation -/

/-- an expression statement that reads a name no context records (and that is not a builtin) is offered to command interpretation -/
theorem offered_of_unrecorded (env : Env) (st : St) (sid : Nat) (e : Expr) (x : Name)
    (hv : st.c.vis x = false) (hB : x ∉ env.B) (hl : x ∈ loads e) (hs : x ∉ stores env.fx.lam e) (hw : x ∉ allW e)
    (hlam : isLam e = false) :
    ∃ r ∈ (runS env st (.expr sid e)).1, (⟨0, Verdict.offer⟩ : Dec) ∈ r.decs := by
  simp only [runS]
  refine ⟨_, List.mem_singleton.mpr rfl, ?_⟩
  simp only [xExprStmt, List.mem_append, List.mem_singleton]
  right
  have hv0 : (preW env st.c (allW e)).vis x = false := by
    unfold preW; split
    · cases h : (st.c.addTop (allW e)).vis x with
      | false => rfl
      | true => rcases (vis_addTop _ _ x).mp h with h1 | h1
                · exact absurd h1 hw
                · rw [hv] at h1; cases h1
    · exact hv
  have hbb : bareBuiltin env (preW env st.c (allW e)) e = false := by
    cases e with
    | name y =>
      simp only [loads, List.mem_singleton] at hl; subst hl
      simp [bareBuiltin, hB]
    | const _ => simp [loads] at hl
    | _ => simp [bareBuiltin]
  have hin : inScope env (preW env st.c (allW e)) [] e = false := by
    cases h : inScope env (preW env st.c (allW e)) [] e with
    | false => rfl
    | true =>
      simp only [inScope, List.all_eq_true] at h
      have := h x hl
      simp [hs, hv0] at this
  simp [hbb, hin, hlam]

/-- names recorded only inside a function body (parameters, locals, nested definitions) are not visible after it: whatever
no context recorded before the `def`, other than the function's own name, a walrus target of its header and names its body
declares `global`, no context records afterwards — at ANY nesting depth of the body -/
theorem C02_scope_pop (env : Env) (st : St) (sid : Nat) (f : Name) (ps : List Name) (dfl : Exprs) (body : Stmts) (decos : Exprs)
    (x : Name) (hv : st.c.vis x = false) (hf : x ≠ f) (hw : x ∉ allWL (dfl.append decos)) (hg : x ∉ globAddsL body) :
    (runS env st (.fdef sid f ps dfl body decos)).2.c.vis x = false := by
  cases h : (runS env st (.fdef sid f ps dfl body decos)).2.c.vis x with
  | false => rfl
  | true =>
    rcases (runS_shape env (.fdef sid f ps dfl body decos) st).vis x h with h1 | h1 | h1
    · rw [hv] at h1; cases h1
    · simp only [topAdds, List.mem_cons] at h1
      rcases h1 with h1 | h1
      · exact absurd h1 hf
      · exact absurd h1 hw
    · simp only [globAdds] at h1; exact absurd h1 hg

/-- … and the same for a class body -/
theorem C02_scope_pop_class (env : Env) (st : St) (sid : Nat) (cn : Name) (bases : Exprs) (body : Stmts) (decos : Exprs)
    (x : Name) (hv : st.c.vis x = false) (hf : x ≠ cn) (hw : x ∉ allWL (bases.append decos)) (hg : x ∉ globAddsL body) :
    (runS env st (.cdef sid cn bases body decos)).2.c.vis x = false := by
  cases h : (runS env st (.cdef sid cn bases body decos)).2.c.vis x with
  | false => rfl
  | true =>
    rcases (runS_shape env (.cdef sid cn bases body decos) st).vis x h with h1 | h1 | h1
    · rw [hv] at h1; cases h1
    · simp only [topAdds, List.mem_cons] at h1
      rcases h1 with h1 | h1
      · exact absurd h1 hf
      · exact absurd h1 hw
    · simp only [globAdds] at h1; exact absurd h1 hg

/-- hence a command-looking line after the `def` that reads such a name is offered to command interpretation -/
theorem C02_scope_pop_offers (env : Env) (st : St) (sid sid' : Nat) (f : Name) (ps : List Name) (dfl : Exprs) (body : Stmts)
    (decos : Exprs) (e : Expr) (x : Name) (hv : st.c.vis x = false) (hf : x ≠ f) (hw : x ∉ allWL (dfl.append decos))
    (hg : x ∉ globAddsL body) (hB : x ∉ env.B) (hl : x ∈ loads e) (hs : x ∉ stores env.fx.lam e) (hwe : x ∉ allW e)
    (hlam : isLam e = false) :
    ∃ r ∈ (runS env (runS env st (.fdef sid f ps dfl body decos)).2 (.expr sid' e)).1, (⟨0, Verdict.offer⟩ : Dec) ∈ r.decs :=
  offered_of_unrecorded env _ sid' e x (C02_scope_pop env st sid f ps dfl body decos x hv hf hw hg) hB hl hs hwe hlam

/-- `del x` returns later lines to command interpretation: if after the `del` no context records x any more ("x not otherwise
bound": it was recorded once), then after ANY statements `mid` that do not record x (no binding of x at this level, no
`global x` anywhere inside), an expression statement reading x is offered to command interpretation -/
theorem C02_del_returns (env : Env) (st : St) (x : Name) (sid₁ sid₂ : Nat) (mid : Stmts) (e : Expr)
    (hB : x ∉ env.B)
    (hone : (runS env st (.del sid₁ [x] [])).2.c.vis x = false)
    (hmidT : x ∉ topAddsL mid) (hmidG : x ∉ globAddsL mid)
    (hl : x ∈ loads e) (hs : x ∉ stores env.fx.lam e) (hwe : x ∉ allW e) (hlam : isLam e = false) :
    ∃ r ∈ (runS env (runL env (runS env st (.del sid₁ [x] [])).2 mid).2 (.expr sid₂ e)).1, (⟨0, Verdict.offer⟩ : Dec) ∈ r.decs := by
  refine offered_of_unrecorded env _ sid₂ e x ?_ hB hl hs hwe hlam
  cases h : (runL env (runS env st (.del sid₁ [x] [])).2 mid).2.c.vis x with
  | false => rfl
  | true =>
    rcases (runL_shape env mid _).vis x h with h1 | h1 | h1
    · rw [hone] at h1; cases h1
    · exact absurd h1 hmidT
    · exact absurd h1 hmidG

/-- the hypothesis "not otherwise bound" holds whenever x is recorded in ONE context only (here: the current one) -/
theorem C02_del_single_record (env : Env) (c : Ctxs) (x : Name) (hx : x ∈ c.top)
    (hother : ∀ l ∈ c.levels.tail, x ∉ l) (hbase : x ∉ c.base) : (c.remove env x).vis x = false := by
  obtain ⟨b, g, i⟩ := c
  cases i with
  | nil =>
    simp only [Ctxs.top] at hx
    simp only [Ctxs.remove, removeInner, contains_iff.mpr hx, if_true]
    split <;> simp [Ctxs.vis, hbase] <;> exact hbase
  | cons t r =>
    simp only [Ctxs.top] at hx
    simp only [Ctxs.levels, List.cons_append, List.tail_cons] at hother
    simp only [Ctxs.remove, removeInner_top t r x hx]
    have hr : ∀ l ∈ r, x ∉ l := fun l hl => hother l (List.mem_append.mpr (Or.inl hl))
    have hg : x ∉ g := hother g (List.mem_append.mpr (Or.inr (List.mem_singleton.mpr rfl)))
    cases h : Ctxs.vis ⟨b, g, t.filter (· != x) :: r⟩ x with
    | false => rfl
    | true =>
      rw [vis_iff] at h
      rcases h with ⟨l, hl, hxl⟩ | h | h
      · rcases List.mem_cons.mp hl with e | e
        · subst e; exact absurd rfl (mem_filter_ne.mp hxl).2
        · exact absurd hxl (hr l e)
      · exact absurd h hg
      · exact absurd h hbase

/-! ## witnesses.  Names: 0 = `ls`, 1 = `l`, 2 = `os`, 3 = `n`, 4 = `q`, 5 = `x`, 6 = `id` (a builtin), 7 = `z` -/

namespace C02w
def nm (x : Name) : Expr := .name x
/-- `a -b` / `a.b` / `a < b` …: any form the transformer visits generically -/
def bin (a b : Expr) : Expr := .node .binop (.cons a (.cons b .nil))
def offered (rs : List Rec) (sid : Nat) : Bool := rs.any fun r => r.sid == sid && r.decs.any (·.v == .offer)
def okAt (rs : List Rec) (sid : Nat) : Bool := rs.all fun r => r.sid != sid || (r.ok && r.tame)
def B : List Name := [6]
def code (U : List Name) : Env := ⟨B, U, Fixes.none⟩

/-- `ls = 1; l = 1; ls -l` stays Python; without the bindings it is a command -/
def pBound : Stmts := .cons (.assign 0 (.cons (.name 0) .nil) (.const false)) (.cons (.assign 1 (.cons (.name 1) .nil) (.const false))
  (.cons (.expr 2 (bin (nm 0) (nm 1))) .nil))
def pUnbound : Stmts := .cons (.expr 2 (bin (nm 0) (nm 1))) .nil
/-- `import os.path; os.sep` -/
def pDotted : Stmts := .cons (.imp 0 [⟨2, true, none⟩]) (.cons (.expr 1 (.node .attr (.cons (nm 2) .nil))) .nil)
/-- `if (n := z) > 10 and n < 20: pass` with z in the session -/
def pWalrus : Stmts := .cons (.if_ 0 (.boolop (.cons (bin (.walrus 3 (nm 7)) (.const false)) (.cons (bin (nm 3) (.const false)) .nil)))
  (.cons (.pass 1) .nil) .nil) .nil
/-- `(n := 5); n` -/
def pWalrusStmt : Stmts := .cons (.expr 0 (.walrus 3 (.const false))) (.cons (.expr 1 (nm 3)) .nil)
/-- `x = sorted(z, key=lambda q: -q)` -/
def pLambda : Stmts := .cons (.assign 0 (.cons (.name 5) .nil) (.node .call (.cons (nm 6) (.cons (nm 7) (.cons (.lam [4] (.unary (nm 4))) .nil))))) .nil
/-- `x = any(not q for q in z)` -/
def pComp : Stmts := .cons (.assign 0 (.cons (.name 5) .nil) (.node .call (.cons (nm 6) (.cons (.comp (.unary (nm 4)) [4] (nm 7) .nil) .nil)))) .nil
/-- `x, (n, q) = z; q` -/
def pNested : Stmts := .cons (.assign 0 (.cons (.seq false (.cons (.name 5) (.cons (.seq false (.cons (.name 3) (.cons (.name 4) .nil))) .nil))) .nil) (nm 7))
  (.cons (.expr 1 (nm 4)) .nil)
/-- `del id; id -z` with `id` (a builtin) also a session name -/
def pDelBuiltin : Stmts := .cons (.del 0 [6] []) (.cons (.expr 1 (bin (nm 6) (nm 7))) .nil)
/-- `x = 2; del x; x -z` with x already in the session: stays Python although x is gone -/
def pDelSess : Stmts := .cons (.assign 0 (.cons (.name 5) .nil) (.const false)) (.cons (.del 1 [5] []) (.cons (.expr 2 (bin (nm 5) (nm 7))) .nil))
/-- `x = 2; del (x,); x -z` -/
def pDelSeq : Stmts := .cons (.assign 0 (.cons (.name 5) .nil) (.const false)) (.cons (.del 1 [] [5]) (.cons (.expr 2 (bin (nm 5) (nm 7))) .nil))
/-- `x = 1; del x; x -z`: back to command interpretation -/
def pDelReturns : Stmts := .cons (.assign 0 (.cons (.name 5) .nil) (.const false)) (.cons (.del 1 [5] []) (.cons (.expr 2 (bin (nm 5) (nm 7))) .nil))
/-- `x = 1; try: del x; except id as x: x -z` -/
def pExcept : Stmts := .cons (.assign 0 (.cons (.name 5) .nil) (.const false))
  (.cons (.try_ 1 (.cons (.del 2 [5] []) .nil) (.cons 3 (.cons (nm 6) .nil) (some 5) (.cons (.expr 4 (bin (nm 5) (nm 7))) .nil) .nil) .nil .nil) .nil)
def delReadAt (rs : List Rec) (sid : Nat) : Bool := rs.any fun r => r.sid == sid && r.tame && !r.delRead.isEmpty
/-- `def ls(l): ls -l` then `ls -l` outside: inside Python, outside (l is gone) a command -/
def pScope : Stmts := .cons (.fdef 0 0 [1] .nil (.cons (.expr 1 (bin (nm 0) (nm 1))) .nil) .nil) (.cons (.expr 2 (bin (nm 0) (nm 1))) .nil)
end C02w
open C02w

/-- non-vacuity of C02_python_wins_partial: a statement that looks like a command, with all names bound, under the
theorem's hypotheses — and the same text with the names unbound IS offered (the verdict is not constant) -/
example : (run (code []) pBound).any (fun r => r.sid == 2 && r.ok && r.tame && r.g && !r.decs.isEmpty) = true ∧
    offered (run (code []) pBound) 2 = false ∧ offered (run (code []) pUnbound) 2 = true := by decide

/-- non-vacuity of C02_user_name_shield: a bare `id` is rewritten to `builtin_cmd('id')` — unless the session has a variable `id` -/
example : (run (code []) (.cons (.expr 0 (nm 6)) .nil)).map (·.decs) = [[⟨0, .builtin⟩]] ∧
    (run (code [6]) (.cons (.expr 0 (nm 6)) .nil)).map (fun r => (r.shadow, r.decs)) = [(true, [⟨0, .keep⟩])] := by decide

/-- non-vacuity of C02_python_wins_repaired: on every witness below the repaired transformer keeps what the property says is bound -/
example : ([(pDotted, [], 1), (pWalrus, [7], 0), (pWalrusStmt, [], 1), (pLambda, [7], 0), (pComp, [7], 0), (pNested, [7], 1),
    (pDelBuiltin, [6, 7], 1), (pExcept, [7], 4)] : List (Stmts × List Name × Nat)).all
      (fun w => okAt (run ⟨B, w.2.1, Fixes.all⟩ w.1) w.2.2 && !offered (run ⟨B, w.2.1, Fixes.all⟩ w.1) w.2.2) = true := by decide

/-- THE FULL STATEMENT WAS FALSE for the code before the repairs (`Fixes.none`) — one witness per mechanism, each the reason
for one fix commit.
`import os.path` records the string "os.path", not `os`: a following `os.sep` is offered to command interpretation. -/
theorem C02_cex_dotted_import : okAt (run (code []) pDotted) 1 = true ∧ offered (run (code []) pDotted) 1 = true := by decide
/-- a walrus below a BoolOp is never recorded: `if (n := z) > 10 and n < 20:` has its second operand offered -/
theorem C02_cex_walrus_in_boolop : okAt (run (code [7]) pWalrus) 0 = true ∧ offered (run (code [7]) pWalrus) 0 = true := by decide
/-- … nor a walrus in an expression statement: `(n := 5)` then `n` -/
theorem C02_cex_walrus_in_expr_stmt : okAt (run (code []) pWalrusStmt) 1 = true ∧ offered (run (code []) pWalrusStmt) 1 = true := by decide
/-- lambda parameters are not names in scope: `sorted(z, key=lambda q: -q)` has `q` offered -/
theorem C02_cex_lambda_param : okAt (run (code [7]) pLambda) 0 = true ∧ offered (run (code [7]) pLambda) 0 = true := by decide
/-- comprehension variables are not in scope for operands inside the element: `any(not q for q in z)` -/
theorem C02_cex_comprehension_var : okAt (run (code [7]) pComp) 0 = true ∧ offered (run (code [7]) pComp) 0 = true := by decide
/-- `x, (n, q) = z` records only the first name of the inner tuple -/
theorem C02_cex_nested_target : okAt (run (code [7]) pNested) 1 = true ∧ offered (run (code [7]) pNested) 1 = true := by decide
/-- `del id` with a session variable `id` strikes the builtin's only record -/
theorem C02_cex_del_builtin : okAt (run (code [6, 7]) pDelBuiltin) 1 = true ∧ offered (run (code [6, 7]) pDelBuiltin) 1 = true := by decide

/-- an `except … as x` name is recorded when the `try` is entered: a `del x` in the body strikes it -/
theorem C02_cex_except_name : okAt (run (code [7]) pExcept) 4 = true ∧ offered (run (code [7]) pExcept) 4 = true := by decide

/-- "deleting the name returns later lines to command interpretation" was false before the repairs when the name is recorded
twice: session variable x, `x = 2; del x; x -z` — the property sends the last line back to command interpretation
(`delRead`), the code keeps it -/
theorem C02_cex_del_session_record :
    delReadAt (run (code [5, 7]) pDelSess) 2 = true ∧ offered (run (code [5, 7]) pDelSess) 2 = false := by decide
/-- … and when the target is written `del (x,)` -/
theorem C02_cex_del_sequence_target :
    delReadAt (run (code [7]) pDelSeq) 2 = true ∧ offered (run (code [7]) pDelSeq) 2 = false := by decide

/-- non-vacuity of C02_del_returns / C02_scope_pop: `x = 1; del x; x -z` is offered again (and was kept before the `del`);
`def ls(l): ls -l` keeps the line inside the body and offers the same text after it -/
example : delReadAt (run (code [7]) pDelReturns) 2 = true ∧ offered (run (code [7]) pDelReturns) 2 = true ∧
    offered (run (code []) pScope) 1 = false ∧ offered (run (code []) pScope) 2 = true := by decide

/-- every one of these disappears when exactly that mechanism is repaired (what the harness uses to attribute a failure) -/
example : offered (run ⟨B, [], { Fixes.none with dotted := true }⟩ pDotted) 1 = false ∧
    offered (run ⟨B, [7], { Fixes.none with walrus := true }⟩ pWalrus) 0 = false ∧
    offered (run ⟨B, [], { Fixes.none with walrus := true }⟩ pWalrusStmt) 1 = false ∧
    offered (run ⟨B, [7], { Fixes.none with lam := true }⟩ pLambda) 0 = false ∧
    offered (run ⟨B, [7], { Fixes.none with comp := true }⟩ pComp) 0 = false ∧
    offered (run ⟨B, [7], { Fixes.none with nested := true }⟩ pNested) 1 = false ∧
    offered (run ⟨B, [6, 7], { Fixes.none with delB := true }⟩ pDelBuiltin) 1 = false ∧
    offered (run ⟨B, [7], { Fixes.none with handler := true }⟩ pExcept) 4 = false ∧
    offered (run ⟨B, [5, 7], { Fixes.none with delSess := true }⟩ pDelSess) 2 = true ∧
    offered (run ⟨B, [7], { Fixes.none with delSeq := true }⟩ pDelSeq) 2 = true := by decide

/-! ## "the decision is made for the whole input before anything runs" -/

/-- On every path through `Execer.exec` and `Execer.eval` (skeletons regenerated from xonsh/execer.py on every run), builtin
`exec` / `eval` is applied only to a code object that `Execer.compile` made from the WHOLE input text (or that the caller passed
as a code object); `Execer.compile` returns only what builtin `compile` made from the tree `Execer.parse` produced for the whole
text (or None / the empty program); and no other function on the parse path calls `exec` / `eval`.  So the Python-vs-command
decision for every statement, and every syntax error, precede the first executed instruction. -/
theorem C02_parse_before_exec :
    ExecOrder.orderOk false Gen.ExecerOrder.execSk = true ∧ ExecOrder.orderOk false Gen.ExecerOrder.evalSk = true ∧
    ExecOrder.orderOk true Gen.ExecerOrder.compileSk = true ∧ Gen.ExecerOrder.runCallsElsewhere.all (· == 0) = true :=
  ⟨Gen.ExecerOrder.exec_runs_only_compiled_whole_input, Gen.ExecerOrder.eval_runs_only_compiled_whole_input,
   Gen.ExecerOrder.compile_returns_code_of_whole_input, Gen.ExecerOrder.nothing_else_runs⟩

open ExecOrder in
/-- non-vacuity: the obligation rejects a method that runs the first line before compiling the rest, one that compiles only
a part of the input, and one that runs inside the exception handler of the compile -/
example :
    orderOk false (.cons (.run 0) (.cons (.assign 1 (.selfCompile 0)) (.cons (.retRun 1) .nil))) = false ∧
    orderOk false (.cons (.assign 2 .other) (.cons (.assign 1 (.selfCompile 2)) (.cons (.retRun 1) .nil))) = false ∧
    orderOk false (.cons (.tryCatch [1] (.cons (.assign 1 (.selfCompile 0)) .nil) (.cons (.run 1) .nil)) (.cons (.retRun 1) .nil)) = false ∧
    orderOk false (.cons (.assign 1 (.selfCompile 0)) (.cons (.retRun 1) .nil)) = true := by decide

/-! ## the raise wrapper (phase 3) leaves pure Python alone -/

open RaiseWrap in
mutual
/-- `_SubprocChainRaiseWrapper` never touches a tree without a subprocess helper call below it: a pure-Python `a or b`,
`if a and b:` — at any depth, inside or outside another and/or, whatever commands stand elsewhere in the input — comes back
unchanged (in particular it is never wrapped in `subproc_check_boolop`) -/
theorem C02_raise_wrapper_pure : ∀ (t : T) (inside : Bool), hasHelper t = false → visit inside t = t
  | .helper _ _, _, h => by simp [hasHelper] at h
  | .boolop vs, inside, h => by
    have hv := C02_raise_wrapper_pureL vs true (by simpa [hasHelper] using h)
    have hh : hasHelperL vs = false := by simpa [hasHelper] using h
    simp only [visit, hv, hh]
    split <;> simp
  | .wrapped t, inside, h => by
    simp only [visit, C02_raise_wrapper_pure t inside (by simpa [hasHelper] using h)]
  | .stmtVal t, inside, h => by
    have ht : hasHelper t = false := by simpa [hasHelper] using h
    simp only [visit, C02_raise_wrapper_pure t inside ht]
    cases t with
    | helper _ _ => simp [hasHelper] at ht
    | _ => simp [isWrapped, isRaisingHelper]
  | .other cs, inside, h => by
    simp only [visit, C02_raise_wrapper_pureL cs inside (by simpa [hasHelper] using h)]
theorem C02_raise_wrapper_pureL : ∀ (ts : Ts) (inside : Bool), hasHelperL ts = false → visitL inside ts = ts
  | .nil, _, _ => by simp [visitL]
  | .cons t ts, inside, h => by
    simp only [hasHelperL, Bool.or_eq_false_iff] at h
    simp only [visitL, C02_raise_wrapper_pure t inside h.1, C02_raise_wrapper_pureL ts inside h.2]
end

open RaiseWrap in
/-- non-vacuity: a chain over a command IS wrapped (once, at the outermost and/or), a bare raising command statement too -/
example : visit false (.boolop (.cons (.helper true .nil) (.cons (.boolop (.cons (.other .nil) .nil)) .nil))) =
      .wrapped (.boolop (.cons (.helper true .nil) (.cons (.boolop (.cons (.other .nil) .nil)) .nil))) ∧
    visit false (.stmtVal (.helper true .nil)) = .stmtVal (.wrapped (.helper true .nil)) ∧
    visit false (.stmtVal (.helper false .nil)) = .stmtVal (.helper false .nil) := ⟨by rfl, by rfl, by rfl⟩
