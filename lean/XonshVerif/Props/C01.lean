/-
C01 — Python superset: every valid Python program parses to CPython's syntax tree.   PARTIAL.

NO THEOREM HERE STATES THE MAIN CLAUSE.  "Every text CPython's PEG parser accepts is accepted by xonsh's PLY LALR(1) automaton with
the same tree" relates two parsers that are not modelled (≈1300 lines of generated table, ≈600 imperative grammar actions, a regex
tokenizer, a stateful lexer); that clause is SEARCHED by xv/props/c01.py (differential against `ast.parse`), not proved.

What is proved, over tables REGENERATED FROM /repo AND THE RUNNING INTERPRETER on every run (Gen/PyTokens.lean):
  * tokens   : every CPython operator / delimiter spelling comes out of xonsh's tokenizer + lexer as ONE token of a type the
               grammar knows, different spellings get different types; every hard keyword becomes its own token type (never a
               name); every soft keyword becomes a token the grammar production `name` accepts;
  * targets  : `context_check._not_assignable` (its isinstance chain read from the source) against CPython's target rule, for
               targets of ANY nesting, by structural induction: whatever CPython allows, xonsh allows — except empty `()` / `[]`
               targets (counterexample); and xonsh allows nothing else, except what its chain does not list and misplaced stars.
-/
import XonshVerif.Model.CtxCheck
import XonshVerif.Gen.PyTokens
open CtxCheck TokMap

namespace C01

/-- `_not_assignable` as /repo has it now -/
def cfg : Cfg :=
  ⟨Gen.PyTokens.notAssignableRows, Gen.PyTokens.augSeqMsg, Gen.PyTokens.emptySeqMsg, Gen.PyTokens.recursionPassesAug⟩

/-- tokenizer + lexer tables as /repo has them now -/
def lex : Lex :=
  ⟨Gen.PyTokens.funnyAlts, Gen.PyTokens.specialOps, Gen.PyTokens.tokenMapOps, Gen.PyTokens.errorTokenMap⟩

abbrev ops := Gen.PyTokens.cpythonOps
abbrev kws := Gen.PyTokens.kwlist
abbrev nameTok' := nameTokAt Gen.PyTokens.kwlist Gen.PyTokens.kwExtra Gen.PyTokens.needWhitespace

end C01
open C01

/-! ## tokens -/

/-- every operator / delimiter spelling of the running CPython (`token.EXACT_TOKEN_TYPES`) is taken by xonsh's tokenizer as ONE
token and mapped by the lexer to a PLY token type … -/
theorem C01_ops_total : ∀ op ∈ ops, (xonshTok lex op).isSome = true := by decide +kernel

/-- … that is one of the token types the grammar is built over … -/
theorem C01_ops_known : ∀ op ∈ ops, ∀ t, xonshTok lex op = some t → t ∈ Gen.PyTokens.plyTokens := by decide +kernel

/-- … and two different spellings never share a type (`>=` is not `>`, `**=` is not `*=`, …) -/
theorem C01_ops_injective : ∀ a ∈ ops, ∀ b ∈ ops, xonshTok lex a = xonshTok lex b → a = b := by decide +kernel

example : xonshTok lex [62, 61] = some [71, 69] := by decide                      -- ">=" ↦ GE
example : xonshTok lex [42, 42, 61] = some [80, 79, 87, 69, 81, 85, 65, 76] := by decide   -- "**=" ↦ POWEQUAL
example : xonshTok lex [60, 62] = none := by decide                               -- "<>" is two tokens, not an operator
example : ops.length > 40 := by decide

/-- every hard keyword of the running CPython becomes its own token type — a type the grammar knows, not NAME, not a type the
production `name` accepts — provided it is followed by a blank where the lexer insists on one (see `C01_kw_glued_cex`) -/
theorem C01_kw_total :
    ∀ k ∈ kws, ∀ hasWs, (Gen.PyTokens.needWhitespace.contains k = false ∨ hasWs = true) →
      nameTok' hasWs k = toUpper k ∧ toUpper k ∈ Gen.PyTokens.plyTokens ∧ toUpper k ∉ Gen.PyTokens.nameAlts := by
  decide +kernel

/-- different keywords, different token types -/
theorem C01_kw_injective : ∀ a ∈ kws, ∀ b ∈ kws, toUpper a = toUpper b → a = b := by decide +kernel

/-- soft keywords stay usable as names: each comes out as NAME or as a token type the grammar production `name` accepts -/
theorem C01_softkw_names : ∀ k ∈ Gen.PyTokens.softkwlist, ∀ hasWs, nameTok' hasWs k ∈ Gen.PyTokens.nameAlts := by decide +kernel

/-- an ordinary identifier is a NAME -/
example : nameTok' true [120, 121] = sNAME := by decide
example : nameTok' true [105, 102] = [73, 70] := by decide        -- "if" ↦ IF
example : kws.length ≥ 35 := by decide

/-- COUNTEREXAMPLE to the unrestricted keyword clause: a NEED_WHITESPACE word (`and`, `or`) that is directly followed by a
non-blank — `x and(y)`, `a or-1`, all valid Python — is a keyword of CPython but comes out of `handle_name` as a NAME.
(Stated over the translated NEED_WHITESPACE table: it is vacuous once that table is empty.) -/
theorem C01_kw_glued_cex : ∀ w ∈ Gen.PyTokens.needWhitespace, w ∈ kws ∧ nameTok' false w = sNAME := by decide +kernel

/-! ## targets -/

theorem beq_assign : (Mode.assign == Mode.aug) = false := by decide
theorem beq_del : (Mode.del == Mode.aug) = false := by decide
theorem beq_aug : (Mode.aug == Mode.aug) = true := by decide

theorem rows_simple : chain cfg.rows [sName] = none ∧ chain cfg.rows [sAttribute] = none ∧ chain cfg.rows [sSubscript] = none
    ∧ chain cfg.rows [sStarred] = none := by decide +kernel

theorem leaf_ok (tags : List CtxCheck.Str) (h : simpleTarget tags = true) : chain cfg.rows tags = none := by
  unfold simpleTarget at h
  simp only [Bool.or_eq_true, beq_iff_eq] at h
  rcases h with (h | h) | h <;> subst h
  · exact rows_simple.1
  · exact rows_simple.2.1
  · exact rows_simple.2.2.1

theorem seqCase_nonempty (isE : Bool) (loop : Option CtxCheck.Str) (h : isE = false) : seqCase cfg isE false loop = loop := by
  subst h; simp [seqCase]

theorem seqCase_fixed (hf : cfg.emptySeqMsg = none) (isE : Bool) (loop : Option CtxCheck.Str) : seqCase cfg isE false loop = loop := by
  simp [seqCase, hf]

theorem recAug_false (b : Bool) : (cfg.recAug && false) = false := by simp

theorem skip_ok (es : List Tgt) (loop : Option CtxCheck.Str) (h : es.isEmpty = false ∨ cfg.emptySeqMsg = none) :
    seqCase cfg es.isEmpty false loop = loop := by
  rcases h with h | h
  · exact seqCase_nonempty _ _ h
  · exact seqCase_fixed h _ _

theorem seq_step (es : List Tgt) (hn : (!es.isEmpty && noEmptySeqL es) = true ∨ cfg.emptySeqMsg = none) :
    (es.isEmpty = false ∨ cfg.emptySeqMsg = none) ∧ (noEmptySeqL es = true ∨ cfg.emptySeqMsg = none) := by
  rcases hn with hn | hn
  · simp only [Bool.and_eq_true, Bool.not_eq_true'] at hn
    exact ⟨Or.inl hn.1, Or.inl hn.2⟩
  · exact ⟨Or.inr hn, Or.inr hn⟩

theorem cons_step (e : Tgt) (rest : List Tgt) (hn : (noEmptySeq e && noEmptySeqL rest) = true ∨ cfg.emptySeqMsg = none) :
    (noEmptySeq e = true ∨ cfg.emptySeqMsg = none) ∧ (noEmptySeqL rest = true ∨ cfg.emptySeqMsg = none) := by
  rcases hn with hn | hn
  · simp only [Bool.and_eq_true] at hn
    exact ⟨Or.inl hn.1, Or.inl hn.2⟩
  · exact ⟨Or.inr hn, Or.inr hn⟩

-- the induction (any nesting): what CPython's rule allows passes `_not_assignable`, as long as every sequence on the way is
-- non-empty or the emptiness test is absent
mutual
theorem acceptT : ∀ (t : Tgt) (m : Mode), m ≠ .aug → cpyValid m t = true → (noEmptySeq t = true ∨ cfg.emptySeqMsg = none) →
    notAssignable cfg t false = none
  | .leaf tags, m, _, h, _ => by
    simp only [notAssignable]
    apply leaf_ok
    cases m <;> simpa [cpyValid] using h
  | .starred t, m, _, h, _ => by cases m <;> simp [cpyValid] at h
  | .tuple es, m, hm, h, hn => by
    have hv : cpyValidElts m es = true := by
      cases m <;> first | exact absurd rfl hm | (simp only [cpyValid, Bool.and_eq_true] at h; exact h.2)
    have hs := seq_step es (by simpa [noEmptySeq] using hn)
    simp only [notAssignable, recAug_false]
    rw [skip_ok es _ hs.1]
    exact acceptL es m hm hv hs.2
  | .list es, m, hm, h, hn => by
    have hv : cpyValidElts m es = true := by
      cases m <;> first | exact absurd rfl hm | (simp only [cpyValid, Bool.and_eq_true] at h; exact h.2)
    have hs := seq_step es (by simpa [noEmptySeq] using hn)
    simp only [notAssignable, recAug_false]
    rw [skip_ok es _ hs.1]
    exact acceptL es m hm hv hs.2
theorem acceptL : ∀ (es : List Tgt) (m : Mode), m ≠ .aug → cpyValidElts m es = true → (noEmptySeqL es = true ∨ cfg.emptySeqMsg = none) →
    firstBad cfg es false = none
  | [], _, _, _, _ => by simp [firstBad]
  | .starred t :: rest, m, hm, h, hn => by
    -- a starred element: xonsh lets it through without looking; CPython allows it in an assignment only
    have hs := cons_step (.starred t) rest (by simpa [noEmptySeqL] using hn)
    have hx : notAssignable cfg (.starred t) false = none := by simp only [notAssignable]; exact rows_simple.2.2.2
    have hr : cpyValidElts m rest = true := by
      cases m with
      | aug => exact absurd rfl hm
      | del => simp [cpyValidElts, cpyValid] at h
      | assign => cases t <;> simp_all [cpyValidElts]
    simp only [firstBad, hx]
    exact acceptL rest m hm hr hs.2
  | .leaf tags :: rest, m, hm, h, hn => by
    have hs := cons_step (.leaf tags) rest (by simpa [noEmptySeqL] using hn)
    have hh : cpyValid m (.leaf tags) = true ∧ cpyValidElts m rest = true := by cases m <;> simpa [cpyValidElts] using h
    simp only [firstBad, acceptT (.leaf tags) m hm hh.1 hs.1]
    exact acceptL rest m hm hh.2 hs.2
  | .tuple es :: rest, m, hm, h, hn => by
    have hs := cons_step (.tuple es) rest (by simpa [noEmptySeqL] using hn)
    have hh : cpyValid m (.tuple es) = true ∧ cpyValidElts m rest = true := by cases m <;> simpa [cpyValidElts] using h
    simp only [firstBad, acceptT (.tuple es) m hm hh.1 hs.1]
    exact acceptL rest m hm hh.2 hs.2
  | .list es :: rest, m, hm, h, hn => by
    have hs := cons_step (.list es) rest (by simpa [noEmptySeqL] using hn)
    have hh : cpyValid m (.list es) = true ∧ cpyValidElts m rest = true := by cases m <;> simpa [cpyValidElts] using h
    simp only [firstBad, acceptT (.list es) m hm hh.1 hs.1]
    exact acceptL rest m hm hh.2 hs.2
end

/-- the augmented case: CPython allows only Name / Attribute / Subscript, which the chain lets through -/
theorem accept_aug (t : Tgt) (h : cpyValid .aug t = true) : notAssignable cfg t true = none := by
  cases t with
  | leaf tags => simp only [notAssignable]; exact leaf_ok tags (by simpa [cpyValid] using h)
  | starred t => simp [cpyValid] at h
  | tuple es => simp [cpyValid] at h
  | list es => simp [cpyValid] at h

/-- C01 (targets, the direction the property needs), PARTIAL: every assignment / augmented-assignment / `del` target CPython's
grammar allows — Name, Attribute, Subscript, starred elements, Tuples and Lists of ANY nesting — passes xonsh's `check_contexts`,
PROVIDED it contains no empty `()` / `[]`.  -/
theorem C01_targets_partial (m : Mode) (t : Tgt) (h : cpyValid m t = true) (hn : noEmptySeq t = true) :
    xonshAccepts cfg m t = true := by
  unfold xonshAccepts
  cases m with
  | aug => simp [beq_aug, accept_aug t h]
  | assign => simp [beq_assign, acceptT t .assign (by decide) h (Or.inl hn)]
  | del => simp [beq_del, acceptT t .del (by decide) h (Or.inl hn)]

/-- the same WITHOUT the proviso for a `_not_assignable` that has no emptiness test (the repaired variant): then the statement is
C01's target clause at full strength.  With /repo's current source the hypothesis is false, see `C01_targets_cex`. -/
theorem C01_targets (hfixed : cfg.emptySeqMsg = none) (m : Mode) (t : Tgt) (h : cpyValid m t = true) :
    xonshAccepts cfg m t = true := by
  unfold xonshAccepts
  cases m with
  | aug => simp [beq_aug, accept_aug t h]
  | assign => simp [beq_assign, acceptT t .assign (by decide) h (Or.inr hfixed)]
  | del => simp [beq_del, acceptT t .del (by decide) h (Or.inr hfixed)]

/-- C01's target clause AT FULL STRENGTH, UNCONDITIONALLY, for /repo's current source (the emptiness test was removed in /repo
commit 7cb36ca, finding `empty-sequence-target`): every assignment / augmented-assignment / `del` target CPython allows — empty
`()` / `[]` included, any nesting — passes xonsh's `check_contexts`.  The hypothesis of `C01_targets` is discharged from the
translated table; should the test come back, this theorem stops checking and the check reports it. -/
theorem C01_targets_full (m : Mode) (t : Tgt) (h : cpyValid m t = true) : xonshAccepts cfg m t = true :=
  C01_targets (by decide) m t h

example : xonshAccepts cfg .assign (.tuple []) = true ∧ xonshAccepts cfg .assign (.list []) = true ∧ xonshAccepts cfg .del (.tuple []) = true
    ∧ xonshAccepts cfg .assign (.tuple [.leaf [sName], .tuple []]) = true := by decide +kernel

/-- COUNTEREXAMPLE (the defect of known finding `empty-sequence-target`, repaired in /repo 7cb36ca — with the current source the
hypothesis is false and this is vacuous; it documents what the test did): while `_not_assignable` has its emptiness test,
`() = x`, `[] = x`, `del ()`, `del []` — all valid Python — are refused with that message, at any depth (`a, () = x`). -/
theorem C01_targets_cex (msg : CtxCheck.Str) (h : cfg.emptySeqMsg = some msg) :
    (cpyValid .assign (.tuple []) = true ∧ notAssignable cfg (.tuple []) false = some msg) ∧
    (cpyValid .assign (.list []) = true ∧ notAssignable cfg (.list []) false = some msg) ∧
    (cpyValid .del (.tuple []) = true ∧ notAssignable cfg (.tuple []) false = some msg) ∧
    (cpyValid .assign (.tuple [.leaf [sName], .tuple []]) = true ∧
      notAssignable cfg (.tuple [.leaf [sName], .tuple []]) false = some msg) := by
  have e : ∀ loop, seqCase cfg true false loop = some msg := by intro loop; simp [seqCase, h]
  refine ⟨⟨by decide, ?_⟩, ⟨by decide, ?_⟩, ⟨by decide, ?_⟩, ⟨by decide, ?_⟩⟩
  · simp only [notAssignable, List.isEmpty_nil]; exact e _
  · simp only [notAssignable, List.isEmpty_nil]; exact e _
  · simp only [notAssignable, List.isEmpty_nil]; exact e _
  · have hn : notAssignable cfg (.leaf [sName]) false = none := by simp only [notAssignable]; exact rows_simple.1
    have ht : notAssignable cfg (.tuple []) false = some msg := by simp only [notAssignable, List.isEmpty_nil]; exact e _
    have hb : (cfg.recAug && false) = false := recAug_false false
    simp only [notAssignable, List.isEmpty_cons]
    rw [seqCase_nonempty _ _ rfl, hb]
    simp only [firstBad, hn, ht]

-- non-vacuity: deep, starred, mixed targets satisfy the hypotheses; the conclusion is not trivially true (a literal is refused)
example : cpyValid .assign (.tuple [.leaf [sName], .starred (.list [.leaf [sAttribute], .leaf [sSubscript]]), .list [.tuple [.leaf [sName]]]]) = true
    ∧ noEmptySeq (.tuple [.leaf [sName], .starred (.list [.leaf [sAttribute], .leaf [sSubscript]]), .list [.tuple [.leaf [sName]]]]) = true := by decide
example : xonshAccepts cfg .assign (.tuple [.leaf [sName], .leaf [[67, 97, 108, 108]]]) = false := by decide +kernel   -- `a, f() = x`
example : xonshAccepts cfg .aug (.tuple [.leaf [sName]]) = false := by decide +kernel                             -- `(a,) += x`
example : cpyValid .del (.list [.leaf [sName], .tuple []]) = true := by decide                                    -- `del [a, ()]`
example : cpyValid .assign (.tuple []) = true := by decide

/-! ### the converse: what xonsh lets through that CPython does not -/

mutual
/-- side condition of the converse: every leaf is either a proper simple target or is caught by the chain, stars stand only
directly inside a sequence of an ordinary assignment, and what is under a star (which xonsh never inspects) is itself a target
CPython would allow there -/
def tame (c : Cfg) : Mode → Tgt → Bool
  | _, .leaf tags => simpleTarget tags || (chain c.rows tags).isSome
  | _, .starred _ => false
  | m, .tuple es => oneStar es && tameL c m es
  | m, .list es => oneStar es && tameL c m es
def tameL (c : Cfg) : Mode → List Tgt → Bool
  | _, [] => true
  | .assign, .starred (.starred _) :: _ => false
  | .assign, .starred t :: rest => cpyValid .assign t && tameL c .assign rest
  | m, e :: rest => tame c m e && tameL c m rest
end

theorem seq_loop (es : List Tgt) (hx : seqCase cfg es.isEmpty false (firstBad cfg es false) = none) :
    firstBad cfg es false = none := by
  unfold seqCase at hx
  simp only [Bool.false_eq_true, if_false] at hx
  split at hx
  · rename_i hc
    simp only [Bool.and_eq_true, Option.isSome_iff_exists] at hc
    obtain ⟨_, m', hm'⟩ := hc
    rw [hm'] at hx; cases hx
  · exact hx

theorem firstBad_cons (e : Tgt) (rest : List Tgt) (hx : firstBad cfg (e :: rest) false = none) :
    notAssignable cfg e false = none ∧ firstBad cfg rest false = none := by
  simp only [firstBad] at hx
  cases hne : notAssignable cfg e false with
  | some v => simp [hne] at hx
  | none => simp only [hne] at hx; exact ⟨rfl, hx⟩

mutual
theorem rejectT : ∀ (t : Tgt) (m : Mode), m ≠ .aug → tame cfg m t = true → notAssignable cfg t false = none → cpyValid m t = true
  | .leaf tags, m, _, ht, hx => by
    simp only [notAssignable] at hx
    have : simpleTarget tags = true := by
      cases m <;> simp only [tame, Bool.or_eq_true] at ht <;> rcases ht with ht | ht <;> first | exact ht | simp [hx] at ht
    cases m <;> simpa [cpyValid] using this
  | .starred t, m, _, ht, _ => by cases m <;> simp [tame] at ht
  | .tuple es, m, hm, ht, hx => by
    have htl : oneStar es = true ∧ tameL cfg m es = true := by
      cases m <;> first | exact absurd rfl hm | (simp only [tame, Bool.and_eq_true] at ht; exact ht)
    simp only [notAssignable, recAug_false] at hx
    have := rejectL es m hm htl.2 (seq_loop es hx)
    cases m <;> first | exact absurd rfl hm | (simp only [cpyValid, Bool.and_eq_true]; exact ⟨htl.1, this⟩)
  | .list es, m, hm, ht, hx => by
    have htl : oneStar es = true ∧ tameL cfg m es = true := by
      cases m <;> first | exact absurd rfl hm | (simp only [tame, Bool.and_eq_true] at ht; exact ht)
    simp only [notAssignable, recAug_false] at hx
    have := rejectL es m hm htl.2 (seq_loop es hx)
    cases m <;> first | exact absurd rfl hm | (simp only [cpyValid, Bool.and_eq_true]; exact ⟨htl.1, this⟩)
theorem rejectL : ∀ (es : List Tgt) (m : Mode), m ≠ .aug → tameL cfg m es = true → firstBad cfg es false = none → cpyValidElts m es = true
  | [], m, _, _, _ => by cases m <;> simp [cpyValidElts]
  | .starred t :: rest, m, hm, ht, hx => by
    have hsplit := firstBad_cons _ _ hx
    cases m with
    | aug => exact absurd rfl hm
    | del => simp [tameL, tame] at ht
    | assign =>
      cases t with
      | starred t' => simp [tameL] at ht
      | leaf tags =>
        simp only [tameL, Bool.and_eq_true] at ht
        simp only [cpyValidElts, Bool.and_eq_true]
        exact ⟨ht.1, rejectL rest .assign hm ht.2 hsplit.2⟩
      | tuple es =>
        simp only [tameL, Bool.and_eq_true] at ht
        simp only [cpyValidElts, Bool.and_eq_true]
        exact ⟨ht.1, rejectL rest .assign hm ht.2 hsplit.2⟩
      | list es =>
        simp only [tameL, Bool.and_eq_true] at ht
        simp only [cpyValidElts, Bool.and_eq_true]
        exact ⟨ht.1, rejectL rest .assign hm ht.2 hsplit.2⟩
  | .leaf tags :: rest, m, hm, ht, hx => by
    have hsplit := firstBad_cons _ _ hx
    have ht' : tame cfg m (.leaf tags) = true ∧ tameL cfg m rest = true := by cases m <;> simpa [tameL] using ht
    have h1 := rejectT (.leaf tags) m hm ht'.1 hsplit.1
    have hr := rejectL rest m hm ht'.2 hsplit.2
    cases m <;> simp_all [cpyValidElts]
  | .tuple es :: rest, m, hm, ht, hx => by
    have hsplit := firstBad_cons _ _ hx
    have ht' : tame cfg m (.tuple es) = true ∧ tameL cfg m rest = true := by cases m <;> simpa [tameL] using ht
    have h1 := rejectT (.tuple es) m hm ht'.1 hsplit.1
    have hr := rejectL rest m hm ht'.2 hsplit.2
    cases m <;> simp_all [cpyValidElts]
  | .list es :: rest, m, hm, ht, hx => by
    have hsplit := firstBad_cons _ _ hx
    have ht' : tame cfg m (.list es) = true ∧ tameL cfg m rest = true := by cases m <;> simpa [tameL] using ht
    have h1 := rejectT (.list es) m hm ht'.1 hsplit.1
    have hr := rejectL rest m hm ht'.2 hsplit.2
    cases m <;> simp_all [cpyValidElts]
end

/-- C01 (targets, both directions), PARTIAL: for targets of any nesting without empty sequences, whose leaves are either proper
targets or listed in the chain, and whose stars are where stars may be, xonsh's check and CPython's rule agree exactly. -/
theorem C01_targets_iff_partial (m : Mode) (t : Tgt) (hn : noEmptySeq t = true) (ht : tame cfg m t = true) :
    xonshAccepts cfg m t = true ↔ cpyValid m t = true := by
  constructor
  · intro hx
    cases m with
    | aug =>
      cases t with
      | leaf tags =>
        simp only [xonshAccepts, notAssignable, beq_aug, Option.isNone_iff_eq_none] at hx
        simp only [tame, Bool.or_eq_true] at ht
        rcases ht with ht | ht
        · simpa [cpyValid] using ht
        · simp [hx] at ht
      | starred t => simp [tame] at ht
      | tuple es => simp [xonshAccepts, notAssignable, seqCase, beq_aug] at hx
      | list es => simp [xonshAccepts, notAssignable, seqCase, beq_aug] at hx
    | assign =>
      have hx' : notAssignable cfg t false = none := by simpa [xonshAccepts, beq_assign] using hx
      exact rejectT t .assign (by decide) ht hx'
    | del =>
      have hx' : notAssignable cfg t false = none := by simpa [xonshAccepts, beq_del] using hx
      exact rejectT t .del (by decide) ht hx'
  · intro h; exact C01_targets_partial m t h hn

/-- why the converse needs `tame` (NOT defects of C01, which only asks for a superset): a bare `*a = x` and an expression class
the chain does not list (here an f-string) pass `_not_assignable`; CPython refuses both. -/
theorem C01_targets_converse_cex :
    (xonshAccepts cfg .assign (.starred (.leaf [sName])) = true ∧ cpyValid .assign (.starred (.leaf [sName])) = false) ∧
    (xonshAccepts cfg .assign (.leaf [[74, 111, 105, 110, 101, 100, 83, 116, 114]]) = true ∧
      cpyValid .assign (.leaf [[74, 111, 105, 110, 101, 100, 83, 116, 114]]) = false) := by decide +kernel
