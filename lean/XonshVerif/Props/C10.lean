/-
C10 — The typed environment survives the trip to child processes and back.
 * round-trip theorems for the converter/detyper pairs modelled in `Conv` (all values);
 * `C10_every_var`: every variable registered in /repo's DEFAULT_VARS (table regenerated on every
   run) uses a (convert, detype) pair that is classified — proved here, or tied by correspondence;
 * the `_detyped` cache machine: a launch reflects the current values for every history that only
   mutates values through `$VAR.…` (C10_launch_fresh_partial); the full statement is false
   (held reference: C10_cex_held_reference).
-/
import XonshVerif.Model.Conv
import XonshVerif.Gen.EnvVars
open Conv

/-! ## sequences: split ∘ join = id -/

theorem splitOn_ne_nil (sep : Char) (s : Str) : splitOn sep s ≠ [] := by
  cases s with
  | nil => simp [splitOn]
  | cons c cs =>
    simp only [splitOn]
    split
    · simp
    · split <;> simp

theorem splitOn_nosep (sep : Char) (x : Str) (h : sep ∉ x) : splitOn sep x = [x] := by
  induction x with
  | nil => rfl
  | cons c cs ih =>
    have hc : c ≠ sep := by intro e; subst e; exact h (by simp)
    have hcs : sep ∉ cs := fun hm => h (List.mem_cons_of_mem _ hm)
    simp only [splitOn, hc, if_false, ih hcs]

theorem splitOn_append_sep (sep : Char) (x rest : Str) (h : sep ∉ x) :
    splitOn sep (x ++ sep :: rest) = x :: splitOn sep rest := by
  induction x with
  | nil => simp [splitOn]
  | cons c cs ih =>
    have hc : c ≠ sep := by intro e; subst e; exact h (by simp)
    have hcs : sep ∉ cs := fun hm => h (List.mem_cons_of_mem _ hm)
    simp only [List.cons_append, splitOn, hc, if_false, ih hcs]

theorem split_join (sep : Char) (l : List Str) (hne : l ≠ []) (h : ∀ x ∈ l, sep ∉ x) :
    splitOn sep (joinWith sep l) = l := by
  induction l with
  | nil => exact absurd rfl hne
  | cons x rest ih =>
    cases rest with
    | nil => simpa [joinWith] using splitOn_nosep sep x (h x (by simp))
    | cons y ys =>
      simp only [joinWith]
      rw [splitOn_append_sep sep x _ (h x (by simp))]
      rw [ih (by simp) (fun z hz => h z (List.mem_cons_of_mem _ hz))]

theorem joinWith_eq_nil (sep : Char) (l : List Str) (h : joinWith sep l = []) : l = [] ∨ l = [[]] := by
  cases l with
  | nil => exact Or.inl rfl
  | cons x rest =>
    cases rest with
    | nil => simp [joinWith] at h; exact Or.inr (by rw [h])
    | cons y ys => simp [joinWith] at h

/-- ROUND TRIP for every separator-joined sequence type (`$PATH`-like env paths with ':', csv sets
with ','): for ALL valid values, convert (detype v) = v -/
theorem C10_rt_seq (sep : Char) (l : List Str) (hv : ValidSeq sep l) :
    sepToSeq sep (seqToSep sep l) = l := by
  unfold sepToSeq seqToSep
  by_cases he : (joinWith sep l).isEmpty = true
  · have : joinWith sep l = [] := by simpa using he
    rcases joinWith_eq_nil sep l this with h | h
    · simp [h, joinWith]
    · exact absurd h hv.2
  · simp only [he]
    have hne : l ≠ [] := by intro e; subst e; simp [joinWith] at he
    exact split_join sep l hne hv.1

/-- the excluded value really does not round-trip (it is why `ValidSeq` excludes it) -/
theorem C10_rt_seq_excluded (sep : Char) : sepToSeq sep (seqToSep sep [[]]) = [] := by
  simp [sepToSeq, seqToSep, joinWith]

/-! ## booleans, against the `_FALSES` table of the current source -/

def genFalses : List Str := Gen.EnvVars.falses.map String.toList

theorem C10_rt_bool (b : Bool) : toBool genFalses (boolToStr b) = b := by
  cases b <;> decide

theorem C10_rt_bool_or_none (v : Option Bool) : toBoolOrNone genFalses (boolOrNoneToStr v) = v := by
  rcases v with _ | b
  · decide
  · cases b <;> decide

/-! ## every registered variable's pair is accounted for -/

/-- how each (convert, detype) pair is covered: `proved:<theorem>` here, `tied` = round-trip checked
against the real functions on generated values by the correspondence (every run), `not-exported` =
no detyper, the variable never reaches a child -/
def classify : String × String → Option String
  | ("to_bool", "bool_to_str") => some "proved:C10_rt_bool"
  | ("to_bool_or_none", "bool_or_none_to_str") => some "proved:C10_rt_bool_or_none"
  | ("str_to_env_path", "env_path_to_str") => some "proved:C10_rt_seq ':'"
  | ("ensure_string", "ensure_string") => some "proved:identity on str"
  | ("to_itself", "ensure_string") => some "proved:identity on str"
  | ("None", "ensure_string") => some "proved:identity on str"
  | ("histcontrol_csv_to_set", "set_to_csv") => some "tied (csv core: C10_rt_seq ',')"
  | ("pathsep_to_upper_seq", "seq_to_upper_pathsep") => some "tied (core: C10_rt_seq ':')"
  | ("int", "str") => some "tied"
  | ("float", "str") => some "tied"
  | ("to_shlvl", "str") => some "tied"
  | ("to_debug", "bool_or_int_to_str") => some "tied"
  | ("to_breakpoint_engine", "str") => some "tied"
  | ("to_logfile_opt", "logfile_opt_to_str") => some "tied"
  | ("to_dynamic_cwd_tuple", "dynamic_cwd_tuple_to_str") => some "tied"
  | ("LsColors.convert", "detype") => some "tied"
  | ("to_history_tuple", "history_tuple_to_str") => some "tied"
  | ("to_completions_display_value", "str") => some "tied"
  | ("to_completion_mode", "str") => some "tied"
  | ("to_int_or_none", "str") => some "tied"
  | ("str_to_abs_path", "abs_path_to_str") => some "tied"
  | ("str_to_path", "path_to_str") => some "tied"
  | ("to_tok_color_dict", "dict_to_str") => some "tied"
  | ("VarPattern.to_var_pattern", "VarPattern.detype_var_pattern") => some "tied"
  | ("locale_convert.<locals>.lc_converter", "ensure_string") => some "tied"
  | ("SubprocessSetting.<lambda>", "ensure_string") => some "tied"
  | ("ptk2_color_depth_setter", "ensure_string") => some "tied"
  | ("to_ptk_cursor_shape", "to_ptk_cursor_shape_display_value") => some "tied"
  | ("intensify_colors_on_win_setter", "bool_to_str") => some "tied"
  | (_, "None") => some "not-exported"
  | _ => none

/-- a variable registered with a converter pair nobody has looked at breaks this obligation -/
theorem C10_every_var :
    Gen.EnvVars.vars.all (fun v => (classify (v.2.2.1, v.2.2.2)).isSome) = true := by
  decide +kernel

/-- the preset types of `Env.register(type=…)` too -/
theorem C10_every_ensurer :
    Gen.EnvVars.ensurers.all (fun v => (classify (v.2.2.1, v.2.2.2)).isSome) = true := by
  decide +kernel

/-! ## the `_detyped` cache: a launch reflects the values at launch time -/
open DetypeM

def CacheOk (s : St) : Prop := ∀ c, s.cache = some c → c = fresh s

def disciplined : Op → Bool
  | .mutateHeld _ _ => false
  | _ => true

theorem fresh_cache (s : St) (c : Option (List (Key × Detyped))) : fresh { s with cache := c } = fresh s := rfl

theorem step_cacheOk (s : St) (op : Op) (hd : disciplined op = true) (h : CacheOk s) : CacheOk (step s op).1 := by
  cases op with
  | setStr k x => intro c hc; simp [step] at hc
  | setList k l => intro c hc; simp [step] at hc
  | del k =>
    simp only [step]
    split
    · intro c hc; simp at hc
    · exact h
  | getitem k =>
    simp only [step]
    split
    · intro c hc; simp at hc
    · exact h
  | mutateVia k x =>
    simp only [step]
    split
    · intro c hc; simp at hc
    · exact h
  | mutateHeld r x => simp [disciplined] at hd
  | detype =>
    simp only [step]
    cases hc : s.cache with
    | some c => simpa [hc] using h
    | none => intro c' hc'; simp at hc'; rw [← hc']; rfl

theorem run_cacheOk (s : St) (ops : List Op) (hd : ∀ op ∈ ops, disciplined op = true) (h : CacheOk s) :
    CacheOk (run s ops) := by
  induction ops generalizing s with
  | nil => exact h
  | cons op rest ih =>
    simp only [run]
    exact ih _ (fun o ho => hd o (List.mem_cons_of_mem _ ho)) (step_cacheOk s op (hd op (by simp)) h)

/-- PARTIAL: for every history of set / delete / read / `$VAR.append(…)`-style mutation / earlier
launches, the mapping a launch hands to the child is computed from the values at launch time -/
theorem C10_launch_fresh_partial (ops : List Op) (hd : ∀ op ∈ ops, disciplined op = true) :
    (step (run init ops) .detype).2 = some (fresh (run init ops)) := by
  have h := run_cacheOk init ops hd (by intro c hc; simp [init] at hc)
  simp only [step]
  cases hc : (run init ops).cache with
  | some c => simp [h c hc]
  | none => rfl

/-- KNOWN FINDING `held-reference-mutation`: `p = $PATH; launch; p.append(2); launch` — the second
child receives the stale `[1]` although `$PATH` is `[1, 2]` -/
theorem C10_cex_held_reference :
    let s := run init [.setList 0 [1], .detype, .mutateHeld 0 2]
    (step s .detype).2 = some [(0, .list [1])] ∧ fresh s = [(0, .list [1, 2])] := by
  decide

example : ValidSeq ':' ["/usr/bin".toList, [], "/bin".toList] := by
  refine ⟨?_, by simp⟩
  intro x hx; simp at hx; rcases hx with rfl | rfl | rfl <;> decide
