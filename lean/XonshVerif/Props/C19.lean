/-
C19 — Cached bytecode never changes what a script does.
Theorems over `CodeCache` instantiated with the freshness test, the switch table and the character
map TRANSLATED from /repo's xonsh/codecache.py on this run (Gen/CodeCache.lean).
-/
import XonshVerif.Model.CodeCache
import XonshVerif.Gen.CodeCache
open CodeCache

abbrev fresh := Gen.CodeCache.cacheFresh

/-! ## staleness: a cached run is the current source, for every history with a strict clock -/

/-- a readable, version-matching entry that passes the freshness test was compiled from the current text -/
def Sound (s : St) : Prop :=
  ∀ e, s.cache = some e → e.hdrOk = true → ∀ c, e.payload = .code c → fresh e.mtime s.srcMtime = true →
    c = s.content

def ClockOk (s : St) : Prop := (∀ e, s.cache = some e → e.mtime ≤ s.clock) ∧ s.srcMtime ≤ s.clock

/-- THE CLOCK HYPOTHESIS of the statement ("once the source has a newer modification time"): an edit
is saved at a time strictly later than the cache entry was written -/
def okOp (s : St) : Op → Prop
  | .edit _ => ∀ e, s.cache = some e → e.mtime < s.clock
  | _ => True

theorem fresh_iff (a b : Int) : fresh a b = true ↔ a ≥ b := by
  simp [fresh, Gen.CodeCache.cacheFresh]

/-- whatever the state of the cache, running returns the current text whenever the cache is `Sound` -/
theorem run_result (s : St) (u : Bool) (h : Sound s) : (runScript fresh s u).2 = s.content := by
  unfold runScript
  simp only []
  cases u with
  | false => simp
  | true =>
    simp only [if_true]
    cases hc : s.cache with
    | none => simp
    | some e =>
      simp only []
      by_cases hf : fresh e.mtime s.srcMtime = true
      · simp only [hf, if_true]
        by_cases hh : e.hdrOk = true
        · simp only [hh, if_true]
          cases hp : e.payload with
          | code c => simp only []; exact h e hc hh c hp hf
          | unreadable => simp
        · simp [hh]
      · simp [hf]

theorem runScript_state (s : St) (u : Bool) :
    (runScript fresh s u).1 = s ∨ (runScript fresh s u).1 = { s with cache := some ⟨true, .code s.content, s.clock⟩ } := by
  unfold runScript
  simp only []
  split
  · exact Or.inl rfl
  · cases u <;> simp

theorem step_sound (s : St) (op : Op) (hs : Sound s) (hc : ClockOk s) (ho : okOp s op) :
    Sound (step fresh s op).1 ∧ ClockOk (step fresh s op).1 := by
  cases op with
  | tick d =>
    refine ⟨hs, ?_, ?_⟩
    · intro e he; have := hc.1 e he; simp only [step]; omega
    · have := hc.2; simp only [step]; omega
  | edit c =>
    refine ⟨?_, hc.1, by simp [step]⟩
    intro e he hh c' hp hf
    simp only [step] at he hf
    have h1 := ho e he
    have h2 := (fresh_iff _ _).mp hf
    omega
  | touch =>
    refine ⟨?_, hc.1, by simp [step]⟩
    intro e he hh c' hp hf
    simp only [step] at he hf ⊢
    have h2 := (fresh_iff _ _).mp hf
    have h3 := hc.2
    exact hs e he hh c' hp ((fresh_iff _ _).mpr (by omega))
  | run u =>
    simp only [step]
    rcases runScript_state s u with e | e <;> rw [e]
    · exact ⟨hs, hc⟩
    · refine ⟨?_, ?_, hc.2⟩
      · intro e' he' hh c' hp hf
        simp at he'; subst he'; simp at hp; exact hp.symm
      · intro e' he'; simp at he'; subst he'; simp
  | damage =>
    refine ⟨?_, ?_, hc.2⟩
    · intro e he hh c' hp hf
      simp only [step] at he
      cases hcache : s.cache with
      | none => simp [hcache] at he
      | some e0 => simp [hcache] at he; subst he; simp at hp
    · intro e he
      simp only [step] at he
      cases hcache : s.cache with
      | none => simp [hcache] at he
      | some e0 => simp [hcache] at he; subst he; exact hc.1 e0 hcache
  | foreign =>
    refine ⟨?_, ?_, hc.2⟩
    · intro e he hh c' hp hf
      simp only [step] at he
      cases hcache : s.cache with
      | none => simp [hcache] at he
      | some e0 => simp [hcache] at he; subst he; simp at hh
    · intro e he
      simp only [step] at he
      cases hcache : s.cache with
      | none => simp [hcache] at he
      | some e0 => simp [hcache] at he; subst he; exact hc.1 e0 hcache
  | removeCache =>
    exact ⟨by intro e he; simp [step] at he, ⟨by intro e he; simp [step] at he, hc.2⟩⟩

/-- every history in which edits respect the clock hypothesis -/
def Strict : St → List Op → Prop
  | _, [] => True
  | s, op :: rest => okOp s op ∧ Strict (step fresh s op).1 rest

/-- (executed content, content of the source at that moment) for every run of the history -/
def results : St → List Op → List (Nat × Nat)
  | _, [] => []
  | s, op :: rest =>
    match (step fresh s op).2 with
    | some r => (r, s.content) :: results (step fresh s op).1 rest
    | none => results (step fresh s op).1 rest

/-- C19 (main theorem): for EVERY history of edit / touch / run (cache on or off) / damage /
foreign-version / removal / passing time in which edits respect the clock hypothesis, every run —
cached or not — executes the then-current source text -/
theorem C19_fresh (s : St) (ops : List Op) (hs : Sound s) (hc : ClockOk s) (hst : Strict s ops) :
    ∀ p ∈ results s ops, p.1 = p.2 := by
  induction ops generalizing s with
  | nil => intro p hp; simp [results] at hp
  | cons op rest ih =>
    obtain ⟨ho, hrest⟩ := hst
    have hstep := step_sound s op hs hc ho
    intro p hp
    simp only [results] at hp
    cases hr : (step fresh s op).2 with
    | none => rw [hr] at hp; exact ih _ hstep.1 hstep.2 hrest p hp
    | some r =>
      rw [hr] at hp
      rcases List.mem_cons.mp hp with rfl | hm
      · cases op <;> simp [step] at hr
        rename_i u
        rw [← hr]; exact run_result s u hs
      · exact ih _ hstep.1 hstep.2 hrest p hm

def start (content : Nat) : St := ⟨content, 0, none, 0⟩

theorem start_sound (c : Nat) : Sound (start c) ∧ ClockOk (start c) :=
  ⟨by intro e he; simp [start] at he, by intro e he; simp [start] at he, by simp [start]⟩

/-- the clock hypothesis is NEEDED (it is the statement's own proviso, not a finding): an edit saved in
the same clock tick as the cache entry runs the old bytecode -/
theorem C19_same_tick_stale :
    results (start 1) [.run true, .edit 2, .run true] = [(1, 1), (1, 2)] := by decide

/-- with the cache switched off a run is exactly compilation of the current text and touches nothing -/
theorem C19_off_is_uncached (s : St) : runScript fresh s false = (s, s.content) := by
  simp [runScript]

/-- an unreadable (truncated, corrupted) or foreign-version entry is never executed: the run
compiles the current text and rebuilds the entry -/
theorem C19_bad_entry_ignored (s : St) (e : Entry) (hc : s.cache = some e)
    (hbad : e.payload = .unreadable ∨ e.hdrOk = false) :
    runScript fresh s true = ({ s with cache := some ⟨true, .code s.content, s.clock⟩ }, s.content) := by
  unfold runScript
  simp only [if_true, hc]
  by_cases hf : fresh e.mtime s.srcMtime = true
  · simp only [hf, if_true]
    rcases hbad with h | h
    · by_cases hh : e.hdrOk = true <;> simp [hh, h]
    · simp [h]
  · simp [hf]

/-! ## the switches -/

/-- `should_use_cache` as documented: scripts (mode exec) are cached iff the command line allows it
(`--no-script-cache` clears `scriptcache`) AND `$XONSH_CACHE_SCRIPTS` or `$XONSH_CACHE_EVERYTHING`;
other code iff `cacheall` or `$XONSH_CACHE_EVERYTHING` -/
theorem C19_switches (isExec sc ca es ee : Bool) :
    Gen.CodeCache.shouldUseCache isExec sc ca es ee =
      (if isExec then (sc || ca) && (es || ee) else ca || ee) := by
  cases isExec <;> cases sc <;> cases ca <;> cases es <;> cases ee <;> rfl

theorem C19_no_script_cache_flag (es ee : Bool) : Gen.CodeCache.shouldUseCache true false false es ee = false := by
  cases es <;> cases ee <;> rfl

theorem C19_env_switches_off (sc ca : Bool) : Gen.CodeCache.shouldUseCache true sc ca false false = false := by
  cases sc <;> cases ca <;> rfl

/-! ## different scripts never share an entry: the cache-name encoder is injective -/

abbrev tbl := Gen.CodeCache.charMap

def esc (c : Char) : Str := (tbl.lookup c).getD [c]

/-- facts about the table of the current source, checked by kernel evaluation -/
theorem tbl_codes_shape : tbl.all (fun p => p.2.length == 2 && p.2.head? == some '_') = true := by decide +kernel
theorem tbl_codes_nodup : (tbl.map (·.2)).Nodup := by decide +kernel
theorem tbl_keys_nodup : (tbl.map (·.1)).Nodup := by decide +kernel
theorem tbl_has_underscore : (tbl.lookup '_').isSome = true := by decide +kernel

theorem lookup_mem {α β : Type} [BEq α] [LawfulBEq α] (l : List (α × β)) (k : α) (v : β)
    (h : l.lookup k = some v) : (k, v) ∈ l := by
  induction l with
  | nil => cases h
  | cons p ps ih =>
    obtain ⟨a, b⟩ := p
    simp only [List.lookup] at h
    by_cases e : k = a
    · subst e; simp at h; subst h; simp
    · have : (k == a) = false := by simpa using e
      rw [this] at h; exact List.mem_cons_of_mem _ (ih h)

theorem esc_cases (c : Char) : (esc c = [c] ∧ c ≠ '_' ∧ tbl.lookup c = none) ∨
    (∃ x, esc c = ['_', x] ∧ tbl.lookup c = some ['_', x]) := by
  unfold esc
  cases h : tbl.lookup c with
  | none =>
    left
    refine ⟨rfl, ?_, rfl⟩
    intro e; subst e
    have := tbl_has_underscore; rw [h] at this; cases this
  | some code =>
    right
    have hm := lookup_mem tbl c code h
    have hs := List.all_eq_true.mp tbl_codes_shape (c, code) hm
    simp only [Bool.and_eq_true, beq_iff_eq] at hs
    match code, hs with
    | [a, b], ⟨_, h2⟩ =>
      simp at h2; subst h2
      exact ⟨b, rfl, rfl⟩

theorem nodup_getElem_inj {α : Type} (l : List α) (h : l.Nodup) (i j : Nat) (hi : i < l.length)
    (hj : j < l.length) (e : l[i] = l[j]) : i = j := by
  induction l generalizing i j with
  | nil => simp at hi
  | cons a l ih =>
    obtain ⟨ha, hl⟩ := List.nodup_cons.mp h
    cases i with
    | zero =>
      cases j with
      | zero => rfl
      | succ j =>
        simp only [List.getElem_cons_zero, List.getElem_cons_succ] at e
        exact absurd (e ▸ List.getElem_mem _) ha
    | succ i =>
      cases j with
      | zero =>
        simp only [List.getElem_cons_zero, List.getElem_cons_succ] at e
        exact absurd (e ▸ List.getElem_mem _) ha
      | succ j =>
        simp only [List.getElem_cons_succ] at e
        congr 1
        exact ih hl i j (by simpa using hi) (by simpa using hj) e

/-- two table entries with the same code are the same entry -/
theorem code_inj (c d : Char) (x : Char) (hc : tbl.lookup c = some ['_', x]) (hd : tbl.lookup d = some ['_', x]) :
    c = d := by
  have mc := lookup_mem tbl c _ hc
  have md := lookup_mem tbl d _ hd
  -- positions of the two entries in the table
  obtain ⟨i, hi, hic⟩ := List.getElem_of_mem mc
  obtain ⟨j, hj, hjd⟩ := List.getElem_of_mem md
  have hcodes : (tbl.map (·.2))[i]'(by simpa using hi) = (tbl.map (·.2))[j]'(by simpa using hj) := by
    simp [hic, hjd]
  have hij : i = j := nodup_getElem_inj _ tbl_codes_nodup i j (by simpa using hi) (by simpa using hj) hcodes
  subst hij
  rw [hic] at hjd
  exact (Prod.mk.inj hjd).1

theorem esc_append_inj (c d : Char) (r r' : Str) (h : esc c ++ r = esc d ++ r') : c = d ∧ r = r' := by
  rcases esc_cases c with ⟨ec, hcu, _⟩ | ⟨x, ec, lc⟩ <;> rcases esc_cases d with ⟨ed, hdu, _⟩ | ⟨y, ed, ld⟩
  · rw [ec, ed] at h; simp at h; exact h
  · rw [ec, ed] at h; simp at h; exact absurd h.1 hcu
  · rw [ec, ed] at h; simp at h; exact absurd h.1.symm hdu
  · rw [ec, ed] at h
    simp at h
    obtain ⟨hxy, hr⟩ := h
    subst hxy
    exact ⟨code_inj c d x lc ld, hr⟩

/-- the per-component escape is injective -/
theorem escape_inj (s t : Str) (h : escape tbl s = escape tbl t) : s = t := by
  induction s generalizing t with
  | nil =>
    cases t with
    | nil => rfl
    | cons d ds =>
      simp only [escape, List.flatMap_nil, List.flatMap_cons] at h
      rcases esc_cases d with ⟨ed, _, _⟩ | ⟨y, ed, _⟩ <;> (unfold esc at ed; rw [ed] at h; simp at h)
  | cons c cs ih =>
    cases t with
    | nil =>
      simp only [escape, List.flatMap_nil, List.flatMap_cons] at h
      rcases esc_cases c with ⟨ec, _, _⟩ | ⟨y, ec, _⟩ <;> (unfold esc at ec; rw [ec] at h; simp at h)
    | cons d ds =>
      simp only [escape, List.flatMap_cons] at h
      have := esc_append_inj c d _ _ h
      rw [this.1, ih ds this.2]

/-- and no escaped component contains a bare '.', so the `.cache-tag` suffix can be split off again -/
theorem escape_append_tag_inj (s t tag : Str) (h : escape tbl s ++ '.' :: tag = escape tbl t ++ '.' :: tag) :
    s = t := by
  have := List.append_cancel_right h
  exact escape_inj s t this

/-- C19 (entries are never shared): two different split paths get different cache file names -/
theorem C19_renamer_injective (tag : Str) (p q : List Str) (h : renamer tbl tag p = renamer tbl tag q) : p = q := by
  induction p generalizing q with
  | nil =>
    cases q with
    | nil => rfl
    | cons w ws => cases ws <;> simp [renamer] at h
  | cons w ws ih =>
    cases q with
    | nil => cases ws <;> simp [renamer] at h
    | cons v vs =>
      cases ws with
      | nil =>
        cases vs with
        | nil =>
          simp only [renamer, List.cons.injEq, and_true] at h
          rw [escape_append_tag_inj w v tag h]
        | cons v2 vs2 =>
          simp only [renamer] at h
          have := (List.cons.inj h).2
          cases vs2 <;> simp [renamer] at this
      | cons w2 ws2 =>
        cases vs with
        | nil =>
          simp only [renamer] at h
          have := (List.cons.inj h).2
          cases ws2 <;> simp [renamer] at this
        | cons v2 vs2 =>
          simp only [renamer] at h
          obtain ⟨h1, h2⟩ := List.cons.inj h
          rw [escape_inj w v h1, ih (v2 :: vs2) h2]

example : escape tbl "A_b.py".toList = "_a__b_.py".toList := by decide +kernel
example : Strict (start 1) [.run true, .tick 0, .edit 2, .run true] := by
  refine ⟨trivial, trivial, ?_, trivial, trivial⟩
  intro e he; simp [step, runScript, start] at he; subst he; decide
