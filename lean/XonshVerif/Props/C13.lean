/-
C13 — A crash or I/O failure while saving history never damages what was already saved.
Theorems over `FsTrace`: for EVERY trace obeying the discipline, EVERY crash point and EVERY
partial-write length, each protected history file holds either its previous content or exactly the
content of a completely written, closed temporary file that was renamed onto it.
The discipline itself is checked on traces captured from the real operations (xv/props/c13.py).
-/
import XonshVerif.Model.FsTrace
open FsTrace

theorem lookup_filter_ne {β : Type} (m : List (Path × β)) (k k' : Path) (h : k' ≠ k) :
    (m.filter (fun p => p.1 != k)).lookup k' = m.lookup k' := by
  induction m with
  | nil => rfl
  | cons p ps ih =>
    obtain ⟨a, c⟩ := p
    by_cases ha : a = k
    · subst ha
      have h1 : (k' == a) = false := by simpa using h
      simp [List.filter, List.lookup, h1, ih]
    · have h2 : ((a != k) = true) := by simpa using ha
      simp only [List.filter, h2, List.lookup]
      split <;> simp_all

theorem get_put_ne (d : Disk) (p h : Path) (b : Bytes) (hne : h ≠ p) : get (put d p b) h = get d h := by
  have h1 : (h == p) = false := by simpa using hne
  simp [FsTrace.get, put, List.lookup, h1, lookup_filter_ne d p h hne]

theorem get_del_ne (d : Disk) (p h : Path) (hne : h ≠ p) : get (del d p) h = get d h := by
  simp [FsTrace.get, del, lookup_filter_ne d p h hne]

theorem get_put_self (d : Disk) (p : Path) (b : Bytes) : get (put d p b) p = some b := by
  simp [FsTrace.get, put, List.lookup]

theorem discOk_safe (H : List Path) (opened : List Path) (tr : List Ev) (h : discOk H opened tr = true) :
    ∀ e ∈ tr, safeEv H e = true := by
  induction tr generalizing opened with
  | nil => intro e he; cases he
  | cons e rest ih =>
    intro e' he'
    cases e with
    | create p =>
      simp only [discOk, Bool.and_eq_true] at h
      rcases List.mem_cons.mp he' with rfl | hm
      · simpa [safeEv] using h.1
      · exact ih _ h.2 e' hm
    | write p b =>
      simp only [discOk, Bool.and_eq_true] at h
      rcases List.mem_cons.mp he' with rfl | hm
      · simpa [safeEv] using h.1
      · exact ih _ h.2 e' hm
    | close p =>
      simp only [discOk] at h
      rcases List.mem_cons.mp he' with rfl | hm
      · rfl
      · exact ih _ h e' hm
    | rename a b =>
      simp only [discOk, Bool.and_eq_true] at h
      rcases List.mem_cons.mp he' with rfl | hm
      · simpa [safeEv] using h.1.1
      · exact ih _ h.2 e' hm
    | unlink p =>
      simp only [discOk, Bool.and_eq_true] at h
      rcases List.mem_cons.mp he' with rfl | hm
      · simpa [safeEv] using h.1
      · exact ih _ h.2 e' hm

/-- a safe event leaves a protected file alone, unless it is a rename onto it — which installs the
complete current content of the renamed file -/
theorem apply_protected (H : List Path) (d : Disk) (e : Ev) (h : Path) (hH : h ∈ H) (hs : safeEv H e = true) :
    get (apply d e) h = get d h ∨ ∃ a c, e = .rename a h ∧ get d a = some c ∧ get (apply d e) h = some c := by
  have hc : H.contains h = true := by simpa using hH
  cases e with
  | create p =>
    have : h ≠ p := by intro e; subst e; simp [safeEv] at hs; exact hs hH
    exact Or.inl (get_put_ne d p h [] this)
  | write p b =>
    have : h ≠ p := by intro e; subst e; simp [safeEv] at hs; exact hs hH
    exact Or.inl (get_put_ne d p h _ this)
  | close p => exact Or.inl rfl
  | unlink p =>
    have : h ≠ p := by intro e; subst e; simp [safeEv] at hs; exact hs hH
    exact Or.inl (get_del_ne d p h this)
  | rename a b =>
    have hne : h ≠ a := by intro e; subst e; simp [safeEv] at hs; exact hs hH
    simp only [apply]
    cases ha : get d a with
    | none => exact Or.inl rfl
    | some c =>
      simp only []
      by_cases hb : h = b
      · subst hb; exact Or.inr ⟨a, c, rfl, ha, get_put_self _ _ _⟩
      · left; rw [get_put_ne _ _ _ _ hb, get_del_ne _ _ _ hne]

/-- NO PARTIAL STATE IS EVER VISIBLE in a protected file: whatever the crash point and however many
bytes of the interrupted write reached the disk, the file is as after a whole number of events -/
theorem C13_no_partial_write (H : List Path) (d : Disk) (tr : List Ev) (hd : discOk H [] tr = true)
    (k j : Nat) (h : Path) (hH : h ∈ H) :
    get (crash d tr k j) h = get (applyAll d (tr.take k)) h := by
  unfold crash
  simp only []
  cases hk : tr[k]? with
  | none => rfl
  | some e =>
    cases e with
    | write p b =>
      simp only []
      have hmem : Ev.write p b ∈ tr := List.mem_of_getElem? hk
      have hs := discOk_safe H [] tr hd _ hmem
      have hc : H.contains h = true := by simpa using hH
      have : h ≠ p := by intro e; subst e; simp [safeEv] at hs; exact hs hH
      exact get_put_ne _ p h _ this
    | create p => rfl
    | close p => rfl
    | rename a b => rfl
    | unlink p => rfl

/-- the contents a protected file can have after a whole number of events: its old content, or the
complete content some other file had at the moment it was atomically renamed onto it -/
inductive Version (d : Disk) (tr : List Ev) (h : Path) : Option Bytes → Prop where
  | old : Version d tr h (get d h)
  | renamed (i : Nat) (a : Path) (c : Bytes) (hi : tr[i]? = some (.rename a h))
      (hc : get (applyAll d (tr.take i)) a = some c) : Version d tr h (some c)

theorem take_succ_apply (d : Disk) (tr : List Ev) (k : Nat) (e : Ev) (hk : tr[k]? = some e) :
    applyAll d (tr.take (k + 1)) = apply (applyAll d (tr.take k)) e := by
  unfold applyAll
  rw [List.take_succ, hk]
  simp [List.foldl_append]

theorem prefix_version (H : List Path) (d : Disk) (tr : List Ev) (hs : ∀ e ∈ tr, safeEv H e = true)
    (h : Path) (hH : h ∈ H) (k : Nat) : Version d tr h (get (applyAll d (tr.take k)) h) := by
  induction k with
  | zero => simpa [applyAll] using Version.old
  | succ k ih =>
    cases hk : tr[k]? with
    | none =>
      have : tr.take (k + 1) = tr.take k := by
        rw [List.take_succ, hk]; simp
      rw [this]; exact ih
    | some e =>
      rw [take_succ_apply d tr k e hk]
      rcases apply_protected H _ e h hH (hs e (List.mem_of_getElem? hk)) with heq | ⟨a, c, he, ha, hg⟩
      · rw [heq]; exact ih
      · rw [hg]; subst he; exact Version.renamed k a c hk ha

/-- C13 (main theorem): for every trace obeying the discipline, every crash point `k` and every
partial-write length `j`, every protected history file is either its complete previous version or
a complete new version (the whole content of a closed file renamed onto it) — never truncated or
half-written. -/
theorem C13_atomic (H : List Path) (d : Disk) (tr : List Ev) (hd : discOk H [] tr = true)
    (k j : Nat) (h : Path) (hH : h ∈ H) : Version d tr h (get (crash d tr k j) h) := by
  rw [C13_no_partial_write H d tr hd k j h hH]
  exact prefix_version H d tr (discOk_safe H [] tr hd) h hH k

/-- and a protected file never disappears: if it existed before, it exists at every crash point -/
theorem C13_never_lost (H : List Path) (d : Disk) (tr : List Ev) (hd : discOk H [] tr = true)
    (k j : Nat) (h : Path) (hH : h ∈ H) (hex : (get d h).isSome = true) :
    (get (crash d tr k j) h).isSome = true := by
  have hv := C13_atomic H d tr hd k j h hH
  generalize hg : FsTrace.get (crash d tr k j) h = g at hv
  cases hv with
  | old => exact hex
  | renamed i a c hi hc => rfl

/-! ## counterexample: the in-place rewrite (what `JsonHistoryGC.files` did to unlock a stale file) -/

/-- an in-place rewrite `open(h, "w"); write; close` violates the discipline, and a crash right after
the truncating open leaves the saved history EMPTY -/
theorem C13_cex_in_place :
    let tr := [Ev.create 1, Ev.write 1 [7, 7, 7], Ev.close 1]
    discOk [1] [] tr = false ∧ get (crash [(1, [5, 5, 5, 5])] tr 1 0) 1 = some [] := by
  decide

/-- renaming a file that is still open (data possibly unflushed) violates the discipline too -/
theorem C13_cex_rename_before_close :
    discOk [1] [] [Ev.create 2, Ev.write 2 [7], Ev.rename 2 1, Ev.close 2] = false := by decide

/-! ## non-vacuity: the temp-file-then-replace pattern of `JsonHistoryFlusher.dump` obeys the discipline -/
example : discOk [1] [] [Ev.create 2, Ev.write 2 [7, 7], Ev.close 2, Ev.rename 2 1] = true := by decide
example : get (crash [(1, [5])] [Ev.create 2, Ev.write 2 [7, 7], Ev.close 2, Ev.rename 2 1] 1 1) 1 = some [5] := by
  decide
