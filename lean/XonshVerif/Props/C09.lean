/-
C09 — Running a command leaves the shell session as it found it.
Theorems over the resource ledger `FdLedger` (tied to xonsh/procs/{specs,pipelines,pipes,posix,proxies}.py by
xv/props/c09.py).  Statements are at the level of a SESSION: a ledger `L0` of whatever is open, a signal state `S`,
and the command running as generation `g` (names of earlier generations are never touched).
-/
import XonshVerif.Lemmas.FdLedger
open FdLedger

/-- the session holds nothing that carries the name of generation g -/
def Foreign (g : Nat) (L0 : List (Nat × Res)) : Prop := ∀ r ∈ L0, r.1 ≠ g

/-- no proc object of generation g remembers an old handler -/
def FreshGen (g : Nat) (S : SigSt (Nat × Nat)) : Prop := ∀ k, FreshKey S (g, k)

theorem gen_key_injective (g : Nat) : Function.Injective (fun k : Nat => (g, k)) := by
  intro a b h; simpa using h

/-! ## descriptors, wrappers, children, threads -/

/-- C09 (ledger), general form: for EVERY pipeline — any number of stages of any kind, any redirect lists (unopenable,
conflicting, colliding with a pipe), any capture form, whichever stage fails in whichever phase — if the pipeline is ended
and (unless the `teardown` repair is in) no stage other than the first fails to start, then after the command (exception
dropped) the session's ledger is what it was, plus at most the un-waited child of a plain-`Popen` last stage, and that only
when the body of `_end` was left early. -/
theorem C09_ledger (v : Variant) (c : Cmd) (g : Nat) (L0 : List (Nat × Res)) (hf : Foreign g L0)
    (hend : endCalled c = true)
    (hg : v.teardown = true ∨ ((command v c).startFailed = true → (command v c).procs = [])) :
    ∃ extra, runRes L0 (atGen g (command v c).all) = extra ++ L0 ∧
      ∀ x ∈ extra, c.endAborts = true ∧ x.2.what = .child := by
  refine ⟨_, runRes_atGen g _ L0 hf, ?_⟩
  intro x hx
  obtain ⟨r, hr, rfl⟩ := List.mem_map.1 hx
  exact command_residue v c hend hg r hr

/-- C09 (ledger), HEADLINE — the code as it is since /repo 84fd7b3 (`teardown` in): the ledger after = the ledger before, on every
exit path that ends the pipeline -/
theorem C09_balanced (v : Variant) (hv : v.teardown = true) (c : Cmd) (g : Nat) (L0 : List (Nat × Res)) (hf : Foreign g L0)
    (hend : endCalled c = true) (hab : c.endAborts = false) :
    runRes L0 (atGen g (command v c).all) = L0 := by
  obtain ⟨extra, h1, h2⟩ := C09_ledger v c g L0 hf hend (Or.inl hv)
  cases extra with
  | nil => simpa using h1
  | cons x xs => have := (h2 x (by simp)).1; rw [hab] at this; cases this

/-- C09 (ledger), PINNED SNAPSHOT (the code before /repo 84fd7b3, `Variant.asIs`): the same, with the exact guard the proof forced — no stage other than the first fails
to start (`C09_cex_late_start_failure` shows the guard cannot be dropped) -/
theorem C09_balanced_partial (c : Cmd) (g : Nat) (L0 : List (Nat × Res)) (hf : Foreign g L0)
    (hend : endCalled c = true) (hab : c.endAborts = false)
    (hg : (command .asIs c).startFailed = true → (command .asIs c).procs = []) :
    runRes L0 (atGen g (command .asIs c).all) = L0 := by
  obtain ⟨extra, h1, h2⟩ := C09_ledger .asIs c g L0 hf hend (Or.inr hg)
  cases extra with
  | nil => simpa using h1
  | cons x xs => have := (h2 x (by simp)).1; rw [hab] at this; cases this

/-- ... and the guard is EXACT (pinned snapshot): as that code was, a command that ends its pipeline (and whose `_end` is not left early) gives
everything back if AND ONLY IF no stage other than the first fails to start; when one does, the read end of the pipe of the
stage just before it is still open (`late_failure_leaks`) -/
theorem C09_leak_exact (c : Cmd) (g : Nat) (L0 : List (Nat × Res)) (hf : Foreign g L0)
    (hend : endCalled c = true) (hab : c.endAborts = false) :
    runRes L0 (atGen g (command .asIs c).all) = L0 ↔
      ((command .asIs c).startFailed = true → (command .asIs c).procs = []) := by
  constructor
  · intro hbal hsf
    cases hl : (command .asIs c).procs.getLast? with
    | none => simpa using hl
    | some l =>
      have hmem := late_failure_leaks .asIs rfl c hend hsf l hl
      rw [runRes_atGen g _ L0 hf] at hbal
      have hlen := congrArg List.length hbal
      simp only [List.length_append, List.length_map] at hlen
      have : (runRes [] (command Variant.asIs c).all).length = 0 := by omega
      have hnil : runRes [] (command Variant.asIs c).all = [] := List.eq_nil_of_length_eq_zero this
      rw [hnil] at hmem; simp at hmem
  · exact C09_balanced_partial c g L0 hf hend hab

/-- a two-stage pipeline with a redirect on each side: non-vacuity of the guards -/
def exOk : Cmd :=
  ⟨[⟨.thr, [.file .inp true, .errToPipe], true, true⟩, ⟨.ext, [.file .err true], true, true⟩], .object, false, true, true, false, false⟩

example : endCalled exOk = true ∧ exOk.endAborts = false ∧ (command .asIs exOk).startFailed = false ∧
    (command .asIs exOk).procs.length = 2 := by decide

/-! ## where the ledger does not balance: `&` pipelines and an `_end` left early (still so), a late start failure and a failed
build (pinned snapshot; repaired by /repo 84fd7b3 and 7dff01d — the second halves of the witnesses show the repaired variant) -/

/-- `echo hi | nosuchcmd`: the second stage fails to start; the first one's pipe (both ends) and its child are never given back -/
def cexLate : Cmd := ⟨[⟨.ext, [], true, true⟩, ⟨.ext, [], true, false⟩], .hidden, false, true, true, false, false⟩

theorem C09_cex_late_start_failure :
    endCalled cexLate = true ∧ cexLate.endAborts = false ∧
    runRes [] (atGen 1 (command .asIs cexLate).all) = [(1, ⟨0, .child⟩), (1, ⟨0, .pipeW⟩), (1, ⟨0, .pipeR⟩)] ∧
    runRes [] (atGen 1 (command ⟨true, false, false⟩ cexLate).all) = [] := by decide

/-- `a | b &`: nobody ends a background pipeline: the shell keeps both ends of the pipe between the stages -/
def cexBg : Cmd := ⟨[⟨.ext, [], true, true⟩, ⟨.ext, [], true, true⟩], .hidden, true, true, true, false, false⟩

theorem C09_cex_background :
    endCalled cexBg = false ∧
    runRes [] (atGen 1 (command .repaired cexBg).all) =
      [(1, ⟨1, .child⟩), (1, ⟨0, .child⟩), (1, ⟨0, .pipeW⟩), (1, ⟨0, .pipeR⟩)] := by decide

/-- the body of `_end` is left early (undecodable output, Ctrl-C) with a plain `Popen` last stage: its child is not waited for -/
def cexAbort : Cmd := ⟨[⟨.ext, [], true, true⟩], .hidden, false, true, true, false, true⟩

theorem C09_cex_abort :
    endCalled cexAbort = true ∧ runRes [] (atGen 1 (command .repaired cexAbort).all) = [(1, ⟨0, .child⟩)] := by decide

/-- `cmd > ok.txt < missing.txt`: the spec whose build raised is referenced only by the exception: its `ok.txt` stays open
until the exception is dropped (with the `closeOwn` repair it is closed at once) -/
def cexHeld : Cmd := ⟨[⟨.ext, [.file .out true, .file .inp false], true, true⟩], .hidden, false, true, true, false, false⟩

theorem C09_cex_held :
    runRes [] (atGen 1 (command .asIs cexHeld).main) = [(1, ⟨0, .file 0⟩)] ∧
    runRes [] (atGen 1 (command .asIs cexHeld).all) = [] ∧
    runRes [] (atGen 1 (command ⟨false, false, true⟩ cexHeld).main) = [] := by decide

/-! ## closing is idempotent; extra closes are harmless -/

/-- `PipeChannel.close*`, `safe_close`, `safe_fdclose`: closing again changes nothing -/
theorem C09_close_idem {ρ κ : Type} [DecidableEq ρ] (L : List ρ) (r : ρ) :
    stepRes (κ := κ) (stepRes (κ := κ) L (.cls r)) (.cls r) = stepRes (κ := κ) L (.cls r) := by
  simp [stepRes, List.filter_filter]

/-- closes commute -/
theorem C09_close_comm {ρ κ : Type} [DecidableEq ρ] (L : List ρ) (r r' : ρ) :
    stepRes (κ := κ) (stepRes (κ := κ) L (.cls r)) (.cls r') = stepRes (κ := κ) (stepRes (κ := κ) L (.cls r')) (.cls r) := by
  simp only [stepRes, List.filter_filter]
  apply List.filter_congr
  intro x _
  exact Bool.and_comm _ _

example : stepRes (κ := Nat) (stepRes (κ := Nat) [1, 2, 1, 3] (.cls 1)) (.cls 1) = [2, 3] := by decide

/-- the real code closes many things more than once, at moments that depend on thread timing (`_prev_procs_done`, the proxy
threads closing their writers, `PrevProcCloser`, `__del__`): whatever is closed in addition, wherever, a balanced command
stays balanced -/
theorem C09_extra_closes (v : Variant) (c : Cmd) (g : Nat) (L0 : List (Nat × Res)) (hf : Foreign g L0)
    (hend : endCalled c = true) (hab : c.endAborts = false)
    (hg : v.teardown = true ∨ ((command v c).startFailed = true → (command v c).procs = []))
    (a b : List CEv) (hsplit : (command v c).all = a ++ b) (xs : List Res) :
    runRes L0 (atGen g (a ++ xs.map .cls ++ b)) = L0 := by
  have hnil : runRes [] (command v c).all = [] := by
    apply List.eq_nil_iff_forall_not_mem.2
    intro x hx
    have := (command_residue v c hend hg x hx).1
    rw [hab] at this; cases this
  rw [runRes_atGen g _ L0 hf, residue_extra_nil xs (by rw [← hsplit]; exact hnil)]
  rfl

/-- while the exception raised by `cmds_to_specs` is still referenced (as `sys.last_exc` does at a prompt) the only things the
failed command can still hold are redirect files of ONE stage — the one whose build raised — or the ONE pipe that had not
been attached yet: bounded, never cumulative; they go when the exception goes (`C09_ledger` has no residue for a command
that raised) -/
theorem C09_held_bounded (v : Variant) (c : Cmd) (hw : (command v c).why ≠ .ok) :
    ∃ k, ∀ x ∈ runRes [] (command v c).main, HeldShape k x :=
  held_bounded v c hw

example : (command .asIs cexHeld).why = .build ∧ HeldShape 0 ⟨0, .file 0⟩ := by
  refine ⟨by decide, rfl, Or.inl ⟨0, rfl⟩⟩

/-! ## signal handlers -/

/-- C09 (handlers), HEADLINE — the code as it is since /repo 59f5309 (`lifo` in): for EVERY pipeline, whichever stage fails to start, and whether or not the body
of `_end` is left early, once the pipeline has been ended the signal table is what it was and no proc object of the command
remembers an old handler: saved = restored on every path -/
theorem C09_handlers_restored (v : Variant) (hv : v.lifo = true) (c : Cmd) (hend : endCalled c = true)
    (g : Nat) (S : SigSt (Nat × Nat)) (hS : FreshGen g S) :
    runSig S (atGen g (command v c).all) = S :=
  command_sig_lifo (fun r => (g, r)) (fun k => (g, k)) (gen_key_injective g) v c hv hend S hS

/-- C09 (handlers), PINNED SNAPSHOT (the code before /repo 59f5309), with the guard the proof forced: no started stage other than the last one swaps a
handler (a callable alias in front of the last stage does: `C09_cex_sigint`), and the body of `_end` is not left early
while a handler is swapped (`C09_cex_abort_handlers`) -/
theorem C09_handlers_restored_partial (c : Cmd) (hend : endCalled c = true)
    (hq : ∀ s ∈ (if (command .asIs c).startFailed then (command .asIs c).procs else (command .asIs c).procs.dropLast),
      s.hs c.onMain = [])
    (hab : c.endAborts = true → ∀ s ∈ (command .asIs c).procs, s.hs c.onMain = [])
    (g : Nat) (S : SigSt (Nat × Nat)) (hS : FreshGen g S) :
    runSig S (atGen g (command .asIs c).all) = S :=
  command_sig_partial (fun r => (g, r)) (fun k => (g, k)) .asIs rfl c hend hq hab S hS

def S0 : SigSt (Nat × Nat) := ⟨⟨.prior 0, .prior 1, .prior 2, .prior 3⟩, []⟩

/-- `$(echo hi)`: a PopenThread swaps all four handlers and gives them back: the guard of the partial theorem is not vacuous -/
def exPopenThread : Cmd := ⟨[⟨.ext, [], true, true⟩], .stdout, false, true, true, false, false⟩
example : (command .asIs exPopenThread).procs.map (·.hs true) = [[.int, .tstp, .quit, .winch]] ∧
    (runSig S0 (atGen 1 (command .asIs exPopenThread).all)).cur = S0.cur := by decide

/-- `alias | cmd`: the callable alias in front swapped SIGINT and is never asked to give it back -/
def cexSigint : Cmd := ⟨[⟨.thr, [], true, true⟩, ⟨.ext, [], true, true⟩], .hidden, false, true, true, false, false⟩

theorem C09_cex_sigint :
    (runSig S0 (atGen 1 (command .asIs cexSigint).all)).cur.int = .owner (1, 0) ∧
    (runSig S0 (atGen 1 (command ⟨false, true, false⟩ cexSigint).all)).cur = S0.cur := by decide

/-- a callable alias alone, the body of `_end` left early: the last proc is not waited for, so not asked either -/
def cexAbortH : Cmd := ⟨[⟨.thr, [], true, true⟩], .hidden, false, true, true, false, true⟩

theorem C09_cex_abort_handlers :
    (runSig S0 (atGen 1 (command .asIs cexAbortH).all)).cur.int = .owner (1, 0) ∧
    (runSig S0 (atGen 1 (command ⟨false, true, false⟩ cexAbortH).all)).cur = S0.cur := by decide

/-! ## repeating a command -/

/-- the cumulative clause, positive half: ANY number of repetitions of a command that balances leaves the ledger unchanged -/
theorem C09_repeat (v : Variant) (c : Cmd) (hend : endCalled c = true) (hab : c.endAborts = false)
    (hg : v.teardown = true ∨ ((command v c).startFailed = true → (command v c).procs = [])) :
    ∀ (n g : Nat) (L0 : List (Nat × Res)), (∀ r ∈ L0, r.1 < g) → runRes L0 (repeatCmd v c g n) = L0 := by
  intro n
  induction n with
  | zero => intro g L0 _; rfl
  | succ n ih =>
    intro g L0 hL
    simp only [repeatCmd]
    rw [runRes_append]
    have hf : Foreign g L0 := fun r hr => Nat.ne_of_lt (hL r hr)
    obtain ⟨extra, h1, h2⟩ := C09_ledger v c g L0 hf hend hg
    have : extra = [] := by
      cases extra with
      | nil => rfl
      | cons x xs => have := (h2 x (by simp)).1; rw [hab] at this; cases this
    rw [h1, this, List.nil_append]
    exact ih (g + 1) L0 (fun r hr => Nat.lt_succ_of_lt (hL r hr))

/-- ... negative half: every repetition of a command adds its residue again — no later repetition gives anything back (the
only thing that does, in the real session, is the garbage collector once nothing references the old pipeline any more) -/
theorem C09_repeat_grows (v : Variant) (c : Cmd) :
    ∀ (n g : Nat) (L0 : List (Nat × Res)), (∀ r ∈ L0, r.1 < g) →
      (runRes L0 (repeatCmd v c g n)).length = L0.length + n * (runRes [] (command v c).all).length := by
  intro n
  induction n with
  | zero => intro g L0 _; simp [repeatCmd]
  | succ n ih =>
    intro g L0 hL
    simp only [repeatCmd]
    rw [runRes_append, runRes_atGen g _ L0 (fun r hr => Nat.ne_of_lt (hL r hr))]
    rw [ih (g + 1)]
    · simp only [List.length_append, List.length_map, Nat.succ_mul]
      omega
    · intro r hr
      rcases List.mem_append.1 hr with h | h
      · obtain ⟨x, _, rfl⟩ := List.mem_map.1 h
        exact Nat.lt_succ_self g
      · exact Nat.lt_succ_of_lt (hL r h)

/-- ... and for the handlers, with the `lifo` repair: any number of repetitions leaves the signal state as it was -/
theorem C09_repeat_handlers (v : Variant) (hv : v.lifo = true) (c : Cmd) (hend : endCalled c = true) :
    ∀ (n g : Nat) (S : SigSt (Nat × Nat)), (∀ g', g ≤ g' → FreshGen g' S) → runSig S (repeatCmd v c g n) = S := by
  intro n
  induction n with
  | zero => intro g S _; rfl
  | succ n ih =>
    intro g S hS
    simp only [repeatCmd]
    rw [runSig_append, C09_handlers_restored v hv c hend g S (hS g (Nat.le_refl g))]
    exact ih (g + 1) S (fun g' hg' => hS g' (Nat.le_of_succ_le hg'))

/-- pinned snapshot: as the code was before 59f5309, every `alias | cmd` left one more proc object in the chain behind SIGINT: after three of them the
chain is three deep (the real session answers a Ctrl-C by walking that chain recursively: RecursionError after some hundreds) -/
theorem C09_cex_sigint_chain :
    (runSig S0 (repeatCmd .asIs cexSigint 1 3)).saved.length = 3 ∧
    (runSig S0 (repeatCmd .asIs cexSigint 1 3)).cur.int = .owner (3, 0) ∧
    (runRes [] (repeatCmd .asIs cexLate 1 3)).length = 9 := by decide
