/-
C05 — Chains, exit codes and fail-fast follow the documented truth table.
`Chain.Spec` is the truth table; `Chain.Impl` is what the code does (tied to xonsh by
xv/props/c05.py).  The refinement theorem is about `Impl` with the repaired order of the two tests
in CommandPipeline._raise_subproc_error (`cf := true`, fix commit in known_findings.json).
-/
import XonshVerif.Model.Chain
open Chain

/-- a chain all of whose operands are bare / `![]` / `!()` commands: their VALUE is the pipeline
itself, truthy iff its exit code is 0 -/
def plainCh : Ch → Bool
  | .cmd c => c.form == .hidden || c.form == .object
  | .and a b => plainCh a && plainCh b
  | .or a b => plainCh a && plainCh b

/-- the last operand of a chain: the only one whose value nobody inside the statement asks about -/
def lastLeaf : Ch → Cmd
  | .cmd c => c
  | .and _ b => lastLeaf b
  | .or _ b => lastLeaf b

/-- a `!()` in that position ends lazily, after the statement; the statement is *quiet* when that end
would not raise (no `@error_raise`, no failing command under `$XONSH_SUBPROC_CMD_RAISE_ERROR`) -/
def quiet (fl : Flags) (c : Cmd) : Bool := !(c.form == .object && Spec.raisesAt fl c.rc c.dec)

/-- a statement of the fragment: a standalone command in ANY capture form, or a plain chain; quiet -/
def plainStmt (fl : Flags) (ch : Ch) : Bool :=
  (match ch with
   | .cmd _ => true
   | ch => plainCh ch) && quiet fl (lastLeaf ch)

/-! ## the three raise sites against the truth table -/

theorem pipeRaise_eq (fl : Flags) (m : Bool) (rc : Nat) (d : Dec) :
    Impl.pipeRaise true fl m rc d = Spec.raisesAt fl rc d := by
  unfold Impl.pipeRaise Spec.raisesAt
  cases d <;> cases hc : fl.cmdRaise <;> by_cases h : rc = 0 <;> simp +decide [h]

theorem helperRaise_eq (fl : Flags) (id rc : Nat) (f : Form) (d : Dec) :
    Impl.helperRaise fl false (some (id, rc, f, d)) =
      if Spec.raisesFinal fl rc f d then some ⟨rc, id⟩ else none := by
  unfold Impl.helperRaise Spec.raisesFinal
  cases hr : fl.raiseErr <;> cases f <;> cases d <;> cases h : (rc == 0) <;> simp_all

theorem checkBoolop_pipe (fl : Flags) (c : Cmd) (s : St) :
    Impl.checkBoolop fl (.pipe c) s = if Spec.raisesFinal fl c.rc c.form c.dec then some ⟨c.rc, c.id⟩ else none := by
  unfold Impl.checkBoolop Spec.raisesFinal facts
  cases hr : fl.raiseErr <;> cases hf : c.form <;> cases hd : c.dec <;> cases h : (c.rc == 0) <;> simp_all

/-! ## injected commands, one command, a chain, a statement, a program -/

theorem inner_ref (fl : Flags) (is : List Inner) (s : St) :
    (match Impl.runInner true fl is s with
     | .error (r, s') => Spec.runInner fl is s.log = .error (r, s'.log)
     | .ok s' => Spec.runInner fl is s.log = .ok s'.log) := by
  induction is generalizing s with
  | nil => simp [Impl.runInner, Spec.runInner]
  | cons i is ih =>
    simp only [Impl.runInner, Spec.runInner, pipeRaise_eq, innerFacts, helperRaise_eq]
    cases h1 : Spec.raisesAt fl i.rc i.dec
    · cases h2 : Spec.raisesFinal fl i.rc Form.stdout i.dec
      · simp only [Bool.false_eq_true, if_false, Bool.or_self]
        exact ih ⟨s.log ++ [i.id], some (i.id, i.rc, Form.stdout, i.dec)⟩
      · simp
    · simp

/-- what one bare / `![]` / `!()` command leaves behind: a finished pipeline, or — for `!()` — a lazy one
whose raise site has not run yet -/
theorem cmd_ref (fl : Flags) (m : Bool) (c : Cmd) (s : St) (hp : c.form = .hidden ∨ c.form = .object) :
    (match Impl.runCmd true fl m c s with
     | .error (r, s') => Spec.runCmd fl c s.log = .error (r, s'.log)
     | .ok (v, s') =>
       (v = .pipe c ∧ Spec.runCmd fl c s.log = .ok s'.log) ∨
       (v = .lazy c m ∧ c.form = .object ∧ Spec.runCmd fl c s.log =
          if Spec.raisesAt fl c.rc c.dec then .error (⟨c.rc, c.id⟩, s'.log) else .ok s'.log)) := by
  unfold Impl.runCmd Spec.runCmd
  have hi := inner_ref fl c.inject s
  cases hI : Impl.runInner true fl c.inject s with
  | error e =>
    obtain ⟨r, s'⟩ := e
    rw [hI] at hi; simp only [] at hi
    simp [hi]
  | ok s1 =>
    rw [hI] at hi; simp only [] at hi
    simp only [hi, pipeRaise_eq]
    rcases hp with hp | hp
    · simp only [hp]
      cases h1 : Spec.raisesAt fl c.rc c.dec <;> simp
    · simp only [hp]
      simp

/-- the value of a chain in TAIL position: finished (`pipe`), or the lazy `!()` that is its last operand -/
def TailRel (fl : Flags) (ch : Ch) (s : St) : Prop :=
  match Impl.eval true fl ch s with
  | .error (r, s') => Spec.eval fl ch s.log = .error (r, s'.log)
  | .ok (v, s') =>
    (∃ c, v = .pipe c ∧ Spec.eval fl ch s.log = .ok (s'.log, c)) ∨
    (∃ m, v = .lazy (lastLeaf ch) m ∧ (lastLeaf ch).form = .object ∧ Spec.eval fl ch s.log =
        if Spec.raisesAt fl (lastLeaf ch).rc (lastLeaf ch).dec
        then .error (⟨(lastLeaf ch).rc, (lastLeaf ch).id⟩, s'.log) else .ok (s'.log, lastLeaf ch))

/-- the same chain as the LEFT operand of and/or: its truth value is asked for, a lazy pipeline ends -/
def DemandRel (fl : Flags) (ch : Ch) (s : St) : Prop :=
  match ((match Impl.eval true fl ch s with
          | Except.error e => Except.error e
          | Except.ok (v, s') => Impl.demand true fl v s') : Except (Raised × St) (Impl.Val × St)) with
  | Except.error (r, s') => Spec.eval fl ch s.log = Except.error (r, s'.log)
  | Except.ok (v, s') => ∃ c, v = Impl.Val.pipe c ∧ Spec.eval fl ch s.log = Except.ok (s'.log, c)

theorem demand_of_tail (fl : Flags) (ch : Ch) (s : St) (h : TailRel fl ch s) : DemandRel fl ch s := by
  unfold TailRel at h
  unfold DemandRel
  cases hE : Impl.eval true fl ch s with
  | error e => obtain ⟨r, s'⟩ := e; rw [hE] at h; exact h
  | ok vs =>
    obtain ⟨v, s'⟩ := vs
    rw [hE] at h
    simp only [] at h ⊢
    rcases h with ⟨c, hv, hs⟩ | ⟨m, hv, _, hs⟩
    · subst hv; simp only [Impl.demand]; exact ⟨c, rfl, hs⟩
    · subst hv
      simp only [Impl.demand, pipeRaise_eq]
      cases hr : Spec.raisesAt fl (lastLeaf ch).rc (lastLeaf ch).dec
      · simp only [hr, Bool.false_eq_true, if_false] at hs ⊢
        exact ⟨lastLeaf ch, rfl, hs⟩
      · simp only [hr, if_true] at hs ⊢
        exact hs

theorem eval_ref (fl : Flags) (ch : Ch) (hp : plainCh ch = true) (s : St) : TailRel fl ch s := by
  induction ch generalizing s with
  | cmd c =>
    have hp' : c.form = .hidden ∨ c.form = .object := by
      simp only [plainCh, Bool.or_eq_true, beq_iff_eq] at hp; exact hp
    have h := cmd_ref fl (!c.pyLike) c s hp'
    unfold TailRel
    simp only [Impl.eval, Spec.eval, lastLeaf]
    cases hI : Impl.runCmd true fl (!c.pyLike) c s with
    | error e => obtain ⟨r, s'⟩ := e; rw [hI] at h; simp only [] at h; simp [h, Except.map]
    | ok vs =>
      obtain ⟨v, s'⟩ := vs; rw [hI] at h; simp only [] at h
      rcases h with ⟨hv, hs⟩ | ⟨hv, hf, hs⟩
      · exact Or.inl ⟨c, hv, by simp [hs, Except.map]⟩
      · refine Or.inr ⟨!c.pyLike, hv, hf, ?_⟩
        rw [hs]
        by_cases hr : Spec.raisesAt fl c.rc c.dec = true
        · simp [hr, Except.map]
        · simp [hr, Except.map]
  | and a b iha ihb =>
    simp only [plainCh, Bool.and_eq_true] at hp
    have ha := demand_of_tail fl a s (iha hp.1 s)
    unfold DemandRel at ha
    unfold TailRel
    simp only [Impl.eval, Spec.eval, lastLeaf]
    cases hA : Impl.eval true fl a s with
    | error e => obtain ⟨r, s'⟩ := e; rw [hA] at ha; simp only [] at ha; simp [ha]
    | ok vs =>
      obtain ⟨v, s1⟩ := vs; rw [hA] at ha; simp only [] at ha ⊢
      cases hD : Impl.demand true fl v s1 with
      | error e => obtain ⟨r, s'⟩ := e; rw [hD] at ha; simp only [] at ha; simp [ha]
      | ok vs2 =>
        obtain ⟨v2, s2⟩ := vs2; rw [hD] at ha; simp only [] at ha ⊢
        obtain ⟨c, hv, hs⟩ := ha
        subst hv
        simp only [hs]
        by_cases hc : (c.rc == 0) = true
        · have ht : Impl.truthy (.pipe c) = true := hc
          rw [if_pos ht, if_pos hc]
          have := ihb hp.2 s2
          unfold TailRel at this
          exact this
        · have ht : ¬ Impl.truthy (.pipe c) = true := hc
          rw [if_neg ht, if_neg hc]
          exact Or.inl ⟨c, rfl, rfl⟩
  | or a b iha ihb =>
    simp only [plainCh, Bool.and_eq_true] at hp
    have ha := demand_of_tail fl a s (iha hp.1 s)
    unfold DemandRel at ha
    unfold TailRel
    simp only [Impl.eval, Spec.eval, lastLeaf]
    cases hA : Impl.eval true fl a s with
    | error e => obtain ⟨r, s'⟩ := e; rw [hA] at ha; simp only [] at ha; simp [ha]
    | ok vs =>
      obtain ⟨v, s1⟩ := vs; rw [hA] at ha; simp only [] at ha ⊢
      cases hD : Impl.demand true fl v s1 with
      | error e => obtain ⟨r, s'⟩ := e; rw [hD] at ha; simp only [] at ha; simp [ha]
      | ok vs2 =>
        obtain ⟨v2, s2⟩ := vs2; rw [hD] at ha; simp only [] at ha ⊢
        obtain ⟨c, hv, hs⟩ := ha
        subst hv
        simp only [hs]
        by_cases hc : (c.rc == 0) = true
        · have ht : Impl.truthy (.pipe c) = true := hc
          rw [if_pos ht, if_pos hc]
          exact Or.inl ⟨c, rfl, rfl⟩
        · have ht : ¬ Impl.truthy (.pipe c) = true := hc
          rw [if_neg ht, if_neg hc]
          have := ihb hp.2 s2
          unfold TailRel at this
          exact this

theorem checkBoolop_last (fl : Flags) (v : Impl.Val) (hv : (∀ c, v ≠ .pipe c) ∧ (∀ c m, v ≠ .lazy c m)) (l : List Nat) (id rc : Nat) (f : Form) (d : Dec) :
    Impl.checkBoolop fl v ⟨l, some (id, rc, f, d)⟩ = if Spec.raisesFinal fl rc f d then some ⟨rc, id⟩ else none := by
  unfold Impl.checkBoolop Spec.raisesFinal
  cases v with
  | pipe c => exact absurd rfl (hv.1 c)
  | lazy c m => exact absurd rfl (hv.2 c m)
  | none => cases hr : fl.raiseErr <;> cases f <;> cases d <;> cases h : (rc == 0) <;> simp_all
  | str b => cases hr : fl.raiseErr <;> cases f <;> cases d <;> cases h : (rc == 0) <;> simp_all

theorem checkBoolop_lazy (fl : Flags) (c : Cmd) (m : Bool) (s : St) (hf : c.form = .object) :
    Impl.checkBoolop fl (.lazy c m) s = none := by
  unfold Impl.checkBoolop facts
  cases hr : fl.raiseErr <;> cases hd : c.dec <;> cases h : (c.rc == 0) <;> simp_all

theorem raisesFinal_object (fl : Flags) (rc : Nat) (d : Dec) : Spec.raisesFinal fl rc .object d = false := by
  simp [Spec.raisesFinal]

/-- a standalone command in any capture form -/
theorem single_ref (fl : Flags) (c : Cmd) (s : St) (hq : quiet fl c = true) :
    (Impl.stmt true fl (.cmd c) s).1.log = (Spec.stmt fl (.cmd c) s.log).1 ∧
    (Impl.stmt true fl (.cmd c) s).2 = (Spec.stmt fl (.cmd c) s.log).2 := by
  simp only [Impl.stmt, Spec.stmt, Spec.eval, Impl.runCmd, Spec.runCmd]
  have hi := inner_ref fl c.inject s
  cases hI : Impl.runInner true fl c.inject s with
  | error e =>
    obtain ⟨r, s'⟩ := e
    rw [hI] at hi; simp only [] at hi
    simp [hi, Except.map]
  | ok s1 =>
    rw [hI] at hi; simp only [] at hi
    simp only [hi, pipeRaise_eq, Except.map, facts, helperRaise_eq]
    cases hf : c.form
    · -- hidden
      cases h1 : Spec.raisesAt fl c.rc c.dec
      · cases h2 : Spec.raisesFinal fl c.rc Form.hidden c.dec <;> simp [checkBoolop_pipe, hf, h2]
      · simp
    · -- uncaptured
      cases h1 : Spec.raisesAt fl c.rc c.dec
      · cases h2 : Spec.raisesFinal fl c.rc Form.uncaptured c.dec
        · simp [checkBoolop_last, hf, h2]
        · simp [hf, h2]
      · simp
    · -- stdout
      cases h1 : Spec.raisesAt fl c.rc c.dec
      · cases h2 : Spec.raisesFinal fl c.rc Form.stdout c.dec
        · simp [checkBoolop_last, hf, h2]
        · simp [hf, h2]
      · simp
    · -- object: lazy; quiet says its end would not raise
      have h1 : Spec.raisesAt fl c.rc c.dec = false := by
        simp only [quiet, hf, beq_self_eq_true, Bool.true_and, Bool.not_eq_true'] at hq; exact hq
      simp [h1, hf, raisesFinal_object]

theorem chain_ref (fl : Flags) (ch : Ch) (hch : ∀ c, ch ≠ .cmd c) (hp : plainCh ch = true) (hq : quiet fl (lastLeaf ch) = true) (s : St) :
    (Impl.stmt true fl ch s).1.log = (Spec.stmt fl ch s.log).1 ∧
    (Impl.stmt true fl ch s).2 = (Spec.stmt fl ch s.log).2 := by
  have h := eval_ref fl ch hp s
  unfold TailRel at h
  have hstmt : Impl.stmt true fl ch s =
      match Impl.eval true fl ch s with
      | .error (r, s) => (s, some r)
      | .ok (v, s) => (s, Impl.checkBoolop fl v s) := by
    cases ch with
    | cmd c => exact absurd rfl (hch c)
    | and a b => rfl
    | or a b => rfl
  rw [hstmt]
  simp only [Spec.stmt]
  cases hE : Impl.eval true fl ch s with
  | error e => obtain ⟨r, s'⟩ := e; rw [hE] at h; simp only [] at h; simp [h]
  | ok vs =>
    obtain ⟨v, s'⟩ := vs; rw [hE] at h; simp only [] at h
    rcases h with ⟨c, hv, hs⟩ | ⟨m, hv, hform, hs⟩
    · subst hv
      simp only [hs, checkBoolop_pipe]
      split <;> simp
    · subst hv
      -- the last operand is a lazy `!()`; quiet says its end would not raise
      have hr : Spec.raisesAt fl (lastLeaf ch).rc (lastLeaf ch).dec = false := by
        simp only [quiet, hform, beq_self_eq_true, Bool.true_and, Bool.not_eq_true'] at hq; exact hq
      simp only [hr, Bool.false_eq_true, if_false] at hs
      simp [hs, checkBoolop_lazy _ _ _ _ hform, hform, raisesFinal_object]

theorem stmt_ref (fl : Flags) (ch : Ch) (hp : plainStmt fl ch = true) (s : St) :
    (Impl.stmt true fl ch s).1.log = (Spec.stmt fl ch s.log).1 ∧
    (Impl.stmt true fl ch s).2 = (Spec.stmt fl ch s.log).2 := by
  cases ch with
  | cmd c =>
    simp only [plainStmt, lastLeaf, Bool.true_and] at hp
    exact single_ref fl c s hp
  | and a b =>
    simp only [plainStmt, Bool.and_eq_true] at hp
    exact chain_ref fl (.and a b) (by intro c h; cases h) hp.1 hp.2 s
  | or a b =>
    simp only [plainStmt, Bool.and_eq_true] at hp
    exact chain_ref fl (.or a b) (by intro c h; cases h) hp.1 hp.2 s

/-- C05, PARTIAL (the full statement also quantifies over `$[]` / `$()` operands, where it is false:
`C05_cex_uncaptured`, `C05_cex_stdout`).  For EVERY program — any number of statements, any nesting
and length of and/or chains, any exit codes, decorators, pipelines, injected `@$()` commands, both
raise flags, marked and unmarked (Python-looking) operands — whose chain operands are bare / `![]`
/ `!()` commands, the commands the implementation runs, in order, and the CalledProcessError that
escapes are exactly those of the documented truth table. -/
theorem C05_refines_partial (fl : Flags) (p : List Ch) (hp : ∀ ch ∈ p, plainStmt fl ch = true) (s : St) :
    (Impl.prog true fl false p s).1.log = (Spec.prog fl p s.log).1 ∧
    (Impl.prog true fl false p s).2 = (Spec.prog fl p s.log).2 := by
  induction p generalizing s with
  | nil => simp [Impl.prog, Spec.prog]
  | cons c cs ih =>
    have h := stmt_ref fl c (hp c (List.mem_cons_self ..)) s
    have hcs : ∀ ch ∈ cs, plainStmt fl ch = true := fun ch hc => hp ch (List.mem_cons_of_mem _ hc)
    simp only [Impl.prog, Spec.prog]
    rcases hI : Impl.stmt true fl c s with ⟨s1, r1⟩
    rcases hS : Spec.stmt fl c s.log with ⟨l2, r2⟩
    rw [hI, hS] at h
    simp only [] at h
    obtain ⟨h1, h2⟩ := h
    subst h2
    cases r1 with
    | some r => simp [h1]
    | none => simp only []; rw [← h1]; exact ih hcs s1

/-- from a fresh session -/
theorem C05_refines_from_start (fl : Flags) (p : List Ch) (hp : ∀ ch ∈ p, plainStmt fl ch = true) :
    ((Impl.prog true fl false p St.init).1.log, (Impl.prog true fl false p St.init).2) = Spec.prog fl p [] := by
  have h := C05_refines_partial fl p hp St.init
  exact Prod.ext h.1 h.2

/-- once a statement raises, no later statement runs — for ALL programs (any forms), in the
implementation model itself -/
theorem C05_no_stmt_after_raise (cf : Bool) (fl : Flags) (col : Bool) (c : Ch) (cs : List Ch) (s : St) (r : Raised)
    (h : (Impl.stmt cf fl c s col).2 = some r) :
    Impl.prog cf fl col (c :: cs) s = Impl.stmt cf fl c s col := by
  simp only [Impl.prog]
  rcases hI : Impl.stmt cf fl c s col with ⟨s1, r1⟩
  rw [hI] at h
  simp only [] at h
  subst h
  rfl

/-- a raise never lets later text run: the log of a raising program is a prefix-closed fact of
its raising statement (Spec side) -/
theorem C05_spec_no_stmt_after_raise (fl : Flags) (c : Ch) (cs : List Ch) (log : List Nat) (r : Raised)
    (h : (Spec.stmt fl c log).2 = some r) : Spec.prog fl (c :: cs) log = Spec.stmt fl c log := by
  simp only [Spec.prog]
  rcases hS : Spec.stmt fl c log with ⟨l, r1⟩
  rw [hS] at h
  simp only [] at h
  subst h
  rfl

/-! ## where the full statement fails (known findings), and what the fix repaired -/

def mk (id rc : Nat) (f : Form) (prints : Bool := false) (d : Dec := .none) : Cmd :=
  ⟨id, rc, f, d, prints, false, [], []⟩

/-- `$[true] && b`: the exit code is 0, the value is None — b never runs -/
theorem C05_cex_uncaptured :
    let p := [Ch.and (.cmd (mk 1 0 .uncaptured)) (.cmd (mk 2 0 .hidden))]
    (Impl.prog true ⟨true, false⟩ false p St.init).1.log = [1] ∧ (Spec.prog ⟨true, false⟩ p []).1 = [1, 2] := by decide

/-- `$(failing-but-printing) && b` runs b; `$(silent-success) && b` does not -/
theorem C05_cex_stdout :
    let p1 := [Ch.and (.cmd (mk 1 1 .stdout true)) (.cmd (mk 2 0 .hidden))]
    let p2 := [Ch.and (.cmd (mk 1 0 .stdout false)) (.cmd (mk 2 0 .hidden))]
    (Impl.prog true ⟨true, false⟩ false p1 St.init).1.log = [1, 2] ∧ (Spec.prog ⟨true, false⟩ p1 []).1 = [1] ∧
    (Impl.prog true ⟨true, false⟩ false p2 St.init).1.log = [1] ∧ (Spec.prog ⟨true, false⟩ p2 []).1 = [1, 2] := by decide

/-- the pinned snapshot's order of tests (`cf := false`): with $XONSH_SUBPROC_CMD_RAISE_ERROR a
failing marked operand was deferred to the chain and the fallback ran; repaired (`cf := true`) -/
theorem C05_old_rule_cex_cmd_raise :
    let p := [Ch.or (.cmd (mk 1 1 .hidden)) (.cmd (mk 2 0 .hidden))]
    Impl.prog false ⟨true, true⟩ false p St.init = (⟨[1, 2], some (2, 0, .hidden, .none)⟩, none) ∧
    Spec.prog ⟨true, true⟩ p [] = ([1], some ⟨1, 1⟩) ∧
    (Impl.prog true ⟨true, true⟩ false p St.init).2 = some ⟨1, 1⟩ := by decide

/-- KNOWN FINDING `lazy-object-never-ends-in-statement`: `t b 1 || !(@error_raise t c 1)` — the docs say
`!(@error_raise …)` raises; as the last operand nobody asks for its result inside the statement -/
theorem C05_cex_lazy_object :
    let p := [Ch.or (.cmd (mk 1 1 .hidden)) (.cmd (mk 2 1 .object false .raise))]
    Impl.prog true ⟨true, false⟩ false p St.init = (⟨[1, 2], some (2, 1, .object, .raise)⟩, none) ∧
    Spec.prog ⟨true, false⟩ p [] = ([1, 2], some ⟨1, 2⟩) := by decide

/-- the pinned snapshot's sub-chain drop (repaired in /repo e204b18), as `collapse` describes it:
`(a && f0 -c) && d` ran c and d only -/
theorem C05_cex_subchain_drop :
    let py : Cmd := ⟨2, 0, .hidden, .none, false, true, [], []⟩
    let p := [Ch.and (.and (.cmd (mk 1 0 .hidden)) (.cmd py)) (.cmd (mk 3 0 .hidden))]
    (Impl.prog true ⟨true, false⟩ true p St.init).1.log = [2, 3] ∧ (Spec.prog ⟨true, false⟩ p []).1 = [1, 2, 3] := by decide

/-- non-vacuity: a plain program with nesting, a pipeline, an injected command, decorators and a
`!()` exercises every branch and the two sides agree on a non-trivial outcome -/
example :
    let a : Cmd := ⟨1, 1, .hidden, .none, false, false, [7], []⟩
    let b : Cmd := ⟨2, 0, .object, .none, true, false, [], [⟨8, 0, .none⟩]⟩
    let c : Cmd := ⟨3, 2, .hidden, .ignore, false, true, [], []⟩
    let d : Cmd := ⟨4, 3, .hidden, .none, false, false, [], []⟩
    let p := [Ch.and (.or (.cmd a) (.cmd b)) (.cmd c), .cmd (mk 5 0 .stdout true), .or (.cmd d) (.cmd (mk 6 0 .hidden)), .cmd d, .cmd (mk 9 0 .hidden)]
    (∀ ch ∈ p, plainStmt ⟨true, false⟩ ch = true) ∧
    Spec.prog ⟨true, false⟩ p [] = ([7, 1, 8, 2, 3, 5, 4, 6, 4], some ⟨3, 4⟩) := by decide
