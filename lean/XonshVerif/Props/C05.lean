/-
C05 — Chains, exit codes and fail-fast follow the documented truth table.
`Chain.Spec` is the truth table; `Chain.Impl` is what the code does (tied to xonsh by
xv/props/c05.py).  The refinement theorem is about `Impl` with the repaired order of the two tests
in CommandPipeline._raise_subproc_error (`cf := true`, fix commit in known_findings.json).
-/
import XonshVerif.Model.Chain
open Chain

/-- a chain all of whose operands are bare / `![]` / `!()` commands: their VALUE is the pipeline
itself, truthy iff its exit code is 0 -/
def plainCh : Ch → Bool
  | .cmd c => c.form == .hidden || c.form == .object
  | .and a b => plainCh a && plainCh b
  | .or a b => plainCh a && plainCh b

/-- a statement of the fragment: a standalone command in ANY capture form, or a plain chain -/
def plainStmt : Ch → Bool
  | .cmd _ => true
  | ch => plainCh ch

/-! ## the three raise sites against the truth table -/

theorem pipeRaise_eq (fl : Flags) (m : Bool) (rc : Nat) (d : Dec) :
    Impl.pipeRaise true fl m rc d = Spec.raisesAt fl rc d := by
  unfold Impl.pipeRaise Spec.raisesAt
  cases d <;> cases hc : fl.cmdRaise <;> by_cases h : rc = 0 <;> simp +decide [h]

theorem helperRaise_eq (fl : Flags) (id rc : Nat) (f : Form) (d : Dec) :
    Impl.helperRaise fl false (some (id, rc, f, d)) =
      if Spec.raisesFinal fl rc f d then some ⟨rc, id⟩ else none := by
  unfold Impl.helperRaise Spec.raisesFinal
  cases hr : fl.raiseErr <;> cases f <;> cases d <;> cases h : (rc == 0) <;> simp_all

theorem checkBoolop_pipe (fl : Flags) (c : Cmd) (s : St) :
    Impl.checkBoolop fl (.pipe c) s = if Spec.raisesFinal fl c.rc c.form c.dec then some ⟨c.rc, c.id⟩ else none := by
  unfold Impl.checkBoolop Spec.raisesFinal facts
  cases hr : fl.raiseErr <;> cases hf : c.form <;> cases hd : c.dec <;> cases h : (c.rc == 0) <;> simp_all

/-! ## injected commands, one command, a chain, a statement, a program -/

theorem inner_ref (fl : Flags) (is : List Inner) (s : St) :
    (match Impl.runInner true fl is s with
     | .error (r, s') => Spec.runInner fl is s.log = .error (r, s'.log)
     | .ok s' => Spec.runInner fl is s.log = .ok s'.log) := by
  induction is generalizing s with
  | nil => simp [Impl.runInner, Spec.runInner]
  | cons i is ih =>
    simp only [Impl.runInner, Spec.runInner, pipeRaise_eq, innerFacts, helperRaise_eq]
    cases h1 : Spec.raisesAt fl i.rc i.dec
    · cases h2 : Spec.raisesFinal fl i.rc Form.stdout i.dec
      · simp only [Bool.false_eq_true, if_false, Bool.or_self]
        exact ih ⟨s.log ++ [i.id], some (i.id, i.rc, Form.stdout, i.dec)⟩
      · simp
    · simp

theorem cmd_ref (fl : Flags) (m : Bool) (c : Cmd) (s : St) (hp : c.form = .hidden ∨ c.form = .object) :
    (match Impl.runCmd true fl m c s with
     | .error (r, s') => Spec.runCmd fl c s.log = .error (r, s'.log)
     | .ok (v, s') => Spec.runCmd fl c s.log = .ok s'.log ∧ v = .pipe c) := by
  unfold Impl.runCmd Spec.runCmd
  have hi := inner_ref fl c.inject s
  cases hI : Impl.runInner true fl c.inject s with
  | error e =>
    obtain ⟨r, s'⟩ := e
    rw [hI] at hi; simp only [] at hi
    simp [hi]
  | ok s1 =>
    rw [hI] at hi; simp only [] at hi
    simp only [hi, pipeRaise_eq]
    cases h1 : Spec.raisesAt fl c.rc c.dec
    · rcases hp with hp | hp <;> simp [hp]
    · simp

theorem eval_ref (fl : Flags) (ch : Ch) (hp : plainCh ch = true) (s : St) :
    (match Impl.eval true fl ch s with
     | .error (r, s') => Spec.eval fl ch s.log = .error (r, s'.log)
     | .ok (v, s') => ∃ c, v = .pipe c ∧ Spec.eval fl ch s.log = .ok (s'.log, c)) := by
  induction ch generalizing s with
  | cmd c =>
    have hp' : c.form = .hidden ∨ c.form = .object := by
      simp only [plainCh, Bool.or_eq_true, beq_iff_eq] at hp; exact hp
    have h := cmd_ref fl (!c.pyLike) c s hp'
    simp only [Impl.eval, Spec.eval]
    cases hI : Impl.runCmd true fl (!c.pyLike) c s with
    | error e => obtain ⟨r, s'⟩ := e; rw [hI] at h; simp only [] at h; simp [h, Except.map]
    | ok vs =>
      obtain ⟨v, s'⟩ := vs; rw [hI] at h; simp only [] at h
      exact ⟨c, h.2, by simp [h.1, Except.map]⟩
  | and a b iha ihb =>
    simp only [plainCh, Bool.and_eq_true] at hp
    have ha := iha hp.1 s
    simp only [Impl.eval, Spec.eval]
    cases hA : Impl.eval true fl a s with
    | error e => obtain ⟨r, s'⟩ := e; rw [hA] at ha; simp only [] at ha; simp [ha]
    | ok vs =>
      obtain ⟨v, s'⟩ := vs; rw [hA] at ha; simp only [] at ha
      obtain ⟨c, hv, hs⟩ := ha
      subst hv
      simp only [hs]
      by_cases hc : (c.rc == 0) = true
      · have ht : Impl.truthy (.pipe c) = true := hc
        rw [if_pos ht, if_pos hc]; exact ihb hp.2 s'
      · have ht : ¬ Impl.truthy (.pipe c) = true := hc
        rw [if_neg ht, if_neg hc]; exact ⟨c, rfl, rfl⟩
  | or a b iha ihb =>
    simp only [plainCh, Bool.and_eq_true] at hp
    have ha := iha hp.1 s
    simp only [Impl.eval, Spec.eval]
    cases hA : Impl.eval true fl a s with
    | error e => obtain ⟨r, s'⟩ := e; rw [hA] at ha; simp only [] at ha; simp [ha]
    | ok vs =>
      obtain ⟨v, s'⟩ := vs; rw [hA] at ha; simp only [] at ha
      obtain ⟨c, hv, hs⟩ := ha
      subst hv
      simp only [hs]
      by_cases hc : (c.rc == 0) = true
      · have ht : Impl.truthy (.pipe c) = true := hc
        rw [if_pos ht, if_pos hc]; exact ⟨c, rfl, rfl⟩
      · have ht : ¬ Impl.truthy (.pipe c) = true := hc
        rw [if_neg ht, if_neg hc]; exact ihb hp.2 s'

theorem checkBoolop_last (fl : Flags) (v : Impl.Val) (hv : ∀ c, v ≠ .pipe c) (l : List Nat) (id rc : Nat) (f : Form) (d : Dec) :
    Impl.checkBoolop fl v ⟨l, some (id, rc, f, d)⟩ = if Spec.raisesFinal fl rc f d then some ⟨rc, id⟩ else none := by
  unfold Impl.checkBoolop Spec.raisesFinal
  cases v with
  | pipe c => exact absurd rfl (hv c)
  | none => cases hr : fl.raiseErr <;> cases f <;> cases d <;> cases h : (rc == 0) <;> simp_all
  | str b => cases hr : fl.raiseErr <;> cases f <;> cases d <;> cases h : (rc == 0) <;> simp_all

theorem raisesFinal_object (fl : Flags) (rc : Nat) (d : Dec) : Spec.raisesFinal fl rc .object d = false := by
  simp [Spec.raisesFinal]

/-- a standalone command in any capture form -/
theorem single_ref (fl : Flags) (c : Cmd) (s : St) :
    (Impl.stmt true fl (.cmd c) s).1.log = (Spec.stmt fl (.cmd c) s.log).1 ∧
    (Impl.stmt true fl (.cmd c) s).2 = (Spec.stmt fl (.cmd c) s.log).2 := by
  simp only [Impl.stmt, Spec.stmt, Spec.eval, Impl.runCmd, Spec.runCmd]
  have hi := inner_ref fl c.inject s
  cases hI : Impl.runInner true fl c.inject s with
  | error e =>
    obtain ⟨r, s'⟩ := e
    rw [hI] at hi; simp only [] at hi
    simp [hi, Except.map]
  | ok s1 =>
    rw [hI] at hi; simp only [] at hi
    simp only [hi, pipeRaise_eq, Except.map, facts, helperRaise_eq]
    cases h1 : Spec.raisesAt fl c.rc c.dec
    · simp only [Bool.false_eq_true, if_false]
      cases hf : c.form
      · -- hidden
        simp only [checkBoolop_pipe, hf]
        cases h2 : Spec.raisesFinal fl c.rc Form.hidden c.dec <;> simp
      · -- uncaptured
        cases h2 : Spec.raisesFinal fl c.rc Form.uncaptured c.dec
        · simp [checkBoolop_last, h2]
        · simp
      · -- stdout
        cases h2 : Spec.raisesFinal fl c.rc Form.stdout c.dec
        · simp [checkBoolop_last, h2]
        · simp
      · -- object
        simp [raisesFinal_object]
    · simp

theorem stmt_ref (fl : Flags) (ch : Ch) (hp : plainStmt ch = true) (s : St) :
    (Impl.stmt true fl ch s).1.log = (Spec.stmt fl ch s.log).1 ∧
    (Impl.stmt true fl ch s).2 = (Spec.stmt fl ch s.log).2 := by
  cases ch with
  | cmd c => exact single_ref fl c s
  | and a b =>
    have h := eval_ref fl (.and a b) hp s
    simp only [Impl.stmt, Spec.stmt, Bool.false_eq_true, if_false]
    cases hE : Impl.eval true fl (.and a b) s with
    | error e => obtain ⟨r, s'⟩ := e; rw [hE] at h; simp only [] at h; simp [h]
    | ok vs =>
      obtain ⟨v, s'⟩ := vs; rw [hE] at h; simp only [] at h
      obtain ⟨c, hv, hs⟩ := h
      subst hv
      simp only [hs, checkBoolop_pipe]
      split <;> simp
  | or a b =>
    have h := eval_ref fl (.or a b) hp s
    simp only [Impl.stmt, Spec.stmt, Bool.false_eq_true, if_false]
    cases hE : Impl.eval true fl (.or a b) s with
    | error e => obtain ⟨r, s'⟩ := e; rw [hE] at h; simp only [] at h; simp [h]
    | ok vs =>
      obtain ⟨v, s'⟩ := vs; rw [hE] at h; simp only [] at h
      obtain ⟨c, hv, hs⟩ := h
      subst hv
      simp only [hs, checkBoolop_pipe]
      split <;> simp

/-- C05, PARTIAL (the full statement also quantifies over `$[]` / `$()` operands, where it is false:
`C05_cex_uncaptured`, `C05_cex_stdout`).  For EVERY program — any number of statements, any nesting
and length of and/or chains, any exit codes, decorators, pipelines, injected `@$()` commands, both
raise flags, marked and unmarked (Python-looking) operands — whose chain operands are bare / `![]`
/ `!()` commands, the commands the implementation runs, in order, and the CalledProcessError that
escapes are exactly those of the documented truth table. -/
theorem C05_refines_partial (fl : Flags) (p : List Ch) (hp : ∀ ch ∈ p, plainStmt ch = true) (s : St) :
    (Impl.prog true fl false p s).1.log = (Spec.prog fl p s.log).1 ∧
    (Impl.prog true fl false p s).2 = (Spec.prog fl p s.log).2 := by
  induction p generalizing s with
  | nil => simp [Impl.prog, Spec.prog]
  | cons c cs ih =>
    have h := stmt_ref fl c (hp c (List.mem_cons_self ..)) s
    have hcs : ∀ ch ∈ cs, plainStmt ch = true := fun ch hc => hp ch (List.mem_cons_of_mem _ hc)
    simp only [Impl.prog, Spec.prog]
    rcases hI : Impl.stmt true fl c s with ⟨s1, r1⟩
    rcases hS : Spec.stmt fl c s.log with ⟨l2, r2⟩
    rw [hI, hS] at h
    simp only [] at h
    obtain ⟨h1, h2⟩ := h
    subst h2
    cases r1 with
    | some r => simp [h1]
    | none => simp only []; rw [← h1]; exact ih hcs s1

/-- from a fresh session -/
theorem C05_refines_from_start (fl : Flags) (p : List Ch) (hp : ∀ ch ∈ p, plainStmt ch = true) :
    ((Impl.prog true fl false p St.init).1.log, (Impl.prog true fl false p St.init).2) = Spec.prog fl p [] := by
  have h := C05_refines_partial fl p hp St.init
  exact Prod.ext h.1 h.2

/-- once a statement raises, no later statement runs — for ALL programs (any forms), in the
implementation model itself -/
theorem C05_no_stmt_after_raise (cf : Bool) (fl : Flags) (col : Bool) (c : Ch) (cs : List Ch) (s : St) (r : Raised)
    (h : (Impl.stmt cf fl c s col).2 = some r) :
    Impl.prog cf fl col (c :: cs) s = Impl.stmt cf fl c s col := by
  simp only [Impl.prog]
  rcases hI : Impl.stmt cf fl c s col with ⟨s1, r1⟩
  rw [hI] at h
  simp only [] at h
  subst h
  rfl

/-- a raise never lets later text run: the log of a raising program is a prefix-closed fact of
its raising statement (Spec side) -/
theorem C05_spec_no_stmt_after_raise (fl : Flags) (c : Ch) (cs : List Ch) (log : List Nat) (r : Raised)
    (h : (Spec.stmt fl c log).2 = some r) : Spec.prog fl (c :: cs) log = Spec.stmt fl c log := by
  simp only [Spec.prog]
  rcases hS : Spec.stmt fl c log with ⟨l, r1⟩
  rw [hS] at h
  simp only [] at h
  subst h
  rfl

/-! ## where the full statement fails (known findings), and what the fix repaired -/

def mk (id rc : Nat) (f : Form) (prints : Bool := false) (d : Dec := .none) : Cmd :=
  ⟨id, rc, f, d, prints, false, [], []⟩

/-- `$[true] && b`: the exit code is 0, the value is None — b never runs -/
theorem C05_cex_uncaptured :
    let p := [Ch.and (.cmd (mk 1 0 .uncaptured)) (.cmd (mk 2 0 .hidden))]
    (Impl.prog true ⟨true, false⟩ false p St.init).1.log = [1] ∧ (Spec.prog ⟨true, false⟩ p []).1 = [1, 2] := by decide

/-- `$(failing-but-printing) && b` runs b; `$(silent-success) && b` does not -/
theorem C05_cex_stdout :
    let p1 := [Ch.and (.cmd (mk 1 1 .stdout true)) (.cmd (mk 2 0 .hidden))]
    let p2 := [Ch.and (.cmd (mk 1 0 .stdout false)) (.cmd (mk 2 0 .hidden))]
    (Impl.prog true ⟨true, false⟩ false p1 St.init).1.log = [1, 2] ∧ (Spec.prog ⟨true, false⟩ p1 []).1 = [1] ∧
    (Impl.prog true ⟨true, false⟩ false p2 St.init).1.log = [1] ∧ (Spec.prog ⟨true, false⟩ p2 []).1 = [1, 2] := by decide

/-- the pinned snapshot's order of tests (`cf := false`): with $XONSH_SUBPROC_CMD_RAISE_ERROR a
failing marked operand was deferred to the chain and the fallback ran; repaired (`cf := true`) -/
theorem C05_old_rule_cex_cmd_raise :
    let p := [Ch.or (.cmd (mk 1 1 .hidden)) (.cmd (mk 2 0 .hidden))]
    Impl.prog false ⟨true, true⟩ false p St.init = (⟨[1, 2], some (2, 0, .hidden, .none)⟩, none) ∧
    Spec.prog ⟨true, true⟩ p [] = ([1], some ⟨1, 1⟩) ∧
    (Impl.prog true ⟨true, true⟩ false p St.init).2 = some ⟨1, 1⟩ := by decide

/-- the known sub-chain drop, as `collapse` describes it: `(a && f0 -c) && d` runs c and d only -/
theorem C05_cex_subchain_drop :
    let py : Cmd := ⟨2, 0, .hidden, .none, false, true, [], []⟩
    let p := [Ch.and (.and (.cmd (mk 1 0 .hidden)) (.cmd py)) (.cmd (mk 3 0 .hidden))]
    (Impl.prog true ⟨true, false⟩ true p St.init).1.log = [2, 3] ∧ (Spec.prog ⟨true, false⟩ p []).1 = [1, 2, 3] := by decide

/-- non-vacuity: a plain program with nesting, a pipeline, an injected command, decorators and a
`!()` exercises every branch and the two sides agree on a non-trivial outcome -/
example :
    let a : Cmd := ⟨1, 1, .hidden, .none, false, false, [7], []⟩
    let b : Cmd := ⟨2, 0, .object, .none, true, false, [], [⟨8, 0, .none⟩]⟩
    let c : Cmd := ⟨3, 2, .hidden, .ignore, false, true, [], []⟩
    let d : Cmd := ⟨4, 3, .hidden, .none, false, false, [], []⟩
    let p := [Ch.and (.or (.cmd a) (.cmd b)) (.cmd c), .cmd (mk 5 0 .stdout true), .or (.cmd d) (.cmd (mk 6 0 .hidden)), .cmd d, .cmd (mk 9 0 .hidden)]
    (∀ ch ∈ p, plainStmt ch = true) ∧
    Spec.prog ⟨true, false⟩ p [] = ([7, 1, 8, 2, 3, 5, 4, 6, 4], some ⟨3, 4⟩) := by decide
