/-
C07 — Redirections and pipes deliver each stream to exactly the documented place.
-/
import XonshVerif.Model.Redir
import XonshVerif.Gen.Redir
open Redir

/-- the decoder tables translated from xonsh/procs/specs.py on this run -/
def T : Tables :=
  ⟨Gen.Redir.regexLang, Gen.Redir.modes, Gen.Redir.writeModes, Gen.Redir.redirAll, Gen.Redir.redirErr, Gen.Redir.redirOut,
   Gen.Redir.e2oMap, Gen.Redir.o2eMap, Gen.Redir.a2pMap, Gen.Redir.e2pMap⟩

def decodesAsDocumented (r : Str) : Bool :=
  match specDecode r, classify T r with
  | some op, .ok c => c == clsOf op
  | _, _ => false

theorem table_check : ∀ r ∈ Gen.Redir.tokenizable, decodesAsDocumented r = true := by
  decide +kernel

/-- every spelling that reaches the parser as one redirect token decodes to its documented meaning -/
theorem C07_spelling_table (r : Str) (h : r ∈ Gen.Redir.tokenizable) :
    ∃ op, specDecode r = some op ∧ classify T r = .ok (clsOf op) := by
  have := table_check r h
  unfold decodesAsDocumented at this
  split at this
  · rename_i op c h1 h2
    exact ⟨op, h1, by rw [h2]; simp at this; rw [this]⟩
  · simp at this
