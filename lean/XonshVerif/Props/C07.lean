/-
C07 — Redirections and pipes deliver each stream to exactly the documented place.

"For every stage of a pipeline, stdout and stderr end up — completely and only — where the redirect operators say:
`>`/`o>`/`1>` to a file (truncated), `>>` appended, `e>`/`2>` for stderr, `a>`/`&>` both, `e>o`/`2>&1` and `o>e`/`1>&2`
merged, `e>p`/`a>p` into the following pipe, `<` a file as stdin; unredirected stdout goes to the next stage, the
capture or the terminal.  All documented spellings of an operator are equivalent, and conflicting or malformed
redirects are reported as errors rather than silently misrouted."

Theorems over the model `Redir` (Model/Redir.lean) instantiated with the tables TRANSLATED from /repo on this run
(Gen/Redir.lean): decoder tables of xonsh/procs/specs.py, the complete language of `_REDIR_REGEX`, the tokenizer's
redirect spellings, the shape of the grammar rule.  The documented routing is `Redir.specRoute` (written from
docs/tutorial.rst); `Redir.route` with `Quirks.fixed` is the code as it is now — the seven deviations of the pinned
snapshot are repaired in /repo (ce03276 55d432e c8fac0d 58fc858 e44af9d 6c98380 0a66bfd) — and with `Quirks.current` it is
the snapshot before the repairs.  HEADLINE: `C07_route`.  The lemmas that do not mention the tables are in Lemmas/Redir*.lean.
-/
import XonshVerif.Model.Redir
import XonshVerif.Lemmas.RedirStage
import XonshVerif.Gen.Redir
open Redir

/-- the decoder tables translated from xonsh/procs/specs.py on this run -/
def T : Tables :=
  ⟨Gen.Redir.regexLang, Gen.Redir.modes, Gen.Redir.writeModes, Gen.Redir.redirAll, Gen.Redir.redirErr, Gen.Redir.redirOut,
   Gen.Redir.e2oMap, Gen.Redir.o2eMap, Gen.Redir.a2pMap, Gen.Redir.e2pMap⟩

/-! ## the spelling table -/

def decodesAsDocumented (r : Str) : Bool :=
  match specDecode r, classify T r with
  | some op, .ok c => c == clsOf op
  | _, _ => false

theorem table_check : ∀ r ∈ Gen.Redir.tokenizable, decodesAsDocumented r = true := by
  decide +kernel

/-- EVERY spelling that reaches the parser as one redirect token (tokenize._redir_check_single / _redir_check_map and the
lexer's `<` `>` `>>`) is a documented operator, and the tables of procs/specs.py decode it to exactly that operator
(stream, merge direction, pipe form and open mode) -/
theorem C07_spelling_table (r : Str) (h : r ∈ Gen.Redir.tokenizable) :
    ∃ op, specDecode r = some op ∧ classify T r = .ok (clsOf op) := by
  have := table_check r h
  unfold decodesAsDocumented at this
  split at this
  · rename_i op c h1 h2
    exact ⟨op, h1, by rw [h2]; simp at this; rw [this]⟩
  · simp at this

/-- all spellings of one operator are equivalent -/
theorem C07_spellings_equivalent (r₁ r₂ : Str) (h₁ : r₁ ∈ Gen.Redir.tokenizable) (h₂ : r₂ ∈ Gen.Redir.tokenizable)
    (h : specDecode r₁ = specDecode r₂) : classify T r₁ = classify T r₂ := by
  obtain ⟨o1, d1, c1⟩ := C07_spelling_table r₁ h₁
  obtain ⟨o2, d2, c2⟩ := C07_spelling_table r₂ h₂
  rw [d1, d2] at h
  cases h
  rw [c1, c2]

/-- the spellings docs/tutorial.rst names, by operator -/
def tutorialSpellings : List (Str × Op) :=
  [(">".toList, .outFile false), ("out>".toList, .outFile false), ("o>".toList, .outFile false), ("1>".toList, .outFile false),
   (">>".toList, .outFile true), ("out>>".toList, .outFile true), ("o>>".toList, .outFile true), ("1>>".toList, .outFile true),
   ("err>".toList, .errFile false), ("e>".toList, .errFile false), ("2>".toList, .errFile false),
   ("err>>".toList, .errFile true), ("e>>".toList, .errFile true), ("2>>".toList, .errFile true),
   ("all>".toList, .allFile false), ("a>".toList, .allFile false), ("&>".toList, .allFile false),
   ("all>>".toList, .allFile true), ("a>>".toList, .allFile true), ("&>>".toList, .allFile true),
   ("err>out".toList, .errToOut), ("err>o".toList, .errToOut), ("e>out".toList, .errToOut), ("e>o".toList, .errToOut),
   ("2>&1".toList, .errToOut),
   ("out>err".toList, .outToErr), ("out>e".toList, .outToErr), ("o>err".toList, .outToErr), ("o>e".toList, .outToErr),
   ("1>&2".toList, .outToErr),
   ("a>p".toList, .allToPipe), ("all>p".toList, .allToPipe), ("e>p".toList, .errToPipe), ("err>p".toList, .errToPipe),
   ("<".toList, .input)]

/-- every spelling the tutorial names is lexed as one redirect token and means what the tutorial says -/
theorem C07_tutorial_spellings :
    ∀ p ∈ tutorialSpellings, Gen.Redir.tokenizable.contains p.1 = true ∧ specDecode p.1 = some p.2 := by
  decide +kernel

example : ("2>&1".toList, Op.errToOut) ∈ tutorialSpellings := by decide
example : classify T "err>out".toList = .ok .errToOut ∧ classify T "2>&1".toList = .ok .errToOut := by decide +kernel

/-- does the spelling end in `>>`? -/
def endsAppend (r : Str) : Bool := r.reverse.take 2 == ['>', '>']

/-- the documented operator of a spelling appends iff the spelling ends in `>>` (no table involved) -/
def appendCheck (r : Str) : Bool :=
  match specDecode r with
  | some (.outFile a) | some (.errFile a) | some (.allFile a) => a == endsAppend r
  | _ => true

theorem append_check : ∀ r ∈ Gen.Redir.tokenizable, appendCheck r = true := by
  decide +kernel

/-- `>` TRUNCATES AND `>>` APPENDS: whenever the tables decode a tokenizable spelling to a file redirect, the open mode is
`a` if the spelling ends in `>>` and `w` otherwise (`w` truncates, `a` appends: Python's `open`) -/
theorem C07_mode (r : Str) (h : r ∈ Gen.Redir.tokenizable) (m : Str)
    (hc : classify T r = .ok (.outFile m) ∨ classify T r = .ok (.errFile m) ∨ classify T r = .ok (.allFile m)) :
    m = if endsAppend r then ['a'] else ['w'] := by
  obtain ⟨op, hd, hcl⟩ := C07_spelling_table r h
  have ha := append_check r h
  simp only [appendCheck, hd] at ha
  rw [hcl] at hc
  cases op <;> simp [clsOf] at hc <;> simp at ha <;> subst ha <;> subst hc <;> cases endsAppend r <;> rfl

example : classify T ">".toList = .ok (.outFile ['w']) ∧ classify T "e>>".toList = .ok (.errFile ['a']) := by decide +kernel

/-- the grammar rule `p_subproc_atom_redirect` gives a target word to exactly the file / input operators: the tokens it
accepts alone (IOREDIRECT2) are the merge / pipe operators, and every tokenizable spelling has one of the two shapes -/
def shapeCheck (r : Str) : Bool :=
  match specDecode r with
  | some op =>
    (Gen.Redir.standsAlone.contains r == isMergeOrPipe op) && (Gen.Redir.takesTarget.contains r == !isMergeOrPipe op)
  | none => false

theorem C07_grammar_shape : ∀ r ∈ Gen.Redir.tokenizable, shapeCheck r = true := by
  decide +kernel

/-! ## operators that are not documented -/

/-- no undocumented operator is lexer-reachable: every tokenizable spelling has a documented meaning (so a tokenizer that
starts emitting, say, `2>&3` as one token breaks this theorem and `C07_spelling_table`) -/
theorem C07_unknown_rejected : ∀ r ∈ Gen.Redir.tokenizable, (specDecode r).isSome = true := by
  decide +kernel

/-- the decoder's decision for a word of the language of `_REDIR_REGEX`, from the groups of ITS row of the table
(`classify T w` is this function applied to the row the table lookup finds for `w`) -/
def acceptedRow (row : Str × (Str × Str × Str)) : Bool :=
  match classifyGiven T (some row.2) row.1 with | .ok _ => true | .error _ => false

theorem classify_lookup (w : Str) (g : Str × Str × Str) (h : regexMatch T w = some g) :
    classify T w = classifyGiven T (some g) w := by
  simp [classify, h]

/-- the destination group is `&` + digit (`2>&3`: the decoder drops the descriptor and treats it as `2>` file) -/
def ampFd (row : Str × (Str × Str × Str)) : Bool := match row.2.2.2 with | '&' :: _ => true | _ => false

/-- a merge written with a stray leading `&` (`&2>o`: `_redirect_streams` deletes every `&` before looking it up) -/
def strayAmp (row : Str × (Str × Str × Str)) : Bool := match row.2.1 with | '&' :: _ :: _ => true | _ => false

/-- MALFORMED OPERATORS ARE REJECTED: for every word of the language of `_REDIR_REGEX` (every row of the translated
table) that is not a tokenizable spelling the decoder raises — except the two families `X>&N` and `&N>Y`, which it
accepts when it is called programmatically with such a string.  No member of the two families is tokenizable, and the
`lexer` stream of the check shows the real lexer never emits one as a single token: a remark about the API of
run_subproc, not a routing defect. -/
theorem C07_malformed_rejected :
    ∀ row ∈ Gen.Redir.regexLang, Gen.Redir.tokenizable.contains row.1 = false → ampFd row = false → strayAmp row = false →
      acceptedRow row = false := by
  decide +kernel

/-- … and a string outside the regex language that is not one of the merge / pipe spellings is rejected -/
theorem C07_outside_regex (w : Str) (h : regexMatch T w = none)
    (h1 : w ∉ T.a2p) (h2 : w ∉ T.e2p) (h3 : w.filter (· ≠ '&') ∉ T.e2o) (h4 : w.filter (· ≠ '&') ∉ T.o2e) :
    classify T w = .error .noMatch := by
  simp at h3 h4
  simp [classify, classifyGiven, h1, h2, h3, h4, h]

example : acceptedRow ("2>&3".toList, ("2".toList, ">".toList, "&3".toList)) = true ∧
    acceptedRow ("2>3".toList, ("2".toList, ">".toList, "3".toList)) = false := by decide +kernel
example : classify T "o>p".toList = .error .noMatch := by decide +kernel

/-! ## conflicts are errors -/

/-- a redirect as the grammar produces it: a tokenizable spelling; a lone IOREDIRECT2 carries no target word -/
def FromSource (p : Str × Loc) : Prop :=
  p.1 ∈ Gen.Redir.tokenizable ∧ (p.1 ∈ Gen.Redir.standsAlone → ∀ t, p.2 ≠ .one t)

theorem good_of_source (p : Str × Loc) (h : FromSource p) : Good T p := by
  obtain ⟨h1, h2⟩ := h
  obtain ⟨op, hd, hc⟩ := C07_spelling_table p.1 h1
  refine ⟨op, hd, hc, ?_⟩
  intro hm
  apply h2
  have := C07_grammar_shape p.1 h1
  simp only [shapeCheck, hd, hm] at this
  simp at this
  exact this.1

/-- CONFLICTING REDIRECTS ARE ERRORS, for EVERY list of redirects of one command: `SubprocSpec.resolve_redirects`
succeeds iff every redirect is well formed (documented operator, the target it needs, the target can be opened) and
neither stdin, stdout nor stderr is claimed by two of them; otherwise it raises -/
theorem C07_conflict_is_error (ts : Nat → TState) (rs : List (Str × Loc)) (hs : ∀ p ∈ rs, FromSource p) :
    (∃ s, applyRedirs T ts rs (none, none, none) = .ok s) ↔
      (∀ p ∈ rs, (wellFormed ts p.1 p.2).isSome = true) ∧
      ((wfs ts rs).filterMap claimIn).length ≤ 1 ∧ ((wfs ts rs).filterMap claimOut).length ≤ 1 ∧
      ((wfs ts rs).filterMap claimErr).length ≤ 1 :=
  applyRedirs_ok_iff T ts rs (fun p hp => good_of_source p (hs p hp))

def ts0 : Nat → TState := fun _ => .present

example : applyRedirs T ts0 [(">".toList, .one 0), ("e>".toList, .one 1)] (none, none, none) =
    .ok (none, some (.file 0 ['w']), some (.file 1 ['w'])) := by decide +kernel
example : applyRedirs T ts0 [(">".toList, .one 0), ("a>>".toList, .one 1)] (none, none, none) = .error .multiStdout := by
  decide +kernel
example : applyRedirs T ts0 [("e>o".toList, .none), ("2>".toList, .one 1)] (none, none, none) = .error .multiStderr := by
  decide +kernel

/-! ## routing = documentation -/

/-- THE ROUTING THEOREM.  For EVERY pipeline — any number of stages of any kind (external command, threadable or not;
callable alias, threadable or not), any list of redirects per stage written with any tokenizable spelling, any capture
form, any setting of $THREAD_SUBPROCS / $XONSH_CAPTURE_ALWAYS / $XONSH_SUBPROC_CAPTURED_PRINT_STDERR, any state of
the target files — the model with the seven deviations repaired satisfies the documented routing: it raises exactly
when the documentation says error, and otherwise every stage's stdin source, stdout places, stderr places and opened
files (with mode) are the documented ones.  (Proof: decoding by the table theorem; slots by induction on the redirect
list; the three passes of cmds_to_specs refined to a stage-by-stage function; one stage by case analysis; the pipeline
by induction on the stage list.) -/
theorem C07_route (ts : Nat → TState) (cfg : Cfg) (cap : Cap) (stages : List Stage)
    (hs : ∀ st ∈ stages, ∀ p ∈ st.redirs, FromSource p) :
    agrees (route T ts Quirks.fixed cfg cap stages) (specRoute ts cfg cap stages) = true :=
  route_ok Quirks.fixed _ coreOk_fixed T ts cfg cap stages
    (fun st hst p hp => good_of_source p (hs st hst p hp)) (fun _ _ _ => trivial)

/-- a stage outside the seven deviation regions (`isLast`: it is the last stage of the pipeline) -/
def OutsideStage (cfg : Cfg) (cap : Cap) (isLast : Bool) (st : Stage) : Prop :=
  (∀ p ∈ st.redirs, specDecode p.1 ≠ some .outToErr) ∧          -- no `o>e`
  unthreadedAlias cfg st.kind = false ∧                           -- not an unthreaded callable alias
  (isLast = true → cap = .uncaptured → isAlias st.kind = false) ∧ -- `$[…]` does not end in a callable alias
  (isLast = true → cap = .object → procThreadable cfg st.kind = true)   -- `!(…)` ends in a threadable command

/-- THE ROUTING THEOREM FOR THE PINNED SNAPSHOT (partial): the model with all seven deviations present satisfies the documented
routing for every pipeline all of whose stages are outside the deviation regions.  The unrestricted statement is false:
one counterexample per deviation below. -/
theorem C07_route_partial (ts : Nat → TState) (cfg : Cfg) (cap : Cap) (stages : List Stage)
    (hs : ∀ st ∈ stages, ∀ p ∈ st.redirs, FromSource p)
    (ho : ∀ k st, stages[k]? = some st → OutsideStage cfg cap (k + 1 == stages.length) st) :
    agrees (route T ts Quirks.current cfg cap stages) (specRoute ts cfg cap stages) = true :=
  route_ok Quirks.current Outside coreOk_current T ts cfg cap stages
    (fun st hst p hp => good_of_source p (hs st hst p hp))
    (fun k st hk => by
      obtain ⟨h1, h2, h3, h4⟩ := ho k st hk
      exact ⟨no_fd2 ts st.redirs h1, h2, h3, h4⟩)

/-! ### non-vacuity: what the theorems say on concrete pipelines -/

def dflt : Cfg := ⟨true, false, false⟩
def xp : Kind := .proc true
def ta : Kind := .alias true
def ua : Kind := .alias false

/-- `xp e>o < in | ta > out e>> errs` under `$()` (the example of the tutorial) -/
example :
    route T ts0 Quirks.current dflt .stdout
      [⟨xp, [("e>o".toList, .none), ("<".toList, .one 0)]⟩, ⟨ta, [(">".toList, .one 1), ("e>>".toList, .one 2)]⟩] =
    ⟨none, false,
      [⟨.file 0, [.stdinOf 1], [.stdinOf 1], []⟩,
       ⟨.pipe, [.file 1 ['w']], [.file 2 ['a']], [(1, ['w']), (2, ['a'])]⟩]⟩ := by decide +kernel

example :
    specRoute ts0 dflt .stdout
      [⟨xp, [("e>o".toList, .none), ("<".toList, .one 0)]⟩, ⟨ta, [(">".toList, .one 1), ("e>>".toList, .one 2)]⟩] =
    .ok [⟨.file 0, [.stdinOf 1], [.stdinOf 1], []⟩,
         ⟨.pipe, [.file 1 ['w']], [.file 2 ['a']], [(1, ['w']), (2, ['a'])]⟩] := by decide +kernel

/-- `xp o> f e>p | xp` : stdout to the file, only stderr into the pipe -/
example :
    route T ts0 Quirks.current dflt .hidden [⟨xp, [("o>".toList, .one 0), ("e>p".toList, .none)]⟩, ⟨xp, []⟩] =
    ⟨none, false, [⟨.inherit, [.file 0 ['w']], [.stdinOf 1], [(0, ['w'])]⟩, ⟨.pipe, [.termOut], [.termErr], []⟩]⟩ := by
  decide +kernel

/-- `xp > f | xp` is an error, and so is `xp e>p` without a pipe -/
example : (route T ts0 Quirks.current dflt .hidden [⟨xp, [(">".toList, .one 0)]⟩, ⟨xp, []⟩]).err = some .multiStdout ∧
    specRoute ts0 dflt .hidden [⟨xp, [(">".toList, .one 0)]⟩, ⟨xp, []⟩] = .error := by decide +kernel
example : (route T ts0 Quirks.current dflt .hidden [⟨xp, [("e>p".toList, .none)]⟩]).err = some .needsPipe ∧
    specRoute ts0 dflt .hidden [⟨xp, [("e>p".toList, .none)]⟩] = .error := by decide +kernel

/-- the partial theorem is not vacuous: a pipeline outside the deviation regions -/
example : ∀ k st, [Stage.mk xp [("e>o".toList, .none)], Stage.mk ta [(">>".toList, .one 0)]][k]? = some st →
    OutsideStage dflt .hidden (k + 1 == 2) st := by
  intro k st h
  match k, h with
  | 0, h => cases h; exact ⟨by decide +kernel, by decide, by decide, by decide⟩
  | 1, h => cases h; exact ⟨by decide +kernel, by decide, by decide, by decide⟩

/-! ## the seven deviations of the PINNED SNAPSHOT: what it did on each witness (`Quirks.current`), against the documentation.
All seven are repaired in /repo; the check replays each witness on the real code as a FIXED witness (it must now be routed
as documented, i.e. as `Quirks.fixed` says: last example of this section) -/

def only (k : Nat) : Quirks :=
  ⟨k == 0, k == 1, k == 2, k == 3, k == 4, k == 5, k == 6⟩

/-- `$[alias]`: the alias's stderr lands on the shell's stdout (ProcProxyThread.run: `errwrite == c2pwrite`, both -1) -/
theorem C07_cex_alias_uncaptured_stderr :
    route T ts0 Quirks.current dflt .uncaptured [⟨ta, []⟩] = ⟨none, false, [⟨.inherit, [.termOut], [.termOut], []⟩]⟩ ∧
    specRoute ts0 dflt .uncaptured [⟨ta, []⟩] = .ok [⟨.inherit, [.termOut], [.termErr], []⟩] ∧
    agrees (route T ts0 (only 0) dflt .uncaptured [⟨ta, []⟩]) (specRoute ts0 dflt .uncaptured [⟨ta, []⟩]) = false := by
  decide +kernel

/-- `![unthreaded_alias e>o]`: `e>o` is ignored (ProcProxy._pick_buf: -2 < 3 means "sys.stderr") -/
theorem C07_cex_unthreaded_alias_e2o :
    route T ts0 Quirks.current dflt .hidden [⟨ua, [("e>o".toList, .none)]⟩] =
      ⟨none, false, [⟨.inherit, [.termOut], [.termErr], []⟩]⟩ ∧
    specRoute ts0 dflt .hidden [⟨ua, [("e>o".toList, .none)]⟩] = .ok [⟨.inherit, [.termOut], [.termOut], []⟩] ∧
    agrees (route T ts0 (only 1) dflt .hidden [⟨ua, [("e>o".toList, .none)]⟩])
      (specRoute ts0 dflt .hidden [⟨ua, [("e>o".toList, .none)]⟩]) = false := by
  decide +kernel

/-- `$(cmd o>e)`: cmd's stdout lands on the shell's stdout, not on its stderr (`last._stdout = last.stderr` = None) -/
theorem C07_cex_captured_o2e :
    route T ts0 Quirks.current dflt .stdout [⟨xp, [("o>e".toList, .none)]⟩] =
      ⟨none, false, [⟨.inherit, [.termOut], [.termErr], []⟩]⟩ ∧
    specRoute ts0 dflt .stdout [⟨xp, [("o>e".toList, .none)]⟩] = .ok [⟨.inherit, [.termErr], [.termErr], []⟩] ∧
    agrees (route T ts0 (only 2) dflt .stdout [⟨xp, [("o>e".toList, .none)]⟩])
      (specRoute ts0 dflt .stdout [⟨xp, [("o>e".toList, .none)]⟩]) = false := by
  decide +kernel

/-- `$[alias e>o]` raises AttributeError after the alias ran; `![unthreaded_alias o>e]` raises it before anything runs -/
theorem C07_cex_int_handle :
    route T ts0 Quirks.current dflt .uncaptured [⟨ta, [("e>o".toList, .none)]⟩] =
      ⟨none, true, [⟨.inherit, [.termOut], [.termOut], []⟩]⟩ ∧
    specRoute ts0 dflt .uncaptured [⟨ta, [("e>o".toList, .none)]⟩] = .ok [⟨.inherit, [.termOut], [.termOut], []⟩] ∧
    agrees (route T ts0 (only 3) dflt .uncaptured [⟨ta, [("e>o".toList, .none)]⟩])
      (specRoute ts0 dflt .uncaptured [⟨ta, [("e>o".toList, .none)]⟩]) = false ∧
    route T ts0 Quirks.current dflt .hidden [⟨ua, [("o>e".toList, .none)]⟩] = ⟨some .intNotReadable, false, []⟩ ∧
    specRoute ts0 dflt .hidden [⟨ua, [("o>e".toList, .none)]⟩] = .ok [⟨.inherit, [.termErr], [.termErr], []⟩] := by
  decide +kernel

/-- `!(unthreaded_alias)`: the alias's stderr is nowhere (iterraw's non-threadable path never reads captured_stderr);
the same for an external command with $THREAD_SUBPROCS off -/
theorem C07_cex_object_stderr_lost :
    route T ts0 Quirks.current dflt .object [⟨ua, []⟩] = ⟨none, false, [⟨.inherit, [.capOut], [], []⟩]⟩ ∧
    specRoute ts0 dflt .object [⟨ua, []⟩] = .ok [⟨.inherit, [.capOut], [.capErr], []⟩] ∧
    agrees (route T ts0 (only 4) dflt .object [⟨ua, []⟩]) (specRoute ts0 dflt .object [⟨ua, []⟩]) = false ∧
    route T ts0 Quirks.current ⟨false, false, false⟩ .object [⟨xp, []⟩] = ⟨none, false, [⟨.inherit, [.capOut], [], []⟩]⟩ := by
  decide +kernel

/-- `![cmd o>e e> f]`: cmd's stdout goes to the shell's stderr, not into f (the flag 2 is passed on as descriptor 2) -/
theorem C07_cex_o2e_literal_fd :
    route T ts0 Quirks.current dflt .hidden [⟨xp, [("o>e".toList, .none), ("e>".toList, .one 0)]⟩] =
      ⟨none, false, [⟨.inherit, [.termErr], [.file 0 ['w']], [(0, ['w'])]⟩]⟩ ∧
    specRoute ts0 dflt .hidden [⟨xp, [("o>e".toList, .none), ("e>".toList, .one 0)]⟩] =
      .ok [⟨.inherit, [.file 0 ['w']], [.file 0 ['w']], [(0, ['w'])]⟩] ∧
    agrees (route T ts0 (only 5) dflt .hidden [⟨xp, [("o>e".toList, .none), ("e>".toList, .one 0)]⟩])
      (specRoute ts0 dflt .hidden [⟨xp, [("o>e".toList, .none), ("e>".toList, .one 0)]⟩]) = false := by
  decide +kernel

/-- `![unthreaded_alias < f]`: the alias cannot read its stdin (a text file wrapped in TextIOWrapper) and delivers nothing -/
theorem C07_cex_unthreaded_alias_stdin :
    route T ts0 Quirks.current dflt .hidden [⟨ua, [("<".toList, .one 0)]⟩] = ⟨none, false, [⟨.broken, [], [], []⟩]⟩ ∧
    specRoute ts0 dflt .hidden [⟨ua, [("<".toList, .one 0)]⟩] = .ok [⟨.file 0, [.termOut], [.termErr], []⟩] ∧
    agrees (route T ts0 (only 6) dflt .hidden [⟨ua, [("<".toList, .one 0)]⟩])
      (specRoute ts0 dflt .hidden [⟨ua, [("<".toList, .one 0)]⟩]) = false := by
  decide +kernel

/-- with all seven repaired each of the seven witnesses is routed as documented (instances of `C07_route`) -/
example :
    agrees (route T ts0 Quirks.fixed dflt .uncaptured [⟨ta, []⟩]) (specRoute ts0 dflt .uncaptured [⟨ta, []⟩]) = true ∧
    agrees (route T ts0 Quirks.fixed dflt .object [⟨ua, []⟩]) (specRoute ts0 dflt .object [⟨ua, []⟩]) = true ∧
    agrees (route T ts0 Quirks.fixed dflt .hidden [⟨xp, [("o>e".toList, .none), ("e>".toList, .one 0)]⟩])
      (specRoute ts0 dflt .hidden [⟨xp, [("o>e".toList, .none), ("e>".toList, .one 0)]⟩]) = true := by
  decide +kernel
