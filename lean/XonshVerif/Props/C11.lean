/-
C11 — Scoped environment changes are exactly undone and never leak across threads.
Theorems over the hand-written model `EnvL` (tied to xonsh.environ.Env by xv/props/c11.py).
-/
import XonshVerif.Model.EnvLayers
open EnvL

/-! ## association-list facts -/
theorem lookup_filter_ne {β : Type} (m : List (Key × β)) (k k' : Key) (h : k' ≠ k) :
    (m.filter (fun p => p.1 != k)).lookup k' = m.lookup k' := by
  induction m with
  | nil => rfl
  | cons p ps ih =>
    obtain ⟨a, c⟩ := p
    by_cases ha : a = k
    · subst ha
      have h1 : (k' == a) = false := by simpa using h
      simp [List.filter, List.lookup, h1, ih]
    · have h2 : ((a != k) = true) := by simpa using ha
      simp only [List.filter, h2, List.lookup]
      split <;> simp_all

theorem lookup_filter_self {β : Type} (m : List (Key × β)) (k : Key) :
    (m.filter (fun p => p.1 != k)).lookup k = none := by
  induction m with
  | nil => rfl
  | cons p ps ih =>
    obtain ⟨a, c⟩ := p
    by_cases ha : a = k
    · subst ha; simp [List.filter, ih]
    · have h2 : ((a != k) = true) := by simpa using ha
      have h3 : (k == a) = false := by simpa using (Ne.symm ha)
      simp [List.filter, h2, List.lookup, h3, ih]

theorem mset_self (m : Map) (k : Key) (c : Cell) : (mset m k c).lookup k = some c := by
  simp [mset, List.lookup]
theorem mset_ne (m : Map) (k k' : Key) (c : Cell) (h : k' ≠ k) : (mset m k c).lookup k' = m.lookup k' := by
  have h1 : (k' == k) = false := by simpa using h
  simp [mset, List.lookup, h1, lookup_filter_ne m k k' h]
theorem mdel_self (m : Map) (k : Key) : (mdel m k).lookup k = none := lookup_filter_self m k
theorem mdel_ne (m : Map) (k k' : Key) (h : k' ≠ k) : (mdel m k).lookup k' = m.lookup k' :=
  lookup_filter_ne m k k' h

/-! ## per-thread slots -/
theorem loc_setLoc_self (s : St) (t : Nat) (m : Map) (h : t < s.locals.length) : (s.setLoc t m).loc t = m := by
  simp [St.setLoc, St.loc, List.getD, h]
theorem loc_setLoc_ne (s : St) (t t' : Nat) (m : Map) (h : t' ≠ t) : (s.setLoc t m).loc t' = s.loc t' := by
  simp [St.setLoc, St.loc, List.getD, List.getElem?_set_ne (Ne.symm h)]
@[simp] theorem setLoc_global (s : St) (t : Nat) (m : Map) : (s.setLoc t m).global = s.global := rfl
@[simp] theorem setLoc_defaults (s : St) (t : Nat) (m : Map) : (s.setLoc t m).defaults = s.defaults := rfl
@[simp] theorem setLoc_overlays (s : St) (t : Nat) (m : Map) : (s.setLoc t m).overlays = s.overlays := rfl
@[simp] theorem setLoc_frames (s : St) (t : Nat) (m : Map) : (s.setLoc t m).frames = s.frames := rfl
theorem dLookup_of (s' : St) (t : Nat) (k : Key) (m g : Map) (hl : s'.loc t = m) (hg : s'.global = g) :
    dLookup s' t k = match m.lookup k with | some c => some c | none => g.lookup k := by
  subst hl; subst hg; rfl
theorem dLookup_congr (s s' : St) (t : Nat) (k : Key) (hl : s'.loc t = s.loc t) (hg : s'.global = s.global) :
    dLookup s' t k = dLookup s t k := by
  simp only [dLookup, hl, hg]

/-! ## what the read paths depend on -/

/-- two states in which thread `t` reads the same: same overlay stack, same `_d` lookups, same defaults -/
def SameReads (s s' : St) (t : Nat) : Prop :=
  s'.ovs t = s.ovs t ∧ (∀ k, dLookup s' t k = dLookup s t k) ∧ s'.defaults = s.defaults

theorem sameReads_refl (s : St) (t : Nat) : SameReads s s t := ⟨rfl, fun _ => rfl, rfl⟩
theorem sameReads_trans {s s' s'' : St} {t : Nat} (h1 : SameReads s s' t) (h2 : SameReads s' s'' t) :
    SameReads s s'' t :=
  ⟨h2.1.trans h1.1, fun k => (h2.2.1 k).trans (h1.2.1 k), h2.2.2.trans h1.2.2⟩

theorem detypeCells_sameReads {s s' : St} {t : Nat} (h : SameReads s s' t) (k : Key) :
    detypeCells s' t k = detypeCells s t k := by
  simp [detypeCells, h.1, h.2.1 k]

/-- EVERY read path of thread `t` — `[]`, `in`, iteration, and what `detype()` computes for a key —
is determined by those three ingredients -/
theorem views_sameReads {s s' : St} {t : Nat} (h : SameReads s s' t) (k : Key) :
    vGet s' t k = vGet s t k ∧ vContains s' t k = vContains s t k ∧ vIter s' t k = vIter s t k ∧
    detypeCells s' t k = detypeCells s t k := by
  refine ⟨?_, ?_, ?_, detypeCells_sameReads h k⟩
  · simp [vGet, h.1, h.2.1 k, h.2.2]
  · simp [vContains, h.1, h.2.1 k, h.2.2]
  · simp [vIter, h.1, h.2.1 k, h.2.2]

/-- `[]` and `in` always agree -/
theorem C11_get_contains_agree (s : St) (t : Nat) (k : Key) : vContains s t k = (vGet s t k).isSome := by
  unfold vContains vGet
  cases ovLookup (s.ovs t) k with
  | some c => cases c <;> simp
  | none =>
    simp only []
    cases dLookup s t k with
    | some c => cases c <;> simp
    | none => simp

/-- what a fresh `detype()` hands to children: exactly the keys whose top-most explicit layer holds a value -/
theorem mem_detypeFresh (s : St) (t : Nat) (k : Key) (v : Val) (h : (k, v) ∈ detypeFresh s t) :
    detypeCells s t k = some (.val v) := by
  simp only [detypeFresh, List.mem_filterMap] at h
  obtain ⟨k', _, hk'⟩ := h
  split at hk'
  · rename_i v' hc; cases hk'; exact hc
  · cases hk'

/-- MASK: when the top-most explicit layer of `k` holds DELETE_VAR the key is absent from every read
path at once: `[]` raises, `in` is false, iteration skips it, children do not receive it -/
theorem C11_mask_all_paths (s : St) (t : Nat) (k : Key) (h : detypeCells s t k = some .mask) :
    vGet s t k = none ∧ vContains s t k = false ∧ vIter s t k = false ∧ ∀ v, (k, v) ∉ detypeFresh s t := by
  have hg : vGet s t k = none := by
    unfold detypeCells at h
    unfold vGet
    cases ho : ovLookup (s.ovs t) k with
    | some c => rw [ho] at h; cases h; rfl
    | none =>
      rw [ho] at h; simp only [] at h ⊢; rw [h]
  refine ⟨hg, by rw [C11_get_contains_agree, hg]; rfl, ?_, ?_⟩
  · unfold detypeCells at h
    unfold vIter
    cases ho : ovLookup (s.ovs t) k with
    | some c =>
      rw [ho] at h; cases h
      -- some overlay layer holds the mask
      have : (s.ovs t).any (fun o => o.lookup k == some .mask) = true := by
        generalize s.ovs t = os at ho
        induction os with
        | nil => cases ho
        | cons o rest ih =>
          simp only [ovLookup] at ho
          cases hl : o.lookup k with
          | some c => rw [hl] at ho; cases ho; simp [hl]
          | none => rw [hl] at ho; simp [ih ho]
      simp [this]
    | none => rw [ho] at h; simp only [] at h; simp [h]
  · intro v hm
    have := mem_detypeFresh s t k v hm
    rw [h] at this; cases this

/-! ## thread slots -/

structure Valid (s : St) (t : Nat) : Prop where
  l : t < s.locals.length
  o : t < s.overlays.length
  f : t < s.frames.length

theorem setLocal_reads (s : St) (t : Nat) (k : Key) (c : Cell) (hv : Valid s t) :
    (setLocal s t k c).global = s.global ∧ (setLocal s t k c).loc t = mset (s.loc t) k c ∧
    (setLocal s t k c).ovs t = s.ovs t ∧ (setLocal s t k c).defaults = s.defaults ∧
    (setLocal s t k c).frames = s.frames ∧ (setLocal s t k c).overlays = s.overlays ∧ Valid (setLocal s t k c) t := by
  refine ⟨rfl, ?_, rfl, rfl, rfl, rfl, ⟨by simp [setLocal, St.setLoc]; exact hv.l, hv.o, hv.f⟩⟩
  exact loc_setLoc_self s t _ hv.l

theorem setLocal_other (s : St) (t t' : Nat) (k : Key) (c : Cell) (h : t' ≠ t) :
    SameReads s (setLocal s t k c) t' := by
  refine ⟨rfl, ?_, rfl⟩
  intro k'
  exact dLookup_congr s _ t' k' (loc_setLoc_ne s t t' _ h) rfl

theorem delLocal_other (s : St) (t t' : Nat) (k : Key) (h : t' ≠ t) :
    SameReads s (delLocal s t k).1 t' := by
  unfold delLocal
  split
  · refine ⟨rfl, ?_, rfl⟩
    intro k'
    exact dLookup_congr s _ t' k' (loc_setLoc_ne s t t' _ h) rfl
  · split <;> exact sameReads_refl s t'

theorem delLocal_reads (s : St) (t : Nat) (k : Key) (hv : Valid s t) :
    (delLocal s t k).1.global = s.global ∧ (delLocal s t k).1.ovs t = s.ovs t ∧
    (delLocal s t k).1.defaults = s.defaults ∧ Valid (delLocal s t k).1 t ∧
    (delLocal s t k).1.frames = s.frames ∧ (delLocal s t k).1.overlays = s.overlays ∧
    (∀ k', dLookup (delLocal s t k).1 t k' = if k' = k then s.global.lookup k else dLookup s t k') := by
  unfold delLocal
  by_cases h : (dLookup s t k).isSome = true
  · simp only [h, if_true]
    refine ⟨rfl, rfl, rfl, ⟨by simp [St.setLoc]; exact hv.l, hv.o, hv.f⟩, rfl, rfl, ?_⟩
    intro k'
    refine (dLookup_of _ t k' (mdel (s.loc t) k) s.global (loc_setLoc_self s t _ hv.l) rfl).trans ?_
    by_cases e : k' = k
    · subst e; simp only [mdel_self, if_true]
    · simp only [mdel_ne _ _ _ e, e, if_false]; rfl
  · have hn : dLookup s t k = none := by
      cases hd : dLookup s t k with
      | none => rfl
      | some c => simp [hd] at h
    have hg : s.global.lookup k = none := by
      unfold dLookup at hn
      cases hl : (s.loc t).lookup k with
      | some c => simp [hl] at hn
      | none => simpa [hl] using hn
    simp only [h]
    have key : ∀ k', dLookup s t k' = if k' = k then s.global.lookup k else dLookup s t k' := by
      intro k'; by_cases e : k' = k
      · subst e; simp [hn, hg]
      · simp [e]
    by_cases hr : s.registered.contains k = true
    · simp only [hr, if_true]; exact ⟨rfl, rfl, rfl, hv, rfl, rfl, key⟩
    · simp only [hr]; exact ⟨rfl, rfl, rfl, hv, rfl, rfl, key⟩

/-! ## isolation: a thread's scoped operations never change what another thread reads -/

theorem enterLoop_other (s : St) (t t' : Nat) (kvs : List (Key × Cell)) (old : Saved) (h : t' ≠ t) :
    SameReads s (enterLoop s t kvs old).1 t' := by
  induction kvs generalizing s old with
  | nil => exact sameReads_refl s t'
  | cons p rest ih =>
    obtain ⟨k, c⟩ := p
    simp only [enterLoop]
    exact sameReads_trans (setLocal_other s t t' k c h) (ih _ _)

theorem restoreLoop_other (s : St) (t t' : Nat) (old : Saved) (h : t' ≠ t) :
    SameReads s (restoreLoop s t old).1 t' := by
  induction old generalizing s with
  | nil => exact sameReads_refl s t'
  | cons p rest ih =>
    obtain ⟨k, sv⟩ := p
    cases sv with
    | none => simp only [restoreLoop]; exact sameReads_trans (delLocal_other s t t' k h) (ih _)
    | some c => simp only [restoreLoop]; exact sameReads_trans (setLocal_other s t t' k c h) (ih _)

theorem ovs_set_ne (s : St) (t t' : Nat) (x : List Map) (h : t' ≠ t) :
    ({ s with overlays := s.overlays.set t x } : St).ovs t' = s.ovs t' := by
  simp [St.ovs, List.getD, List.getElem?_set_ne (Ne.symm h)]

theorem C11_isolated_enter (s : St) (t t' : Nat) (kvs : List (Key × Cell)) (o : Option Map) (h : t' ≠ t) :
    SameReads s (swapEnter s t kvs o) t' := by
  have h1 := enterLoop_other s t t' kvs [] h
  unfold swapEnter
  rcases he : enterLoop s t kvs [] with ⟨s1, old⟩
  rw [he] at h1
  simp only []
  cases o with
  | none => exact ⟨h1.1, h1.2.1, h1.2.2⟩
  | some ov =>
    refine ⟨?_, h1.2.1, h1.2.2⟩
    exact (ovs_set_ne s1 t t' _ h).trans h1.1

theorem C11_isolated_exit (s : St) (t t' : Nat) (h : t' ≠ t) : SameReads s (swapExit s t).1 t' := by
  unfold swapExit
  cases hf : s.frs t with
  | nil => exact sameReads_refl s t'
  | cons f outer =>
    simp only []
    by_cases hp : f.pushed = true
    · simp only [hp, if_true]
      refine sameReads_trans ?_ (restoreLoop_other _ t t' f.old h)
      refine ⟨?_, fun _ => rfl, rfl⟩
      exact ovs_set_ne { s with frames := s.frames.set t outer } t t' _ h
    · simp only [hp]
      exact sameReads_trans ⟨rfl, fun _ => rfl, rfl⟩ (restoreLoop_other _ t t' f.old h)

/-- ISOLATION (any schedule): whatever thread `t` does with scopes — enter, exit, nested, masks,
overlays — every read path of every other thread `t'` (`[]`, `in`, iteration, and what a fresh
`detype()` computes) is unchanged at every intermediate point. -/
theorem C11_isolated (s : St) (t t' : Nat) (op : Op) (h : t' ≠ t)
    (hop : (∃ kvs o, op = .enter kvs o) ∨ op = .exit) : SameReads s (step s t op).1 t' := by
  rcases hop with ⟨kvs, o, rfl⟩ | rfl
  · exact C11_isolated_enter s t t' kvs o h
  · have := C11_isolated_exit s t t' h
    simp only [step]
    split <;> simp_all

/-! ## leaving a scope restores every read path -/

theorem savedSet_lookup (old : Saved) (k : Key) (c : Option Cell) (k' : Key) :
    (savedSet old k c).lookup k' = if k' = k then some c else old.lookup k' := by
  by_cases e : k' = k
  · subst e; simp [savedSet, List.lookup]
  · have h1 : (k' == k) = false := by simpa using e
    simp [savedSet, List.lookup, h1, lookup_filter_ne old k k' e, e]

/-- what `restoreLoop` does to thread `t`'s `_d` lookups: a key saved with a cell gets that cell back,
a key saved as "was not set" loses its thread-local override, every other key is left alone -/
theorem restoreLoop_lookup (s : St) (t : Nat) (old : Saved) (hv : Valid s t) (hn : (old.map (·.1)).Nodup) :
    (restoreLoop s t old).1.global = s.global ∧ (restoreLoop s t old).1.ovs t = s.ovs t ∧
    (restoreLoop s t old).1.defaults = s.defaults ∧
    ∀ k, dLookup (restoreLoop s t old).1 t k =
      match old.lookup k with
      | some (some c) => some c
      | some none => s.global.lookup k
      | none => dLookup s t k := by
  induction old generalizing s with
  | nil => exact ⟨rfl, rfl, rfl, fun k => rfl⟩
  | cons p rest ih =>
    obtain ⟨k0, sv⟩ := p
    simp only [List.map_cons, List.nodup_cons] at hn
    have hrest : rest.lookup k0 = none := by
      cases h : rest.lookup k0 with
      | none => rfl
      | some x =>
        exfalso; apply hn.1
        clear ih hn
        induction rest with
        | nil => cases h
        | cons q qs ihq =>
          obtain ⟨a, b⟩ := q
          simp only [List.lookup] at h
          by_cases e : k0 = a
          · subst e; simp
          · have : (k0 == a) = false := by simpa using e
            rw [this] at h; simp only [List.map_cons, List.mem_cons]; exact Or.inr (ihq h)
    cases sv with
    | none =>
      simp only [restoreLoop]
      obtain ⟨hg, ho, hd, hv', _, _, hl⟩ := delLocal_reads s t k0 hv
      obtain ⟨ig, io, id, il⟩ := ih (delLocal s t k0).1 hv' hn.2
      refine ⟨ig.trans hg, io.trans ho, id.trans hd, ?_⟩
      intro k
      rw [il k, hg]
      by_cases e : k = k0
      · subst e; simp only [hrest, List.lookup, BEq.rfl]; rw [hl k]; simp
      · have : (k == k0) = false := by simpa using e
        simp only [List.lookup, this]
        cases rest.lookup k with
        | some x => cases x <;> rfl
        | none => simp only []; rw [hl k]; simp [e]
    | some c =>
      simp only [restoreLoop]
      obtain ⟨hg, hloc, ho, hd, _, _, hv'⟩ := setLocal_reads s t k0 c hv
      obtain ⟨ig, io, id, il⟩ := ih (setLocal s t k0 c) hv' hn.2
      refine ⟨ig.trans hg, io.trans ho, id.trans hd, ?_⟩
      intro k
      rw [il k, hg]
      have hdl : ∀ k', dLookup (setLocal s t k0 c) t k' = if k' = k0 then some c else dLookup s t k' := by
        intro k'
        rw [dLookup_of _ t k' _ _ hloc hg]
        by_cases e : k' = k0
        · subst e; simp [mset_self]
        · simp only [mset_ne _ _ _ _ e, e, if_false]; rfl
      by_cases e : k = k0
      · subst e; simp only [hrest, List.lookup, BEq.rfl]; rw [hdl k]; simp
      · have : (k == k0) = false := by simpa using e
        simp only [List.lookup, this]
        cases rest.lookup k with
        | some x => cases x <;> rfl
        | none => simp only []; rw [hdl k]; simp [e]

theorem frs_set_self (s : St) (t : Nat) (x : List Frame) (h : t < s.frames.length) :
    ({ s with frames := s.frames.set t x } : St).frs t = x := by
  simp [St.frs, List.getD, h]
theorem ovs_set_self (s : St) (t : Nat) (x : List Map) (h : t < s.overlays.length) :
    ({ s with overlays := s.overlays.set t x } : St).ovs t = x := by
  simp [St.ovs, List.getD, h]

/-- LEAVING A SCOPE, whatever the body did (nested scopes, assignments, deletions, in any thread):
the overlay pushed by the scope is gone; every swapped key that was explicitly set when the scope was
entered reads exactly the captured cell again (value or mask); every swapped key that was not set has no
thread-local override left; every OTHER variable keeps what the body assigned (assignments persist). -/
theorem C11_exit_restores (s : St) (t : Nat) (f : Frame) (outer : List Frame) (hv : Valid s t)
    (hf : s.frs t = f :: outer) (hn : (f.old.map (·.1)).Nodup) :
    (swapExit s t).1.ovs t = (if f.pushed then (s.ovs t).tail else s.ovs t) ∧
    (swapExit s t).1.defaults = s.defaults ∧ (swapExit s t).1.global = s.global ∧
    ∀ k, dLookup (swapExit s t).1 t k =
      match f.old.lookup k with
      | some (some c) => some c
      | some none => s.global.lookup k
      | none => dLookup s t k := by
  unfold swapExit
  simp only [hf]
  by_cases hp : f.pushed = true
  · simp only [hp, if_true]
    have hv2 : Valid ({ ({ s with frames := s.frames.set t outer } : St) with
        overlays := s.overlays.set t (s.ovs t).tail } : St) t :=
      ⟨hv.l, by simp; exact hv.o, by simp; exact hv.f⟩
    obtain ⟨hg, ho, hd, hl⟩ := restoreLoop_lookup _ t f.old hv2 hn
    have h2 : ({ ({ s with frames := s.frames.set t outer } : St) with
        overlays := s.overlays.set t (s.ovs t).tail } : St).ovs t = (s.ovs t).tail :=
      ovs_set_self { s with frames := s.frames.set t outer } t _ hv.o
    exact ⟨ho.trans h2, hd, hg, fun k => hl k⟩
  · simp only [hp]
    have hv2 : Valid ({ s with frames := s.frames.set t outer } : St) t := ⟨hv.l, hv.o, by simp; exact hv.f⟩
    obtain ⟨hg, ho, hd, hl⟩ := restoreLoop_lookup _ t f.old hv2 hn
    exact ⟨ho, hd, hg, fun k => hl k⟩

/-- entering: what the scope remembers -/
theorem enterLoop_spec (s : St) (t : Nat) (kvs : List (Key × Cell)) (old : Saved) (hv : Valid s t)
    (hn : (kvs.map (·.1)).Nodup) (hdis : ∀ k ∈ kvs.map (·.1), old.lookup k = none) :
    let r := enterLoop s t kvs old
    r.1.global = s.global ∧ r.1.ovs t = s.ovs t ∧ r.1.defaults = s.defaults ∧ r.1.frames = s.frames ∧
    r.1.overlays = s.overlays ∧ Valid r.1 t ∧
    (∀ k, r.2.lookup k = if k ∈ kvs.map (·.1) then some (capture s t k) else old.lookup k) ∧
    (∀ k, k ∉ kvs.map (·.1) → dLookup r.1 t k = dLookup s t k) := by
  induction kvs generalizing s old with
  | nil => exact ⟨rfl, rfl, rfl, rfl, rfl, hv, fun k => by simp [enterLoop], fun k _ => rfl⟩
  | cons p rest ih =>
    obtain ⟨k0, c0⟩ := p
    simp only [List.map_cons, List.nodup_cons] at hn
    simp only [enterLoop]
    obtain ⟨hg, hloc, ho, hd, hfr, hov, hv'⟩ := setLocal_reads s t k0 c0 hv
    have hdis' : ∀ k ∈ rest.map (·.1), (savedSet old k0 (capture s t k0)).lookup k = none := by
      intro k hk
      rw [savedSet_lookup]
      have : k ≠ k0 := by intro e; subst e; exact hn.1 hk
      simp [this, hdis k (by simp [hk])]
    obtain ⟨ig, io, id, ifr, iov, iv, il, ik⟩ := ih (setLocal s t k0 c0) _ hv' hn.2 hdis'
    refine ⟨ig.trans hg, io.trans ho, id.trans hd, ifr.trans hfr, iov.trans hov, iv, ?_, ?_⟩
    · intro k
      rw [il k]
      by_cases hk : k ∈ rest.map (·.1)
      · have hne : k ≠ k0 := by intro e; subst e; exact hn.1 hk
        simp only [hk, if_true, List.map_cons, List.mem_cons, or_true]
        -- capturing k is not affected by the earlier override of a different key
        congr 1
        unfold capture
        have : (setLocal s t k0 c0).loc t = mset (s.loc t) k0 c0 := hloc
        rw [this, mset_ne _ _ _ _ hne, hg]
      · simp only [hk, if_false, List.map_cons, List.mem_cons]
        rw [savedSet_lookup]
        by_cases e : k = k0
        · subst e; simp
        · simp [e, hk]
    · intro k hk
      simp only [List.map_cons, List.mem_cons, not_or] at hk
      rw [ik k hk.2]
      rw [dLookup_of _ t k _ _ hloc hg, mset_ne _ _ _ _ hk.1]; rfl

/-- `_capture_for_swap` (as repaired): exactly the explicitly-set state of the key in this thread -/
theorem capture_eq_dLookup (s : St) (t : Nat) (k : Key) : capture s t k = dLookup s t k := rfl

theorem enterLoop_nodup (t : Nat) (kvs : List (Key × Cell)) (s : St) (old : Saved) (h : (old.map (·.1)).Nodup) :
    ((enterLoop s t kvs old).2.map (·.1)).Nodup := by
  induction kvs generalizing s old with
  | nil => exact h
  | cons p rest ih =>
    obtain ⟨k0, c0⟩ := p
    simp only [enterLoop]
    apply ih
    simp only [savedSet, List.map_cons, List.nodup_cons]
    refine ⟨?_, (h.sublist ((List.filter_sublist).map _))⟩
    intro hm
    obtain ⟨q, hq, hq2⟩ := List.mem_map.mp hm
    simp only [List.mem_filter] at hq
    have := hq.2; simp at this; exact this hq2

/-- restoring from ANY state `s3` whose innermost frame remembers the `_d` state of `s` for the keys `K` -/
theorem restore_from (s s3 : St) (t : Nat) (old : Saved) (pushed : Bool) (outer : List Frame) (ov : Map)
    (K : List Key) (hv : Valid s3 t) (hf : s3.frs t = ⟨old, pushed⟩ :: outer) (hn : (old.map (·.1)).Nodup)
    (ho : s3.ovs t = if pushed then ov :: s.ovs t else s.ovs t)
    (hd : s3.defaults = s.defaults) (hg : s3.global = s.global)
    (hold : ∀ k, old.lookup k = if k ∈ K then some (dLookup s t k) else none)
    (hother : ∀ k, k ∉ K → dLookup s3 t k = dLookup s t k) :
    SameReads s (swapExit s3 t).1 t := by
  obtain ⟨xo, xd, xg, xl⟩ := C11_exit_restores s3 t ⟨old, pushed⟩ outer hv hf hn
  refine ⟨?_, ?_, xd.trans hd⟩
  · rw [xo, ho]; cases pushed <;> simp
  · intro k
    rw [xl k]
    simp only []
    rw [hold k]
    by_cases hk : k ∈ K
    · simp only [hk, if_true]
      cases hdk : dLookup s t k with
      | some c => rfl
      | none =>
        simp only []
        have : s.global.lookup k = none := by
          unfold dLookup at hdk
          cases hl : (s.loc t).lookup k with
          | some c => simp [hl] at hdk
          | none => simpa [hl] using hdk
        rw [hg]; exact this
    · simp only [hk, if_false]
      exact hother k hk

/-- C11 RESTORE (single scope, any keys, masks included, with or without an overlay, exit by return
or by exception — the same `finally` path): every read path of the thread is exactly as before. -/
theorem C11_restore (s : St) (t : Nat) (kvs : List (Key × Cell)) (o : Option Map) (hv : Valid s t)
    (hn : (kvs.map (·.1)).Nodup) : SameReads s (swapExit (swapEnter s t kvs o) t).1 t := by
  obtain ⟨eg, eo, ed, efr, eov, ev, el, ek⟩ := enterLoop_spec s t kvs [] hv hn (fun k _ => rfl)
  have hnd := enterLoop_nodup t kvs s [] (by simp)
  rcases he : enterLoop s t kvs [] with ⟨s1, old⟩
  rw [he] at eg eo ed efr eov ev el ek hnd
  simp only [] at eg eo ed efr eov ev el ek hnd
  have hold : ∀ k, old.lookup k = if k ∈ kvs.map (·.1) then some (dLookup s t k) else none := by
    intro k; rw [el k]; simp [capture_eq_dLookup, List.lookup]
  cases o with
  | none =>
    have e3 : swapEnter s t kvs none = { s1 with frames := s1.frames.set t (⟨old, false⟩ :: s1.frs t) } := by
      unfold swapEnter; rw [he]; rfl
    rw [e3]
    apply restore_from s _ t old false (s1.frs t) [] (kvs.map (·.1))
    · exact ⟨ev.l, ev.o, by simp; exact ev.f⟩
    · exact frs_set_self s1 t _ ev.f
    · exact hnd
    · simp only [Bool.false_eq_true, if_false]; exact eo
    · exact ed
    · exact eg
    · exact hold
    · intro k hk; exact ek k hk
  | some ov =>
    have e3 : swapEnter s t kvs (some ov) =
        { ({ s1 with overlays := s1.overlays.set t (ov :: s1.ovs t) } : St) with
          frames := s1.frames.set t (⟨old, true⟩ :: s1.frs t) } := by
      unfold swapEnter; rw [he]; rfl
    rw [e3]
    apply restore_from s _ t old true (s1.frs t) ov (kvs.map (·.1))
    · exact ⟨ev.l, by simp; exact ev.o, by simp; exact ev.f⟩
    · simp [St.frs, List.getD, ev.f]
    · exact hnd
    · simp only [if_true]
      rw [← eo]
      exact ovs_set_self s1 t _ ev.o
    · exact ed
    · exact eg
    · exact hold
    · intro k hk; exact ek k hk

/-! ## the mapping children receive -/

theorem detype_no_cache (s : St) (t : Nat) (h : s.detyped = none) : (detype s t).2 = detypeFresh s t := by
  unfold detype
  rw [h]
  cases (s.ovs t).isEmpty <;> rfl

theorem detype_in_overlay (s : St) (t : Nat) (h : (s.ovs t).isEmpty = false) :
    (detype s t).2 = detypeFresh s t := by
  unfold detype
  rw [h]
  cases s.detyped <;> rfl

theorem enterLoop_detyped (s : St) (t : Nat) (kvs : List (Key × Cell)) (old : Saved) (hne : kvs ≠ []) :
    (enterLoop s t kvs old).1.detyped = none := by
  induction kvs generalizing s old with
  | nil => exact absurd rfl hne
  | cons p rest ih =>
    obtain ⟨k, c⟩ := p
    simp only [enterLoop]
    cases rest with
    | nil => rfl
    | cons q qs => exact ih _ _ (by simp)

/-- PARTIAL (what does hold of "the mapping children receive reflects the values at launch"): a launch
made by the thread itself right after it entered a scope that swaps at least one variable, or while it
has an overlay, computes the mapping afresh from its own current values. -/
theorem C11_launch_in_scope_partial (s : St) (t : Nat) (kvs : List (Key × Cell)) (o : Option Map)
    (hne : kvs ≠ []) : (detype (swapEnter s t kvs o) t).2 = detypeFresh (swapEnter s t kvs o) t := by
  apply detype_no_cache
  have h := enterLoop_detyped s t kvs [] hne
  unfold swapEnter
  rcases he : enterLoop s t kvs [] with ⟨s1, old⟩
  rw [he] at h
  cases o <;> exact h

/-- KNOWN FINDING `detype-cache-shared-across-threads` (open): thread 0 swaps `$3 = 9` and launches;
thread 1 then receives thread 0's mapping although it reads `$3 = 53`. -/
theorem C11_cex_cache_shared :
    let s0 := init 2 [(3, .val 53)] [] []
    let s2 := run s0 [(0, .enter [(3, .val 9)] none), (0, .detype)]
    (detype s2 1).2 = [(3, 9)] ∧ detypeFresh s2 1 = [(3, 53)] ∧ vGet s2 1 3 = some 53 := by
  decide

/-- the capture rule of the pinned snapshot (repaired in /repo faca9c2) recorded the registered
DEFAULT of an unset variable, which the restore step then wrote into the thread-local layer -/
theorem C11_old_capture_cex :
    let s0 := init 1 [] [(0, 100)] [0]
    captureOld s0 0 0 = some (.val 100) ∧ capture s0 0 0 = none := by
  decide

/-! ## non-vacuity -/

example : Valid (init 2 [(3, .val 53)] [(0, 100)] [0]) 1 := ⟨by decide, by decide, by decide⟩
example : detypeCells (swapEnter (init 1 [(3, .val 53)] [] []) 0 [(3, .mask)] none) 0 3 = some .mask := by decide
example : vGet (swapExit (swapEnter (init 1 [(3, .val 53)] [] []) 0 [(3, .mask)] (some [(4, .val 1)])) 0).1 0 3 = some 53 := by
  decide
