/-
C18 — Tab-completing a path always inserts text that means that path.

Model: XonshVerif/Model/PathQuote.lean (completer + reader), tied to xonsh/completers/path.py,
xonsh/lib/completion_quoting.py and the tokenizer / lexer / parser / expand_path by xv/props/c18.py
(real files, real completer, the completed line EXECUTED).  The character class and keywords of
`_PATTERN`, `_CONTROL_CHAR_ESCAPE`, `name_needs_quotes`, `_quote_to_use` and `_raw_quote` are
TRANSLATED from /repo on every run (Gen/Quote.lean); the theorems below are re-checked against them.

Clause 1 (round trip): `C18_roundtrip_partial` / `C18_roundtrip_gen` under the exact decidable guard
`classify … = []`; the unrestricted statement is FALSE on the unchanged code: one `C18_cex_…` per class.
Clause 2 (the completion-context analyser never fails; prefix / suffix reproduce the text around the
cursor) is NOT proved — the PLY parser is not modelled; the predicate `reconstructs` is stated here
(with what it buys: `C18_reconstructs_splits`, `C18_splice_keeps_context`) and evaluated by the driver
on the real analyser's output.
-/
import XonshVerif.Lemmas.PathQuote
import XonshVerif.Gen.Quote
open PathQuote

/-! ## the translated tables satisfy what the proofs need -/

theorem C18_gen_quoteToUse (x : Str) : Gen.Quote.quoteToUse x = quoteToUseRef x := by
  simp [Gen.Quote.quoteToUse, quoteToUseRef, isInfix_singleton, sq, dq]

theorem C18_gen_rawQuote (s : Str) : Gen.Quote.rawQuote s = rawQuoteRef s := by
  simp [Gen.Quote.rawQuote, rawQuoteRef, bs, sq]

/-- `_PATTERN.search(name)` in the model's terms -/
def patternSearch (T : Tables) (s : Str) : Bool := s.any T.special || T.keywords.any (fun k => hasWord T k none s)

theorem C18_gen_needsQuotes (T : Tables) (s : Str) :
    Gen.Quote.nameNeedsQuotes (patternSearch T) s ['/'] = needsQuotes T s := by
  have h : ((['/'] : Str) != [Char.ofNat 92]) = true := by decide
  have hb : Char.ofNat 92 = bs := by decide
  simp only [Gen.Quote.nameNeedsQuotes, needsQuotes, patternSearch, isInfix_singleton, h, Bool.and_true,
    Bool.false_eq_true, if_false, hb]
  cases (s.any T.special || T.keywords.any fun k => hasWord T k none s) <;> simp
  intro _; decide

theorem C18_tables_ok : TablesOk Gen.Quote.tables where
  unsafeSpecial := by decide +kernel
  kwQuoted := by decide +kernel
  ctrlKeysSub := by decide +kernel
  ctrlKeysSup := by decide +kernel
  ctrlVals := by decide +kernel
  slashPlain := by decide +kernel
  quoteToUse := C18_gen_quoteToUse
  rawQuote := C18_gen_rawQuote


/-- the opening quotes the theorem covers -/
def openings : List Str := [[], [sq], [dq], ['r', sq], ['r', dq], [sq, sq, sq], [dq, dq, dq]]

theorem isDirEff_tilde (T : Tables) (E : Env) (dfs : Bool) : isDirEff T E ['~'] ['~'] dfs = dfs := by
  simp [isDirEff, startsWith, List.isPrefixOf]

/-- the extra entry of the `~` special case reads back as the literal `~` -/
theorem tilde_entry {T : Tables} (ok : TablesOk T) (E : Env) (dfs : Bool) :
    readBack T E (T.rawQuote (if dfs then ['~', '/'] else ['~'])) = .args [['~'] ++ dirTail dfs] := by
  rw [ok.rawQuote]
  cases dfs with
  | false =>
    have : rawQuoteRef ['~'] = 'r' :: sq :: (['~'] ++ sq :: []) := by decide
    simp only [Bool.false_eq_true, if_false, this]
    exact readBack_raw1 (Or.inl rfl) E ['~'] [] rfl (by decide) (by decide) (by decide)
  | true =>
    have : rawQuoteRef ['~', '/'] = 'r' :: sq :: (['~', '/'] ++ sq :: []) := by decide
    simp only [if_true, this]
    exact readBack_raw1 (Or.inl rfl) E ['~', '/'] [] rfl (by decide) (by decide) (by decide)

/-- the regular candidate, per opening -/
theorem regular_ok {T : Tables} (ok : TablesOk T) (E : Env) (wq se : Bool) (name o : Str) (te : Bool) (m : Mode) (dfs : Bool)
    (hname : name ≠ []) (ho : o ∈ openings)
    (hA : normName name = name) (hB : name.any (fun c => unescapedBreaks.contains c) = false)
    (hg : styleClasses T E se name (seenStyle wq o te m).1 (seenStyle wq o te m).2.1 dfs = [])
    (hT3 : (!wq && m == .closedInside && !loneQuote o te m && (stripStringPrefix o).length == 3) = false)
    (hL : (m == .closedInside && loneQuote o te m) = false) :
    readBack T E (regular T E name (seenStyle wq o te m).1 (seenStyle wq o te m).2.1 dfs (seenStyle wq o te m).2.2 ++ lineTail o m) =
      .args [name ++ dirTail (isDirEff T E name name dfs)] := by
  by_cases hlone : loneQuote o te m = true
  · -- the opening quote is not recognised: as if nothing had been opened
    have hm : (m == Mode.closedInside) = false := by simpa [hlone] using hL
    have hs : seenStyle wq o te m = ([], [], true) := by
      unfold seenStyle; split <;> simp_all
    have hlt : lineTail o m = [] := by simp [lineTail, hm]
    rw [hs] at hg ⊢
    rw [hlt, List.append_nil]
    exact core_bare ok E se name hname dfs hA hB hg
  · have hlone' : loneQuote o te m = false := by simpa using hlone
    simp only [openings, List.mem_cons, List.mem_nil_iff, or_false] at ho
    have single : ∀ (q : Char) (hq : q = sq ∨ q = dq) (st : Str), (st = [q] ∨ st = ['r', q]) → o = st →
        stripStringPrefix st = [q] →
        readBack T E (regular T E name (seenStyle wq o te m).1 (seenStyle wq o te m).2.1 dfs (seenStyle wq o te m).2.2 ++ lineTail o m) =
          .args [name ++ dirTail (isDirEff T E name name dfs)] := by
      intro q hq st hst ho hstrip
      subst ho
      have hne : o.isEmpty = false := by rcases hst with h | h <;> subst h <;> rfl
      have hs : seenStyle wq o te m = (o, [q], !(m == Mode.closedInside)) := by
        simp [seenStyle, hne, hlone', hstrip]
      have hlt : lineTail o m = (if (!(m == Mode.closedInside)) = true then [] else [q]) := by
        cases hm : m == Mode.closedInside <;> simp [lineTail, hm, hstrip]
      rw [hs] at hg ⊢
      rw [hlt]
      exact core_q1 ok E se name hq o hst dfs _ hA hB hg
    have triple : ∀ (q : Char) (hq : q = sq ∨ q = dq), o = [q, q, q] →
        readBack T E (regular T E name (seenStyle wq o te m).1 (seenStyle wq o te m).2.1 dfs (seenStyle wq o te m).2.2 ++ lineTail o m) =
          .args [name ++ dirTail (isDirEff T E name name dfs)] := by
      intro q hq ho
      subst ho
      have hstrip : stripStringPrefix [q, q, q] = [q, q, q] := by rcases hq with h | h <;> subst h <;> decide
      have hs : seenStyle wq [q, q, q] te m = ([q, q, q], [q, q, q], !(m == Mode.closedInside && wq)) := by
        simp [seenStyle, hlone', hstrip]
      -- with the one-character test the cursor is not inside (guard); with the whole-quote test the closing
      -- quote is left to the line
      have hlt : lineTail [q, q, q] m = (if (!(m == Mode.closedInside && wq)) = true then [] else [q, q, q]) := by
        cases hm : m == Mode.closedInside with
        | false => simp [lineTail, hm]
        | true =>
          cases hw : wq with
          | true => simp [lineTail, hm, hstrip]
          | false => simp [hm, hw, hlone', hstrip] at hT3
      rw [hs] at hg ⊢
      rw [hlt]
      exact core_q3_full ok E se name hq dfs _ hA hB hg
    rcases ho with h | h | h | h | h | h | h
    · subst h
      have hs : seenStyle wq [] te m = ([], [], true) := by simp [seenStyle]
      have hlt : lineTail [] m = [] := by cases hm : m == Mode.closedInside <;> simp [lineTail, hm, stripStringPrefix]
      rw [hs] at hg ⊢
      rw [hlt, List.append_nil]
      exact core_bare ok E se name hname dfs hA hB hg
    · exact single sq (Or.inl rfl) [sq] (Or.inl rfl) h (by decide)
    · exact single dq (Or.inr rfl) [dq] (Or.inl rfl) h (by decide)
    · exact single sq (Or.inl rfl) ['r', sq] (Or.inr rfl) h (by decide)
    · exact single dq (Or.inr rfl) ['r', dq] (Or.inr rfl) h (by decide)
    · exact triple sq (Or.inl rfl) h
    · exact triple dq (Or.inr rfl) h

/-- **C18 (round trip, partial).**  For EVERY non-empty name, each of the seven opening styles, every
cursor position relative to the typed quotes, files and directories alike: if the name is outside the
classes of `classify` (each of which is a reproduced defect with its own counterexample below) then EVERY
text the completer offers for it, followed by what stays in the line, is read back by xonsh as exactly one argument:
the name (with the separator the completer appends to a directory).
`wq`, `se` select the model variant that matches the implementation (probed by the harness on every run):
`wq` = the closing-quote test compares the whole quote (repaired in /repo 6047536), `se` = the escape table
also escapes the six remaining line boundaries (repaired in 00e7ff2).  For `se = true` the PROOF covers the
names without those six characters (`hscope`; the reader model has no `\xHH` / `\uHHHH` escapes): names with
them are then no class of defects in a non-raw literal — they are tied by execution only. -/
theorem C18_roundtrip_partial (T : Tables) (ok : TablesOk T) (E : Env) (wq se : Bool) (name o : Str) (te : Bool)
    (m : Mode) (dfs : Bool) (hname : name ≠ []) (ho : o ∈ openings)
    (hcls : classify T E wq se name o te m dfs = [])
    (hscope : se = true → name.any (fun c => unescapedBreaks.contains c) = false) :
    ∀ t ∈ completions T E name (seenStyle wq o te m).1 (seenStyle wq o te m).2.1 dfs (seenStyle wq o te m).2.2,
      readBack T E (t ++ lineTail o m) = .args [name ++ dirTail (isDirEff T E name name dfs)] := by
  simp only [classify, List.append_eq_nil_iff, when_nil] at hcls
  obtain ⟨⟨⟨⟨⟨hA, hB0⟩, hmid⟩, hT3⟩, hL⟩, hTi⟩ := hcls
  have hA' : normName name = name := by simpa using hA
  rw [hA'] at hB0
  have hB : name.any (fun c => unescapedBreaks.contains c) = false := by
    cases hse : se with
    | true => exact hscope hse
    | false => simpa [hse] using hB0
  intro t ht
  unfold completions at ht
  by_cases hts : tildeSpecial name (seenStyle wq o te m).1 = true
  · simp only [hts, if_true, List.mem_append, List.mem_singleton] at ht
    rcases ht with ht | ht
    · -- the regular candidate survived the special case
      by_cases hk : tildeKeeps (regular T E name (seenStyle wq o te m).1 (seenStyle wq o te m).2.1 dfs (seenStyle wq o te m).2.2) = true
      · simp only [hk, if_true, List.mem_singleton] at ht
        subst ht
        have hg : styleClasses T E se name (seenStyle wq o te m).1 (seenStyle wq o te m).2.1 dfs = [] := by
          simpa [hk] using hmid
        exact regular_ok ok E wq se name o te m dfs hname ho hA' hB hg hT3 hL
      · simp [hk] at ht
    · -- the r'~' entry
      subst ht
      have hn : name = ['~'] := by
        simp only [tildeSpecial, Bool.and_eq_true, beq_iff_eq] at hts
        exact hts.2
      have hlt : lineTail o m = [] := by
        cases hm : m == Mode.closedInside with
        | false => simp [lineTail, hm]
        | true =>
          by_cases hlone : loneQuote o te m = true
          · simp [hm, hlone] at hL
          · have hlone' : loneQuote o te m = false := by simpa using hlone
            cases hoe : o.isEmpty with
            | true =>
              have : o = [] := by cases o <;> simp_all
              subst this; simp [lineTail, stripStringPrefix]
            | false => simp [hm, hlone', hts, hoe] at hTi
      rw [hlt, List.append_nil, hn, isDirEff_tilde]
      exact tilde_entry ok E dfs
  · have hts' : tildeSpecial name (seenStyle wq o te m).1 = false := by simpa using hts
    simp only [hts', Bool.false_eq_true, if_false, List.mem_singleton] at ht
    subst ht
    have hg : styleClasses T E se name (seenStyle wq o te m).1 (seenStyle wq o te m).2.1 dfs = [] := by
      simpa [hts'] using hmid
    exact regular_ok ok E wq se name o te m dfs hname ho hA' hB hg hT3 hL

/-- the same for the tables translated from /repo's current source -/
theorem C18_roundtrip_gen (E : Env) (wq se : Bool) (name o : Str) (te : Bool) (m : Mode) (dfs : Bool) (hname : name ≠ [])
    (ho : o ∈ openings) (hcls : classify Gen.Quote.tables E wq se name o te m dfs = [])
    (hscope : se = true → name.any (fun c => unescapedBreaks.contains c) = false) :
    ∀ t ∈ completions Gen.Quote.tables E name (seenStyle wq o te m).1 (seenStyle wq o te m).2.1 dfs (seenStyle wq o te m).2.2,
      readBack Gen.Quote.tables E (t ++ lineTail o m) =
        .args [name ++ dirTail (isDirEff Gen.Quote.tables E name name dfs)] :=
  C18_roundtrip_partial Gen.Quote.tables C18_tables_ok E wq se name o te m dfs hname ho hcls hscope

/-- **needs-quotes is sound**: a name that `name_needs_quotes` lets through unquoted, outside the
bare-word classes, reads back as itself when inserted bare (followed by the completer's space). -/
theorem C18_needs_quotes_sound (T : Tables) (ok : TablesOk T) (E : Env) (name : Str) (hname : name ≠ [])
    (hn : needsQuotes T name = false)
    (hB : name.any (fun c => unescapedBreaks.contains c) = false)
    (hbang : bangSplit name = none) (hodd : name.any (oddChar T) = false) (hpy : pyStmt name = false)
    (hexp : expandPath T E name = name) :
    readBack T E (name ++ [' ']) = .args [name] := by
  have hsafe := plain_chars ok hn
  have hnb : name.any isLineBreak = false := by
    rw [List.any_eq_false]
    intro c hc hb
    rcases lineBreak_cases hb with h | h
    · have hu : bareUnsafe.contains c = true := by
        have : c ∈ escapedCtrl := List.contains_iff_mem.mp h
        simp only [escapedCtrl, List.mem_cons, List.mem_nil_iff, or_false] at this
        rcases this with e | e | e | e | e <;> subst e <;> decide
      exact List.any_eq_false.mp hsafe c hc hu
    · exact List.any_eq_false.mp hB c hc h
  have hkw : readerKeywords.contains name = false := by
    cases hk : readerKeywords.contains name with
    | false => rfl
    | true =>
      have := List.all_eq_true.mp ok.kwQuoted name (List.contains_iff_mem.mp hk)
      rw [hn] at this
      exact absurd this (by decide)
  exact readBack_bare E name [' '] (Or.inr rfl) hname hsafe hnb hbang hodd hkw hpy hexp

/-- whenever the completer leaves a name unquoted, the name has none of the characters that end or
change a bare word (so a character dropped from `_PATTERN`'s class breaks `C18_tables_ok`) -/
theorem C18_unquoted_is_plain (T : Tables) (ok : TablesOk T) (name : Str) (hn : needsQuotes T name = false) :
    ∀ c ∈ name, c ∉ bareUnsafe := by
  intro c hc hu
  exact List.any_eq_false.mp (plain_chars ok hn) c hc (List.contains_iff_mem.mpr hu)

/-! ## counterexamples: the unguarded statement is false on the unchanged code

A concrete reader environment: `$XVVAR` is set, the current user's home is `/h`, user `root` exists. -/

def s (x : String) : Str := x.toList

def E0 : Env where
  vars := fun n => if n == s "XVVAR" then some (s "VALUE") else none
  home := fun u => if u == [] then some (s "/h") else if u == s "root" then some (s "/root") else none

abbrev G := Gen.Quote.tables

/-- what the model completer offers, and how each text (plus what stays in the line) is read -/
def offerV (wq : Bool) (name o : Str) (te : Bool) (m : Mode) (dfs : Bool) : List (Str × Read) :=
  (completions G E0 name (seenStyle wq o te m).1 (seenStyle wq o te m).2.1 dfs (seenStyle wq o te m).2.2).map
    fun t => (t, readBack G E0 (t ++ lineTail o m))

/-- … by the UNCHANGED code (the one-character closing-quote test) -/
abbrev offer := offerV false

/-- a name ending in a backslash: the raw string doubles it -/
theorem C18_cex_trailing_backslash :
    offer (s "e\\") [] true .atEnd false = [(s "r'e\\\\' ", .args [s "e\\\\"])] ∧
    classify G E0 false false (s "e\\") [] true .atEnd false = [.trailingBackslash] := by decide +kernel

/-- … and a name ending in TWO backslashes gets a third: the literal no longer ends -/
theorem C18_cex_trailing_backslash_pair :
    offer (s "\\\\") [] true .atEnd false = [(s "r'\\\\\\' ", .error)] := by decide +kernel

/-- `!` is not in the needs-quotes class: the subprocess macro splits the word -/
theorem C18_cex_bang :
    offer (s "a!b") [] true .atEnd false = [(s "a!b ", .args [s "a", s "b"])] ∧
    offer (s "!x") [] true .atEnd false = [(s "!x ", .args [s "x"])] ∧
    classify G E0 false false (s "a!b") [] true .atEnd false = [.bangUnquoted] := by decide +kernel

/-- both quote kinds and `$`: a raw string in which the quote is "escaped" keeps the backslash -/
theorem C18_cex_raw_quote_conflict :
    offer (s "a'b\"$c") [] true .atEnd false = [(s "r'a\\'b\"$c' ", .args [s "a\\'b\"$c"])] ∧
    classify G E0 false false (s "a'b\"$c") [] true .atEnd false = [.rawQuoteConflict] := by decide +kernel

/-- a control character forces a NON-raw literal, in which `$VAR` is expanded -/
theorem C18_cex_dollar_expansion :
    offer (s "n\n$XVVAR") [] true .atEnd false = [(s "'n\\n$XVVAR' ", .args [s "n\nVALUE"])] ∧
    classify G E0 false false (s "n\n$XVVAR") [] true .atEnd false = [.dollarExpansion] := by decide +kernel

/-- `~user`, and `~` after `=` or `:`, are expanded in bare words and non-raw literals -/
theorem C18_cex_tilde_expansion :
    offer (s "~root") [] true .atEnd false = [(s "~root ", .args [s "/root"])] ∧
    offer (s "x=~") [] true .atEnd false = [(s "x=~ ", .args [s "x=/h"])] ∧
    offer (s "a b=~") [] true .atEnd false = [(s "'a b=~' ", .args [s "a b=/h"])] ∧
    classify G E0 false false (s "~root") [] true .atEnd false = [.tildeExpansion] := by decide +kernel

/-- `_normpath` strips trailing spaces: the completion names another file -/
theorem C18_cex_trailing_space :
    offer (s "tr ") [] true .atEnd false = [(s "tr ", .args [s "tr"])] ∧
    classify G E0 false false (s "tr ") [] true .atEnd false = [.trailingSpace] := by decide +kernel

/-- PINNED SNAPSHOT's behaviour (variant `se = false`, /repo before 00e7ff2; known finding `line-separator`, now
"fixed: 00e7ff2"): a line boundary of `str.splitlines` that `_CONTROL_CHAR_ESCAPE` does not escape stays verbatim in
the literal (the Execer then cuts the line there; the model's reader declines such text).
With the repaired table (`se = true`) the class is gone for a non-raw literal; what REMAINS is the opened RAW
quote, where the new escape is written into a raw string like the old five (finding `raw-control-char`). -/
theorem C18_cex_line_separator :
    (offer [ 'a', Char.ofNat 0x1c, 'b' ] [] true .atEnd false).map (·.1) = [[sq, 'a', Char.ofNat 0x1c, 'b', sq, ' ']] ∧
    classify G E0 false false [ 'a', Char.ofNat 0x1c, 'b' ] [] true .atEnd false = [.lineSeparator] ∧
    classify G E0 false true [ 'a', Char.ofNat 0x1c, 'b' ] [] true .atEnd false = [] ∧
    classify G E0 false true [ 'a', Char.ofNat 0x1c, 'b' ] (s "r'") true .atEnd false = [.rawControlChar] := by
  decide +kernel

/-- the user opened a RAW quote and the name has a character that `_CONTROL_CHAR_ESCAPE` escapes: `\n` (since
00e7ff2 also `\x1c` … `\u2029`, see `C18_cex_line_separator`) is written into a raw string -/
theorem C18_cex_raw_control_char :
    offer (s "n\nx") (s "r'") true .atEnd false = [(s "r'n\\nx' ", .args [s "n\\nx"])] ∧
    classify G E0 false false (s "n\nx") (s "r'") true .atEnd false = [.rawControlChar] := by decide +kernel

/-- a triple quote was opened and the name ends in that quote character: four quotes in a row -/
theorem C18_cex_triple_quote_end :
    (offer (s "x'") (s "'''") false .atEnd false).map (·.1) = [s "'''x'''' "] ∧
    (offer (s "x'") (s "'''") false .atEnd false).map (·.2) ≠ [.args [s "x'"]] ∧
    classify G E0 false false (s "x'") (s "'''") false .atEnd false = [.tripleQuoteEnd] := by decide +kernel

/-- PINNED SNAPSHOT's behaviour (variant `wq = false`, /repo before 6047536; known finding
`triple-quote-cursor-inside`, now "fixed: 6047536"): the cursor is inside a CLOSED triple quote and the closing
quote is inserted a second time; then the repaired variant `wq = true`. -/
theorem C18_cex_triple_cursor_inside :
    offer (s "ab") (s "'''") false .closedInside false = [(s "'''ab''' ", .unmodelled)] ∧
    classify G E0 false false (s "ab") (s "'''") false .closedInside false = [.tripleCursorInside] ∧
    -- the repaired variant (the whole closing quote is compared): the class is gone and the text reads back
    classify G E0 true false (s "ab") (s "'''") false .closedInside false = [] ∧
    offerV true (s "ab") (s "'''") false .closedInside false = [(s "'''ab", .args [s "ab"])] := by decide +kernel

/-- a lone opening quote is not recognised: the candidate (here one containing that quote) replaces it
and the closing quote the user had typed stays behind -/
theorem C18_cex_lone_quote_inside :
    offer (s "x'y") (s "'") true .closedInside false = [(s "\"x'y\" ", .unmodelled)] ∧
    classify G E0 false false (s "x'y") (s "'") true .closedInside false = [.loneQuoteInside] := by decide +kernel

/-- the r'~' entry of the `~` special case brings its own closing quote even when one is already there -/
theorem C18_cex_tilde_cursor_inside :
    offer (s "~") (s "'") false .closedInside false = [(s "r'~'", .unmodelled)] ∧
    classify G E0 false false (s "~") (s "'") false .closedInside false = [.tildeCursorInside] := by decide +kernel

/-- outside the reader model (observed on the real code by the harness): a `\w` character that cannot
start an identifier, and a word that turns the line into a Python statement -/
theorem C18_cex_unmodelled_bare :
    offer [Char.ofNat 0xb2] [] true .atEnd false = [([Char.ofNat 0xb2, ' '], .unmodelled)] ∧
    classify G E0 false false [Char.ofNat 0xb2] [] true .atEnd false = [.oddToken] ∧
    offer (s "=x") [] true .atEnd false = [(s "=x ", .unmodelled)] ∧
    classify G E0 false false (s "=x") [] true .atEnd false = [.pythonStatement] := by decide +kernel

/-! ## the guard is satisfiable, and the theorem says something about ordinary nasty names -/

example : classify G E0 false false (s "sp ace") [] true .atEnd false = [] ∧
    offer (s "sp ace") [] true .atEnd false = [(s "'sp ace' ", .args [s "sp ace"])] := by decide +kernel
example : classify G E0 false false (s "do$l\\ar") [] true .atEnd false = [] ∧
    offer (s "do$l\\ar") [] true .atEnd false = [(s "r'do$l\\ar' ", .args [s "do$l\\ar"])] := by decide +kernel
example : classify G E0 false false (s "it's") [] true .atEnd true = [] ∧
    offer (s "it's") [] true .atEnd true = [(s "\"it's/\"", .args [s "it's/"])] := by decide +kernel
example : classify G E0 false false (s "a\tb\\c\"") (s "\"") false .closedInside false = [] ∧
    offer (s "a\tb\\c\"") (s "\"") false .closedInside false = [(s "\"a\\tb\\\\c\\\"", .args [s "a\tb\\c\""])] := by
  decide +kernel
example : classify G E0 false false (s "~") [] true .atEnd false = [] ∧
    offer (s "~") [] true .atEnd false = [(s "r'~'", .args [s "~"])] := by decide +kernel
example : classify G E0 false false (s "and") [] true .atEnd false = [] ∧
    offer (s "and") [] true .atEnd false = [(s "'and' ", .args [s "and"])] := by decide +kernel
example : classify G E0 false false (s "#x") (s "'''") false .atEnd false = [] ∧
    offer (s "#x") (s "'''") false .atEnd false = [(s "'''#x''' ", .args [s "#x"])] := by decide +kernel
/-- a triple-quoted candidate with quotes of its own kind inside: one, two, and three in a row -/
example : classify G E0 false false (s "a'b''c'''d") (s "'''") false .atEnd false = [] ∧
    offer (s "a'b''c'''d") (s "'''") false .atEnd false =
      [(s "'''a'b''c\\'\\'\\'d''' ", .args [s "a'b''c'''d"])] := by decide +kernel
/-- the hypotheses of `C18_roundtrip_gen` hold of a concrete instance, and its conclusion is the executed fact -/
example : ∀ t ∈ completions G E0 (s "a;b|c") (seenStyle false (s "r\"") false .atEnd).1 (seenStyle false (s "r\"") false .atEnd).2.1 false
      (seenStyle false (s "r\"") false .atEnd).2.2,
    readBack G E0 (t ++ lineTail (s "r\"") .atEnd) = .args [s "a;b|c" ++ dirTail (isDirEff G E0 (s "a;b|c") (s "a;b|c") false)] :=
  C18_roundtrip_gen E0 false false (s "a;b|c") (s "r\"") false .atEnd false (by decide) (by decide) (by decide +kernel)
    (by decide)

/-! ## the analyser clause: what `reconstructs` buys (the analyser itself is not modelled) -/

theorem endsWith_split {a b : Str} (h : endsWith a b = true) : ∃ pre, a = pre ++ b := by
  unfold endsWith at h
  obtain ⟨t, ht⟩ := List.isSuffixOf_iff_suffix.mp h
  exact ⟨t, ht.symm⟩

theorem startsWith_split {a b : Str} (h : startsWith a b = true) : ∃ post, a = b ++ post := by
  unfold startsWith at h
  obtain ⟨t, ht⟩ := List.isPrefixOf_iff_prefix.mp h
  exact ⟨t, ht.symm⟩

/-- if the context reconstructs the text then the line IS `pre ++ rawPrefix ++ rawSuffix ++ post`, with
the cursor right after the raw prefix -/
theorem C18_reconstructs_splits (text : Str) (cursor : Nat) (c : CmdCtx) (hc : cursor ≤ text.length)
    (h : reconstructs text cursor c = true) :
    ∃ pre post, text = pre ++ c.rawPrefix ++ (c.rawSuffix ++ post) ∧ (pre ++ c.rawPrefix).length = cursor := by
  simp only [reconstructs, Bool.and_eq_true] at h
  obtain ⟨pre, hpre⟩ := endsWith_split h.1
  obtain ⟨post, hpost⟩ := startsWith_split h.2
  refine ⟨pre, post, ?_, ?_⟩
  · rw [← hpre, ← hpost, List.take_append_drop]
  · rw [← hpre, List.length_take, Nat.min_eq_left hc]

/-- … and replacing exactly the raw prefix (what a completer does with `lprefix = len(raw_prefix)`) puts the
completion between the untouched text before the argument and the untouched text after the cursor -/
theorem C18_splice_keeps_context (text : Str) (cursor : Nat) (c : CmdCtx) (comp : Str) (hc : cursor ≤ text.length)
    (h : reconstructs text cursor c = true) :
    ∃ pre post, text = pre ++ c.rawPrefix ++ (c.rawSuffix ++ post) ∧
      splice text cursor c.rawPrefix.length comp = pre ++ comp ++ (c.rawSuffix ++ post) := by
  obtain ⟨pre, post, ht, hl⟩ := C18_reconstructs_splits text cursor c hc h
  refine ⟨pre, post, ht, ?_⟩
  have h1 : cursor - c.rawPrefix.length = pre.length := by
    rw [← hl, List.length_append]; omega
  unfold splice
  rw [h1]
  have h2 : text.take pre.length = pre := by
    rw [ht, List.append_assoc]; exact List.take_left' rfl
  have h3 : text.drop cursor = c.rawSuffix ++ post := by
    rw [ht, ← hl]; exact List.drop_left' rfl
  rw [h2, h3]

/-- the predicate is not vacuous: it holds of `ls 'a b|c'` with the cursor after `b`, fails when the prefix is wrong -/
example : reconstructs (s "ls 'a bc'") 7 ⟨s "'", s "a b", s "c", s "'", false⟩ = true ∧
    reconstructs (s "ls 'a bc'") 7 ⟨s "'", s "a", s "c", s "'", false⟩ = false ∧
    reconstructs (s "ls '''t'''") 8 ⟨s "'''", s "t", [], s "'''", false⟩ = false := by decide
