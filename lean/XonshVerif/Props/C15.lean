/-
C15 — Alias expansion always terminates and preserves the user's arguments.
Theorems over the hand-written model `Alias` (tied to xonsh/aliases.py by xv/props/c15.py).
TERMINATION for every table (cycles included) is the fact that `Alias.evalAlias` is a total Lean
function defined by well-founded recursion without fuel; `C15_bound` restates it as a number.
-/
import XonshVerif.Model.Alias
open Alias

/-- unfolding equation of `evalAlias` without dependent conditionals -/
theorem evalAlias_eq (tbl : Tbl) (orc : Oracle) (exp : Tok → Tok) (v : Val) (seen acc : List Tok) (decs : List Nat) :
    evalAlias tbl orc exp v seen acc decs =
      match prepare tbl orc exp v acc decs with
      | .done r d => (r, d, seen)
      | .go token rest acc d =>
        if seen.contains token then (.cmd (token :: rest ++ acc), d, seen)
        else match tbl.lookup token with
          | none => (.cmd (token :: rest ++ acc), d, seen)
          | some v' => evalAlias tbl orc exp v' (token :: seen) (rest ++ acc) d := by
  rw [evalAlias]
  cases prepare tbl orc exp v acc decs with
  | done r d => rfl
  | go token rest acc d =>
    simp only []
    by_cases hs : seen.contains token = true
    · rw [dif_pos hs, if_pos hs]
    · rw [dif_neg hs, if_neg hs]
      split <;> split <;> simp_all


/-! ## each alias at most once per chain; number of expansions ≤ number of aliases -/

/-- the seen set only grows, stays duplicate-free (each alias is expanded at most once per chain),
and the number of expansions is bounded by the number of not-yet-seen table keys -/
theorem C15_once_and_bound (tbl : Tbl) (orc : Oracle) (exp : Tok → Tok) (v : Val) (seen acc : List Tok) (decs : List Nat)
    (hn : seen.Nodup) :
    let r := evalAlias tbl orc exp v seen acc decs
    r.2.2.Nodup ∧ (∀ t ∈ seen, t ∈ r.2.2) ∧ r.2.2.length ≤ seen.length + (unseen tbl seen).length := by
  fun_induction evalAlias tbl orc exp v seen acc decs with
  | case1 v seen acc decs r decs' hp => exact ⟨hn, fun t h => h, by simp⟩
  | case2 v seen acc decs token rest acc' decs' hp hs => exact ⟨hn, fun t h => h, by simp⟩
  | case3 v seen acc decs token rest acc' decs' hp hs hl => exact ⟨hn, fun t h => h, by simp⟩
  | case4 v seen acc decs token rest acc' decs' hp hs v' hl ih =>
    have hns : token ∉ seen := by simpa using hs
    have := ih (List.nodup_cons.mpr ⟨hns, hn⟩)
    refine ⟨this.1, fun t h => this.2.1 t (List.mem_cons_of_mem _ h), ?_⟩
    have hlt := unseen_lt tbl seen token hns (lookup_isSome_mem tbl token v' hl)
    have := this.2.2
    simp only [List.length_cons] at this
    omega

/-- TERMINATION, as a number: resolving a command expands at most `tbl.length` aliases -/
theorem C15_bound (tbl : Tbl) (orc : Oracle) (exp : Tok → Tok) (key : Tok) (v : Val) (args : List Tok) :
    (evalAlias tbl orc exp v [key] args []).2.2.length ≤ 1 + tbl.length := by
  have h := (C15_once_and_bound tbl orc exp v [key] args [] (by simp)).2.2
  have : (unseen tbl [key]).length ≤ tbl.length := by
    unfold unseen keys
    exact Nat.le_trans (List.length_filter_le _ _) (by simp)
  simp only [List.length_cons, List.length_nil] at h
  omega

/-! ## the user's arguments are appended after the alias's own, verbatim and in order -/

def appendRes : Res → List Tok → Res
  | .cmd ws, extra => .cmd (ws ++ extra)
  | .call v a, extra => .call v (a ++ extra)
  | r, _ => r

def isRet : Val → Bool
  | .retcmd _ => true
  | _ => false

/-- no return-command alias anywhere in the table (those receive the arguments and decide themselves) -/
def NoRet (tbl : Tbl) : Prop := ∀ k v, tbl.lookup k = some v → isRet v = false

theorem prepare_append (tbl : Tbl) (orc : Oracle) (exp : Tok → Tok) (v : Val) (acc extra : List Tok) (decs : List Nat)
    (hv : isRet v = false) :
    prepare tbl orc exp v (acc ++ extra) decs =
      match prepare tbl orc exp v acc decs with
      | .done r d => .done (appendRes r extra) d
      | .go t r a d => .go t r (a ++ extra) d := by
  cases v with
  | words ws =>
    simp only [prepare]
    split <;> (rename_i h; split <;> simp_all [appendRes])
  | callable id => simp [prepare, appendRes]
  | decorator id => simp [prepare, appendRes]
  | retcmd id => simp [isRet] at hv

/-- EXPANSION IS INDEPENDENT OF TRAILING ARGUMENTS, which are appended verbatim, in order, once:
for all tables without return-command aliases (any graph shape), all values, all argument lists. -/
theorem C15_args_appended (tbl : Tbl) (orc : Oracle) (exp : Tok → Tok) (v : Val) (seen acc extra : List Tok) (decs : List Nat)
    (hnr : NoRet tbl) (hv : isRet v = false) :
    evalAlias tbl orc exp v seen (acc ++ extra) decs =
      (appendRes (evalAlias tbl orc exp v seen acc decs).1 extra,
       (evalAlias tbl orc exp v seen acc decs).2.1, (evalAlias tbl orc exp v seen acc decs).2.2) := by
  fun_induction evalAlias tbl orc exp v seen acc decs with
  | case1 v seen acc decs r decs' hp =>
    rw [evalAlias_eq, prepare_append _ _ _ _ _ _ _ hv, hp]
  | case2 v seen acc decs token rest acc' decs' hp hs =>
    rw [evalAlias_eq, prepare_append _ _ _ _ _ _ _ hv, hp]
    simp only []
    rw [if_pos hs]
    simp [appendRes]
  | case3 v seen acc decs token rest acc' decs' hp hs hl =>
    rw [evalAlias_eq, prepare_append _ _ _ _ _ _ _ hv, hp]
    simp only []
    rw [if_neg hs, hl]
    simp [appendRes]
  | case4 v seen acc decs token rest acc' decs' hp hs v' hl ih =>
    rw [evalAlias_eq, prepare_append _ _ _ _ _ _ _ hv, hp]
    simp only []
    rw [if_neg hs, hl]
    simp only []
    rw [← List.append_assoc]
    exact ih (hnr token v' hl)

/-- `aliases.get([key] + args)` is `aliases.get([key])` with `args` appended -/
theorem C15_get_args_appended (tbl : Tbl) (orc : Oracle) (exp : Tok → Tok) (key : Tok) (args : List Tok) (hnr : NoRet tbl) :
    Alias.get tbl orc exp key args =
      (appendRes (Alias.get tbl orc exp key []).1 args, (Alias.get tbl orc exp key []).2.1, (Alias.get tbl orc exp key []).2.2) := by
  unfold Alias.get
  cases hl : tbl.lookup key with
  | none => simp [appendRes]
  | some v =>
    have hv := hnr key v hl
    cases v with
    | retcmd id => simp [isRet] at hv
    | words ws =>
      have := C15_args_appended tbl orc exp (.words ws) [key] [] args [] hnr rfl
      simpa using this
    | callable id =>
      have := C15_args_appended tbl orc exp (.callable id) [key] [] args [] hnr rfl
      simpa using this
    | decorator id =>
      have := C15_args_appended tbl orc exp (.decorator id) [key] [] args [] hnr rfl
      simpa using this

/-- a return-command alias at the head receives exactly the user's arguments, whole and in order -/
theorem C15_retcmd_gets_args (tbl : Tbl) (orc : Oracle) (exp : Tok → Tok) (key : Tok) (id : Nat) (args ws : List Tok)
    (hl : tbl.lookup key = some (.retcmd id)) (ho : orc id args = some ws) (hne : ws ≠ []) :
    Alias.get tbl orc exp key args = evalAlias tbl orc exp (.words ws) [key] [] [] := by
  cases ws with
  | nil => exact absurd rfl hne
  | cons a b =>
    unfold Alias.get
    simp only [hl, ho]

/-! ## decorators are collected in order (never dropped or reordered) -/

theorem stripDecs_prefix (tbl : Tbl) (ws : List Tok) (decs : List Nat) :
    ∃ d, (stripDecs tbl ws decs).2 = decs ++ d := by
  induction ws generalizing decs with
  | nil => exact ⟨[], by simp [stripDecs]⟩
  | cons t rest ih =>
    simp only [stripDecs]
    split
    · rename_i d hl
      obtain ⟨d', hd'⟩ := ih (decs ++ [d])
      exact ⟨d :: d', by rw [hd']; simp⟩
    · exact ⟨[], by simp⟩

def Alias.Prep.decsOf : Prep → List Nat
  | .done _ d => d
  | .go _ _ _ d => d

theorem prepare_decs_prefix (tbl : Tbl) (orc : Oracle) (exp : Tok → Tok) (v : Val) (acc : List Tok) (decs : List Nat) :
    ∃ d, (prepare tbl orc exp v acc decs).decsOf = decs ++ d := by
  cases v with
  | words ws =>
    by_cases h : ws.length > 1
    · obtain ⟨d, hd⟩ := stripDecs_prefix tbl ws decs
      refine ⟨d, ?_⟩
      rcases hsd : stripDecs tbl ws decs with ⟨ws', decs'⟩
      rw [hsd] at hd
      simp only [prepare, h, if_true, hsd]
      cases ws' <;> simpa [Prep.decsOf] using hd
    · refine ⟨[], ?_⟩
      simp only [prepare, h, if_false]
      cases ws <;> simp [Prep.decsOf]
  | callable id => exact ⟨[], by simp [prepare, Prep.decsOf]⟩
  | decorator id => exact ⟨[], by simp [prepare, Prep.decsOf]⟩
  | retcmd id =>
    refine ⟨[], ?_⟩
    simp only [prepare]
    rcases orc id acc with _ | ⟨_ | ⟨t, r⟩⟩ <;> simp [Prep.decsOf]

theorem C15_decorators_in_order (tbl : Tbl) (orc : Oracle) (exp : Tok → Tok) (v : Val) (seen acc : List Tok) (decs : List Nat) :
    ∃ d, (evalAlias tbl orc exp v seen acc decs).2.1 = decs ++ d := by
  fun_induction evalAlias tbl orc exp v seen acc decs with
  | case1 v seen acc decs r decs' hp =>
    have := prepare_decs_prefix tbl orc exp v acc decs; rw [hp] at this; exact this
  | case2 v seen acc decs token rest acc' decs' hp hs =>
    have := prepare_decs_prefix tbl orc exp v acc decs; rw [hp] at this; exact this
  | case3 v seen acc decs token rest acc' decs' hp hs hl =>
    have := prepare_decs_prefix tbl orc exp v acc decs; rw [hp] at this; exact this
  | case4 v seen acc decs token rest acc' decs' hp hs v' hl ih =>
    have := prepare_decs_prefix tbl orc exp v acc decs; rw [hp] at this
    obtain ⟨d1, h1⟩ := this
    obtain ⟨d2, h2⟩ := ih
    simp only [Prep.decsOf] at h1
    exact ⟨d1 ++ d2, by rw [h2, h1]; simp⟩

/-! ## the outcome does not depend on the order in which the aliases were defined -/

theorem stripDecs_congr (tbl tbl' : Tbl) (h : ∀ k, tbl.lookup k = tbl'.lookup k) (ws : List Tok) (decs : List Nat) :
    stripDecs tbl ws decs = stripDecs tbl' ws decs := by
  induction ws generalizing decs with
  | nil => rfl
  | cons t rest ih => simp only [stripDecs, h t]; split <;> simp_all

theorem prepare_congr (tbl tbl' : Tbl) (h : ∀ k, tbl.lookup k = tbl'.lookup k) (orc : Oracle) (exp : Tok → Tok) (v : Val)
    (acc : List Tok) (decs : List Nat) : prepare tbl orc exp v acc decs = prepare tbl' orc exp v acc decs := by
  cases v <;> simp [prepare, stripDecs_congr tbl tbl' h]

theorem evalAlias_congr (tbl tbl' : Tbl) (h : ∀ k, tbl.lookup k = tbl'.lookup k) (orc : Oracle) (exp : Tok → Tok) (v : Val)
    (seen acc : List Tok) (decs : List Nat) :
    evalAlias tbl orc exp v seen acc decs = evalAlias tbl' orc exp v seen acc decs := by
  fun_induction evalAlias tbl orc exp v seen acc decs with
  | case1 v seen acc decs r decs' hp =>
    rw [evalAlias_eq tbl' orc exp, ← prepare_congr tbl tbl' h, hp]
  | case2 v seen acc decs token rest acc' decs' hp hs =>
    rw [evalAlias_eq tbl' orc exp, ← prepare_congr tbl tbl' h, hp]
    simp only []
    rw [if_pos hs]
  | case3 v seen acc decs token rest acc' decs' hp hs hl =>
    rw [evalAlias_eq tbl' orc exp, ← prepare_congr tbl tbl' h, hp]
    simp only []
    rw [if_neg hs, ← h, hl]
  | case4 v seen acc decs token rest acc' decs' hp hs v' hl ih =>
    rw [evalAlias_eq tbl' orc exp, ← prepare_congr tbl tbl' h, hp]
    simp only []
    rw [if_neg hs, ← h, hl]
    exact ih

theorem lookup_perm (tbl tbl' : Tbl) (hp : tbl.Perm tbl') (hn : (keys tbl).Nodup) (k : Tok) :
    tbl.lookup k = tbl'.lookup k := by
  induction hp with
  | nil => rfl
  | cons x _ ih =>
    obtain ⟨a, b⟩ := x
    simp only [keys, List.map_cons, List.nodup_cons] at hn
    simp only [List.lookup]
    split
    · rfl
    · exact ih hn.2
  | swap x y l =>
    obtain ⟨a, b⟩ := x
    obtain ⟨c, d⟩ := y
    simp only [keys, List.map_cons, List.nodup_cons, List.mem_cons, not_or] at hn
    simp only [List.lookup]
    by_cases h1 : k = a <;> by_cases h2 : k = c
    · subst h1; subst h2; exact absurd rfl (Ne.symm hn.1.1)
    · subst h1; have : (k == c) = false := by simpa using h2
      simp [this]
    · subst h2; have : (k == a) = false := by simpa using h1
      simp [this]
    · have e1 : (k == a) = false := by simpa using h1
      have e2 : (k == c) = false := by simpa using h2
      simp [e1, e2]
  | trans h1 h2 ih1 ih2 =>
    have hn2 := hn
    unfold keys at hn2
    rw [(h1.map (·.1)).nodup_iff] at hn2
    rw [ih1 hn, ih2 hn2]

/-- DEFINITION ORDER IS IRRELEVANT: any permutation of the table gives the same resolution -/
theorem C15_perm_invariant (tbl tbl' : Tbl) (hp : tbl.Perm tbl') (hn : (keys tbl).Nodup) (orc : Oracle) (exp : Tok → Tok)
    (key : Tok) (args : List Tok) : Alias.get tbl orc exp key args = Alias.get tbl' orc exp key args := by
  have h := lookup_perm tbl tbl' hp hn
  unfold Alias.get
  rw [← h key]
  split
  · rfl
  · split <;> simp [evalAlias_congr tbl tbl' h]
  · exact evalAlias_congr tbl tbl' h _ _ _ _ _ _

/-! ## self-reference works: `ls -> ls --color` -/

theorem C15_self_ref (tbl : Tbl) (orc : Oracle) (exp : Tok → Tok) (k : Tok) (rest args : List Tok)
    (hl : tbl.lookup k = some (.words (k :: rest))) (hk : exp k = k) :
    Alias.get tbl orc exp k args = (.cmd (k :: rest.map exp ++ args), [], [k]) := by
  have hstrip : ∀ decs, stripDecs tbl (k :: rest) decs = (k :: rest, decs) := by
    intro decs; simp [stripDecs, hl]
  unfold Alias.get
  simp only [hl]
  rw [evalAlias_eq]
  have : prepare tbl orc exp (.words (k :: rest)) args [] = .go k (rest.map exp) args [] := by
    by_cases h : (k :: rest).length > 1 <;> simp [prepare, hstrip, h, hk]
  rw [this]
  simp

/-- a chain `a -> b x`, `b -> c y`, user args `u`: alias words accumulate in chain order, then the user's -/
example : Alias.get [(1, .words [2, 10]), (2, .words [3, 11]), (3, .words [3, 12])] (fun _ _ => none) id 1 [20, 21]
    = (.cmd [3, 12, 11, 10, 20, 21], [], [3, 2, 1]) := by
  simp [Alias.get, evalAlias_eq, prepare, stripDecs, List.lookup]

/-- a 2-cycle terminates: `a -> b`, `b -> a` -/
example : (Alias.get [(1, .words [2]), (2, .words [1])] (fun _ _ => none) id 1 [7]).1 = .cmd [1, 7] := by
  simp [Alias.get, evalAlias_eq, prepare, List.lookup]

example : NoRet [(1, .words [2, 10]), (2, .callable 0)] := by
  intro k v h
  simp only [List.lookup] at h
  split at h
  · cases h; rfl
  · split at h
    · cases h; rfl
    · cases h
