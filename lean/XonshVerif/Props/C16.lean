/-
C16 — `$PWD`, the process directory and the directory stack stay in step.
Theorems over the hand-written model `DirStack` (tied to xonsh/dirstack.py by xv/props/c16.py).
All statements quantify over every state (hence every history), every configuration and every
file-system oracle; `C16_sync` is the induction over arbitrary op sequences.
-/
import XonshVerif.Model.DirStack
open DirStack

/-! ## shape lemmas: what each command can do to the state -/

theorem chdirOk_iff (c : Cfg) (s : St) (p : Path) : chdirOk c s p = true ↔ kind c s p = .dir := by
  simp [chdirOk]
theorem kind_fs (c : Cfg) (s s' : St) (p : Path) (h : s'.fs = s.fs) : kind c s' p = kind c s p := by
  simp [kind, h]
theorem chdirOk_fs (c : Cfg) (s s' : St) (p : Path) (h : s'.fs = s.fs) : chdirOk c s' p = chdirOk c s p := by
  simp [chdirOk, kind_fs c s s' p h]
theorem truncate_id (c : Cfg) (l : List Path) (h : ¬ ((l.length : Int) > c.size)) : truncate c l = l := by
  simp [truncate, h]

theorem changeDir_ok (c : Cfg) (s : St) (d : Path) (h : kind c s d = .dir) :
    changeDir c s d false = { s with pwd := d, oldpwd := some s.pwd, cwd := real c d } := by
  have : chdirOk c s d = true := (chdirOk_iff c s d).mpr h
  simp [changeDir, this]

theorem changeDir_cases (c : Cfg) (s : St) (d : Path) (f : Bool) :
    changeDir c s d f = s ∨
    (∃ new, changeDir c s d f = { s with pwd := new, oldpwd := some s.pwd, cwd := real c new }) := by
  unfold changeDir
  by_cases h : chdirOk c s (if f = true then real c d else d) = true
  · right; exact ⟨(if f = true then real c d else d), by simp only [h, if_true]⟩
  · left; simp only [h]; rfl

theorem dirs_state (c : Cfg) (s : St) (a : DArg) :
    (dirs c s a).1 = s ∨ (a = .clear ∧ (dirs c s a).1 = { s with stack := [] }) := by
  cases a with
  | clear => right; exact ⟨rfl, rfl⟩
  | none => left; rfl
  | bad => left; rfl
  | plus n =>
    left; simp only [dirs]
    split
    · rfl
    · split <;> rfl
  | minus n =>
    left; simp only [dirs]
    split
    · rfl
    · split <;> rfl

/-- selection part of pushd, factored: result is an error (state unchanged) or a (target, new stack) pair -/
theorem pushd_form (c : Cfg) (s : St) (a : PArg) (d : Bool) :
    ((pushd c s a d).1 = s ∧ ∃ e, (pushd c s a d).2 = .err e) ∨
    ((pushd c s a d).2 = .ok ∧
      ((∃ stack, (pushd c s a d).1 = { s with stack := truncate c stack }) ∨
       (∃ np stack, (pushd c s a d).1 =
          { (changeDir c { s with stack := s.pwd :: stack } np false) with
            stack := truncate c (changeDir c { s with stack := s.pwd :: stack } np false).stack }))) := by
  unfold pushd
  simp only []
  split
  · left; exact ⟨rfl, _, rfl⟩
  · rename_i newPwd stack hsel
    right
    refine ⟨rfl, ?_⟩
    cases newPwd with
    | none => left; exact ⟨stack, rfl⟩
    | some np =>
      cases d with
      | true => right; exact ⟨np, stack, rfl⟩
      | false => left; exact ⟨np :: stack, rfl⟩

theorem popd_form (c : Cfg) (s : St) (a : PArg) (d : Bool) :
    ((popd c s a d).1 = s ∧ ∃ e, (popd c s a d).2 = .err e) ∨
    ((popd c s a d).2 = .ok ∧
      ((∃ stack, (popd c s a d).1 = { s with stack := stack }) ∨
       (∃ np stack, (popd c s a d).1 = changeDir c { s with stack := stack } np false))) := by
  unfold popd
  simp only []
  split
  · left; exact ⟨rfl, _, rfl⟩
  · rename_i newPwd stack hsel
    right
    cases newPwd with
    | none => exact ⟨rfl, Or.inl ⟨stack, rfl⟩⟩
    | some np =>
      cases d with
      | true => exact ⟨rfl, Or.inr ⟨np, stack, rfl⟩⟩
      | false => exact ⟨rfl, Or.inl ⟨stack, rfl⟩⟩

theorem cd_form (c : Cfg) (s : St) (a : CdArg) (f : Bool) :
    (cd c s a f).1 = s ∨
    ((cd c s a f).2 = .ok ∧ ∃ d,
      (cd c s a f).1 = changeDir c (if c.autoPushd then (pushd c s (.path s.pwd) false).1 else s) d f) := by
  unfold cd
  simp only []
  split
  · left; rfl
  · rename_i d ht
    split
    · left; rfl
    · split
      · left; rfl
      · split
        · left; rfl
        · right; exact ⟨rfl, d, rfl⟩

theorem changeDir_stack (c : Cfg) (s : St) (d : Path) (f : Bool) :
    (changeDir c s d f).stack = s.stack ∧ (changeDir c s d f).fs = s.fs := by
  rcases changeDir_cases c s d f with h | ⟨n, h⟩ <;> simp [h]

/-- `$PWD` names the process's working directory -/
def Sync (c : Cfg) (s : St) : Prop := s.cwd = real c s.pwd

theorem changeDir_sync (c : Cfg) (s : St) (d : Path) (f : Bool) (h : Sync c s) :
    Sync c (changeDir c s d f) := by
  rcases changeDir_cases c s d f with e | ⟨n, e⟩ <;> rw [e]
  · exact h
  · simp [Sync]

/-- whenever `_change_working_directory` changes `$PWD`, `$OLDPWD` is the previous `$PWD` -/
theorem changeDir_oldpwd (c : Cfg) (s : St) (d : Path) (f : Bool)
    (h : (changeDir c s d f).pwd ≠ s.pwd) : (changeDir c s d f).oldpwd = some s.pwd := by
  rcases changeDir_cases c s d f with e | ⟨n, e⟩
  · rw [e] at h; exact absurd rfl h
  · rw [e]

/-! ## every command keeps `$PWD` and the process directory in step -/

theorem pushd_sync (c : Cfg) (s : St) (a : PArg) (d : Bool) (h : Sync c s) : Sync c (pushd c s a d).1 := by
  rcases pushd_form c s a d with ⟨e, _⟩ | ⟨_, ⟨st, e⟩ | ⟨np, st, e⟩⟩ <;> rw [e]
  · exact h
  · exact h
  · exact changeDir_sync c { s with stack := s.pwd :: st } np false h

theorem popd_sync (c : Cfg) (s : St) (a : PArg) (d : Bool) (h : Sync c s) : Sync c (popd c s a d).1 := by
  rcases popd_form c s a d with ⟨e, _⟩ | ⟨_, ⟨st, e⟩ | ⟨np, st, e⟩⟩ <;> rw [e]
  · exact h
  · exact h
  · exact changeDir_sync c { s with stack := st } np false h

theorem cd_sync (c : Cfg) (s : St) (a : CdArg) (f : Bool) (h : Sync c s) : Sync c (cd c s a f).1 := by
  rcases cd_form c s a f with e | ⟨_, d, e⟩ <;> rw [e]
  · exact h
  · apply changeDir_sync
    split
    · exact pushd_sync c s _ false h
    · exact h

theorem dirs_sync (c : Cfg) (s : St) (a : DArg) (h : Sync c s) : Sync c (dirs c s a).1 := by
  rcases dirs_state c s a with e | ⟨_, e⟩ <;> rw [e] <;> exact h

/-- symlink targets are not themselves symlinks of the model (`realpath` is idempotent) -/
def RealIdem (c : Cfg) : Prop := ∀ p, real c (real c p) = real c p

/-- the post-command resynchronisation leaves a state that is in step untouched — in particular
it never overwrites `$OLDPWD` when the directory was entered through a symlink -/
theorem C16_fix_cwd_noop (c : Cfg) (s : St) (hr : RealIdem c) (h : Sync c s) : fixCwd c s = s := by
  unfold fixCwd
  have : real c s.cwd = real c s.pwd := by rw [h, hr]
  simp [this]

/-- after something changed the process directory behind the shell's back, the resynchronisation
makes `$PWD` name it again and remembers where we were in `$OLDPWD` -/
theorem C16_fix_cwd_resync (c : Cfg) (s : St) (hr : RealIdem c) (hphys : real c s.cwd = s.cwd) :
    Sync c (fixCwd c s) ∧ ((fixCwd c s).pwd ≠ s.pwd → (fixCwd c s).oldpwd = some s.pwd) := by
  unfold fixCwd
  by_cases h : real c s.cwd = real c s.pwd
  · simp only [h, bne_self_eq_false, Bool.false_eq_true, if_false]
    exact ⟨by unfold Sync; rw [← h, hphys], fun hne => absurd rfl hne⟩
  · have : (real c s.cwd != real c s.pwd) = true := by simpa using h
    simp only [this, if_true]
    exact ⟨by unfold Sync; exact hphys.symm, fun _ => trivial⟩

/-- operations of the shell itself (everything except an external chdir) -/
def DirStack.Op.internal : Op → Bool
  | .extChdir _ => false
  | _ => true

theorem step_sync (c : Cfg) (s : St) (op : Op) (hr : RealIdem c) (hi : op.internal = true) (h : Sync c s) :
    Sync (step c s op).1 (step c s op).2.1 := by
  cases op with
  | fixCwd => simp only [step]; rw [C16_fix_cwd_noop c s hr h]; exact h
  | extChdir p => simp [DirStack.Op.internal] at hi
  | cd a f => exact cd_sync c s a f h
  | pushd a d => exact pushd_sync c s a d h
  | popd a d => exact popd_sync c s a d h
  | dirs a => exact dirs_sync c s a h
  | rmdir p => exact h
  | mkdir p => exact h
  | setCfg a m z => exact h

/-- C16 (main invariant): after ANY sequence of cd / pushd / popd / dirs commands, configuration
changes and directories appearing or disappearing, `$PWD` names the process's working directory -/
theorem step_links (c : Cfg) (s : St) (op : Op) : (step c s op).1.links = c.links := by
  cases op <;> rfl

theorem C16_sync (c : Cfg) (s : St) (ops : List Op) (hr : RealIdem c)
    (hi : ∀ op ∈ ops, op.internal = true) (h : Sync c s) :
    Sync (run c s ops).1 (run c s ops).2 := by
  induction ops generalizing c s with
  | nil => exact h
  | cons op rest ih =>
    simp only [run]
    have hr' : RealIdem (step c s op).1 := by
      intro p; unfold real; rw [step_links]; exact hr p
    exact ih _ _ hr' (fun o ho => hi o (List.mem_cons_of_mem _ ho))
      (step_sync c s op hr (hi op (by simp)) h)

/-! ## `$OLDPWD` is the previous directory -/

theorem pushd_oldpwd (c : Cfg) (s : St) (a : PArg) (d : Bool)
    (h : (pushd c s a d).1.pwd ≠ s.pwd) : (pushd c s a d).1.oldpwd = some s.pwd := by
  rcases pushd_form c s a d with ⟨e, _⟩ | ⟨_, ⟨st, e⟩ | ⟨np, st, e⟩⟩ <;> rw [e] at h ⊢
  · exact absurd rfl h
  · exact absurd rfl h
  · exact changeDir_oldpwd c { s with stack := s.pwd :: st } np false h

theorem popd_oldpwd (c : Cfg) (s : St) (a : PArg) (d : Bool)
    (h : (popd c s a d).1.pwd ≠ s.pwd) : (popd c s a d).1.oldpwd = some s.pwd := by
  rcases popd_form c s a d with ⟨e, _⟩ | ⟨_, ⟨st, e⟩ | ⟨np, st, e⟩⟩ <;> rw [e] at h ⊢
  · exact absurd rfl h
  · exact absurd rfl h
  · exact changeDir_oldpwd c { s with stack := st } np false h

theorem pushd_n_pwd (c : Cfg) (s : St) (a : PArg) :
    (pushd c s a false).1.pwd = s.pwd ∧ (pushd c s a false).1.oldpwd = s.oldpwd := by
  unfold pushd
  simp only []
  split
  · exact ⟨rfl, rfl⟩
  · rename_i newPwd stack hsel
    cases newPwd <;> exact ⟨rfl, rfl⟩

theorem cd_oldpwd (c : Cfg) (s : St) (a : CdArg) (f : Bool)
    (h : (cd c s a f).1.pwd ≠ s.pwd) : (cd c s a f).1.oldpwd = some s.pwd := by
  rcases cd_form c s a f with e | ⟨_, d, e⟩ <;> rw [e] at h ⊢
  · exact absurd rfl h
  · by_cases ha : c.autoPushd = true
    · simp only [ha, if_true] at h ⊢
      have hp := pushd_n_pwd c s (.path s.pwd)
      have := changeDir_oldpwd c (pushd c s (.path s.pwd) false).1 d f (by rw [hp.1]; exact h)
      rw [hp.1] at this; exact this
    · simp only [ha] at h ⊢
      exact changeDir_oldpwd c s d f h

/-- in every step that changes `$PWD`, `$OLDPWD` becomes the directory we came from -/
theorem C16_oldpwd (c : Cfg) (s : St) (op : Op) (h : (step c s op).2.1.pwd ≠ s.pwd) :
    (step c s op).2.1.oldpwd = some s.pwd := by
  cases op with
  | cd a f => exact cd_oldpwd c s a f h
  | pushd a d => exact pushd_oldpwd c s a d h
  | popd a d => exact popd_oldpwd c s a d h
  | dirs a =>
    simp only [step] at h
    rcases dirs_state c s a with e | ⟨_, e⟩ <;> rw [e] at h <;> exact absurd rfl h
  | rmdir p => exact absurd rfl h
  | mkdir p => exact absurd rfl h
  | setCfg a m z => exact absurd rfl h
  | extChdir p =>
    simp only [step] at h
    split at h <;> exact absurd rfl h
  | fixCwd =>
    simp only [step, fixCwd] at h ⊢
    split
    · rfl
    · rename_i hc; simp [hc] at h

/-! ## a failed operation (rc 1) changes nothing -/

theorem C16_error_unchanged (c : Cfg) (s : St) (op : Op) (h : (step c s op).2.2.rc = 1) :
    (step c s op).1 = c ∧ (step c s op).2.1 = s := by
  cases op with
  | cd a f =>
    simp only [step] at h
    refine ⟨rfl, ?_⟩
    show (cd c s a f).1 = s
    rcases cd_form c s a f with e | ⟨ho, _⟩
    · exact e
    · rw [ho] at h; simp [Out.rc] at h
  | pushd a d =>
    simp only [step] at h
    refine ⟨rfl, ?_⟩
    show (pushd c s a d).1 = s
    rcases pushd_form c s a d with ⟨e, _⟩ | ⟨ho, _⟩
    · exact e
    · rw [ho] at h; simp [Out.rc] at h
  | popd a d =>
    simp only [step] at h
    refine ⟨rfl, ?_⟩
    show (popd c s a d).1 = s
    rcases popd_form c s a d with ⟨e, _⟩ | ⟨ho, _⟩
    · exact e
    · rw [ho] at h; simp [Out.rc] at h
  | dirs a =>
    simp only [step] at h
    refine ⟨rfl, ?_⟩
    show (dirs c s a).1 = s
    rcases dirs_state c s a with e | ⟨ha, _⟩
    · exact e
    · subst ha; simp [dirs, Out.rc] at h
  | rmdir p => simp [step, Out.rc] at h
  | mkdir p => simp [step, Out.rc] at h
  | setCfg a m z => simp [step, Out.rc] at h
  | fixCwd => simp [step, Out.rc] at h
  | extChdir p => simp [step, Out.rc] at h

/-! ## the stack is capped after every successful pushd -/

theorem truncate_le (c : Cfg) (l : List Path) (h0 : 0 ≤ c.size) : ((truncate c l).length : Int) ≤ c.size := by
  unfold truncate
  by_cases h : (l.length : Int) > c.size
  · simp only [h, if_true, ge_iff_le, h0, List.length_take]
    omega
  · simp only [h, if_false]; omega

theorem C16_cap (c : Cfg) (s : St) (a : PArg) (d : Bool) (h0 : 0 ≤ c.size)
    (hok : (pushd c s a d).2 = .ok) : ((pushd c s a d).1.stack.length : Int) ≤ c.size := by
  rcases pushd_form c s a d with ⟨_, e, he⟩ | ⟨_, ⟨st, e⟩ | ⟨np, st, e⟩⟩
  · rw [he] at hok; cases hok
  · rw [e]; exact truncate_le c _ h0
  · rw [e]; exact truncate_le c _ h0

/-! ## `pushd d` followed by `popd` restores the directory and the stack -/

theorem C16_push_pop (c : Cfg) (s : St) (p : Path)
    (hp : kind c s p = .dir) (hpwd : kind c s s.pwd = .dir) (hroom : (s.stack.length : Int) < c.size) :
    let s1 := (pushd c s (.path p) true).1
    let s2 := (popd c s1 .none true).1
    (pushd c s (.path p) true).2 = .ok ∧ s1.pwd = p ∧
    s2.pwd = s.pwd ∧ s2.stack = s.stack ∧ s2.cwd = real c s.pwd ∧ s2.oldpwd = some p := by
  have hisdir : isDir c s p = true := by simp [isDir, hp]
  have hnt : ¬ (((s.pwd :: s.stack).length : Int) > c.size) := by simp; omega
  have e1 : (pushd c s (.path p) true) =
      ({ s with pwd := p, oldpwd := some s.pwd, cwd := real c p, stack := s.pwd :: s.stack }, .ok) := by
    unfold pushd
    simp only [hisdir, if_true]
    rw [changeDir_ok c { s with stack := s.pwd :: s.stack } p ((kind_fs c s _ p rfl).trans hp)]
    simp only [truncate_id c _ hnt]
  have e2 : popd c { s with pwd := p, oldpwd := some s.pwd, cwd := real c p, stack := s.pwd :: s.stack } .none true =
      ({ s with oldpwd := some p, cwd := real c s.pwd }, .ok) := by
    unfold popd
    simp only []
    rw [changeDir_ok c { s with pwd := p, oldpwd := some s.pwd, cwd := real c p, stack := s.stack } s.pwd
      ((kind_fs c s _ s.pwd rfl).trans hpwd)]
    simp
  simp only [e1, e2]
  simp

/-! ## `+N` / `-N` decoding (with `$PUSHD_MINUS`) -/

/-- position in the `dirs` listing `[$PWD] + DIRSTACK` that `+N` (`plus`) or `-N` denotes -/
def listingIndex (c : Cfg) (len : Nat) (plus : Bool) (n : Nat) : Nat :=
  if plus != c.pushdMinus then n else len - n

/-- `+N` counts from the left of the listing and `-N` from the right (swapped by `$PUSHD_MINUS`);
entry 0 is the current directory itself, entry k+1 is `DIRSTACK[k]` -/
theorem C16_index (c : Cfg) (len : Nat) (plus : Bool) (n : Nat) (hn : n ≤ len) :
    match stackIndex c len plus n with
    | none => listingIndex c len plus n = 0
    | some i => listingIndex c len plus n = i + 1 ∧ i < len := by
  unfold stackIndex listingIndex
  by_cases hb : (plus != c.pushdMinus) = true
  · simp only [hb, if_true]
    by_cases h0 : n = 0
    · simp [h0]
    · simp [h0]; omega
  · simp only [hb]
    by_cases h0 : n = len
    · simp [h0]
    · simp [h0]; omega

/-- what a successful `pushd ±N` does to the listing: the selected entry moves to the top, the
current directory goes below it, every other entry keeps its place — nothing is lost or invented -/
theorem C16_pushd_n_listing (c : Cfg) (s : St) (plus : Bool) (n i : Nat) (t : Path)
    (hn : n ≤ s.stack.length) (hi : stackIndex c s.stack.length plus n = some i)
    (ht : s.stack[i]? = some t) (hdir : kind c s t = .dir) (hroom : (s.stack.length : Int) ≤ c.size) :
    let a := if plus then PArg.plus n else PArg.minus n
    (pushd c s a true).2 = .ok ∧
    (pushd c s a true).1.pwd = t ∧
    (pushd c s a true).1.stack = s.pwd :: s.stack.eraseIdx i := by
  have hlt : i < s.stack.length := by
    have := (List.getElem?_eq_some_iff.mp ht).1; exact this
  have hlen : ((s.pwd :: s.stack.eraseIdx i).length : Int) ≤ c.size := by
    simp [List.length_eraseIdx, hlt]; omega
  have hnt : ¬ (((s.pwd :: s.stack.eraseIdx i).length : Int) > c.size) := by omega
  have hk : kind c { s with stack := s.pwd :: s.stack.eraseIdx i } t = .dir := (kind_fs c s _ t rfl).trans hdir
  have hng : ¬ (n > s.stack.length) := by omega
  cases plus with
  | true =>
    simp only [if_true]
    unfold pushd
    simp only [hng, if_false, hi, ht, removeNth]
    rw [changeDir_ok c { s with stack := s.pwd :: s.stack.eraseIdx i } t hk]
    simp [truncate_id c _ hnt]
  | false =>
    simp only [Bool.false_eq_true, if_false]
    unfold pushd
    simp only [hng, if_false, hi, ht, removeNth]
    rw [changeDir_ok c { s with stack := s.pwd :: s.stack.eraseIdx i } t hk]
    simp [truncate_id c _ hnt]

/-- `popd ±N` (N ≠ the current directory) removes exactly that entry and does not change directory -/
theorem C16_popd_removes_nth (c : Cfg) (s : St) (plus : Bool) (n i : Nat) (d : Bool)
    (hn : n ≤ s.stack.length) (hi : stackIndex c s.stack.length plus n = some i) (hne : s.stack ≠ []) :
    let a := if plus then PArg.plus n else PArg.minus n
    (popd c s a d) = ({ s with stack := s.stack.eraseIdx i }, .ok) := by
  have hng : ¬ (n > s.stack.length) := by omega
  have hem : s.stack.isEmpty = false := by cases h : s.stack <;> simp_all
  cases plus with
  | true => simp only [if_true]; unfold popd; simp [hng, hi, hem, removeNth]
  | false => simp only [Bool.false_eq_true, if_false]; unfold popd; simp [hng, hi, hem, removeNth]

/-- `dirs` never changes a directory; only `dirs -c` touches the stack (it empties it) -/
theorem C16_dirs_readonly (c : Cfg) (s : St) (a : DArg) :
    (dirs c s a).1.pwd = s.pwd ∧ (dirs c s a).1.cwd = s.cwd ∧ (dirs c s a).1.oldpwd = s.oldpwd ∧
    (a ≠ .clear → (dirs c s a).1 = s) := by
  unfold dirs
  simp only []
  split
  · simp
  · simp
  · simp
  · split
    · simp
    · split <;> simp
  · split
    · simp
    · split <;> simp

/-! ## full statements that are FALSE of today's code — proved counterexamples (known findings) -/

def wCfg : Cfg := ⟨false, false, 20, 0, [(6, 2)]⟩
def wFs : List (Path × Kind) := [(0, .dir), (1, .dir), (2, .dir), (3, .dir), (4, .dir), (5, .file)]

/-- KNOWN FINDING `chdir-fails-after-stack-rewrite`: the target of `pushd +1` was removed; the command
returns rc 0, `$PWD` is unchanged, and the stack has been rewritten (`[3, 0]` became `[1, 0]`). -/
theorem C16_cex_chdir_fail :
    let s : St := ⟨1, some 3, [3, 0], 1, setKind wFs 3 .missing⟩
    let r := pushd wCfg s (.plus 1) true
    r.2 = .ok ∧ r.1.pwd = s.pwd ∧ r.1.stack = [1, 0] ∧ r.1.stack ≠ s.stack := by
  decide

/-- the statement the property asks for ("a failed operation changes nothing") restricted to what
IS true: when the selected target can be entered, pushd ends in it -/
theorem C16_pushd_enters_partial (c : Cfg) (s : St) (p : Path) (hp : kind c s p = .dir) :
    (pushd c s (.path p) true).1.pwd = p ∧ (pushd c s (.path p) true).2 = .ok := by
  have hisdir : isDir c s p = true := by simp [isDir, hp]
  unfold pushd
  simp only [hisdir, if_true]
  rw [changeDir_ok c { s with stack := s.pwd :: s.stack } p ((kind_fs c s _ p rfl).trans hp)]
  simp

/-- KNOWN FINDING `pushd-n-is-not-a-rotation`: on the listing `[3, 2, 1, 0]`, `pushd +2` yields
`[1, 3, 2, 0]`; the documented rotation is `[1, 0, 3, 2]`. -/
theorem C16_cex_rotation :
    let s : St := ⟨3, some 2, [2, 1, 0], 3, wFs⟩
    let r := pushd wCfg s (.plus 2) true
    r.1.pwd :: r.1.stack = [1, 3, 2, 0] ∧ rotateListing (s.pwd :: s.stack) 2 = [1, 0, 3, 2] := by
  decide

/-- what does hold of `pushd ±N` w.r.t. the documented rotation: the SAME entry ends up on top -/
theorem C16_rotation_top_partial (l : List Path) (k : Nat) (t : Path) (h : l[k]? = some t) :
    (rotateListing l k).head? = some t := by
  unfold rotateListing
  have hlt : k < l.length := (List.getElem?_eq_some_iff.mp h).1
  rw [List.head?_append, List.head?_drop, h]
  rfl

/-! ## non-vacuity -/

example : Sync wCfg ⟨6, none, [], 2, wFs⟩ := by unfold Sync; decide
example : RealIdem wCfg := by
  intro p; unfold real wCfg
  by_cases h : p = 6
  · subst h; decide
  · have : (p == 6) = false := by simpa using h
    simp [List.lookup, this]
example : kind wCfg ⟨0, none, [], 0, wFs⟩ 6 = .dir := by decide
example : (run wCfg ⟨0, none, [], 0, wFs⟩ [.pushd (.path 1) true, .pushd (.path 6) true, .cd .dash false]).2.pwd = 1 := by
  decide
