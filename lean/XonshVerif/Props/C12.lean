import XonshVerif.Model.JsonHist
import XonshVerif.Model.LazyJson
theorem C12_placeholder : True := trivial
