/-
C12 — History records every command once, in order, and reads it back verbatim.
Theorems over the hand-written models `JsonHist` (buffer / flusher-queue machine) and `LJ`
(self-indexing JSON writer), tied to the code by xv/props/c12.py.
-/
import XonshVerif.Model.JsonHist
import XonshVerif.Model.LazyJson
import XonshVerif.Lemmas.LazyJson
open JsonHist

/-! ## the accounting invariant, for every op sequence and every flusher schedule -/

theorem dumpFilter_length_le (c : Cfg) (l : List Cmd) (last : Option Nat) :
    (dumpFilter c l last).length ≤ l.length := by
  induction l generalizing last with
  | nil => simp [dumpFilter]
  | cons x xs ih =>
    simp only [dumpFilter]
    split
    · have := ih last; simp; omega
    · split
      · have := ih last; simp; omega
      · have := ih (some x.inp); simp; omega

theorem flush_inv (s : St) (h : HInv s) : HInv (flush s) := by
  unfold flush
  split
  · exact h
  · unfold HInv at *; simp [List.sum_append]; omega

theorem append_inv (c : Cfg) (s : St) (x : Cmd) (h : HInv s) : HInv (append c s x) := by
  unfold append
  split
  · exact h
  · have h1 : HInv { s with buffer := s.buffer ++ [x], len := s.len + 1 } := by
      unfold HInv at *; simp; omega
    simp only []
    split
    · exact flush_inv _ h1
    · exact h1

theorem flusherRuns_inv (c : Cfg) (s : St) (h : HInv s) : HInv (flusherRuns c s) := by
  unfold flusherRuns
  cases hq : s.queue with
  | nil => simpa [hq] using h
  | cons snap rest =>
    simp only []
    have := dumpFilter_length_le c snap none
    unfold HInv at *
    simp [hq] at h ⊢
    omega

theorem drain_aux_inv (c : Cfg) (l : List (List Cmd)) (s : St) (h : HInv s) :
    HInv (l.foldl (fun st _ => flusherRuns c st) s) := by
  induction l generalizing s with
  | nil => exact h
  | cons a l ih => exact ih _ (flusherRuns_inv c s h)

theorem drain_inv (c : Cfg) (s : St) (h : HInv s) : HInv (drain c s) := drain_aux_inv c _ s h

theorem readIdx_inv (c : Cfg) (s : St) (i : Nat) (h : HInv s) : HInv (readIdx c s i).1 := by
  unfold readIdx
  simp only []
  split
  · exact h
  · split
    · split <;> exact h
    · split <;> exact drain_inv c s h

theorem step_inv (c : Cfg) (s : St) (op : Op) (h : HInv s) : HInv (step c s op).1 := by
  cases op with
  | append x => exact append_inv c s x h
  | flush => exact flush_inv s h
  | flusherRuns => exact flusherRuns_inv c s h
  | read i => exact readIdx_inv c s i h

/-- `_len`, `_skipped`, the file, the pending flushers and the buffer always add up -/
theorem C12_accounting (c : Cfg) (ops : List Op) : HInv (run c init ops) := by
  have : ∀ s, HInv s → HInv (run c s ops) := by
    induction ops with
    | nil => intro s h; exact h
    | cons op rest ih => intro s h; exact ih _ (step_inv c s op h)
  exact this init (by simp [HInv, init])

/-! ## the recorded log: nothing lost, duplicated, reordered or invented -/

def NoFilter (c : Cfg) : Prop := c.ignoredups = false ∧ c.ignoreerr = false

theorem dumpFilter_id (c : Cfg) (hc : NoFilter c) (l : List Cmd) (last : Option Nat) : dumpFilter c l last = l := by
  induction l generalizing last with
  | nil => rfl
  | cons x xs ih => simp [dumpFilter, hc.1, hc.2, ih]

theorem dumpFilter_sublist (c : Cfg) (l : List Cmd) (last : Option Nat) : (dumpFilter c l last).Sublist l := by
  induction l generalizing last with
  | nil => simp [dumpFilter]
  | cons x xs ih =>
    simp only [dumpFilter]
    split
    · exact (ih last).cons _
    · split
      · exact (ih last).cons _
      · exact (ih _).cons₂ _

/-- what `append` adds to the log: the command itself, unless `ignorespace` excludes it -/
def accepted (c : Cfg) (x : Cmd) : List Cmd := if c.ignorespace && x.spc then [] else [x]

theorem contents_flush (c : Cfg) (s : St) :
    contents c (flush s) = s.file ++ s.queue.flatMap (fun snap => dumpFilter c snap none) ++ dumpFilter c s.buffer none := by
  unfold flush contents
  by_cases h : s.buffer.isEmpty = true
  · have : s.buffer = [] := by simpa using h
    simp [h, this, dumpFilter]
  · simp [h, List.flatMap_append]

theorem contents_flusherRuns (c : Cfg) (s : St) : contents c (flusherRuns c s) = contents c s := by
  unfold flusherRuns contents
  cases hq : s.queue with
  | nil => simp [hq]
  | cons snap rest => simp [List.append_assoc]

theorem contents_drain_aux (c : Cfg) (l : List (List Cmd)) (s : St) :
    contents c (l.foldl (fun st _ => flusherRuns c st) s) = contents c s := by
  induction l generalizing s with
  | nil => rfl
  | cons a l ih => simp only [List.foldl]; rw [ih, contents_flusherRuns]

theorem contents_read (c : Cfg) (s : St) (i : Nat) : contents c (readIdx c s i).1 = contents c s := by
  unfold readIdx
  simp only []
  split
  · rfl
  · split
    · split <;> rfl
    · split <;> exact contents_drain_aux c _ s

/-- WITHOUT dump filters the log is exactly the accepted commands, in append order, whatever the
buffer size and however flusher runs and reads interleave -/
theorem step_log_nofilter (c : Cfg) (hc : NoFilter c) (s : St) (op : Op) :
    contents c (step c s op).1 = contents c s ++ (match op with | .append x => accepted c x | _ => []) := by
  cases op with
  | append x =>
    simp only [step, append, accepted]
    by_cases hs : (c.ignorespace && x.spc) = true
    · simp [hs]
    · rw [if_neg hs, if_neg hs]
      by_cases hb : (s.buffer ++ [x]).length ≥ c.bufsize
      · simp only [hb, if_true]
        rw [contents_flush]
        simp [contents, dumpFilter_id c hc, List.append_assoc]
      · simp only [hb, if_false]
        simp [contents, List.append_assoc]
  | flush =>
    simp only [step]
    rw [contents_flush]
    simp [contents, dumpFilter_id c hc]
  | flusherRuns => simp [step, contents_flusherRuns]
  | read i => simp [step, contents_read]

def appendedOf (c : Cfg) : List Op → List Cmd
  | [] => []
  | .append x :: rest => accepted c x ++ appendedOf c rest
  | _ :: rest => appendedOf c rest

theorem run_log_nofilter (c : Cfg) (hc : NoFilter c) (s : St) (ops : List Op) :
    contents c (run c s ops) = contents c s ++ appendedOf c ops := by
  induction ops generalizing s with
  | nil => simp [run, appendedOf]
  | cons op rest ih =>
    simp only [run]
    rw [ih, step_log_nofilter c hc]
    cases op <;> simp [appendedOf, List.append_assoc]

/-- C12 (log refinement): every accepted command is recorded exactly once, in append order —
for ALL op sequences, buffer sizes and flusher schedules -/
theorem C12_log (c : Cfg) (hc : NoFilter c) (ops : List Op) :
    contents c (run c init ops) = appendedOf c ops := by
  rw [run_log_nofilter c hc]; simp [contents, init]

/-- with ignoredups / ignoreerr the log is still an in-order sub-sequence of what was appended:
commands are only ever dropped, never duplicated, reordered or invented -/
theorem step_log_sublist (c : Cfg) (s : St) (op : Op) :
    (contents c (step c s op).1).Sublist
      (contents c s ++ (match op with | .append x => accepted c x | _ => [])) := by
  cases op with
  | append x =>
    simp only [step, append, accepted]
    by_cases hs : (c.ignorespace && x.spc) = true
    · simp [hs]
    · rw [if_neg hs, if_neg hs]
      by_cases hb : (s.buffer ++ [x]).length ≥ c.bufsize
      · simp only [hb, if_true]
        rw [contents_flush]
        simp only [contents, List.append_assoc]
        exact (List.Sublist.refl _).append ((List.Sublist.refl _).append (dumpFilter_sublist c _ none))
      · simp only [hb, if_false]
        simp [contents, List.append_assoc]
  | flush =>
    simp only [step, List.append_nil]
    rw [contents_flush]
    simp only [contents]
    exact (List.Sublist.refl _).append (dumpFilter_sublist c _ none)
  | flusherRuns => simp [step, contents_flusherRuns]
  | read i => simp [step, contents_read]

theorem C12_log_sublist (c : Cfg) (ops : List Op) :
    (contents c (run c init ops)).Sublist (appendedOf c ops) := by
  have : ∀ s, (contents c (run c s ops)).Sublist (contents c s ++ appendedOf c ops) := by
    induction ops with
    | nil => intro s; simp [run, appendedOf]
    | cons op rest ih =>
      intro s
      simp only [run]
      refine (ih _).trans ?_
      have h1 := step_log_sublist c s op
      cases op <;> simp only [appendedOf] <;>
        first
          | (rw [← List.append_assoc]; exact h1.append (List.Sublist.refl _))
          | (simp only [List.append_nil] at h1; exact h1.append (List.Sublist.refl _))
  simpa [contents, init] using this init

/-! ## len and indexing -/

/-- at quiescence (no flusher pending) `len` is the number of recorded commands and every index
below it reads the right command — for every reachable state, filters or not -/
theorem C12_quiescent_readback (c : Cfg) (s : St) (h : HInv s) (hq : s.queue = []) (i : Nat)
    (hi : i < size s) :
    size s = (s.file ++ s.buffer).length ∧ (readIdx c s i).2 = .val ((s.file ++ s.buffer)[i]'(by
      unfold size HInv at *; simp [hq] at h; simp; omega)) := by
  have hsz : size s = s.file.length + s.buffer.length := by
    unfold size HInv at *; simp [hq] at h; omega
  refine ⟨by simp [hsz], ?_⟩
  unfold readIdx
  simp only []
  have h0 : ¬ (size s = 0 ∨ i ≥ size s) := by omega
  simp only [h0, if_false]
  by_cases hb : size s - s.buffer.length ≤ i
  · simp only [hb, if_true]
    have hidx : i + s.buffer.length - size s < s.buffer.length := by omega
    have e : s.buffer[i + s.buffer.length - size s]? = some (s.buffer[i + s.buffer.length - size s]) :=
      List.getElem?_eq_getElem hidx
    rw [e]
    simp only []
    congr 1
    have hfi : s.file.length ≤ i := by omega
    rw [List.getElem_append_right hfi]
    congr 1
    omega
  · simp only [hb, if_false]
    have hd : drain c s = s := by simp [drain, hq]
    rw [hd]
    have hfi : i < s.file.length := by omega
    rw [List.getElem?_eq_getElem hfi]
    simp only []
    congr 1
    rw [List.getElem_append_left hfi]

/-- `drain` without filters: the file gains exactly the pending snapshots, nothing is skipped -/
theorem flusherRuns_nofilter (c : Cfg) (hc : NoFilter c) (s : St) :
    (flusherRuns c s).skipped = s.skipped ∧ (flusherRuns c s).buffer = s.buffer ∧ (flusherRuns c s).len = s.len := by
  unfold flusherRuns
  cases s.queue with
  | nil => simp
  | cons snap rest => simp [dumpFilter_id c hc]

theorem drain_aux_props (c : Cfg) (hc : NoFilter c) (l : List (List Cmd)) (s : St) (hl : l.length = s.queue.length) :
    let s' := l.foldl (fun st _ => flusherRuns c st) s
    s'.skipped = s.skipped ∧ s'.buffer = s.buffer ∧ s'.len = s.len ∧ s'.queue = [] := by
  induction l generalizing s with
  | nil =>
    have : s.queue = [] := by
      cases hq : s.queue with
      | nil => rfl
      | cons a b => simp [hq] at hl
    exact ⟨rfl, rfl, rfl, this⟩
  | cons a l ih =>
    simp only [List.foldl]
    have h1 := flusherRuns_nofilter c hc s
    have hq : (flusherRuns c s).queue.length = l.length := by
      unfold flusherRuns
      cases hq : s.queue with
      | nil => simp [hq] at hl
      | cons snap rest => simp [hq] at hl ⊢; omega
    obtain ⟨a1, a2, a3, a4⟩ := ih (flusherRuns c s) hq.symm
    exact ⟨a1.trans h1.1, a2.trans h1.2.1, a3.trans h1.2.2, a4⟩

/-- PARTIAL (no ignoredups / ignoreerr): `len(history)` and indexing are mutually consistent at
EVERY reachable state — flushes in flight included: no index below `len` ever raises -/
theorem C12_len_index_consistent_partial (c : Cfg) (hc : NoFilter c) (s : St) (h : HInv s)
    (hsk : s.skipped = 0) (i : Nat) (hi : i < size s) : (readIdx c s i).2 ≠ .indexError := by
  unfold readIdx
  simp only []
  have h0 : ¬ (size s = 0 ∨ i ≥ size s) := by omega
  simp only [h0, if_false]
  have hle : s.buffer.length ≤ size s := by unfold size HInv at *; omega
  by_cases hb : size s - s.buffer.length ≤ i
  · simp only [hb, if_true]
    have hidx : i + s.buffer.length - size s < s.buffer.length := by omega
    rw [List.getElem?_eq_getElem hidx]
    simp
  · simp only [hb, if_false]
    obtain ⟨d1, d2, d3, d4⟩ := drain_aux_props c hc s.queue s rfl
    have hinv := drain_inv c s h
    unfold drain at hinv ⊢
    have hfl : i < (s.queue.foldl (fun st _ => flusherRuns c st) s).file.length := by
      unfold HInv at hinv
      rw [d1, d2, d3, d4, hsk] at hinv
      unfold size at hb hi
      simp at hinv
      omega
    rw [List.getElem?_eq_getElem hfl]
    simp

/-- KNOWN FINDING `len-counts-commands-a-pending-flush-will-drop`: buffer size 4, ignoredups; after
appending a a a b c one flusher is pending, `len` is 5, and reading index 3 raises IndexError -/
theorem C12_cex_len_index :
    let c : Cfg := ⟨4, true, false, false⟩
    let s := run c init [.append ⟨1, 0, false⟩, .append ⟨1, 0, false⟩, .append ⟨1, 0, false⟩,
      .append ⟨2, 0, false⟩, .append ⟨3, 0, false⟩]
    size s = 5 ∧ (readIdx c s 3).2 = .indexError := by
  decide

example : NoFilter ⟨3, false, false, true⟩ := ⟨rfl, rfl⟩
example : HInv (run ⟨2, true, true, false⟩ init [.append ⟨1, 0, false⟩, .append ⟨1, 1, false⟩, .flusherRuns]) :=
  C12_accounting _ _


/-! ## the self-indexing JSON file: every index entry addresses exactly its node -/

/-- C12 (read-back): for EVERY JSON value — any nesting, any leaf texts, any keys — every node's
index entry `(offset, size)` produced by `_to_json_with_size` cuts out of the serialised text
exactly the node's own serialisation.  So a lazy read of any command, field or list element of a
history file returns the text that was written for it, whatever else the file holds. -/
theorem C12_lazyjson_addressing (v : LJ.J) (d : LJ.J) (o s : Nat)
    (h : (d, o, s) ∈ LJ.nodes v (LJ.ser v 0).offs (LJ.ser v 0).sizes) :
    LJ.slice (LJ.ser v 0).text o s = (LJ.ser d 0).text := by
  have := (LJ.nodes_located v 0 d o s h).2.2
  simpa using this

/-- …and the entries never reach outside the text -/
theorem C12_lazyjson_in_bounds (v : LJ.J) (d : LJ.J) (o s : Nat)
    (h : (d, o, s) ∈ LJ.nodes v (LJ.ser v 0).offs (LJ.ser v 0).sizes) :
    o + s ≤ (LJ.ser v 0).text.length := by
  have := (LJ.nodes_located v 0 d o s h).2.1
  simpa using this

/-- non-vacuity: a nested value has inner nodes at non-zero offsets, and they are in `nodes` -/
example :
    let v : LJ.J := .obj [("\"a\"".toList, .arr [.leaf "1".toList, .leaf "\"xy\"".toList]), ("\"b\"".toList, .leaf "null".toList)]
    (LJ.nodes v (LJ.ser v 0).offs (LJ.ser v 0).sizes).map (fun n => (n.2.1, n.2.2)) = [(0, 29), (6, 10), (7, 1), (10, 4), (23, 4)] ∧
    String.ofList (LJ.ser v 0).text = "{\"a\": [1, \"xy\"]\n, \"b\": null}\n" := by decide
