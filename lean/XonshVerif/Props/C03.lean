import XonshVerif.Lemmas.TrySkel
import XonshVerif.Lemmas.LogicalLine
import XonshVerif.Gen.TryParse
import XonshVerif.Lemmas.Wrap
/-
C03 — "A bare command line means exactly its explicit `![...]` form, everywhere. Detection always terminates."

PARTIAL.  The equivalence clause depends on the LALR parser's error locations and is searched differentially
(xv/props/c03.py), not proved.  Proved here:
  (1) termination of the recovery loop, for every input and every behaviour of the opaque parts, from the control
      skeleton regenerated from xonsh/execer.py (Gen/TryParse.lean) and the generic lemma of Lemmas/TrySkel.lean;
  (2) logical-line reconstruction (get_logical_line / replace_logical_line);
  (3) the wrap operation at the end of subproc_toks.
-/
open TrySkel

-- ============================================================================ (1) detection always terminates

/-- For EVERY oracle `o` (parser verdicts, error locations, what subproc_toks / find_next_break return, which handler
matches — everything the skeleton abstracts) and every assignment `ci` of retry budgets not above `B`
(`len(input.splitlines()) * 2 + 10`), the whole context-free phase — the outer `_parse_ctx_free`, its two
`_try_parse` attempts, and the recursive `_parse_ctx_free(…, logical_input=True)` on logical lines — stops within the
budget (fuel `B+1` per loop is never exhausted), never enters a third recursion level, and calls `parser.parse` at most
`2·B·(1 + 2·B)` times.  Assumes only that each callee returns. -/
theorem C03_bounded_parses (o : Nat → Bool) (ci : Nat → Nat) (B : Nat) (hci : ∀ k, ci k ≤ B) :
    (parseOuter o ci Gen.TryParse.tryParseSkel Gen.TryParse.parserCall (B + 1)).1 ≠ .fuel ∧
    (parseOuter o ci Gen.TryParse.tryParseSkel Gen.TryParse.parserCall (B + 1)).1 ≠ .deeper ∧
    (parseOuter o ci Gen.TryParse.tryParseSkel Gen.TryParse.parserCall (B + 1)).2.1 ≤ 2 * B * (1 + 2 * B) := by
  have h := parseOuter_bound o ci Gen.TryParse.tryParseSkel Gen.TryParse.parserCall B hci Gen.TryParse.shape_ok
  rw [Gen.TryParse.per_round.1, Gen.TryParse.per_round.2] at h
  refine ⟨h.1, h.2.1, ?_⟩
  have := h.2.2
  simp only [Nat.mul_one, Nat.one_mul] at this
  rw [Nat.mul_assoc]
  exact this

/-- THE BUDGET IS ENOUGH FOR WELL-FORMED INPUT (the other side of the cap): the retry counter starts at `budget L`
(translated from the source, L = number of lines).  Every bare segment that is not valid Python costs one round of the loop and
the accepting parse one more, so an input of L lines with at most two such segments per line needs 2·L + 1 rounds — never more
than the budget.  Lowering the initial value (e.g. to `L + 10`) breaks this obligation. -/
theorem C03_budget_suffices (L : Nat) : 2 * L + 1 ≤ Gen.TryParse.budget L := Gen.TryParse.budget_ok L

/-- …and with that budget the bound of C03_bounded_parses is a function of the input's size alone -/
theorem C03_bounded_parses_of_lines (o : Nat → Bool) (ci : Nat → Nat) (L : Nat) (hci : ∀ k, ci k ≤ Gen.TryParse.budget L) :
    (parseOuter o ci Gen.TryParse.tryParseSkel Gen.TryParse.parserCall (Gen.TryParse.budget L + 1)).2.1
      ≤ 2 * Gen.TryParse.budget L * (1 + 2 * Gen.TryParse.budget L) :=
  (C03_bounded_parses o ci (Gen.TryParse.budget L) hci).2.2

example : Gen.TryParse.budget 10 ≥ 21 := by decide

/-- the outer function really is two attempts of `_try_parse` (what `ctxFree` models) -/
theorem C03_outer_shape :
    (Gen.TryParse.outerSkel == outerExpected && noRec Gen.TryParse.outerPre
      && maxCalls "_try_parse" Gen.TryParse.outerPre == 0) = true := Gen.TryParse.outer_ok

/-- non-vacuity: with a parser that never accepts and a budget of 12, the model makes 24 parser calls (two attempts of
12 rounds) and ends by raising — the bound is about real work, and the loop does end by the counter -/
example : parseOuter (fun _ => true) (fun _ => 12) Gen.TryParse.tryParseSkel Gen.TryParse.parserCall 13
    = (.raise, 24, (parseOuter (fun _ => true) (fun _ => 12) Gen.TryParse.tryParseSkel Gen.TryParse.parserCall 13).2.2) := by
  decide +kernel

-- what the shape obligation is sensitive to (hand-made miniatures of the loop) ------------------------------

def miniOk : Fn :=
  { ctr := "n", pre := .assign "n",
    body := .seq (.guardCtr "n") (.seq (.decCtr "n") (.tryExc (.call "p") (.ite false .cont .raise))), post := .ret }
/-- the decrement deleted -/
def miniNoDec : Fn := { miniOk with body := .seq (.guardCtr "n") (.tryExc (.call "p") (.ite false .cont .raise)) }
/-- the decrement moved below a `continue` -/
def miniDecAfterContinue : Fn :=
  { miniOk with body := .seq (.guardCtr "n") (.seq (.tryExc (.call "p") (.ite false .cont .raise)) (.decCtr "n")) }
/-- the counter assigned in the body -/
def miniAssign : Fn :=
  { miniOk with body := .seq (.guardCtr "n") (.seq (.decCtr "n") (.seq (.assign "n") (.call "p"))) }
/-- the recursion no longer guarded by `not logical_input` -/
def miniUnguarded : Fn :=
  { miniOk with body := .seq (.guardCtr "n") (.seq (.decCtr "n") (.ite false (.seq .recCall .cont) (.call "p"))) }

example : shapeOk miniOk "p" = true := by decide
example : shapeOk miniNoDec "p" = false := by decide
example : shapeOk miniDecAfterContinue "p" = false := by decide
example : shapeOk miniAssign "p" = false := by decide
example : shapeOk miniUnguarded "p" = false := by decide

/-- WHY the shape matters (counterexample to the bound without it): with the decrement below a `continue`, a parser
that always fails and a handler that always continues keep the loop running: fuel 1000 is exhausted with a budget of 3 -/
theorem C03_shape_needed_cex :
    (runFn { o := fun k => k % 3 != 2, ci := fun _ => 3, logical := false,
             recf := fun p k => (.normal, p, k), ctrName := "n", parseName := "p" }
       miniDecAfterContinue 1000 0 0).1 = .fuel := by
  decide +kernel

-- ============================================================================ (2) logical lines
open LogicalLine in
/-- `get_logical_line(lines, idx)` for `idx < len(lines)`: the window lies inside the list and starts at or before idx -/
theorem C03_get_bounds (sc : Scan) (ls : List Line) (idx : Nat) (h : idx < ls.length) :
    (getLogical sc ls idx).2.2 ≤ idx ∧ 1 ≤ (getLogical sc ls idx).2.1 ∧
      (getLogical sc ls idx).2.2 + (getLogical sc ls idx).2.1 ≤ ls.length :=
  LogicalLine.get_bounds sc ls idx h

open LogicalLine in
/-- When the two scans agree — the backward test on physical line k and the forward test on the accumulated text ending
with line k both say `link k` — the window is THE maximal run of linked lines containing idx: every line of the window
but the last is linked to its successor, the line before the window is not linked to it, the last line of the window
is not linked to what follows (or the list ends), and idx is inside. -/
theorem C03_get_window (sc : Scan) (ls : List Line) (idx : Nat) (link : Nat → Bool) (h : idx < ls.length)
    (hb : ∀ k, backTest sc ls k = link k)
    (hf : ∀ m, joins sc (accLine sc ls (backStart sc ls idx) m) = link (backStart sc ls idx + m)) :
    let start := (getLogical sc ls idx).2.2
    let n := (getLogical sc ls idx).2.1
    start ≤ idx ∧ idx < start + n ∧ (∀ k, start ≤ k → k + 1 < start + n → link k = true) ∧
      (start = 0 ∨ link (start - 1) = false) ∧ (start + n = ls.length ∨ link (start + n - 1) = false) :=
  LogicalLine.get_window sc ls idx link h hb hf

open LogicalLine in
/-- …and they need not agree: a scan that looks at quotes and comments can call physical line 1 continued on its own
(its `#` sits after an odd quote) while the accumulated text (quote closed) ends in a comment — the window returned for
idx = 2 is [0, 2) and does NOT contain idx.  (The real scanners do this on `)"f\`, ` "# c \`, `` — seen in the
correspondence stream; the execer's next round happens to repair it.) -/
theorem C03_get_window_cex :
    let sc : Scan := { cont := fun l => l.getLast? == some '\\' && (l.count '"' % 2 == 1 || !l.contains '#'), open3 := fun _ => false }
    let ls : List Line := ["x\"\\".toList, "\"#\\".toList, "c".toList]
    (getLogical sc ls 2).2.2 = 0 ∧ (getLogical sc ls 2).2.1 = 2 := by
  decide

open LogicalLine in
/-- `replace_logical_line(lines, logical, idx, n)` for a window inside the list and a logical line without a newline:
the list keeps its length, nothing outside the window changes, and the pieces written into the window, with the
continuation characters that were appended removed, concatenate to exactly `logical` — no character of the (wrapped)
logical line is lost or duplicated. -/
theorem C03_replace_content (ls : List Line) (logical : Line) (idx n : Nat) (hn : 2 ≤ n)
    (hnl : logical.contains '\n' = false) (hin : idx + n ≤ ls.length) :
    ∃ (ps : List (Line × Bool)) (last : Line),
      replaceLogical ls logical idx n = some (ls.take idx ++ ps.map renderPiece ++ [last] ++ ls.drop (idx + n)) ∧
      ps.length = n - 1 ∧ (ps.map Prod.fst).flatten ++ last = logical ∧
      (ls.take idx ++ ps.map renderPiece ++ [last] ++ ls.drop (idx + n)).length = ls.length :=
  LogicalLine.replace_content ls logical idx n hn hnl hin

open LogicalLine in
/-- the `n = 1` and the newline cases are plain splices -/
theorem C03_replace_single (ls : List Line) (logical : Line) (idx : Nat) (h : idx < ls.length) :
    replaceLogical ls logical idx 1 = some (ls.set idx logical) := by
  simp [replaceLogical, h]

open LogicalLine in
/-- replacing a window by what the continuation-join of that window gives is the IDENTITY when every continued line is
followed by text starting with a blank (the usual layout `cmd a \⏎  b`) -/
theorem C03_replace_get (ws : List Line) (last : Line) (h : SplitsBack ws last) :
    pieces (ws.map List.length) (glue ws last) = (ws.map (fun l => (l.dropLast, true)), last) ∧
      (ws.map (fun l => renderPiece (l.dropLast, true))) = ws :=
  LogicalLine.replace_get ws last h

open LogicalLine in
/-- …and is NOT the identity otherwise: `a\⏎b c` comes back as `ab\⏎ c` (same logical text, different split) -/
theorem C03_replace_get_cex :
    replaceLogical ["a\\".toList, "b c".toList] (getLogical { cont := fun l => l.getLast? == some '\\', open3 := fun _ => false }
        ["a\\".toList, "b c".toList] 0).1 0 2
      = some ["ab\\".toList, " c".toList] := by
  decide

-- ============================================================================ (3) the wrap
open Wrap in
/-- erasing the inserted `![` and `]` gives the line back; the wrapped part ends at or before the raw end offset and
inside the line -/
theorem C03_wrap_preserves (line : Line) (beg e0 : Nat) (h : beg ≤ endOf line e0) :
    erase (wrap line beg e0) beg (endOf line e0) = line ∧ endOf line e0 ≤ e0 ∧ endOf line e0 ≤ line.length ∧
      wrap line beg e0 = line.take beg ++ ['!', '['] ++ (line.drop beg).take (endOf line e0 - beg) ++ [']'] ++ line.drop (endOf line e0) :=
  Wrap.wrap_preserves line beg e0 h

open Wrap in
/-- no token is split: with `beg` the start of token i and the raw end the (blank-free) end of token j ≥ i of a
non-overlapping token list, the right-strip does not move the end, every earlier token lies left of the wrap, tokens
i…j lie inside it, every later token lies right of it -/
theorem C03_wrap_no_split (line : Line) (toks : List Tok) (hs : toks.Pairwise (fun a b => a.stop ≤ b.pos))
    (i j : Nat) (hij : i ≤ j) (hj : j < toks.length)
    (hne : 0 < (toks[j]).len) (hin : (toks[j]).stop ≤ line.length)
    (hnb : ∀ c, line[(toks[j]).stop - 1]? = some c → isSpace c = false) :
    endOf line (toks[j]).stop = (toks[j]).stop ∧
      ∀ k (hk : k < toks.length),
        (k < i → (toks[k]).stop ≤ (toks[i]'(by omega)).pos) ∧
        (i ≤ k → k ≤ j → (toks[i]'(by omega)).pos ≤ (toks[k]).pos ∧ (toks[k]).stop ≤ endOf line (toks[j]).stop) ∧
        (j < k → endOf line (toks[j]).stop ≤ (toks[k]).pos) :=
  Wrap.wrap_no_split line toks hs i j hij hj hne hin hnb

/-- non-vacuity of the wrap theorems: `  ls -l; x` with the tokens `ls`, `-l`, `;`, `x`, wrapping tokens 0…1 -/
example : Wrap.wrap "  ls -l; x".toList 2 7 = "  ![ls -l]; x".toList := by decide
example : Wrap.erase (Wrap.wrap "  ls -l ; x".toList 2 8) 2 (Wrap.endOf "  ls -l ; x".toList 8) = "  ls -l ; x".toList := by decide
/-- the hypothesis `beg ≤ end` is needed: a window that ends before its first token (raw end = beg, blanks before it)
inserts an empty `![]` and duplicates nothing only by luck — here erase does not give the line back -/
example : Wrap.wrap "a  b".toList 3 3 = "a  ![]  b".toList := by decide
