/-
C20 — The job table is always consistent with the processes it tracks.
Theorems over the hand-written model `Jobs` (tied to xonsh/procs/jobs.py by the correspondence
stream of xv/props/c20.py).  All statements quantify over every table / every op sequence.
-/
import XonshVerif.Model.Jobs
import XonshVerif.Gen.JobsReg
open Jobs

/-! ## helper facts -/

theorem keys_filter_sublist (jobs : List (Nat × Job)) (p : Nat × Job → Bool) :
    ((jobs.filter p).map (·.1)).Sublist (jobs.map (·.1)) :=
  (List.filter_sublist).map _

theorem mem_keys_iff (t : Table) (n : Nat) : n ∈ t.keys ↔ ∃ j, (n, j) ∈ t.jobs := by
  unfold Table.keys
  constructor
  · intro h; obtain ⟨⟨a, j⟩, hm, rfl⟩ := List.mem_map.mp h; exact ⟨j, hm⟩
  · intro ⟨j, hm⟩; exact List.mem_map.mpr ⟨(n, j), hm, rfl⟩

theorem lookup_of_mem (jobs : List (Nat × Job)) (hn : (jobs.map (·.1)).Nodup) (n : Nat) (j : Job)
    (h : (n, j) ∈ jobs) : jobs.lookup n = some j := by
  induction jobs with
  | nil => cases h
  | cons p ps ih =>
    obtain ⟨a, b⟩ := p
    simp only [List.map_cons, List.nodup_cons] at hn
    rcases List.mem_cons.mp h with heq | hmem
    · cases heq; simp [List.lookup]
    · have hne : n ≠ a := by
        intro e; subst e
        exact hn.1 (List.mem_map.mpr ⟨(n, j), hmem, rfl⟩)
      simp only [List.lookup]
      have : (n == a) = false := by simpa using hne
      rw [this]; exact ih hn.2 hmem

theorem lookup_none_of_not_mem (jobs : List (Nat × Job)) (n : Nat) (h : n ∉ jobs.map (·.1)) :
    jobs.lookup n = none := by
  induction jobs with
  | nil => rfl
  | cons p ps ih =>
    obtain ⟨a, b⟩ := p
    simp only [List.map_cons, List.mem_cons, not_or] at h
    have : (n == a) = false := by simpa using h.1
    simp only [List.lookup, this]; exact ih h.2

theorem lookup_some_mem (jobs : List (Nat × Job)) (n : Nat) (j : Job) (h : jobs.lookup n = some j) :
    (n, j) ∈ jobs := by
  induction jobs with
  | nil => cases h
  | cons p ps ih =>
    obtain ⟨a, b⟩ := p
    simp only [List.lookup] at h
    by_cases e : n = a
    · subst e; simp at h; subst h; simp
    · have : (n == a) = false := by simpa using e
      rw [this] at h; exact List.mem_cons_of_mem _ (ih h)

/-! ## `get_next_job_number` — lowest free number, starting at 1 -/

theorem nextFrom_spec (keys : List Nat) (i : Nat) :
    nextFrom keys i ∉ keys ∧ i ≤ nextFrom keys i ∧ ∀ j, i ≤ j → j < nextFrom keys i → j ∈ keys := by
  fun_induction nextFrom keys i with
  | case1 i h ih =>
    refine ⟨ih.1, by omega, ?_⟩
    intro j h1 h2
    by_cases e : j = i
    · subst e; exact h
    · exact ih.2.2 j (by omega) h2
  | case2 i h => exact ⟨h, by omega, by intro j h1 h2; omega⟩

/-- `add_job` hands out the lowest free number ≥ 1 among the live jobs -/
theorem C20_lowest_free (t : Table) (b r : Bool) :
    let live := clearDead t
    let num := (addJob t b r).2
    num ∉ live.keys ∧ 1 ≤ num ∧ ∀ j, 1 ≤ j → j < num → j ∈ live.keys := by
  simp only [addJob, nextNum]
  exact nextFrom_spec _ 1

/-! ## the invariant is preserved by every operation -/

theorem mem_clearDead_tasks (t : Table) (n : Nat) :
    n ∈ (clearDead t).tasks ↔ n ∈ t.tasks ∧ isDead t n = false := by
  simp [clearDead]

theorem clearDead_inv (t : Table) (h : TInv t) : TInv (clearDead t) := by
  obtain ⟨h1, h2, h3, h4⟩ := h
  have hsub : (clearDead t).keys.Sublist t.keys := by
    unfold Table.keys clearDead; exact keys_filter_sublist _ _
  refine ⟨h1.sublist List.filter_sublist, h2.sublist hsub, ?_, fun n hn => h4 n (hsub.subset hn)⟩
  intro n
  rw [mem_clearDead_tasks]
  constructor
  · intro ⟨hn, hd⟩
    obtain ⟨j, hj⟩ := (mem_keys_iff t n).mp ((h3 n).mp hn)
    apply (mem_keys_iff _ n).mpr
    refine ⟨j, ?_⟩
    simp only [clearDead, List.mem_filter]
    exact ⟨hj, by simp [hd]⟩
  · intro hn
    obtain ⟨j, hj⟩ := (mem_keys_iff _ n).mp hn
    simp only [clearDead, List.mem_filter] at hj
    have hk : n ∈ t.keys := (mem_keys_iff t n).mpr ⟨j, hj.1⟩
    have ht : n ∈ t.tasks := (h3 n).mpr hk
    refine ⟨ht, ?_⟩
    have := hj.2
    simp only [Bool.not_eq_true', Bool.and_eq_false_iff] at this
    rcases this with hc | hd
    · simp [ht] at hc
    · exact hd

theorem keys_map_fst (jobs : List (Nat × Job)) (f : Nat × Job → Nat × Job) (hf : ∀ p, (f p).1 = p.1) :
    (jobs.map f).map (·.1) = jobs.map (·.1) := by
  induction jobs with
  | nil => rfl
  | cons p ps ih => simp [hf, ih]

theorem die_keys (t : Table) (n : Nat) : (die t n).keys = t.keys := by
  unfold die Table.keys
  apply keys_map_fst; intro p; split <;> rfl

theorem stop_keys (t : Table) (n : Nat) : (stop t n).keys = t.keys := by
  unfold stop Table.keys
  apply keys_map_fst; intro p; split <;> rfl

theorem setJob_keys (jobs : List (Nat × Job)) (n : Nat) (f : Job → Job) :
    (setJob jobs n f).map (·.1) = jobs.map (·.1) := by
  unfold setJob
  apply keys_map_fst; intro p; split <;> rfl

theorem die_inv (t : Table) (n : Nat) (h : TInv t) : TInv (die t n) := by
  unfold TInv; rw [die_keys]; exact h

theorem stop_inv (t : Table) (n : Nat) (h : TInv t) : TInv (stop t n) := by
  unfold TInv; rw [stop_keys]; exact h

theorem addJob_inv (t : Table) (b r : Bool) (h : TInv t) : TInv (addJob t b r).1 := by
  have hc := clearDead_inv t h
  obtain ⟨h1, h2, h3, h4⟩ := hc
  have hs := nextFrom_spec (clearDead t).keys 1
  simp only [addJob, nextNum]
  refine ⟨?_, ?_, ?_, ?_⟩
  · exact List.nodup_cons.mpr ⟨fun hm => hs.1 ((h3 _).mp hm), h1⟩
  · simp only [Table.keys, List.map_append, List.map_cons, List.map_nil]
    apply List.nodup_append.mpr
    refine ⟨h2, by simp, ?_⟩
    intro a ha b hb
    simp at hb; subst hb
    intro e; subst e; exact hs.1 ha
  · intro n
    simp only [Table.keys, List.map_append, List.map_cons, List.map_nil, List.mem_cons, List.mem_append,
      List.mem_singleton, List.not_mem_nil, or_false]
    have := h3 n
    unfold Table.keys at this
    constructor
    · rintro (e | hm)
      · exact Or.inr e
      · exact Or.inl (this.mp hm)
    · rintro (hm | e)
      · exact Or.inr (this.mpr hm)
      · exact Or.inl e
  · intro n hn
    simp only [Table.keys, List.map_append, List.map_cons, List.map_nil, List.mem_append,
      List.mem_singleton] at hn
    rcases hn with hm | e
    · exact h4 n hm
    · subst e; exact hs.2.1

theorem toFront_inv (t : Table) (tid : Nat) (jobs' : List (Nat × Job)) (h : TInv t) (hm : tid ∈ t.tasks)
    (hk : jobs'.map (·.1) = t.keys) : TInv ⟨jobs', toFront t.tasks tid⟩ := by
  obtain ⟨h1, h2, h3, h4⟩ := h
  have hk' : (Table.mk jobs' (toFront t.tasks tid)).keys = t.keys := hk
  refine ⟨?_, ?_, ?_, ?_⟩
  · simp only [toFront]
    exact List.nodup_cons.mpr ⟨fun hx => ((h1.mem_erase_iff).mp hx).1 rfl, h1.erase _⟩
  · rw [hk']; exact h2
  · intro n
    rw [hk', ← h3 n]
    simp only [toFront, List.mem_cons]
    rw [h1.mem_erase_iff]
    constructor
    · rintro (e | ⟨_, hn⟩)
      · subst e; exact hm
      · exact hn
    · intro hn
      by_cases e : n = tid
      · exact Or.inl e
      · exact Or.inr ⟨e, hn⟩
  · intro n hn; rw [hk'] at hn; exact h4 n hn

theorem select_mem (t : Table) (a : Arg) (tid : Nat) (h : TInv t) (hs : select t a = .ok tid) :
    tid ∈ t.tasks := by
  obtain ⟨h1, h2, h3, h4⟩ := h
  unfold select at hs
  split at hs
  · split at hs
    · cases hs; simp_all
    · cases hs
  · split at hs
    · split at hs
      · cases hs; simp_all
      · cases hs
    · cases hs
  · split at hs
    · split at hs
      · cases hs; simp_all
      · cases hs
    · cases hs
  · split at hs
    · rename_i hc
      cases hs
      exact (h3 _).mpr (by simpa using hc.2)
    · cases hs
  · cases hs
  · cases hs

theorem resume_inv (t : Table) (a : Arg) (b : Bool) (h : TInv t) : TInv (resume t a b).1 := by
  have hc := clearDead_inv t h
  unfold resume
  simp only []
  split
  · exact hc
  · split
    · exact hc
    · rename_i tid hs
      exact toFront_inv (clearDead t) tid _ hc (select_mem _ a tid hc hs) (setJob_keys _ _ _)

theorem disownLoop_inv (t : Table) (ids : List Int) (h : TInv t) : TInv (disownLoop t ids).1 := by
  induction ids generalizing t with
  | nil => exact h
  | cons i rest ih =>
    unfold disownLoop
    split
    · apply ih
      obtain ⟨h1, h2, h3, h4⟩ := h
      have hsub : ((t.jobs.filter (fun p => p.1 ≠ i.toNat)).map (·.1)).Sublist t.keys :=
        keys_filter_sublist _ _
      refine ⟨h1.erase _, h2.sublist hsub, ?_, fun n hn => h4 n (hsub.subset hn)⟩
      intro n
      rw [h1.mem_erase_iff, h3 n]
      simp only [Table.keys, List.mem_map, List.mem_filter]
      constructor
      · rintro ⟨hne, ⟨p, hp, rfl⟩⟩
        exact ⟨p, ⟨hp, by simpa using hne⟩, rfl⟩
      · rintro ⟨p, ⟨hp, hne⟩, rfl⟩
        exact ⟨by simpa using hne, ⟨p, hp, rfl⟩⟩
    · exact h

theorem disown_inv (t : Table) (ids : List Int) (h : TInv t) : TInv (disown t ids).1 := by
  unfold disown
  split
  · exact h
  · exact disownLoop_inv t _ h

theorem nextTask_inv (t : Table) (h : TInv t) : TInv (nextTask t).1 := by
  have hc := clearDead_inv t h
  unfold nextTask
  simp only []
  split
  · exact hc
  · rename_i tid hf
    exact toFront_inv (clearDead t) tid _ hc (List.mem_of_find?_eq_some hf) rfl

theorem stepTable_inv (t : Table) (op : Op) (h : TInv t) : TInv (stepTable t op).1 := by
  cases op with
  | add b r => exact addJob_inv t b r h
  | die n => exact die_inv t n h
  | stop n => exact stop_inv t n h
  | fg a => exact resume_inv t a false h
  | bg a => exact resume_inv t a true h
  | disown ids => exact disown_inv t ids h
  | jobs => exact clearDead_inv t h
  | nextTask => exact nextTask_inv t h
  | clean => exact clearDead_inv t h

def AllInv (s : State) : Prop := TInv s.main ∧ ∀ w ∈ s.workers, TInv w

theorem step_inv (s : State) (owner : Nat) (op : Op) (h : AllInv s) : AllInv (step s owner op).1 := by
  unfold step
  split
  · exact ⟨stepTable_inv _ _ h.1, h.2⟩
  · split
    · exact h
    · rename_i w hw
      refine ⟨h.1, ?_⟩
      intro w' hw'
      rcases List.mem_or_eq_of_mem_set hw' with hm | he
      · exact h.2 w' hm
      · subst he
        exact stepTable_inv _ _ (h.2 w (List.mem_of_getElem? hw))

/-- C20 (main theorem): after ANY sequence of job starts, exits, stops and job-control commands,
issued from the main thread or from alias threads, in every table the MRU order is duplicate-free,
job numbers are unique and ≥ 1, and the MRU order holds exactly the registered jobs. -/
theorem C20_inv (s : State) (ops : List (Nat × Op)) (h : AllInv s) : AllInv (run s ops) := by
  induction ops generalizing s with
  | nil => exact h
  | cons x rest ih =>
    obtain ⟨o, op⟩ := x
    exact ih _ (step_inv s o op h)

theorem empty_inv : TInv Jobs.empty := by
  refine ⟨List.nodup_nil, ?_, ?_, ?_⟩ <;> simp [Jobs.empty, Table.keys]

/-- from a fresh session (no jobs anywhere) -/
theorem C20_inv_from_start (nworkers : Nat) (ops : List (Nat × Op)) :
    AllInv (run ⟨Jobs.empty, List.replicate nworkers Jobs.empty⟩ ops) := by
  apply C20_inv
  exact ⟨empty_inv, fun w hw => by rw [List.eq_of_mem_replicate hw]; exact empty_inv⟩

/-- the MRU order is a permutation of exactly the registered job numbers -/
theorem C20_mru_is_perm (t : Table) (h : TInv t) : t.tasks.Perm t.keys :=
  (List.perm_ext_iff_of_nodup h.1 h.2.1).mpr h.2.2.1

/-- every job appears exactly once, in both structures -/
theorem C20_once (t : Table) (h : TInv t) (n : Nat) (hn : n ∈ t.keys) :
    t.tasks.count n = 1 ∧ t.keys.count n = 1 :=
  ⟨by rw [h.1.count]; simp [(h.2.2.1 n).mpr hn], by rw [h.2.1.count]; simp [hn]⟩

/-! ## finished jobs disappear -/

/-- after any purging operation no dead job is left in either structure -/
theorem C20_dead_gone (t : Table) (h : TInv t) :
    (∀ p ∈ (clearDead t).jobs, p.2.alive = true) ∧
    (∀ n ∈ (clearDead t).tasks, ∃ j, (clearDead t).get? n = some j ∧ j.alive = true) := by
  obtain ⟨h1, h2, h3, h4⟩ := h
  have alive_of : ∀ n j, (n, j) ∈ t.jobs → isDead t n = false → j.alive = true := by
    intro n j hj hd
    have := lookup_of_mem t.jobs h2 n j hj
    simp [isDead, Table.get?, this] at hd
    exact hd
  constructor
  · intro p hp
    simp only [clearDead, List.mem_filter] at hp
    obtain ⟨n, j⟩ := p
    have hk : n ∈ t.tasks := (h3 n).mpr ((mem_keys_iff t n).mpr ⟨j, hp.1⟩)
    have hd : isDead t n = false := by
      have := hp.2; simp [hk] at this; exact this
    exact alive_of n j hp.1 hd
  · intro n hn
    have hc := clearDead_inv t ⟨h1, h2, h3, h4⟩
    obtain ⟨j, hj⟩ := (mem_keys_iff _ n).mp ((hc.2.2.1 n).mp hn)
    refine ⟨j, lookup_of_mem _ hc.2.1 n j hj, ?_⟩
    simp only [clearDead, List.mem_filter] at hj
    exact alive_of n j hj.1 ((mem_clearDead_tasks t n).mp hn).2

/-- a purge never removes a live job -/
theorem C20_live_kept (t : Table) (h : TInv t) (n : Nat) (j : Job) (hj : (n, j) ∈ t.jobs)
    (ha : j.alive = true) : (n, j) ∈ (clearDead t).jobs ∧ n ∈ (clearDead t).tasks := by
  have hl := lookup_of_mem t.jobs h.2.1 n j hj
  have hd : isDead t n = false := by simp [isDead, Table.get?, hl, ha]
  constructor
  · simp only [clearDead, List.mem_filter]; exact ⟨hj, by simp [hd]⟩
  · exact (mem_clearDead_tasks t n).mpr ⟨(h.2.2.1 n).mpr ((mem_keys_iff t n).mpr ⟨j, hj⟩), hd⟩

/-! ## selection, MRU update, errors -/

/-- no argument / `+` select the most recently used job, `-` the second, a number that job -/
theorem C20_select (t : Table) (x y : Nat) (rest : List Nat) (h : TInv t) (ht : t.tasks = x :: y :: rest) :
    select t .none = .ok x ∧ select t .plus = .ok x ∧ select t .minus = .ok y ∧
    (∀ n : Nat, n ∈ t.keys → select t (.num n) = .ok n) ∧
    (∀ n : Int, (n < 0 ∨ n.toNat ∉ t.keys) → select t (.num n) = .error .invalid) ∧
    select t .bad = .error .invalid ∧ select t .many = .error .arity := by
  have hx : x ∈ t.keys := (h.2.2.1 x).mp (by simp [ht])
  have hy : y ∈ t.keys := (h.2.2.1 y).mp (by simp [ht])
  refine ⟨by simp [select, ht], by simp [select, ht, hx], by simp [select, ht, hy], ?_, ?_, rfl, rfl⟩
  · intro n hn; simp [select, hn]
  · intro n hn
    simp only [select]
    rcases hn with hn | hn
    · have : ¬ (n ≥ 0 ∧ t.keys.contains n.toNat = true) := by intro ⟨a, _⟩; omega
      rw [if_neg this]
    · have : ¬ (n ≥ 0 ∧ t.keys.contains n.toNat = true) := by intro ⟨_, b⟩; exact hn (by simpa using b)
      rw [if_neg this]

/-- with a single job, `-` is an error (IndexError branch) -/
theorem C20_select_minus_single (t : Table) (x : Nat) (ht : t.tasks = [x]) :
    select t .minus = .error .invalid := by
  simp [select, ht]

/-- a successful fg/bg moves the selected job to the front and keeps the relative order of the rest -/
theorem C20_mru (t : Table) (a : Arg) (b : Bool) (tid : Nat) (h : (resume t a b).2 = .ok tid) :
    (resume t a b).1.tasks = tid :: (clearDead t).tasks.erase tid ∧
    ((clearDead t).tasks.erase tid).Sublist (clearDead t).tasks := by
  refine ⟨?_, List.erase_sublist⟩
  unfold resume at h ⊢
  simp only [] at h ⊢
  by_cases he : (clearDead t).tasks.isEmpty = true
  · simp [he] at h
  · simp only [he] at h ⊢
    cases hs : select (clearDead t) a with
    | error e =>
      simp only [hs] at h
      have hm := hs
      -- `select` never returns `.error (.ok _)`
      unfold select at hm
      subst h
      repeat' split at hm
      all_goals first | cases hm | skip
    | ok t' => simp [hs] at h; subst h; simp [toFront]

/-- an error return of fg/bg leaves the live part of the table exactly as the purge left it -/
theorem C20_error_unchanged (t : Table) (a : Arg) (b : Bool) (h : ∀ tid, (resume t a b).2 ≠ .ok tid) :
    (resume t a b).1 = clearDead t := by
  by_cases he : (clearDead t).tasks.isEmpty = true
  · simp [resume, he]
  · cases hs : select (clearDead t) a with
    | error e => simp [resume, he, hs]
    | ok tid => exact absurd (by simp [resume, he, hs]) (h tid)

/-- `disown` with at most one id: an error leaves the table untouched -/
theorem C20_disown_error_unchanged (t : Table) (i : Int) (h : (disown t [i]).2 = .invalid) :
    (disown t [i]).1 = t := by
  unfold disown at h ⊢
  cases ht : t.tasks with
  | nil => rfl
  | cons top rest =>
    simp only [ht, List.isEmpty_cons, Bool.false_eq_true, if_false] at h ⊢
    by_cases hc : 0 ≤ i ∧ i.toNat ∈ t.keys
    · have hc' : i ≥ 0 ∧ t.keys.contains i.toNat = true := ⟨hc.1, by simpa using hc.2⟩
      simp [disownLoop, hc'] at h
      simp [hc.2] at h
    · have hc' : ¬ (i ≥ 0 ∧ t.keys.contains i.toNat = true) := by
        intro ⟨a, b⟩; exact hc ⟨a, by simpa using b⟩
      unfold disownLoop
      rw [if_neg hc']

/-- a successful `disown n` removes exactly job `n` from both structures -/
theorem C20_disown_removes (t : Table) (n : Nat) (h : TInv t) (hn : n ∈ t.keys) :
    let t' := (disown t [(n : Int)]).1
    n ∉ t'.tasks ∧ n ∉ t'.keys ∧ ∀ m, m ≠ n → (m ∈ t'.tasks ↔ m ∈ t.tasks) := by
  have hne : t.tasks ≠ [] := by
    intro e; have := (h.2.2.1 n).mpr hn; simp [e] at this
  have hc : ((n : Int) ≥ 0 ∧ t.keys.contains ((n : Int).toNat) = true) := ⟨by omega, by simpa using hn⟩
  have e : (disown t [(n : Int)]).1 =
      { tasks := t.tasks.erase n, jobs := t.jobs.filter (fun p => p.1 ≠ n) } := by
    unfold disown
    cases ht : t.tasks with
    | nil => exact absurd ht hne
    | cons top rest =>
      simp only [List.isEmpty_cons, Bool.false_eq_true, if_false]
      rw [← ht]
      have hcn : t.keys.contains n = true := by simpa using hn
      simp [disownLoop, hcn, hn]
  simp only [e]
  refine ⟨?_, ?_, ?_⟩
  · intro hm; exact ((h.1.mem_erase_iff).mp hm).1 rfl
  · simp [Table.keys]
  · intro m hm; rw [h.1.mem_erase_iff]; simp [hm]

/-! ## non-vacuity -/

example : TInv ⟨[(1, ⟨false, true, true⟩), (3, ⟨true, false, true⟩), (2, ⟨true, true, false⟩)], [3, 1, 2]⟩ := by
  refine ⟨by decide, by decide, ?_, ?_⟩
  · intro n; simp [Table.keys]; omega
  · intro n; simp [Table.keys]; omega

example : (clearDead ⟨[(1, ⟨false, true, true⟩), (3, ⟨true, false, true⟩), (2, ⟨true, true, false⟩)], [3, 1, 2]⟩).tasks
    = [3, 1] := by decide

/-! ## registration of every pipeline that contains a real process (guard translated from /repo) -/

/-- `_run_command_pipeline` registers a pipeline iff it has a process object and at least one of its
stages is a real (non-proxy) process: mixed alias/process pipelines ARE registered, alias-only ones
are not — for every pipeline length and every mix of stage kinds. -/
theorem C20_registers (procIsSome : Bool) (isProxy : List Bool) :
    Gen.JobsReg.registers procIsSome isProxy = (procIsSome && isProxy.any (fun p => !p)) := by
  unfold Gen.JobsReg.registers
  congr 1
  induction isProxy with
  | nil => rfl
  | cons p ps ih =>
    simp only [List.all_cons, List.any_cons]
    cases p <;> simp_all

example : Gen.JobsReg.registers true [true, false] = true := by decide
example : Gen.JobsReg.registers true [true, true] = false := by decide
