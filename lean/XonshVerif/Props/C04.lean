/-
C04 — Arguments reach the command exactly as written — no hidden re-splitting.

Theorems over `Model/PyStr.lean` (Python string literals), `Model/Expand.lean` (expandvars / expand_path)
and `Model/Args.lean` (argument-list assembly and hand-off), tied to /repo by `translator/c04.py`
(`Gen/ArgTables.lean`, regenerated every run) and by the correspondence harness `xv/props/c04.py`
(real `Execer.exec`, a recording callable alias and a real child process).
-/
import XonshVerif.Model.Args
import XonshVerif.Lemmas.PyStr
import XonshVerif.Lemmas.Expand
import XonshVerif.Gen.ArgTables
open PyStr Expand Args

/-! ## the model reads the source that is there now (translated tables) -/

/-- `expandvars` is modelled for exactly this regular expression -/
theorem C04_src_envvar_regex :
    Gen.ArgTables.envvarPattern = Expand.modelledPattern ∧ Gen.ArgTables.envvarFlags = 32 := by decide

/-- `.strip()` of the macro text removes exactly the modelled characters -/
theorem C04_src_pyspace : Gen.ArgTables.pySpace = Args.pySpace := by decide

/-- the parser's atom rules: a string literal is `append`ed (raw: the node itself, non-raw: through
`expand_path`), `@(…)` is `extend`ed through `list_of_strs_or_callables`, `@!(…)` is `append`ed as it is,
a word is the outer product / glob (`extend`) or `expand_path` (`append`) -/
theorem C04_src_atom_actions :
    Gen.ArgTables.atomActions.lookup "p_subproc_atom_str" = some (["append"], ["__xonsh__.expand_path"]) ∧
    Gen.ArgTables.atomStr = ("hasattr(p[1], 'is_raw') and p[1].is_raw", "p0 = p[1]", ["__xonsh__.expand_path"]) ∧
    Gen.ArgTables.atomActions.lookup "p_subproc_atom_pyeval" = some (["extend"], ["__xonsh__.list_of_strs_or_callables"]) ∧
    Gen.ArgTables.atomActions.lookup "p_subproc_atom_pyeval_macro" = some (["append"], []) ∧
    Gen.ArgTables.atomActions.lookup "p_subproc_atom_arg" =
      some (["extend", "extend", "append"],
            ["__xonsh__.list_of_list_of_strs_outer_product", "__xonsh__.glob", "__xonsh__.expand_path"]) := by
  decide

/-- `_subproc_cliargs` understands these actions; only `append` keeps the current list literal open -/
theorem C04_src_cliarg_actions :
    Gen.ArgTables.cliargActions =
      [("append", ["binop", "currlist.elts.append", "empty_list"], false),
       ("extend", ["binop"], true),
       ("splitlines", ["binop", "call_split_lines"], true),
       ("ensure_list", ["binop", "ensure_list_from_str_or_list"], true)] := by decide

/-- the glob trigger, the `=` of the tilde rule and the NUL replacement are the modelled ones -/
theorem C04_src_constants :
    Gen.ArgTables.outerProductTriggers = ["*"] ∧ Gen.ArgTables.hasglobstarTriggers = ["*"] ∧
    Args.globTrigger = 42 ∧ Gen.ArgTables.expandPathPartition = ["="] ∧
    Gen.ArgTables.nullReplace = [([0], [92, 48])] ∧ (∀ s, Args.fixNull s = Args.replaceChar 0 [92, 48] s) := by
  refine ⟨by decide, by decide, rfl, by decide, by decide, fun _ => rfl⟩

/-! ## string literals -/

/-- ROUND TRIP: for EVERY string `s` (any code points up to U+10FFFF — NUL, lone surrogates, quotes,
backslash runs, newlines included), every quote style, plain and f-string text, and every choice of
which characters to hex-escape, the literal the harness writes evaluates to exactly `s`. -/
theorem C04_literal_roundtrip (f rawNl : Bool) (q : Quote) (choices : List Bool) (s : Str)
    (hv : validStr s) (hnl : rawNl = true → q.triple = true) :
    evalBody false f q (render f rawNl choices s) = some s := by
  unfold evalBody normNl
  rw [normNlGo_id _ (render_no13 f rawNl s choices)]
  exact run_render f rawNl q hnl s choices hv

example : evalBody false false .d1 (render false false [] [97, 34, 92, 10, 0, 56575, 119070]) =
    some [97, 34, 92, 10, 0, 56575, 119070] := by decide
example : render false false [false, true] [97, 98, 92] = [97, 92, 120, 54, 50, 92, 92] := by decide
example : evalBody false true .s3 (render true true [] [123, 10, 125]) = some [123, 10, 125] := by decide

/-- RAW literals: whatever a raw (non-f) literal evaluates to is its body, character for character
(after the reader's newline normalisation, which is the identity on text without CR) -/
theorem C04_raw_verbatim (q : Quote) (body v : Str) (h : evalBody true false q body = some v) :
    v = normNl body := by
  have := raw_run (mkCfg true false q) rfl rfl (normNl body) (.n 0) v trivial h
  simpa [owed] using this

theorem C04_raw_verbatim_noCR (q : Quote) (body v : Str) (hcr : ¬ 13 ∈ body)
    (h : evalBody true false q body = some v) : v = body := by
  rw [C04_raw_verbatim q body v h]
  exact normNlGo_id body hcr

example : evalBody true false .s1 [97, 92, 110, 92, 39, 36] = some [97, 92, 110, 92, 39, 36] := by decide
example : evalBody true false .s1 [97, 92] = none := by decide       -- r'a\' is not a literal

/-! ## the documented expansion -/

/-- a value with no `$` and no tilde-prefix is not touched by `expand_path`, whatever the environment,
the home directories and the two switches are -/
theorem C04_expand_id (e : Env) (s : Str) (hd : ¬ 36 ∈ s) (ht : tildePrefix e s = false) :
    expandPath e s = s := by
  have hv : (if e.expandVars = true then expandvars e s else s) = s := by
    split
    · exact expandGo_noDollar e s hd
    · rfl
  unfold expandPath
  simp only [hv]
  unfold tildePrefix at ht
  split
  · by_cases hc : s.contains 61 = true
    · simp only [hc, if_true] at ht ⊢
      simp only [Bool.or_eq_false_iff] at ht
      rw [expanduser_id e _ ht.1]
      rw [map_id_of_forall (expanduser e)]
      · rw [joinWith_splitOn]; exact take_drop_eq s hc
      · intro p hp
        apply expanduser_id
        have := ht.2
        simp only [List.any_eq_false] at this
        simpa using this p hp
    · simp only [hc] at ht ⊢
      exact expanduser_id e s (by simpa using ht)
  · rfl

/-- variables that are not set are left exactly as written -/
theorem C04_expandvars_unknown (e : Env) (hu : ∀ n, e.lookup n = none) (s : Str) : expandvars e s = s := by
  unfold expandvars
  rw [expandGo_unknown e hu s 0]; rfl

def demoEnv : Env :=
  { uniWord := fun _ => false
    lookup := fun n => if n = [72] then some [47, 114] else none      -- $H = "/r"
    home := fun n => if n = [] then some [47, 104] else none           -- ~ = "/h"
    expandVars := true, expandUser := true }

example : expandPath demoEnv [36, 72, 47, 120] = [47, 114, 47, 120] := by decide           -- "$H/x" -> "/r/x"
example : expandPath demoEnv [97, 61, 126, 58, 126, 47, 98] = [97, 61, 47, 104, 58, 47, 104, 47, 98] := by decide  -- a=~:~/b
example : expandPath demoEnv [36, 72, 72] = [36, 72, 72] := by decide                      -- "$HH": not set, unchanged
example : expandPath demoEnv [36, 123, 39, 72, 39, 125] = [47, 114] := by decide            -- "${'H'}"

/-! ## assembling the argument list -/

theorem weave_go (acts : List Act) : ∀ (w : Weave), w.chain ≠ [] →
    (acts.foldl weaveStep w).chain.flatten = w.chain.flatten ++ acts.flatMap Act.args := by
  induction acts with
  | nil => intro w _; simp
  | cons a as ih =>
    intro w hne
    simp only [List.foldl, List.flatMap_cons]
    cases a with
    | append x =>
      by_cases ho : w.open_ = true
      · simp only [weaveStep, ho, if_true]
        cases hr : w.chain.reverse with
        | nil => simp at hr; exact absurd hr hne
        | cons last before =>
          simp only []
          rw [ih _ (by simp)]
          have hc : w.chain = before.reverse ++ [last] := by
            have := congrArg List.reverse hr
            simpa using this
          simp [hc, Act.args]
      · simp only [weaveStep, ho]
        rw [ih _ (by simp)]
        simp [Act.args]
    | extend xs =>
      simp only [weaveStep]
      rw [ih _ (by simp)]
      simp [Act.args]

/-- `_subproc_cliargs` is plain concatenation: the `currlist` bookkeeping (keep appending to the open list
literal, start a new one after an `extend`) never loses, duplicates or reorders an element -/
theorem C04_weave_flat (acts : List Act) : weave acts = acts.flatMap Act.args := by
  unfold weave
  rw [weave_go acts ⟨[[]], true⟩ (by simp)]
  simp

theorem cliargs_eq (c : Cfg) (atoms : List Atom) (bang : Option (Bool × Str)) :
    cliargs c atoms bang = atoms.flatMap (fun a => (atomAct c a).args) ++ bangArg c bang := by
  unfold cliargs
  rw [C04_weave_flat, List.flatMap_map]

/-- a RAW literal is exactly one argument, verbatim -/
theorem C04_raw_one_arg (c : Cfg) (v : Str) : cliargs c [.lit true false v] none = [v] := by
  simp [cliargs_eq, atomAct, Act.args, bangArg]

/-- PARTIAL (raw f-strings): `fr"…"` is one verbatim argument when the f-string rule keeps `is_raw` … -/
theorem C04_raw_fstring_partial (c : Cfg) (v : Str) (h : c.fstrKeepsRaw = true) :
    cliargs c [.lit true true v] none = [v] := by
  simp [cliargs_eq, atomAct, Act.args, bangArg, h]

/-- a non-raw literal is exactly one argument: the documented expansion of its value … -/
theorem C04_nonraw_one_arg (c : Cfg) (f : Bool) (v : Str) :
    cliargs c [.lit false f v] none = [expandPath c.env v] := by
  simp [cliargs_eq, atomAct, Act.args, bangArg]

/-- … which is the value itself when it has no `$` and no tilde-prefix: never split at its spaces,
never globbed at its `*`, whatever it contains -/
theorem C04_nonraw_plain (c : Cfg) (f : Bool) (v : Str) (hd : ¬ 36 ∈ v) (ht : tildePrefix c.env v = false) :
    cliargs c [.lit false f v] none = [v] := by
  rw [C04_nonraw_one_arg, C04_expand_id c.env v hd ht]

theorem atomAct_lit (c : Cfg) (raw f : Bool) (v : Str) :
    atomAct c (.lit raw f v) = .append (if (raw && (!f || c.fstrKeepsRaw)) = true then v else expandPath c.env v) := by
  by_cases h : (raw && (!f || c.fstrKeepsRaw)) = true <;> simp only [atomAct, h] <;> rfl

/-- every literal, whatever its prefix, is exactly ONE argument in its place among the other atoms -/
theorem C04_literal_in_place (c : Cfg) (pre post : List Atom) (raw f : Bool) (v : Str) (bang : Option (Bool × Str)) :
    cliargs c (pre ++ [.lit raw f v] ++ post) bang =
      cliargs c pre none ++ [if (raw && (!f || c.fstrKeepsRaw)) = true then v else expandPath c.env v] ++ cliargs c post bang := by
  simp only [cliargs_eq, List.flatMap_append, List.flatMap_cons, List.flatMap_nil, atomAct_lit, Act.args, bangArg,
    List.append_nil, List.append_assoc]

/-- `@(expr)`: the injected strings arrive verbatim, one argument per element, in order, in place —
for ALL values: no re-splitting, no globbing, no expansion -/
theorem C04_inject_verbatim (c : Cfg) (pre post : List Atom) (v : PyVal) (bang : Option (Bool × Str)) :
    cliargs c (pre ++ [.inject v] ++ post) bang = cliargs c pre none ++ injectList v ++ cliargs c post bang := by
  simp [cliargs_eq, atomAct, Act.args, bangArg, List.flatMap_append]

theorem C04_inject_strs (xs : List Str) : injectList (.iter (xs.map .str)) = xs := by
  simp [injectList, Item.ensure, Function.comp_def]

theorem C04_inject_str (s : Str) : injectList (.one (.str s)) = [s] := rfl

example (c : Cfg) : cliargs c [.word [97], .inject (.iter [.str [42, 32, 36, 72], .str []]), .lit true false [126]] none =
    [expandPath c.env [97], [42, 32, 36, 72], [], [126]] := by
  simp [cliargs_eq, atomAct, Act.args, bangArg, injectList, Item.ensure, globTrigger]

/-- words: as many arguments as words, in order; each is the documented expansion of the word … -/
theorem atomAct_word (c : Cfg) (w : Str) (hw : w.contains globTrigger = false) :
    atomAct c (.word w) = .append (expandPath c.env w) := by
  simp only [atomAct, hw]; rfl

theorem C04_words (c : Cfg) (ws : List Str) (hg : ∀ w ∈ ws, w.contains globTrigger = false) :
    cliargs c (ws.map .word) none = ws.map (expandPath c.env) := by
  rw [cliargs_eq]
  induction ws with
  | nil => simp [bangArg]
  | cons w ws ih =>
    have hw := hg w (List.mem_cons_self ..)
    have ih' := ih (fun x hx => hg x (List.mem_cons_of_mem _ hx))
    simp only [bangArg, List.append_nil] at ih' ⊢
    simp only [List.map_cons, List.flatMap_cons, atomAct_word c w hw, ih']
    rfl

theorem C04_words_count (c : Cfg) (ws : List Str) (hg : ∀ w ∈ ws, w.contains globTrigger = false) :
    (cliargs c (ws.map .word) none).length = ws.length := by
  rw [C04_words c ws hg]; simp

/-- … and the word itself when it has no `*`, no `$` and no tilde-prefix -/
theorem C04_words_verbatim (c : Cfg) (ws : List Str) (hg : ∀ w ∈ ws, w.contains globTrigger = false)
    (hd : ∀ w ∈ ws, ¬ 36 ∈ w) (ht : ∀ w ∈ ws, tildePrefix c.env w = false) :
    cliargs c (ws.map .word) none = ws := by
  rw [C04_words c ws hg]
  exact map_id_of_forall _ ws (fun w hw => C04_expand_id c.env w (hd w hw) (ht w hw))

theorem cutAtLB_id (t : Str) (h : ∀ c ∈ t, lbChars.contains c = false) : cutAtLB t = t := by
  induction t with
  | nil => rfl
  | cons c cs ih =>
    simp only [cutAtLB, h c (List.mem_cons_self ..)]
    rw [ih (fun x hx => h x (List.mem_cons_of_mem _ hx))]; rfl

/-- on a line without exotic line-boundary characters the macro argument is the source text, stripped -/
theorem macroArg_clean (c : Cfg) (t : Str) (h : ∀ x ∈ t, lbChars.contains x = false) : macroArg c false t = strip t := by
  unfold macroArg
  split
  · simp [sourceSlice, cutAtLB_id t h]
  · rfl

/-- … and always so once `BaseParser.lines` is cut at `\n` only -/
theorem macroArg_fixed (c : Cfg) (h : c.linesCutAtLB = false) (lb : Bool) (t : Str) : macroArg c lb t = strip t := by
  simp [macroArg, h]

/-- atoms whose parser action is `append`: literals, `@!(…)`, words without `*` -/
def appendAtom : Atom → Bool
  | .word t => !t.contains globTrigger
  | .lit _ _ _ => true
  | .macroAt _ _ => true
  | _ => false

theorem bangFits_append (c : Cfg) (atoms : List Atom) (h : ∀ a ∈ atoms, appendAtom a = true) :
    bangFits (atoms.map (atomAct c)) = true := by
  unfold bangFits
  simp only [List.all_map, List.all_eq_true]
  intro a ha
  have := h a ha
  cases a with
  | word t =>
    simp only [appendAtom, Bool.not_eq_true'] at this
    simp only [Function.comp, atomAct_word c t this]
  | lit raw f v =>
    by_cases h : (raw && (!f || c.fstrKeepsRaw)) = true <;> simp [Function.comp, atomAct, h]
  | macroAt lb t => simp [Function.comp, atomAct]
  | inject v => simp [appendAtom] at this
  | adjacent ps => simp [appendAtom] at this

/-- FULL STATEMENT, for the repaired variant (the two translated facts `lines uses splitlines` and
`_append_subproc_bang appends to .elts` both false): after ANY atoms the text following a macro `!` is
exactly ONE more argument at the end, the source text stripped — never split, expanded or globbed -/
theorem C04_macro_raw (c : Cfg) (h1 : c.linesCutAtLB = false) (h2 : c.bangNeedsList = false)
    (atoms : List Atom) (lb : Bool) (t : Str) :
    command c atoms (some (lb, t)) = some (cliargs c atoms none ++ [strip t]) := by
  simp [command, h2, cliargs_eq, bangArg, macroArg_fixed c h1]

/-- PARTIAL, for the code as it is: after words, literals and `@!(…)` the text following a macro `!` is ONE
more argument at the end and, when neither it nor the line before it holds a
U+000B/000C/001C-1E/0085/2028/2029, exactly the source text, stripped -/
theorem C04_macro_raw_partial (c : Cfg) (atoms : List Atom) (t : Str) (ha : ∀ a ∈ atoms, appendAtom a = true)
    (h : ∀ x ∈ t, lbChars.contains x = false) :
    command c atoms (some (false, t)) = some (cliargs c atoms none ++ [strip t]) := by
  simp [command, bangFits_append c atoms ha, cliargs_eq, bangArg, macroArg_clean c t h]

/-- without a macro tail a command always parses (in the model) -/
theorem C04_command_no_bang (c : Cfg) (atoms : List Atom) : command c atoms none = some (cliargs c atoms none) := by
  simp [command]

theorem C04_macro_one_arg (c : Cfg) (atoms : List Atom) (lb : Bool) (t : Str) :
    (cliargs c atoms (some (lb, t))).length = (cliargs c atoms none).length + 1 := by
  simp [cliargs_eq, bangArg]

theorem C04_macro_at_partial (c : Cfg) (pre post : List Atom) (t : Str) (bang : Option (Bool × Str))
    (h : ∀ x ∈ t, lbChars.contains x = false) :
    cliargs c (pre ++ [.macroAt false t] ++ post) bang = cliargs c pre none ++ [strip t] ++ cliargs c post bang := by
  simp [cliargs_eq, atomAct, Act.args, bangArg, List.flatMap_append, macroArg_clean c t h]

theorem dropWhile_id {α} (p : α → Bool) (l : List α) (h : ∀ x, l.head? = some x → p x = false) : l.dropWhile p = l := by
  cases l with
  | nil => rfl
  | cons a as => simp [List.dropWhile, h a rfl]

/-- text that neither begins nor ends with white space is not changed by the strip -/
theorem C04_strip_id (t : Str) (h1 : ∀ x, t.head? = some x → pySpace.contains x = false)
    (h2 : ∀ x, t.reverse.head? = some x → pySpace.contains x = false) : strip t = t := by
  unfold strip
  rw [dropWhile_id _ t h1, dropWhile_id _ t.reverse h2, List.reverse_reverse]

example : strip [32, 97, 32, 32, 36, 42, 9] = [97, 32, 32, 36, 42] := by decide
example (c : Cfg) : command c [.word [97]] (some (false, [32, 36, 72, 32, 32, 42, 32])) =
    some [expandPath c.env [97], [36, 72, 32, 32, 42]] := by
  rw [C04_macro_raw_partial _ _ _ (by intro a ha; simp at ha; subst ha; decide) (by decide)]
  simp [cliargs_eq, atomAct, Act.args, bangArg, globTrigger]
  decide

/-! ## `a@(x)b`: an injected value glued to other argument text -/

def cleanStr (c : Cfg) (s : Str) : Prop :=
  s.contains globTrigger = false ∧ ¬ 36 ∈ s ∧ tildePrefix c.env s = false

/-- PARTIAL: when no combination contains `*`, `$` or a tilde-prefix, the word is the outer product of
its parts, verbatim, in `itertools.product` order -/
theorem C04_adjacent_partial (c : Cfg) (ps : List Part)
    (h : ∀ los ∈ product (ps.map (partStrs c)), cleanStr c los.flatten) :
    cliargs c [.adjacent ps] none = (product (ps.map (partStrs c))).map List.flatten := by
  simp only [cliargs_eq, List.flatMap_cons, List.flatMap_nil, bangArg, List.append_nil, atomAct, Act.args, outerProduct]
  generalize product (ps.map (partStrs c)) = combos at h
  induction combos with
  | nil => rfl
  | cons l ls ih =>
    have hl := h l (List.mem_cons_self ..)
    simp only [List.flatMap_cons, List.map_cons, hl.1]
    rw [ih (fun x hx => h x (List.mem_cons_of_mem _ hx))]
    simp [C04_expand_id c.env l.flatten hl.2.1 hl.2.2]

example (c : Cfg) : cliargs c [.adjacent [.text [120], .inj (.iter [.str [97], .str [98]]), .text [121]]] none =
    [[120, 97, 121], [120, 98, 121]] := by
  rw [C04_adjacent_partial]
  · simp [product, partStrs, injectList, Item.ensure]
  · intro los hl
    have : los = [[120], [97], [121]] ∨ los = [[120], [98], [121]] := by
      simpa [product, partStrs, injectList, Item.ensure] using hl
    rcases this with rfl | rfl <;> exact ⟨by decide, by decide, rfl⟩

/-- the code as it is (all three translated facts in their defective state) -/
def cexCfg : Cfg :=
  { env := demoEnv
    fstrKeepsRaw := false
    linesCutAtLB := true
    bangNeedsList := true
    glob := fun p => if p = [112, 42, 46, 112, 121] then [[112, 49, 46, 112, 121], [112, 50, 46, 112, 121]] else [] }

/-- COUNTEREXAMPLE (open known finding `adjacent-inject-reinterpreted`): in a directory holding `p1.py`
and `p2.py`, `p@("*.py")` delivers the two file names, not the one argument `p*.py` … -/
theorem C04_adjacent_cex_glob :
    cliargs cexCfg [.adjacent [.text [112], .inj (.one (.str [42, 46, 112, 121]))]] none =
      [[112, 49, 46, 112, 121], [112, 50, 46, 112, 121]] ∧
    cliargs cexCfg [.adjacent [.text [112], .inj (.one (.str [42, 46, 112, 121]))]] none ≠ [[112, 42, 46, 112, 121]] := by
  decide

/-- … and `x@("$H")/y` delivers `x/r/y`: the injected `$H` is expanded, while the stand-alone `@("$H")`
arrives verbatim (`C04_inject_verbatim`) -/
theorem C04_adjacent_cex_expand :
    cliargs cexCfg [.adjacent [.text [120], .inj (.one (.str [36, 72])), .text [47, 121]]] none = [[120, 47, 114, 47, 121]] ∧
    cliargs cexCfg [.inject (.one (.str [36, 72]))] none = [[36, 72]] := by
  decide

/-- the repaired variant -/
def fixedCfg : Cfg := { cexCfg with fstrKeepsRaw := true, linesCutAtLB := false, bangNeedsList := false }

/-- COUNTEREXAMPLE (open known finding `macro-text-cut-at-line-boundary`): `![rec x! a<FF>b]` delivers `a`,
not `a<FF>b`: for the code as it is the statement "the macro argument is the stripped source text" is false -/
theorem C04_macro_raw_cex :
    command cexCfg [] (some (false, [97, 12, 98])) = some [[97]] ∧ strip [97, 12, 98] = [97, 12, 98] := by
  decide

/-- COUNTEREXAMPLE (open known finding `macro-tail-after-extend-crashes`): `rec @("a") ! b` does not run at
all — after an `@()` / glob word / `a@(x)b` atom the parser's `_append_subproc_bang` raises AttributeError -/
theorem C04_macro_after_extend_cex :
    command cexCfg [.inject (.one (.str [97]))] (some (false, [98])) = none := by
  decide

example : command fixedCfg [.inject (.one (.str [97]))] (some (false, [32, 97, 12, 98, 32])) = some [[97], [97, 12, 98]] := by
  rw [C04_macro_raw fixedCfg rfl rfl]; decide

/-- COUNTEREXAMPLE (open known finding `raw-fstring-expanded`): with the f-string rule as it is (no `is_raw`
on the node) `fr"$H"` is expanded although the documentation says raw f-strings only substitute braces -/
theorem C04_raw_fstring_cex :
    cliargs cexCfg [.lit true true [36, 72]] none = [[47, 114]] ∧ cliargs cexCfg [.lit true false [36, 72]] none = [[36, 72]] := by
  decide

/-! ## `@$(cmd)`: re-splitting line by line -/

theorem splitlinesGo_line (l rest cur : Str) (h : ∀ c ∈ l, isLineEnd c = false) :
    splitlinesGo (l ++ 10 :: rest) cur false = (cur.reverse ++ l) :: splitlinesGo rest [] false := by
  induction l generalizing cur with
  | nil => simp [splitlinesGo, isLineEnd]
  | cons c cs ih =>
    have hc := h c (List.mem_cons_self ..)
    have hc10 : c ≠ 10 := by
      intro e; subst e; simp [isLineEnd] at hc
    simp only [List.cons_append, splitlinesGo, hc10, false_and, if_false, hc, Bool.false_eq_true]
    rw [ih (c :: cur) (fun x hx => h x (List.mem_cons_of_mem _ hx))]
    simp

/-- text made of lines that are each ended by `\n` is cut back into exactly those lines -/
theorem pySplitlines_lines (ls : List Str) (h : ∀ l ∈ ls, ∀ c ∈ l, isLineEnd c = false) :
    pySplitlines (ls.flatMap (· ++ [10])) = ls := by
  unfold pySplitlines
  induction ls with
  | nil => simp [splitlinesGo]
  | cons l ls ih =>
    simp only [List.flatMap_cons, List.append_assoc, List.singleton_append]
    rw [splitlinesGo_line l _ [] (h l (List.mem_cons_self ..))]
    simp only [List.reverse_nil, List.nil_append]
    rw [ih (fun x hx => h x (List.mem_cons_of_mem _ hx))]

/-- THE CONTRACT of `@$()`: for EVERY per-line splitter and every output, the arguments are the
concatenation of what the splitter answers for each line on its own, in order — the splitter never sees
two lines at once (so a backslash at the end of a line continues nothing, and the indentation of one
line means nothing to the next).  An implementation that hands the joined text to the lexer is a
correspondence break: the harness compares with this function. -/
theorem C04_captured_inject_per_line (split : Str → List Str) (ls : List Str)
    (h : ∀ l ∈ ls, ∀ c ∈ l, isLineEnd c = false) :
    capturedInject split (ls.flatMap (· ++ [10])) = ls.flatMap split := by
  unfold capturedInject
  rw [pySplitlines_lines ls h]

example : capturedInject (fun l => [l]) [67, 58, 92, 10, 32, 110, 10] = [[67, 58, 92], [32, 110]] := by decide
example : pySplitlines [97, 13, 10, 98, 12, 99, 10, 10] = [[97], [98], [99], []] := by decide

/-! ## hand-off: callable alias and real process -/

theorem resolve_s (args : List Str) : resolveArgsList (args.map .s) = args := by
  induction args with
  | nil => rfl
  | cons a as ih => simp [resolveArgsList, ih]

/-- `resolve_args_list` only splices list-valued entries: string entries pass one-to-one -/
theorem C04_alias_argv (args : List Str) : aliasArgv args = args := resolve_s args

theorem replaceChar_id (old : Nat) (new s : Str) (h : ¬ old ∈ s) : replaceChar old new s = s := by
  induction s with
  | nil => rfl
  | cons c cs ih =>
    have hc : c ≠ old := fun e => h (e ▸ List.mem_cons_self ..)
    simp [replaceChar, hc, ih (fun m => h (List.mem_cons_of_mem _ m))]

/-- for arguments without NUL a callable alias and a real child process are handed the same list
(model level; the OS/`Popen` leg is tied by the real-child stream) -/
theorem C04_same_argv (args : List Str) (h : ∀ a ∈ args, ¬ 0 ∈ a) : popenArgv args = aliasArgv args := by
  unfold popenArgv
  rw [C04_alias_argv, resolve_s]
  exact map_id_of_forall _ args (fun a ha => replaceChar_id 0 _ a (h a ha))

example : popenArgv [[97, 0, 98]] = [[97, 92, 48, 98]] := by decide
example : aliasArgv [[97, 0, 98]] = [[97, 0, 98]] := by decide
