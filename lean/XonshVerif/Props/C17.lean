/-
C17 — `xonsh format` never changes what a program means, and is idempotent.  (stub, being written)
-/
import XonshVerif.Model.Format
import XonshVerif.Gen.FormatTables
open Format

theorem C17_stub : finalize [] = ['\n'] := by decide
