/-
C17 — `xonsh format` never changes what a program means, and is idempotent.

PARTIAL (level "other").  What is a THEOREM here, over the model `Format` of xonsh/formatter/core.py
(Model/Format.lean; rule tables and the tokenizer's operator tables TRANSLATED from the source on every run,
Gen/FormatTables.lean), for ALL texts / token sequences / lexical contexts:

  * `C17_finalize_idem`            `_finalize` is idempotent;
  * `C17_finalize_token_safe`      when no token text has a blank before a newline or at its end, `_finalize`
                                   edits separators only: every token text survives verbatim, in place;
    `C17_finalize_token_safe_cex`  … and the hypothesis is needed: a multi-line string literal with a line that
                                   ends in a blank is changed (the known defect `literal-trailing-blanks-stripped`);
  * `C17_finalize_shape`, `C17_finalize_only_ws`   `_finalize` removes blanks at line ends and final newlines only;
  * `C17_tokens_emitted`           the run loop emits every real token exactly once, in order, as its rendered text;
  * `C17_seps_are_ws`, `C17_only_ws_changes`       everything else it emits is whitespace (separators copied from
                                   the source: by hypothesis, checked on every real token stream): the output with
                                   all whitespace removed IS the token texts with all whitespace removed;
  * `C17_no_merge`                 a pair glued by a forced rule (after an opener, before a closer / `,` / `;` / `:`)
                                   can never read back as something else — complete tables, `decide`d —
    `C17_no_merge_cex_braces`, `C17_no_merge_cex_slice`   except the two real exceptions (`{ {` in an f-string field,
                                   known finding `fstring-nested-braces-glued`; `: =` inside `[ ]`);
  * `C17_space_stable`, `C17_continuation_stable`   outside macro bodies the spacing decision depends on the tokens,
                                   the lexical context and "was there a gap": re-emitted text gets the same separators.

VARIANTS.  The model carries three switches (`Variant`: `guard`, `eofFix`, `litFix`) for the repairs of the
findings subproc-words-respaced-*, eof-continuation-loses-final-newline and literal-trailing-blanks-stripped;
the harness probes the running implementation for each and runs the model in the same variant, so the check
is green on the snapshot and on the repaired tree.  The run-loop, no-merge and stability theorems hold for
EVERY variant (they quantify over `cfg`).  For the repaired code the headlines are
  * `C17_finalizeV_idem`                 `_finalize` (with or without the final-backslash rule) is idempotent;
  * `C17_finalize_token_safe_repaired`   the repaired `_finalize` edits separators only whenever no token text
                                         ENDS in a blank — multi-line literals with blank-terminated lines
                                         included (the example shows the snapshot's counterexample surviving);
  * `C17_only_ws_changes_V`              only whitespace changes, whichever variant runs;
  * `C17_subproc_text_keeps_gaps`        in subprocess text no rule but the comment padding and the bracket
                                         adjacency rules decides a separator, for all token pairs.
`C17_finalize_token_safe_cex` and `C17_subproc_text_respaced_snapshot` state the PINNED SNAPSHOT's behaviour
(`litFix = false`, `guard = false`): they are what the repairs remove, and stay true of the snapshot variant.

What is NOT a theorem: that xonsh's tokenizer and parser (1600 lines of regex scanner, an LALR automaton with
~600 actions) map "same token texts, separators only where no merge is possible" to "same syntax tree" — the step
from these theorems to the property's main clause.  That step, and the property itself on the real code, are
checked by the correspondence + oracle harness xv/props/c17.py (real tokenizer → this model vs the real
`format_source`; xonsh's Parser on input and output; second pass; CLI path).
-/
import XonshVerif.Model.Format
import XonshVerif.Gen.FormatTables

namespace Format

/-! ## finalize -/

theorem noTrail_tail {c : Char} {cs : Str} (h : tokClean (c :: cs) = true) : tokClean cs = true := by
  cases cs with
  | nil => rfl
  | cons d r => simp [tokClean] at h; exact h.2

theorem stripTrailFrom_append (tail t rest : Str) :
    stripTrailFrom tail (t ++ rest) = stripTrailFrom (stripTrailFrom tail rest) t := by
  induction t with
  | nil => rfl
  | cons c cs ih => simp [stripTrailFrom, ih]

theorem stripTrailFrom_cons (T : Str) (c : Char) (cs : Str) :
    stripTrailFrom T (c :: cs) =
      if isBlank c && (match stripTrailFrom T cs with | [] => true | d :: _ => decide (d = '\n')) then stripTrailFrom T cs
      else c :: stripTrailFrom T cs := rfl

/-- a clean text (no blank before a newline, none at the end) is copied, whatever follows -/
theorem stripTrailFrom_clean (T t : Str) (h : tokClean t = true) : stripTrailFrom T t = t ++ T := by
  induction t with
  | nil => rfl
  | cons c cs ih =>
    cases cs with
    | nil =>
      simp [tokClean] at h
      simp [stripTrailFrom, h]
    | cons d r =>
      have h2 := noTrail_tail h
      simp [tokClean] at h
      have e := ih h2
      have hc : (isBlank c && decide (d = '\n')) = false := by
        cases hb : isBlank c <;> simp [hb] at h ⊢
        exact h.1
      rw [stripTrailFrom_cons, e]
      simp [hc]

theorem stripTrail_clean (t : Str) (h : tokClean t = true) : stripTrail t = t := by
  simpa [stripTrail] using stripTrailFrom_clean [] t h

theorem stripTrail_is_clean (s : Str) : tokClean (stripTrail s) = true := by
  induction s with
  | nil => rfl
  | cons c cs ih =>
    simp only [stripTrail, stripTrailFrom] at ih ⊢
    generalize stripTrailFrom [] cs = r at ih ⊢
    cases r with
    | nil =>
      cases hb : isBlank c <;> simp [hb, tokClean]
    | cons d r' =>
      cases hb : isBlank c
      · simp [hb, tokClean]; exact ih
      · by_cases hd : d = '\n'
        · simp [hb, hd]; simpa [hd] using ih
        · simp [hb, hd, tokClean]; exact ih

theorem C17_stripTrail_idem (s : Str) : stripTrail (stripTrail s) = stripTrail s :=
  stripTrail_clean _ (stripTrail_is_clean s)

theorem rstripNl_cons (c : Char) (cs : Str) :
    rstripNl (c :: cs) = (match rstripNl cs with
      | [] => if c = '\n' then [] else [c]
      | r => c :: r) := rfl

/-- `rstripNl` keeps the head of a non-empty result -/
theorem rstripNl_head {cs : Str} {d : Char} {r : Str} (h : rstripNl cs = d :: r) : ∃ tl, cs = d :: tl := by
  cases cs with
  | nil => simp [rstripNl] at h
  | cons c cs' =>
    rw [rstripNl_cons] at h
    cases hr : rstripNl cs' with
    | nil =>
      rw [hr] at h
      by_cases hc : c = '\n'
      · simp [hc] at h
      · simp [hc] at h; exact ⟨cs', by rw [h.1]⟩
    | cons x y =>
      rw [hr] at h
      simp at h
      exact ⟨cs', by rw [h.1]⟩

/-- an empty result means the text was newlines only -/
theorem rstripNl_nil {cs : Str} (h : rstripNl cs = []) : cs = [] ∨ ∃ tl, cs = '\n' :: tl := by
  cases cs with
  | nil => exact Or.inl rfl
  | cons c cs' =>
    rw [rstripNl_cons] at h
    cases hr : rstripNl cs' with
    | nil =>
      rw [hr] at h
      by_cases hc : c = '\n'
      · exact Or.inr ⟨cs', by rw [hc]⟩
      · simp [hc] at h
    | cons x y => rw [hr] at h; simp at h

theorem rstripNl_append_nl (x : Str) : rstripNl (x ++ ['\n']) = rstripNl x := by
  induction x with
  | nil => rfl
  | cons c cs ih => simp only [List.cons_append, rstripNl_cons, ih]

theorem rstripNl_idem (x : Str) : rstripNl (rstripNl x) = rstripNl x := by
  induction x with
  | nil => rfl
  | cons c cs ih =>
    rw [rstripNl_cons]
    cases hr : rstripNl cs with
    | nil =>
      by_cases hc : c = '\n'
      · simp [hc, rstripNl]
      · simp [hc, rstripNl]
    | cons d r =>
      simp only []
      rw [rstripNl_cons, ← hr, ih, hr]

/-- removing the final newlines of a clean text and adding one back gives a clean text -/
theorem clean_rstripNl_nl (A : Str) (h : tokClean A = true) : tokClean (rstripNl A ++ ['\n']) = true := by
  induction A with
  | nil => decide
  | cons c cs ih =>
    have h2 := noTrail_tail h
    have ih := ih h2
    rw [rstripNl_cons]
    cases hr : rstripNl cs with
    | nil =>
      -- c is followed by newlines only (or nothing): it is not a blank
      have hnb : isBlank c = false := by
        rcases rstripNl_nil hr with rfl | ⟨tl, rfl⟩
        · simpa [tokClean] using h
        · simp [tokClean] at h
          cases hb : isBlank c <;> simp [hb] at h ⊢
      by_cases hc : c = '\n'
      · simp [hc]; decide
      · simp [hc, tokClean, hnb]; decide
    | cons d r =>
      obtain ⟨tl, rfl⟩ := rstripNl_head hr
      simp only [List.cons_append]
      rw [hr] at ih
      simp [tokClean] at h
      simp only [List.cons_append] at ih
      simp [tokClean, ih]
      exact h.1

/-- C17: `_finalize` is idempotent, for every text. -/
theorem C17_finalize_idem (s : Str) : finalize (finalize s) = finalize s := by
  unfold finalize
  have hc : tokClean (rstripNl (stripTrail s) ++ ['\n']) = true :=
    clean_rstripNl_nl _ (stripTrail_is_clean s)
  rw [stripTrail_clean _ hc, rstripNl_append_nl, rstripNl_idem]

example : finalize "a  \n\tb \n\n\n".toList = "a\n\tb\n".toList := by decide
example : finalize [] = ['\n'] := by decide

/-- "what follows is a line end or the end of the text" -/
def atEol (T : Str) : Bool := match T with | [] => true | d :: _ => decide (d = '\n')

theorem stripSepFrom_spec (T t : Str) :
    (stripSepFrom (atEol T) t).1 ++ T = stripTrailFrom T t ∧
    (stripSepFrom (atEol T) t).2 = atEol (stripTrailFrom T t) := by
  induction t with
  | nil => simp [stripSepFrom, stripTrailFrom]
  | cons c cs ih =>
    obtain ⟨ih1, ih2⟩ := ih
    rw [stripTrailFrom_cons]
    simp only [stripSepFrom]
    generalize hq : stripSepFrom (atEol T) cs = q at ih1 ih2
    obtain ⟨r, e⟩ := q
    simp only at ih1 ih2
    have hm : (match stripTrailFrom T cs with | [] => true | d :: _ => decide (d = '\n')) = atEol (stripTrailFrom T cs) := rfl
    rw [hm, ← ih2]
    cases hb : (isBlank c && e)
    · simp [hb, ih1, atEol]
    · simp [hb, ih1, ih2]

/-- C17 (token-safe finalize, the fold): when no token text has a blank before a newline or at its end, the
per-line strip of the whole output only ever removes blanks that belong to separators: the result is the
same pieces with (some) separator blanks removed, every token text verbatim and in place. -/
theorem stripSeps_spec (ps : List Piece) (h : ∀ p ∈ ps, p.isTok = true → tokClean p.text = true) :
    flatten (stripSeps ps).1 = stripTrail (flatten ps) ∧ (stripSeps ps).2 = atEol (stripTrail (flatten ps)) := by
  induction ps with
  | nil => simp [stripSeps, flatten, stripTrail, stripTrailFrom, atEol]
  | cons p ps ih =>
    have ih := ih (fun q hq => h q (List.mem_cons_of_mem _ hq))
    obtain ⟨ih1, ih2⟩ := ih
    simp only [stripSeps]
    generalize hq : stripSeps ps = q at ih1 ih2
    obtain ⟨ps', e⟩ := q
    simp only at ih1 ih2
    have hf : flatten (p :: ps) = p.text ++ flatten ps := by simp [flatten]
    rw [hf]
    unfold stripTrail at ih1 ih2 ⊢
    rw [stripTrailFrom_append]
    cases hp : p.isTok
    · -- a separator
      simp only [Bool.false_eq_true, if_false]
      have hs := stripSepFrom_spec (stripTrailFrom [] (flatten ps)) p.text
      rw [← ih2] at hs
      generalize hq2 : stripSepFrom e p.text = q2 at hs
      obtain ⟨t, e'⟩ := q2
      simp only at hs
      constructor
      · simp only [flatten, List.flatMap_cons] at ih1 ⊢
        rw [ih1]; exact hs.1
      · exact hs.2
    · -- a token: copied
      simp only [if_true]
      have hc := h p (List.mem_cons_self ..) hp
      rw [stripTrailFrom_clean _ _ hc]
      constructor
      · simp only [flatten, List.flatMap_cons] at ih1 ⊢
        rw [ih1]
      · cases ht : p.text with
        | nil => simpa [atEol] using ih2
        | cons c cs => simp [atEol]

/-- the separator-only strip never touches a token piece -/
theorem stripSeps_toks (ps : List Piece) : (stripSeps ps).1.filter (·.isTok) = ps.filter (·.isTok) := by
  induction ps with
  | nil => rfl
  | cons p ps ih =>
    simp only [stripSeps]
    generalize stripSeps ps = q at ih
    obtain ⟨ps', e⟩ := q
    cases hp : p.isTok
    · simp only [Bool.false_eq_true, if_false]
      generalize stripSepFrom e p.text = q2
      simp [List.filter_cons, hp] ; exact ih
    · simp only [if_true]
      simp [List.filter_cons, hp]; exact ih

theorem C17_finalize_token_safe (ps : List Piece) (h : ∀ p ∈ ps, p.isTok = true → tokClean p.text = true) :
    finalize (flatten ps) = finalizeSafe ps ∧ (stripSeps ps).1.filter (·.isTok) = ps.filter (·.isTok) := by
  refine ⟨?_, stripSeps_toks ps⟩
  unfold finalize finalizeSafe
  rw [(stripSeps_spec ps h).1]

/-- PINNED SNAPSHOT (`litFix = false`): the hypothesis is needed — the known defect
`literal-trailing-blanks-stripped`: a multi-line string literal with a line that ends in a blank does not
survive the snapshot's `_finalize`.  (It survives the repaired one: `C17_finalize_token_safe_repaired`.) -/
def cexString : Str := "\"\"\"a \nb\"\"\"".toList

theorem C17_finalize_token_safe_cex :
    let ps := [tokP ['x'], sepP .eq [' '], tokP ['='], sepP .eq [' '], tokP cexString, sepP .newline ['\n']]
    finalize (flatten ps) ≠ finalizeSafe ps ∧ finalizeSafe ps = flatten ps ∧ tokClean cexString = false := by
  decide

example : C17_finalize_token_safe [tokP ['x'], sepP .gapSome [' ', ' '], sepP .newline ['\n']] (by decide) =
    C17_finalize_token_safe [tokP ['x'], sepP .gapSome [' ', ' '], sepP .newline ['\n']] (by decide) := rfl
example : finalizeSafe [tokP ['x'], sepP .gapSome [' ', ' '], sepP .newline ['\n']] = ['x', '\n'] := by decide

/-- `rstrip("\n")` removes final newlines and nothing else -/
theorem rstripNl_spec (x : Str) : ∃ n, x = rstripNl x ++ List.replicate n '\n' := by
  induction x with
  | nil => exact ⟨0, rfl⟩
  | cons c cs ih =>
    obtain ⟨n, hn⟩ := ih
    rw [rstripNl_cons]
    cases hr : rstripNl cs with
    | nil =>
      rw [hr] at hn
      by_cases hc : c = '\n'
      · refine ⟨n + 1, ?_⟩
        simp only [hc, if_true, List.nil_append, List.replicate_succ]
        rw [hn]; simp
      · refine ⟨n, ?_⟩
        simp only [hc, if_false]
        rw [hn]; simp
    | cons d r =>
      refine ⟨n, ?_⟩
      simp only [List.cons_append]
      rw [hr] at hn
      rw [hn]; simp

/-- C17: all that `_finalize` does beyond the per-line strip is to replace the run of final newlines by one. -/
theorem C17_finalize_shape (s : Str) :
    ∃ n, stripTrail s = rstripNl (stripTrail s) ++ List.replicate n '\n' ∧
         finalize s = rstripNl (stripTrail s) ++ ['\n'] :=
  let ⟨n, hn⟩ := rstripNl_spec (stripTrail s)
  ⟨n, hn, rfl⟩

/-! ## only whitespace changes -/

theorem stripWs_append (a b : Str) : stripWs (a ++ b) = stripWs a ++ stripWs b := by
  simp [stripWs]

theorem stripWs_allWs {s : Str} (h : allWs s = true) : stripWs s = [] := by
  simp only [stripWs, allWs, List.all_eq_true] at *
  simp only [List.filter_eq_nil_iff]
  intro c hc
  simp [h c hc]

/-- when the separators are whitespace, removing all whitespace from the emitted text leaves exactly the
token texts, in order -/
theorem stripWs_flatten (ps : List Piece) (h : ∀ p ∈ ps, p.isTok = false → allWs p.text = true) :
    stripWs (flatten ps) = stripWs (toksOf ps) := by
  induction ps with
  | nil => rfl
  | cons p ps ih =>
    have ih := ih (fun q hq => h q (List.mem_cons_of_mem _ hq))
    have hf : flatten (p :: ps) = p.text ++ flatten ps := by simp [flatten]
    rw [hf, stripWs_append, ih]
    cases hp : p.isTok
    · have : toksOf (p :: ps) = toksOf ps := by simp [toksOf, List.filter_cons, hp]
      rw [this, stripWs_allWs (h p (List.mem_cons_self ..) hp)]; rfl
    · have : toksOf (p :: ps) = p.text ++ toksOf ps := by simp [toksOf, List.filter_cons, hp]
      rw [this, stripWs_append]

theorem isBlank_isPySpace {c : Char} (h : isBlank c = true) : isPySpace c = true := by
  simp only [isBlank, Bool.or_eq_true, decide_eq_true_eq] at h
  rcases h with rfl | rfl <;> decide

theorem stripWs_stripTrailFrom (T s : Str) : stripWs (stripTrailFrom T s) = stripWs s ++ stripWs T := by
  induction s with
  | nil => simp [stripTrailFrom, stripWs]
  | cons c cs ih =>
    rw [stripTrailFrom_cons]
    generalize (match stripTrailFrom T cs with | [] => true | d :: _ => decide (d = '\n')) = m
    have e2 : stripWs (c :: cs) = stripWs [c] ++ stripWs cs := by
      rw [← stripWs_append]; rfl
    cases hb : (isBlank c && m)
    · simp only [Bool.false_eq_true, if_false]
      have e : stripWs (c :: stripTrailFrom T cs) = stripWs [c] ++ stripWs (stripTrailFrom T cs) := by
        rw [← stripWs_append]; rfl
      rw [e, ih, e2]; simp
    · simp only [if_true]
      simp only [Bool.and_eq_true] at hb
      have hs := isBlank_isPySpace hb.1
      have : stripWs [c] = [] := by simp [stripWs, hs]
      rw [ih, e2, this]; simp

theorem stripWs_rstripNl (x : Str) : stripWs (rstripNl x) = stripWs x := by
  obtain ⟨n, hn⟩ := rstripNl_spec x
  have : stripWs (List.replicate n '\n') = [] := by
    apply stripWs_allWs
    simp only [allWs, List.all_eq_true]
    intro c hc
    rw [List.eq_of_mem_replicate hc]; decide
  conv => rhs; rw [hn, stripWs_append, this]
  simp

/-- `_finalize` changes whitespace only -/
theorem C17_finalize_only_ws (s : Str) : stripWs (finalize s) = stripWs s := by
  unfold finalize stripTrail
  rw [stripWs_append, stripWs_rstripNl, stripWs_stripTrailFrom]
  simp [stripWs]; decide

/-! ## what the run loop appends -/

/-- a separator that is whitespace unless it was copied from the source -/
def SepOk (p : Piece) : Prop := p.isTok = false ∧ (p.fromSrc = false → allWs p.text = true)

theorem allWs_append {a b : Str} (ha : allWs a = true) (hb : allWs b = true) : allWs (a ++ b) = true := by
  simp only [allWs, List.all_append, Bool.and_eq_true] at *; exact ⟨ha, hb⟩

theorem allWs_flatten_replicate (s : Str) (n : Nat) (h : allWs s = true) : allWs (List.replicate n s).flatten = true := by
  induction n with
  | zero => rfl
  | succ k ih => rw [List.replicate_succ, List.flatten_cons]; exact allWs_append h ih

theorem allWs_repeatStr (s : Str) (n : Int) (h : allWs s = true) : allWs (repeatStr s n) = true :=
  allWs_flatten_replicate s _ h

theorem allWs_spaces (n : Int) : allWs (spaces n) = true := by
  simp only [spaces, allWs, List.all_eq_true]
  intro c hc
  rw [List.eq_of_mem_replicate hc]; decide

theorem sepP_ok (r : Rule) (t : Str) (h : allWs t = true) : SepOk (sepP r t) := ⟨rfl, fun _ => h⟩
theorem srcP_ok (r : Rule) (t : Str) : SepOk (srcP r t) := ⟨rfl, fun h => by simp [srcP] at h⟩

theorem forcedLate_ok (cfg : Cfg) (st : St) (pk : Kind) (ps : Str) (cs : Str) (p : Piece)
    (h : forcedLate cfg st pk ps cs = some p) : SepOk p := by
  unfold forcedLate at h
  repeat' split at h
  all_goals first
    | (cases h; apply sepP_ok; decide)
    | (simp at h)

theorem forced_ok (cfg : Cfg) (st : St) (pk : Kind) (ps : Str) (ck : Kind) (cs : Str) (p : Piece)
    (h : forced cfg st pk ps ck cs = some p) : SepOk p := by
  unfold forced at h
  repeat' split at h
  all_goals first
    | (cases h; apply sepP_ok; decide)
    | (simp at h; done)
    | exact forcedLate_ok _ _ _ _ _ _ h

theorem gapOf_ok (a b : Tok) : SepOk (gapOf a b) := by
  unfold gapOf
  repeat' split
  all_goals (apply sepP_ok; decide)

theorem spaceLate_ok (cfg : Cfg) (st : St) (a b : Tok) : SepOk (spaceLate cfg st a b) := by
  unfold spaceLate
  split
  · rename_i p hp; exact forced_ok _ _ _ _ _ _ _ hp
  · exact gapOf_ok _ _

theorem spaceBetween_ok (cfg : Cfg) (st : St) (a b : Tok) (hind : allWs cfg.indent = true) :
    SepOk (spaceBetween cfg st a b) := by
  unfold spaceBetween spaceRest
  repeat' split
  all_goals first
    | (apply sepP_ok; decide)
    | (apply sepP_ok; exact allWs_repeatStr _ _ hind)
    | (apply sepP_ok; exact allWs_spaces _)
    | (apply srcP_ok)
    | (exact spaceLate_ok _ _ _ _)

theorem blanksFor_ok (n : Nat) (l : Int) : ∀ p ∈ blanksFor n l, SepOk p := by
  intro p hp
  rw [blanksFor, List.mem_replicate] at hp
  rw [hp.2]; apply sepP_ok; decide

theorem leadOf_ok (cfg : Cfg) (st : St) (t : Tok) (rest : List Tok) (hind : allWs cfg.indent = true) :
    ∀ p ∈ (leadOf cfg st t rest).pieces, SepOk p := by
  intro p hp
  unfold leadOf at hp
  repeat' split at hp
  all_goals simp only [List.mem_append, List.mem_singleton, List.mem_cons, List.not_mem_nil, or_false] at hp
  all_goals first
    | (rcases hp with hp | rfl
       · exact blanksFor_ok _ _ p hp
       · first
          | apply srcP_ok
          | (apply sepP_ok; exact allWs_repeatStr _ _ hind))
    | (subst hp; apply sepP_ok; decide)
    | (subst hp; exact spaceBetween_ok _ _ _ _ hind)

/-- the kinds `_Formatter.run` re-emits as text (everything except the structural tokens) -/
def isReal (k : Kind) : Bool :=
  !(k = .encoding || k = .endmarker || k = .indent || k = .dedent || k = .newline || k = .nl)

/-- one iteration of the run loop: at most one token piece (the rendered token, iff the loop has not
stopped and the token is a real one), preceded by separators -/
theorem step_out (cfg : Cfg) (st : St) (t : Tok) (rest : List Tok) (hind : allWs cfg.indent = true) :
    ∃ lead : List Piece, (∀ p ∈ lead, SepOk p) ∧
      (step cfg st t rest).out =
        (if !st.done && isReal t.kind then [tokP (renderToken cfg t)] else []) ++ lead ++ st.out ∧
      (step cfg st t rest).done = (st.done || decide (t.kind = .endmarker)) := by
  unfold step
  by_cases hd : st.done = true
  · exact ⟨[], by simp, by simp [hd], by simp [hd]⟩
  · have hd' : st.done = false := by simpa using hd
    simp only [hd, if_false]
    cases hk : t.kind
    case nl =>
      by_cases hl : st.lineStart = true
      · exact ⟨[], by simp, by simp [hd', hl, isReal], by simp [hd', hl]⟩
      · refine ⟨[sepP .nlCont ['\n']], ?_, by simp [hd', hl, isReal], by simp [hd', hl]⟩
        intro p hp; rw [List.mem_singleton.mp hp]; apply sepP_ok; decide
    case newline =>
      refine ⟨[sepP .newline ['\n']], ?_, by simp [hd', isReal], by simp [hd']⟩
      intro p hp; rw [List.mem_singleton.mp hp]; apply sepP_ok; decide
    case encoding => exact ⟨[], by simp, by simp [hd', isReal], by simp [hd']⟩
    case endmarker => exact ⟨[], by simp, by simp [hd', isReal], by simp [hd']⟩
    case indent => exact ⟨[], by simp, by simp [hd', isReal], by simp [hd']⟩
    case dedent => exact ⟨[], by simp, by simp [hd', isReal], by simp [hd']⟩
    all_goals
      refine ⟨(leadOf cfg st t rest).pieces.reverse, ?_, by simp [hd', isReal, stepReal, hk], by simp [hd', stepReal]⟩
      intro p hp
      exact leadOf_ok cfg st t rest hind p (List.mem_reverse.mp hp)

/-- the tokens the run loop re-emits: the real ones before the first ENDMARKER -/
def realToks : Bool → List Tok → List Tok
  | _, [] => []
  | done, t :: ts =>
    if done then []
    else (if isReal t.kind then [t] else []) ++ realToks (decide (t.kind = .endmarker)) ts

theorem realToks_done (l : List Tok) : realToks true l = [] := by cases l <;> simp [realToks]

theorem toksOf_append (a b : List Piece) : toksOf (a ++ b) = toksOf a ++ toksOf b := by
  simp [toksOf, List.filter_append]

theorem toksOf_seps (l : List Piece) (h : ∀ p ∈ l, p.isTok = false) : toksOf l = [] := by
  induction l with
  | nil => rfl
  | cons p ps ih =>
    have hp := h p (List.mem_cons_self ..)
    have := ih (fun q hq => h q (List.mem_cons_of_mem _ hq))
    simp only [toksOf, List.filter_cons, hp] at this ⊢
    simpa using this

theorem runFrom_spec (cfg : Cfg) (hind : allWs cfg.indent = true) (toks : List Tok) :
    ∀ st : St, ∃ mid : List Piece,
      (runFrom cfg st toks).out = mid ++ st.out ∧
      (∀ p ∈ mid, p.isTok = false → SepOk p) ∧
      toksOf mid.reverse = (realToks st.done toks).flatMap (renderToken cfg) := by
  induction toks with
  | nil => intro st; exact ⟨[], by simp [runFrom], by simp, by simp [realToks, toksOf]⟩
  | cons t rest ih =>
    intro st
    obtain ⟨lead, hlead, hout, hdone⟩ := step_out cfg st t rest hind
    obtain ⟨mid', hm1, hm2, hm3⟩ := ih (step cfg st t rest)
    refine ⟨mid' ++ ((if !st.done && isReal t.kind then [tokP (renderToken cfg t)] else []) ++ lead), ?_, ?_, ?_⟩
    · simp only [runFrom]; rw [hm1, hout]; simp
    · intro p hp hnt
      rcases List.mem_append.mp hp with h | h
      · exact hm2 p h hnt
      · rcases List.mem_append.mp h with h | h
        · split at h
          · rw [List.mem_singleton.mp h] at hnt; simp [tokP] at hnt
          · simp at h
        · exact hlead p h
    · rw [List.reverse_append, toksOf_append, hm3, hdone, List.reverse_append, toksOf_append,
        toksOf_seps lead.reverse (fun p hp => (hlead p (List.mem_reverse.mp hp)).1)]
      by_cases hd : st.done = true
      · simp [hd, realToks_done, realToks, toksOf]
      · have hd' : st.done = false := by simpa using hd
        simp only [hd', Bool.false_or, Bool.not_false, Bool.true_and, realToks, Bool.false_eq_true, if_false]
        by_cases hr : isReal t.kind = true
        · simp [hr, toksOf, tokP]
        · have hr' : isReal t.kind = false := by simpa using hr
          simp [hr', toksOf]

/-- C17: every real token is emitted exactly once, in order, as its rendered text, and nothing else is
emitted except separators. -/
theorem C17_tokens_emitted (cfg : Cfg) (hind : allWs cfg.indent = true) (toks : List Tok) :
    toksOf (pieces cfg toks) = (realToks false toks).flatMap (renderToken cfg) := by
  obtain ⟨mid, h1, _, h3⟩ := runFrom_spec cfg hind toks {}
  have : (runFrom cfg {} toks).out = mid := by simpa using h1
  simp only [pieces, this]; exact h3

/-- C17: every separator the run loop produces is whitespace, except possibly those copied from the
source (line prefixes inside brackets, raw gaps of macro bodies). -/
theorem C17_seps_are_ws (cfg : Cfg) (hind : allWs cfg.indent = true) (toks : List Tok) :
    ∀ p ∈ pieces cfg toks, p.isTok = false → p.fromSrc = false → allWs p.text = true := by
  obtain ⟨mid, h1, h2, _⟩ := runFrom_spec cfg hind toks {}
  have : (runFrom cfg {} toks).out = mid := by simpa using h1
  intro p hp hnt hns
  simp only [pieces, this, List.mem_reverse] at hp
  exact (h2 p hp hnt).2 hns

/-- C17 (only whitespace changes): provided the separators copied from the source are whitespace (the
tokenizer's positions are coherent — checked on every real token stream by the harness), the formatted
text with all whitespace removed is the concatenation of the rendered token texts with all whitespace
removed: no other character is added, dropped or moved. -/
theorem C17_only_ws_changes (cfg : Cfg) (hind : allWs cfg.indent = true) (toks : List Tok)
    (hsrc : srcSepsWs (pieces cfg toks) = true) :
    stripWs (format cfg toks) = stripWs ((realToks false toks).flatMap (renderToken cfg)) := by
  unfold format
  rw [C17_finalize_only_ws, ← C17_tokens_emitted cfg hind]
  apply stripWs_flatten
  intro p hp hnt
  cases hs : p.fromSrc
  · exact C17_seps_are_ws cfg hind toks p hp hnt hs
  · simp only [srcSepsWs, List.all_eq_true] at hsrc
    have := hsrc p hp
    simpa [hs] using this

/-- a comment's rendering differs from its text by leading whitespace only; every other token except
f-string literal parts is rendered as its text -/
theorem render_comment_ws (cfg : Cfg) (t : Tok) (h : t.kind = .comment) :
    stripWs (renderToken cfg t) = stripWs t.text := by
  simp only [renderToken, h, if_true, lstrip]
  induction t.text with
  | nil => rfl
  | cons c cs ih =>
    simp only [List.dropWhile_cons]
    split
    · rename_i hc; rw [ih]; simp [stripWs, List.filter_cons, hc]
    · rfl

theorem render_plain (cfg : Cfg) (t : Tok) (h1 : t.kind ≠ .comment) (h2 : t.kind ≠ .fmiddle) :
    renderToken cfg t = t.text := by
  simp [renderToken, h1, h2]

/-! ## two tokens that would merge always get a separator -/

def genTables : Tables :=
  ⟨Gen.FormatTables.openers, Gen.FormatTables.closers, Gen.FormatTables.alwaysSpaced, Gen.FormatTables.pyKeywords,
   Gen.FormatTables.lineStartPy, Gen.FormatTables.pyAfterLeadingName, Gen.FormatTables.pyInfix⟩

abbrev tokOps : List Str := Gen.FormatTables.tokenizerOps

/-- inside an f-string replacement field two equal braces in a row read as an escaped brace -/
def braceClash (a b : Str) : Bool :=
  match a.getLast?, b.head? with
  | some x, some y => (x = '{' || x = '}') && x = y
  | _, _ => false

/-- nothing can be appended to `a` that changes how it reads (apart from a comment start and the f-string
brace escape): its last character is punctuation that starts no longer token, and no operator of the
tokenizer's tables properly extends it -/
def leftInert (ops : List Str) (a : Str) : Bool :=
  (match a.getLast? with
   | some x => !isWordChar x && x != '$' && x != '@' && !x.isDigit && x != '.' && x != '\'' && x != '"'
   | none => true) &&
  ops.all (fun op => !(a.isPrefixOf op) || (op.drop a.length).isEmpty)

/-- nothing can precede a text starting with `y` that it would merge with (same exceptions) -/
def rightInert (ops : List Str) (y : Char) : Bool :=
  !isWordChar y && !isQuoteLike y && y != '.' && !y.isDigit && y != '#' &&
  ops.all (fun op => !op.tail.contains y)

theorem extendsWith_false_of_leftInert {ops : List Str} {a : Str}
    (h : ops.all (fun op => !(a.isPrefixOf op) || (op.drop a.length).isEmpty) = true) (y : Char) :
    ops.any (extendsWith a y) = false := by
  rw [List.any_eq_false]
  intro op hop
  have := (List.all_eq_true.mp h) op hop
  simp only [Bool.or_eq_true, Bool.not_eq_true', List.isEmpty_iff] at this
  simp only [extendsWith, Bool.and_eq_true, not_and]
  intro hp
  rcases this with h1 | h1
  · simp [hp] at h1
  · simp [h1]

theorem merges_false_of_leftInert (ops : List Str) (a b : Str) (h : leftInert ops a = true)
    (hc : b.head? ≠ some '#') (hb : braceClash a b = false) : merges ops a b = false := by
  unfold merges
  unfold braceClash at hb
  unfold leftInert at h
  cases ha : a.getLast? with
  | none => rfl
  | some x =>
    cases hy : b.head? with
    | none => rfl
    | some y =>
      rw [ha] at h hb; rw [hy] at hb hc
      simp only [Bool.and_eq_true] at h
      obtain ⟨hx, hops⟩ := h
      have he := extendsWith_false_of_leftInert hops y
      simp only [Bool.and_eq_true, Bool.not_eq_true', bne_iff_ne, ne_eq] at hx
      obtain ⟨⟨⟨⟨⟨⟨h1, h2⟩, h3⟩, h4⟩, h5⟩, h6⟩, h7⟩ := hx
      have hy' : y ≠ '#' := fun e => hc (by rw [e])
      simp only [he, h1, h4, h2, h3, h5, h6, h7, hy', Bool.false_and, Bool.false_or, decide_false, Bool.or_false,
        Bool.and_false]
      simpa using hb

theorem mem_tail_of_drop_head {op : Str} {n : Nat} {y : Char} (hn : 0 < n) (h : (op.drop n).head? = some y) :
    y ∈ op.tail := by
  have : y ∈ op.drop n := List.mem_of_mem_head? h
  cases op with
  | nil => simp at this
  | cons c cs =>
    simp only [List.tail_cons]
    obtain ⟨k, rfl⟩ : ∃ k, n = k + 1 := ⟨n - 1, by omega⟩
    simp only [List.drop_succ_cons] at this
    exact List.mem_of_mem_drop this

theorem merges_false_of_rightInert (ops : List Str) (a b : Str) (y : Char) (hy : b.head? = some y)
    (h : rightInert ops y = true) (hb : braceClash a b = false) : merges ops a b = false := by
  unfold merges
  unfold braceClash at hb
  unfold rightInert at h
  cases ha : a.getLast? with
  | none => rfl
  | some x =>
    rw [hy]
    rw [ha, hy] at hb
    simp only [Bool.and_eq_true, Bool.not_eq_true', bne_iff_ne, ne_eq] at h
    obtain ⟨⟨⟨⟨⟨h1, h2⟩, h3⟩, h4⟩, h5⟩, hops⟩ := h
    have hne : a ≠ [] := by intro e; rw [e] at ha; simp at ha
    have he : ops.any (extendsWith a y) = false := by
      rw [List.any_eq_false]
      intro op hop
      have := (List.all_eq_true.mp hops) op hop
      simp only [Bool.not_eq_true', List.contains_eq_mem, decide_eq_false_iff_not] at this
      simp only [extendsWith, Bool.and_eq_true, not_and]
      intro _ hd
      have hpos : 0 < a.length := List.length_pos_iff.mpr hne
      exact this (mem_tail_of_drop_head hpos (by simpa using hd))
    have hq : ¬ ((x = '\'' ∨ x = '"') ∧ x = y) := by
      rintro ⟨hx, rfl⟩
      simp only [isQuoteLike, Bool.or_eq_false_iff, decide_eq_false_iff_not] at h2
      rcases hx with rfl | rfl
      · exact h2.1.1 rfl
      · exact h2.1.2 rfl
    have hbq : y ≠ '`' := by
      intro e; simp [isQuoteLike, e] at h2
    simp only [he, h1, h2, h3, h4, h5, hbq, Bool.or_false, Bool.and_false, Bool.false_or, decide_false]
    simp only [Bool.or_eq_false_iff, Bool.and_eq_false_iff, decide_eq_false_iff_not]
    constructor
    · by_cases e : x = y
      · left; subst e; exact ⟨fun h => hq ⟨Or.inl h, rfl⟩, fun h => hq ⟨Or.inr h, rfl⟩⟩
      · right; exact e
    · by_cases e : x = y
      · left; subst e
        simp only [Bool.and_eq_false_iff, Bool.or_eq_false_iff, decide_eq_false_iff_not, decide_true, Bool.true_eq_false,
          or_false] at hb
        simpa using hb
      · right; exact e

/-- the complete tables: every opener is left-inert, every closer / comma / semicolon / colon is right-inert -/
theorem openers_leftInert : Gen.FormatTables.openers.all (leftInert tokOps) = true := by decide
theorem closers_rightInert :
    Gen.FormatTables.closers.all (fun c => match c.head? with | some y => rightInert tokOps y | none => false) = true := by
  decide
theorem punct_rightInert : rightInert tokOps ',' = true ∧ rightInert tokOps ';' = true ∧ rightInert tokOps ':' = true := by
  decide

/-! ### which rule produced a glued pair -/

theorem forcedLate_rule_cases {cfg : Cfg} {st : St} {pk : Kind} {ps cs : Str} {p : Piece}
    (h : forcedLate cfg st pk ps cs = some p) :
    (p.rule ≠ .opener) ∧ (p.rule ≠ .closer) ∧
    (p.rule = .commaB → cs = [','] ∨ cs = [';']) ∧
    (p.rule = .colonB → cs = [':']) ∧
    (p.rule = .colonSlice → ps = [':'] ∧ st.brackets.head? = some ['[']) := by
  unfold forcedLate at h
  repeat' split at h
  all_goals first
    | (cases h; simp only [sepP]; refine ⟨?_, ?_, ?_, ?_, ?_⟩ <;> intro hr <;> first | assumption | (cases hr; done) | (simp_all; done))
    | (simp at h)

theorem forced_rule_cases {cfg : Cfg} {st : St} {pk ck : Kind} {ps cs : Str} {p : Piece}
    (h : forced cfg st pk ps ck cs = some p) :
    (p.rule = .opener → cfg.tb.openers.contains ps = true) ∧
    (p.rule = .closer → cfg.tb.closers.contains cs = true) ∧
    (p.rule = .commaB → cs = [','] ∨ cs = [';']) ∧
    (p.rule = .colonB → cs = [':']) ∧
    (p.rule = .colonSlice → ps = [':'] ∧ st.brackets.head? = some ['[']) := by
  unfold forced at h
  repeat' split at h
  all_goals first
    | (cases h; simp only [sepP]; refine ⟨?_, ?_, ?_, ?_, ?_⟩ <;> intro hr <;> first | assumption | (cases hr; done) | (simp_all; done))
    | (simp at h; done)
    | (obtain ⟨h1, h2, h3, h4, h5⟩ := forcedLate_rule_cases h
       exact ⟨fun e => absurd e h1, fun e => absurd e h2, h3, h4, h5⟩)

theorem gapOf_rule (a b : Tok) :
    (gapOf a b).rule = .gapLines ∨ (gapOf a b).rule = .gapSome ∨ (gapOf a b).rule = .gapNone := by
  unfold gapOf; repeat' split
  all_goals simp [sepP]

/-- the separator of a pair is produced by one of the four "glue" rules only under that rule's own test -/
theorem glue_rule_cases (cfg : Cfg) (st : St) (a b : Tok) :
    let p := spaceBetween cfg st a b
    (p.rule = .opener → cfg.tb.openers.contains a.text = true) ∧
    (p.rule = .closer → cfg.tb.closers.contains b.text = true) ∧
    (p.rule = .commaB → b.text = [','] ∨ b.text = [';']) ∧
    (p.rule = .colonB → b.text = [':']) ∧
    (p.rule = .colonSlice → a.text = [':'] ∧ st.brackets.head? = some ['[']) := by
  intro p
  have key : p.rule = .fstr ∨ p.rule = .bang ∨ p.rule = .rawCont ∨ p.rule = .raw ∨ p.rule = .contSub ∨ p.rule = .contPy ∨
      p = spaceLate cfg st a b := by
    simp only [p]
    unfold spaceBetween spaceRest
    repeat' split
    all_goals simp [sepP, srcP]
  rcases key with h | h | h | h | h | h | h
  all_goals try (rw [h]; simp; done)
  rw [h]
  unfold spaceLate
  split
  · rename_i q hq; exact forced_rule_cases hq
  · have := gapOf_rule a b
    refine ⟨?_, ?_, ?_, ?_, ?_⟩ <;> intro hr <;> rw [hr] at this <;> simp at this

theorem mem_of_contains {l : List Str} {s : Str} (h : l.contains s = true) : s ∈ l := by
  simpa using h

/-- C17 (no merge): with the rule tables and the tokenizer's operator tables as translated from the source,
whenever `_space_between` GLUES two tokens by one of its forced rules (after an opener, before a closer,
before `,` `;` `:`), writing the second directly after the first cannot change how the text tokenises —
for ALL token texts and ALL lexical contexts — with exactly two exceptions, which are real:
a comment start (`#`, which the comment rule handles when the tokenizer reports a COMMENT) and the f-string
brace escape (`{` `{`, `}` `}`; see `C17_no_merge_cex_braces`).  Every other rule either inserts a blank
or (the default) keeps the source's own gap, under which the two tokens already were adjacent tokens. -/
theorem C17_no_merge (cfg : Cfg) (htb : cfg.tb = genTables) (st : St) (a b : Tok)
    (hr : (spaceBetween cfg st a b).rule = .opener ∨ (spaceBetween cfg st a b).rule = .closer ∨
          (spaceBetween cfg st a b).rule = .commaB ∨ (spaceBetween cfg st a b).rule = .colonB)
    (hc : b.text.head? ≠ some '#') (hb : braceClash a.text b.text = false) :
    merges tokOps a.text b.text = false := by
  obtain ⟨h1, h2, h3, h4, _⟩ := glue_rule_cases cfg st a b
  rcases hr with hr | hr | hr | hr
  · have hm := mem_of_contains (h1 hr)
    rw [htb] at hm
    exact merges_false_of_leftInert _ _ _ ((List.all_eq_true.mp openers_leftInert) _ hm) hc hb
  · have hm := mem_of_contains (h2 hr)
    rw [htb] at hm
    have := (List.all_eq_true.mp closers_rightInert) _ hm
    cases hy : b.text.head? with
    | none => rw [hy] at this; simp at this
    | some y => rw [hy] at this; exact merges_false_of_rightInert _ _ _ y hy this hb
  · rcases h3 hr with e | e
    · exact merges_false_of_rightInert _ _ _ ',' (by rw [e]; rfl) punct_rightInert.1 hb
    · exact merges_false_of_rightInert _ _ _ ';' (by rw [e]; rfl) punct_rightInert.2.1 hb
  · exact merges_false_of_rightInert _ _ _ ':' (by rw [h4 hr]; rfl) punct_rightInert.2.2 hb

def opTok (s : Str) : Tok := ⟨.op, s, 1, 0, 1, 0⟩
def genCfg : Cfg := ⟨genTables, Gen.FormatTables.defaultIndent, [], {}⟩

/-- the brace exception is real: `{ {` (and `} }`) written with a gap are glued by the opener / closer rule
into `{{` / `}}`, which inside an f-string field is an escaped brace (known finding
`fstring-nested-braces-glued`: `f"{ {1: 2}[1] }"`). -/
theorem C17_no_merge_cex_braces :
    (spaceBetween genCfg {} (opTok ['{']) (opTok ['{'])).text = [] ∧ merges tokOps ['{'] ['{'] = true ∧
    (spaceBetween genCfg {} (opTok ['}']) (opTok ['}'])).text = [] ∧ merges tokOps ['}'] ['}'] = true := by
  decide

/-- the fifth glue rule — nothing after a `:` inside `[ ]` — is NOT merge-safe: `:` `=` become `:=`. -/
theorem C17_no_merge_cex_slice :
    (spaceBetween genCfg { brackets := [['[']] } (opTok [':']) (opTok ['='])).rule = .colonSlice ∧
    (spaceBetween genCfg { brackets := [['[']] } (opTok [':']) (opTok ['='])).text = [] ∧
    merges tokOps [':'] ['='] = true := by
  decide

-- non-vacuity: the glue rules fire, and the tokens glued do not merge
example : (spaceBetween genCfg {} (opTok ['(']) ⟨.name, ['x'], 1, 3, 1, 4⟩).rule = .opener := by decide
example : merges tokOps ['('] ['x'] = false ∧ merges tokOps ['x'] [')'] = false ∧ merges tokOps ['x'] [','] = false := by decide
-- the relation is not trivially false: these pairs would merge, and none of them is ever glued by a forced rule
example : merges tokOps ['<'] ['='] = true ∧ merges tokOps ['a'] ['b'] = true ∧ merges tokOps ['1'] ['.'] = true ∧
    merges tokOps ['$'] ['('] = true ∧ merges tokOps ['2'] ['>'] = true ∧ merges tokOps ['f'] ['"', '"'] = true ∧
    merges tokOps ['*'] ['*', '='] = true ∧ merges tokOps ['\'', '\''] ['\'', 'x', '\''] = true := by decide

/-! ## the spacing rules are stable under re-emission -/

/-- C17 (idempotence of the spacing rules): outside macro bodies and continuation lines, the separator
`_space_between` chooses for two tokens depends on their kinds and texts, on the lexical context, and on
the source only through "was there a gap?".  So when the same two tokens are laid out as the formatter
emitted them (same line, exactly the chosen separator between them), it chooses the same separator again. -/
theorem C17_space_stable (cfg : Cfg) (st : St) (a b a' b' : Tok)
    (ha : a'.kind = a.kind ∧ a'.text = a.text) (hb : b'.kind = b.kind ∧ b'.text = b.text)
    (hm : (st.macroUntilDepth > 0 || st.macroAliasLine) = false) (hc : isContTok a = false)
    (hl : a'.el = b'.sl ∧ b'.sc = a'.ec + (spaceBetween cfg st a b).text.length) :
    (spaceBetween cfg st a' b').text = (spaceBetween cfg st a b).text := by
  have hca : isContTok a' = false := by simpa [isContTok, ha.1, ha.2] using hc
  have hbang : isBang b' = isBang b := by simp [isBang, hb.1, hb.2]
  -- the late part: forced rules are position-blind, the default looks at the gap only
  have late : ∀ (L : Nat), b'.sc = a'.ec + L → L = (spaceLate cfg st a b).text.length →
      (spaceLate cfg st a' b').text = (spaceLate cfg st a b).text := by
    intro L h1 h2
    unfold spaceLate at h2 ⊢
    rw [ha.1, ha.2, hb.1, hb.2]
    cases hf : forced cfg st a.kind a.text b.kind b.text with
    | some p => rfl
    | none =>
      rw [hf] at h2
      simp only at h2 ⊢
      unfold gapOf at h2 ⊢
      have hl1 : ¬ (a'.el ≠ b'.sl) := by simp [hl.1]
      rw [if_neg hl1]
      by_cases g1 : a.el ≠ b.sl
      · rw [if_pos g1] at h2 ⊢
        have h3 : L = 1 := by simpa [sepP] using h2
        have : b'.sc > a'.ec := by omega
        rw [if_pos this]; rfl
      · rw [if_neg g1] at h2 ⊢
        by_cases g2 : b.sc > a.ec
        · rw [if_pos g2] at h2 ⊢
          have h3 : L = 1 := by simpa [sepP] using h2
          have : b'.sc > a'.ec := by omega
          rw [if_pos this]
        · rw [if_neg g2] at h2 ⊢
          have h3 : L = 0 := by simpa [sepP] using h2
          have : ¬ b'.sc > a'.ec := by omega
          rw [if_neg this]
  have rest : ∀ (L : Nat), b'.sc = a'.ec + L → L = (spaceRest cfg st a b).text.length →
      (spaceRest cfg st a' b').text = (spaceRest cfg st a b).text := by
    intro L h1 h2
    unfold spaceRest at h2 ⊢
    simp only [hm, hc, hca, Bool.false_eq_true, if_false] at h2 ⊢
    exact late L h1 h2
  unfold spaceBetween at hl ⊢
  rw [ha.1, hb.1, hbang]
  by_cases c1 : (b.kind = .fmiddle || b.kind = .fend) = true
  · simp [c1]
  · by_cases c2 : (a.kind = .fstart || a.kind = .fmiddle) = true
    · simp [c1, c2]
    · simp only [c1, c2, Bool.false_eq_true, if_false] at hl ⊢
      by_cases c3 : (isBang b && startsAtEndOf b a) = true
      · -- glued bang: the emitted layout is adjacent again
        simp only [c3, if_true, sepP, List.length_nil, Nat.add_zero] at hl ⊢
        have : (isBang b && startsAtEndOf b' a') = true := by
          simp only [Bool.and_eq_true] at c3 ⊢
          exact ⟨c3.1, by simp [startsAtEndOf, hl.1, hl.2]⟩
        simp [this]
      · simp only [c3, Bool.false_eq_true, if_false] at hl ⊢
        by_cases c4 : (isBang b && startsAtEndOf b' a') = true
        · -- a bang that now touches its predecessor: then the separator chosen before was empty
          simp only [c4, if_true, sepP]
          simp only [Bool.and_eq_true, startsAtEndOf, decide_eq_true_eq] at c4
          have : (spaceRest cfg st a b).text.length = 0 := by have := hl.2; omega
          exact (List.eq_nil_of_length_eq_zero this).symm
        · simp only [c4, Bool.false_eq_true, if_false]
          exact rest _ hl.2 rfl

example : (spaceBetween genCfg {} ⟨.name, ['x'], 1, 0, 1, 1⟩ (opTok ['='])).text = [' '] := by decide

/-- after a backslash-newline in a Python statement the visual offset is rescaled from the source's indent
width to the formatter's; once the source IS formatter output (indent width = the formatter's, offset as
emitted) the rescaling is the identity -/
theorem C17_continuation_stable (v L : Nat) (hL : 0 < L) : roundDiv (v * L) L = v := by
  unfold roundDiv
  have h1 : v * L / L = v := Nat.mul_div_cancel v hL
  have h2 : v * L % L = 0 := Nat.mul_mod_left v L
  simp only [Nat.ne_of_gt hL, if_false, h1, h2]
  simp [hL]

example : roundDiv (3 * 4) 2 = 6 ∧ roundDiv (3 * 4) 8 = 2 ∧ roundDiv (1 * 4) 8 = 0 ∧ roundDiv (3 * 4) 8 = 2 := by decide


/-! ## the repaired variants (the implementation's variant is probed by the harness on every run) -/

theorem tokClean_snoc_nl (x : Str) (h : tokClean (x ++ ['\n']) = true) : tokClean (x ++ ['\n', '\n']) = true := by
  induction x with
  | nil => decide
  | cons c cs ih =>
    cases cs with
    | nil =>
      have hb : isBlank c = false := by
        simp [tokClean] at h
        cases hb : isBlank c <;> simp [hb] at h ⊢
      simp [tokClean, hb] <;> decide
    | cons d r =>
      have h2 := noTrail_tail h
      simp only [List.cons_append, tokClean] at h ⊢
      simp only [Bool.and_eq_true] at h ⊢
      exact ⟨h.1, ih h2⟩

/-- C17 (repaired `_finalize`, either variant): idempotent for every text. -/
theorem C17_finalizeV_idem (e : Bool) (s : Str) : finalizeV e (finalizeV e s) = finalizeV e s := by
  have hc1 : tokClean (rstripNl (stripTrail s) ++ ['\n']) = true :=
    clean_rstripNl_nl _ (stripTrail_is_clean s)
  have hc2 := tokClean_snoc_nl _ hc1
  have r1 : rstripNl (rstripNl (stripTrail s) ++ ['\n']) = rstripNl (stripTrail s) := by
    rw [rstripNl_append_nl, rstripNl_idem]
  have r2 : rstripNl (rstripNl (stripTrail s) ++ ['\n', '\n']) = rstripNl (stripTrail s) := by
    have : rstripNl (stripTrail s) ++ ['\n', '\n'] = (rstripNl (stripTrail s) ++ ['\n']) ++ ['\n'] := by simp
    rw [this, rstripNl_append_nl, r1]
  unfold finalizeV
  generalize hB : rstripNl (stripTrail s) = B at *
  unfold finalTail
  by_cases hcond : (e && endsInContinuation B) = true
  · simp only [hcond, if_true]
    rw [stripTrail_clean _ hc2, r2]
    simp [hcond]
  · simp only [hcond, Bool.false_eq_true, if_false]
    rw [stripTrail_clean _ hc1, r1]
    simp [hcond]

example : finalizeV true "x = 1 \\\n\n\n".toList = "x = 1 \\\n\n".toList ∧
    finalizeV false "x = 1 \\\n\n\n".toList = "x = 1 \\\n".toList ∧ finalizeV true "x\n\n".toList = "x\n".toList := by decide

/-- a token text that does not end in a blank -/
def endClean (t : Str) : Bool := match t.getLast? with | some c => !isBlank c | none => true

theorem stripMarkedFrom_append (R : Str) (e : Bool) (a b : List (Char × Bool)) :
    stripMarkedFrom R e (a ++ b) = stripMarkedFrom (stripMarkedFrom R e b).1 (stripMarkedFrom R e b).2 a := by
  induction a with
  | nil => rfl
  | cons x xs ih =>
    obtain ⟨c, k⟩ := x
    simp only [List.cons_append, stripMarkedFrom, ih]

theorem stripMarkedFrom_cons (R : Str) (e : Bool) (c : Char) (k : Bool) (cs : List (Char × Bool)) :
    stripMarkedFrom R e ((c, k) :: cs) =
      if isBlank c && (stripMarkedFrom R e cs).2 then stripMarkedFrom R e cs
      else (c :: (stripMarkedFrom R e cs).1, decide (c = '\n') && !k) := by
  simp only [stripMarkedFrom]

theorem stripMarkedFrom_sep (R : Str) (e : Bool) (t : Str) :
    stripMarkedFrom R e (markSep t) = ((stripSepFrom e t).1 ++ R, (stripSepFrom e t).2) := by
  induction t with
  | nil => rfl
  | cons c cs ih =>
    simp only [markSep, List.map_cons] at ih ⊢
    simp only [stripMarkedFrom, stripSepFrom, ih]
    generalize stripSepFrom e cs = q
    obtain ⟨r, e'⟩ := q
    cases hb : (isBlank c && e') <;> simp [hb]

theorem stripMarkedFrom_protected (R : Str) (e : Bool) (cs : Str) (hne : cs ≠ []) (h : endClean cs = true) :
    stripMarkedFrom R e (cs.map (fun d => (d, true))) = (cs ++ R, false) := by
  induction cs with
  | nil => exact absurd rfl hne
  | cons c r ih =>
    cases r with
    | nil =>
      have hb : isBlank c = false := by simpa [endClean] using h
      simp [stripMarkedFrom, hb]
    | cons d r' =>
      have h' : endClean (d :: r') = true := by simpa [endClean] using h
      have := ih (by simp) h'
      simp only [List.map_cons] at this ⊢
      rw [stripMarkedFrom_cons, this]
      simp

/-- "what follows is a line end or the end", seen from in front of a text -/
def headFlag (e : Bool) : Str → Bool
  | [] => e
  | c :: _ => decide (c = '\n')

theorem stripMarkedFrom_tok (R : Str) (e : Bool) (t : Str) (h : endClean t = true) :
    stripMarkedFrom R e (markTok t) = (t ++ R, headFlag e t) := by
  cases t with
  | nil => rfl
  | cons c cs =>
    cases cs with
    | nil =>
      have hb : isBlank c = false := by simpa [endClean] using h
      simp [markTok, stripMarkedFrom, hb, headFlag]
    | cons d r =>
      have h' : endClean (d :: r) = true := by simpa [endClean] using h
      have := stripMarkedFrom_protected R e (d :: r) (by simp) h'
      simp only [markTok]
      rw [stripMarkedFrom_cons, this]
      simp [headFlag]

/-- C17 (repaired `_finalize`, token-safe): when no token text ends in a blank — multi-line literals with
blank-terminated lines INCLUDED — the strip edits separators only: the result is the same pieces with
(some) separator blanks removed, every token text verbatim and in place. -/
theorem stripMarked_spec (ps : List Piece) (h : ∀ p ∈ ps, p.isTok = true → endClean p.text = true) :
    stripMarkedFrom [] true (marked ps) = (flatten (stripSeps ps).1, (stripSeps ps).2) := by
  induction ps with
  | nil => rfl
  | cons p ps ih =>
    have ih := ih (fun q hq => h q (List.mem_cons_of_mem _ hq))
    have hm : marked (p :: ps) = (if p.isTok then markTok p.text else markSep p.text) ++ marked ps := by
      simp [marked]
    rw [hm, stripMarkedFrom_append, ih]
    simp only [stripSeps]
    generalize stripSeps ps = q
    obtain ⟨ps', e⟩ := q
    cases hp : p.isTok
    · simp only [Bool.false_eq_true, if_false]
      rw [stripMarkedFrom_sep]
      generalize stripSepFrom e p.text = q2
      obtain ⟨t, e'⟩ := q2
      simp [flatten]
    · simp only [if_true]
      have ht := stripMarkedFrom_tok (flatten ps') e p.text (h p (List.mem_cons_self ..) hp)
      rw [ht]
      cases hpt : p.text <;> simp [flatten, hpt, headFlag]

theorem C17_finalize_token_safe_repaired (e : Bool) (ps : List Piece)
    (h : ∀ p ∈ ps, p.isTok = true → endClean p.text = true) :
    finalizeLit e ps = rstripNl (flatten (stripSeps ps).1) ++ finalTail e (rstripNl (flatten (stripSeps ps).1)) ∧
    (stripSeps ps).1.filter (·.isTok) = ps.filter (·.isTok) := by
  refine ⟨?_, stripSeps_toks ps⟩
  unfold finalizeLit
  rw [stripMarked_spec ps h]

/-- the literal that the snapshot's `_finalize` changes (`C17_finalize_token_safe_cex`) survives the repaired one -/
example :
    let ps := [tokP ['x'], sepP .eq [' '], tokP ['='], sepP .eq [' '], tokP cexString, sepP .gapSome [' ', ' '], sepP .newline ['\n']]
    finalizeLit false ps = "x = \"\"\"a \nb\"\"\"\n".toList ∧ endClean cexString = true := by decide

theorem map_fst_markTok (t : Str) : (markTok t).map Prod.fst = t := by
  cases t with
  | nil => rfl
  | cons c cs => simp [markTok, List.map_map, Function.comp_def]

theorem map_fst_marked (ps : List Piece) : (marked ps).map Prod.fst = flatten ps := by
  induction ps with
  | nil => rfl
  | cons p ps ih =>
    have hm : marked (p :: ps) = (if p.isTok then markTok p.text else markSep p.text) ++ marked ps := by
      simp [marked]
    have hf : flatten (p :: ps) = p.text ++ flatten ps := by simp [flatten]
    rw [hm, hf, List.map_append, ih]
    cases p.isTok
    · simp [markSep, List.map_map, Function.comp_def]
    · simp [map_fst_markTok]

theorem stripWs_stripMarkedFrom (R : Str) (e : Bool) (m : List (Char × Bool)) :
    stripWs (stripMarkedFrom R e m).1 = stripWs (m.map Prod.fst) ++ stripWs R := by
  induction m with
  | nil => simp [stripMarkedFrom, stripWs]
  | cons x xs ih =>
    obtain ⟨c, k⟩ := x
    simp only [stripMarkedFrom, List.map_cons]
    generalize hq : stripMarkedFrom R e xs = q at ih
    obtain ⟨r, e'⟩ := q
    simp only at ih
    have e2 : stripWs (c :: xs.map Prod.fst) = stripWs [c] ++ stripWs (xs.map Prod.fst) := by
      rw [← stripWs_append]; rfl
    cases hb : (isBlank c && e')
    · simp only [Bool.false_eq_true, if_false]
      have e1 : stripWs (c :: r) = stripWs [c] ++ stripWs r := by rw [← stripWs_append]; rfl
      rw [e1, ih, e2]; simp
    · simp only [if_true]
      simp only [Bool.and_eq_true] at hb
      have hs := isBlank_isPySpace hb.1
      have : stripWs [c] = [] := by simp [stripWs, hs]
      rw [ih, e2, this]; simp

theorem stripWs_finalTail (e : Bool) (b : Str) : stripWs (finalTail e b) = [] := by
  unfold finalTail; split <;> decide

/-- either variant of `_finalize` changes whitespace only -/
theorem C17_finalizeV_only_ws (e : Bool) (s : Str) : stripWs (finalizeV e s) = stripWs s := by
  unfold finalizeV stripTrail
  rw [stripWs_append, stripWs_rstripNl, stripWs_stripTrailFrom, stripWs_finalTail]
  simp [stripWs]

theorem C17_finalizeLit_only_ws (e : Bool) (ps : List Piece) : stripWs (finalizeLit e ps) = stripWs (flatten ps) := by
  unfold finalizeLit
  simp only []
  rw [stripWs_append, stripWs_rstripNl, stripWs_stripMarkedFrom, stripWs_finalTail, map_fst_marked]
  simp [stripWs]

/-- C17 (only whitespace changes) for the implementation's variant, whichever it is. -/
theorem C17_only_ws_changes_V (cfg : Cfg) (hind : allWs cfg.indent = true) (toks : List Tok)
    (hsrc : srcSepsWs (pieces cfg toks) = true) :
    stripWs (formatV cfg toks) = stripWs ((realToks false toks).flatMap (renderToken cfg)) := by
  have key : stripWs (flatten (pieces cfg toks)) = stripWs ((realToks false toks).flatMap (renderToken cfg)) := by
    rw [← C17_tokens_emitted cfg hind]
    apply stripWs_flatten
    intro p hp hnt
    cases hs : p.fromSrc
    · exact C17_seps_are_ws cfg hind toks p hp hnt hs
    · simp only [srcSepsWs, List.all_eq_true] at hsrc
      have := hsrc p hp
      simpa [hs] using this
  unfold formatV
  split
  · rw [C17_finalizeLit_only_ws, key]
  · rw [C17_finalizeV_only_ws, key]

/-! ### subprocess text keeps its gaps (repaired `_space_between`) -/

/-- C17 (repaired code): between the words of a subprocess command — outside macro bodies and continuation
lines — no rule other than the comment padding and the bracket adjacency rules decides a separator: the
source's gap is kept (as one blank or none), for ALL token pairs.  On the snapshot (`guard = false`) the
comma / colon / operator / keyword rules fire there: `C17_subproc_text_respaced_snapshot`. -/
theorem C17_subproc_text_keeps_gaps (cfg : Cfg) (st : St) (a b : Tok) (hg : cfg.v.guard = true)
    (hs : inSubprocText st = true) :
    let r := (spaceLate cfg st a b).rule
    r = .comment ∨ r = .opener ∨ r = .closer ∨ r = .gapLines ∨ r = .gapSome ∨ r = .gapNone := by
  intro r
  simp only [r]
  unfold spaceLate forced
  by_cases c1 : b.kind = .comment
  · simp [c1, sepP]
  · by_cases c2 : a.text ∈ cfg.tb.openers
    · simp [c1, c2, sepP]
    · by_cases c3 : b.text ∈ cfg.tb.closers
      · simp [c1, c2, c3, sepP]
      · simp only [c1, if_false, List.contains_eq_mem, c2, c3, decide_false, Bool.false_eq_true, hg, hs, Bool.and_self,
          if_true]
        rcases gapOf_rule a b with h | h | h <;> simp [h]

/-- the snapshot's behaviour, and the repaired one, on `echo a,b` (tokens `,` and `b`, adjacent in the source) -/
theorem C17_subproc_text_respaced_snapshot :
    let st : St := { subprocLine := true }
    let comma : Tok := ⟨.op, [','], 1, 6, 1, 7⟩
    let b : Tok := ⟨.name, ['b'], 1, 7, 1, 8⟩
    (spaceBetween genCfg st comma b).text = [' '] ∧
    (spaceBetween { genCfg with v := { guard := true } } st comma b).text = [] := by
  decide

example : inSubprocText { brackets := [['('], ['$', '(']] } = true ∧
    inSubprocText { brackets := [['@', '('], ['$', '(']], subprocLine := true } = false ∧
    inSubprocText { subprocLine := true } = true ∧ inSubprocText {} = false := by decide

/-! ## the model computes (non-vacuity of the run-loop theorems) -/

def exToks : List Tok :=
  [⟨.encoding, [], 0, 0, 0, 0⟩, ⟨.name, ['x'], 1, 0, 1, 1⟩, ⟨.op, ['='], 1, 1, 1, 2⟩, ⟨.op, ['('], 1, 2, 1, 3⟩,
   ⟨.number, ['1'], 1, 4, 1, 5⟩, ⟨.op, [','], 1, 6, 1, 7⟩, ⟨.number, ['2'], 1, 7, 1, 8⟩, ⟨.op, [')'], 1, 9, 1, 10⟩,
   ⟨.newline, ['\n'], 1, 10, 1, 11⟩, ⟨.endmarker, [], 2, 0, 2, 0⟩, ⟨.name, ['z'], 3, 0, 3, 1⟩]

def exCfg : Cfg := ⟨genTables, Gen.FormatTables.defaultIndent, splitNl "x=( 1 ,2 )\n".toList, {}⟩

/-- `x=( 1 ,2 )` is formatted to `x = (1, 2)`; the token after ENDMARKER is not emitted -/
example : format exCfg exToks = "x = (1, 2)\n".toList := by decide
example : srcSepsWs (pieces exCfg exToks) = true ∧ allWs exCfg.indent = true := by decide
example : (realToks false exToks).flatMap (renderToken exCfg) = "x=(1,2)".toList := by decide

end Format
