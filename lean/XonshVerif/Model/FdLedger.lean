/-
C09 — the resource ledger of one subprocess-mode command.

What is modelled (xonsh/procs/specs.py, pipelines.py, pipes.py, posix.py, proxies.py), faithfully to the code
as it is: every place where the shell process ACQUIRES something while it prepares, starts and ends a
pipeline — redirect files (`SubprocSpec.resolve_redirects` + the stream setters), the `|` PipeChannel of
`cmds_to_specs`, the capture channels and their reader / writer wrappers of `_make_last_spec_captured`,
started children and helper threads (`SubprocSpec.run`), saved signal handlers (`PopenThread.__init__`,
`ProcProxyThread.__init__`) — and every place where it gives them back: the setters' `safe_close` on a
conflicting redirect, `cmds_to_specs`' `except BaseException: close every built spec`, the start-failure
branch of `CommandPipeline.__init__` (`specs[i:].close()`), `_close_prev_procs`, `_close_proc`, the waits,
`PopenThread._clean_up` / `ProcProxyThread._restore_sigint`.  Closing is idempotent (`PipeChannel.close*`,
`safe_close`, `safe_fdclose`), so the many additional, timing dependent closes the real code performs
(`_prev_procs_done`, the proxy threads closing their writers, `PrevProcCloser`) cannot change the final
ledger and are left out; Props/C09 proves that (extra closes are harmless).

A command is a list of events over the names of ITS resources (`Res`); a session runs commands one after
the other, each under its own generation number (`Ev.map` tags the names), so repetitions never collide.
Hand-written, executable, import-free.
-/
namespace FdLedger

/-- how a pipeline stage is executed: an external process (`subprocess.Popen` / `PopenThread`), a callable
alias on its own thread (`ProcProxyThread`), an unthreadable callable alias (`ProcProxy`, main thread) -/
inductive Kind | ext | thr | unthr
  deriving DecidableEq, Repr

/-- the stream(s) a file redirect assigns: `< f`, `> f` / `o> f` / `>> f`, `e> f`, `a> f` -/
inductive Target | inp | out | err | all
  deriving DecidableEq, Repr

inductive Redir
  | file (t : Target) (openable : Bool)   -- `safe_open` succeeds / raises XonshError
  | errToOut                              -- `e>o`   stderr := subprocess.STDOUT
  | outToErr                              -- `o>e`   stdout := 2
  | errToPipe                             -- `e>p`   stderr := _PIPE_ERR sentinel
  | allToPipe                             -- `a>p`   stdout := _PIPE_ALL sentinel, stderr := STDOUT
  deriving DecidableEq, Repr

structure Stage where
  kind : Kind
  redirs : List Redir
  buildOk : Bool     -- the resolve_* steps after the redirects succeed (false: e.g. `./f` without x permission)
  found : Bool       -- `spec.run` starts the process (false: command not found -> XonshError from `_run_binary`)
  deriving Repr

/-- `$[..]`, bare / `![..]`, `$(..)`, `!(..)` -/
inductive Capture | none | hidden | stdout | object
  deriving DecidableEq, Repr

structure Cmd where
  stages : List Stage
  capture : Capture
  background : Bool      -- trailing `&`
  demanded : Bool        -- for `!(..)`: somebody eventually asks for the result (`end()` runs)
  onMain : Bool          -- the command runs on the main thread (only there are signal handlers swapped)
  captureAlways : Bool   -- $XONSH_CAPTURE_ALWAYS (an external last stage of a bare / ![] command is captured through a pty)
  endAborts : Bool       -- the body of `_end` is left before the last proc was waited for: an exception escapes from reading
                         -- the output (undecodable bytes, KeyboardInterrupt, ...) or iterraw returns early (interrupted proc)
  deriving Repr

/-- which of the small repairs proposed with the findings the code carries (`asIs` = none):
`teardown` = when a later stage fails to start, every stage that was already started is closed and waited
for (the code as it is skips the one just before the failing stage); `lifo` = in the `finally` of `_end`
every proc object gives its saved handlers back, the last started first (the code as it is only asks the
last proc, and only if it gets as far as waiting for it); `closeOwn` = `SubprocSpec.build` closes its own
spec, and the `|` loop its not yet attached pipe, when they raise (the code as it is leaves both to
reference counting, i.e. until the exception object is dropped). -/
structure Variant where
  teardown : Bool
  lifo : Bool
  closeOwn : Bool
  deriving DecidableEq, Repr

def Variant.asIs : Variant := ⟨false, false, false⟩
def Variant.repaired : Variant := ⟨true, true, true⟩

-- resources and events -----------------------------------------------------------------------------

inductive What
  | file (j : Nat)          -- the file object opened for the j-th redirect of the stage
  | pipeR | pipeW           -- the `|` pipe owned by this (upstream) stage
  | capR (err : Bool) | capW (err : Bool)     -- capture channel fds (stdout / stderr)
  | wrapR (err : Bool) | wrapW (err : Bool)   -- `open_reader()` / `open_writer()` wrappers (closefd=False)
  | child | thread          -- a started process (until waited for) / helper thread (until joined)
  deriving DecidableEq, Repr

/-- a resource of one command: which stage it belongs to, what it is -/
structure Res where
  stage : Nat
  what : What
  deriving DecidableEq, Repr

inductive Sig | int | tstp | quit | winch
  deriving DecidableEq, Repr

/-- events over resource names `ρ` and handler-owner names `κ` (within a command: `Res` and the stage index;
in a session: both tagged with the command's generation) -/
inductive Ev (ρ κ : Type)
  | opn (r : ρ)
  | cls (r : ρ)
  | install (k : κ) (s : Sig)     -- old := signal.signal(s, handler of proc k); remembered by that proc
  | restore (k : κ) (s : Sig)     -- if the proc still remembers an old handler: signal.signal(s, old); forget
  deriving DecidableEq, Repr

def Ev.map {ρ κ ρ' κ' : Type} (f : ρ → ρ') (h : κ → κ') : Ev ρ κ → Ev ρ' κ'
  | .opn r => .opn (f r)
  | .cls r => .cls (f r)
  | .install k s => .install (h k) s
  | .restore k s => .restore (h k) s

abbrev CEv := Ev Res Nat                    -- events of one command
abbrev SEv := Ev (Nat × Res) (Nat × Nat)    -- events of a session: (generation, ·)

/-- the events of a command that runs as generation g of the session -/
def atGen (g : Nat) (evs : List CEv) : List SEv := evs.map (Ev.map (fun r => (g, r)) (fun k => (g, k)))

-- the two interpreters ---------------------------------------------------------------------------------

/-- the open-resource list: opening conses, closing removes every copy (idempotent) -/
def stepRes {ρ κ : Type} [DecidableEq ρ] (L : List ρ) : Ev ρ κ → List ρ
  | .opn r => r :: L
  | .cls r => L.filter (fun x => decide (x ≠ r))
  | _ => L

def runRes {ρ κ : Type} [DecidableEq ρ] (L : List ρ) (evs : List (Ev ρ κ)) : List ρ := evs.foldl stepRes L

inductive HVal (κ : Type)
  | prior (n : Nat)           -- whatever was installed before
  | owner (k : κ)             -- `_signal_int` &c. of proc k
  deriving DecidableEq, Repr

structure Handlers (κ : Type) where
  int : HVal κ
  tstp : HVal κ
  quit : HVal κ
  winch : HVal κ
  deriving DecidableEq, Repr

def Handlers.get {κ : Type} (h : Handlers κ) : Sig → HVal κ
  | .int => h.int | .tstp => h.tstp | .quit => h.quit | .winch => h.winch

def Handlers.set {κ : Type} (h : Handlers κ) (s : Sig) (v : HVal κ) : Handlers κ :=
  match s with
  | .int => { h with int := v } | .tstp => { h with tstp := v }
  | .quit => { h with quit := v } | .winch => { h with winch := v }

def eraseKey {α β : Type} [DecidableEq α] (k : α) : List (α × β) → List (α × β)
  | [] => []
  | (k', v) :: rest => if k' = k then rest else (k', v) :: eraseKey k rest

def lookupKey {α β : Type} [DecidableEq α] (k : α) : List (α × β) → Option β
  | [] => none
  | (k', v) :: rest => if k' = k then some v else lookupKey k rest

structure SigSt (κ : Type) where
  cur : Handlers κ
  saved : List ((κ × Sig) × HVal κ)       -- the `old_*_handler` attributes that are not None
  deriving Repr

def stepSig {ρ κ : Type} [DecidableEq κ] (S : SigSt κ) : Ev ρ κ → SigSt κ
  | .install k s => ⟨S.cur.set s (.owner k), ((k, s), S.cur.get s) :: S.saved⟩
  | .restore k s =>
    match lookupKey (k, s) S.saved with
    | some old => ⟨S.cur.set s old, eraseKey (k, s) S.saved⟩
    | none => S
  | _ => S

def runSig {ρ κ : Type} [DecidableEq κ] (S : SigSt κ) (evs : List (Ev ρ κ)) : SigSt κ := evs.foldl stepSig S

-- SubprocSpec -------------------------------------------------------------------------------------------

/-- what a stream slot (`_stdin/_stdout/_stderr`) holds -/
inductive Val
  | obj (r : Res)       -- a Python file object (redirect file or channel wrapper): `safe_close` closes it
  | stdoutFlag          -- subprocess.STDOUT
  | two                 -- the integer 2 (`o>e`)
  | sentinel            -- _PIPE_ALL / _PIPE_ERR
  | fd                  -- an integer pipe fd (owned by a PipeChannel, never closed through the slot)
  deriving DecidableEq, Repr

structure Spec where
  idx : Nat
  kind : Kind
  found : Bool
  sin : Option Val
  sout : Option Val
  serr : Option Val
  capOut : Option Res          -- captured_stdout
  capErr : Option Res          -- captured_stderr
  chans : List (Res × Res)     -- pipe_channels as (read fd, write fd)
  popenThread : Bool           -- cls is PopenThread
  deriving Repr

def valRes : Option Val → List Res
  | some (.obj r) => [r]
  | _ => []

def optRes : Option Res → List Res
  | some r => [r]
  | none => []

def chanRes : List (Res × Res) → List Res
  | [] => []
  | (r, w) :: cs => w :: r :: chanRes cs

/-- everything `SubprocSpec.close()` (and `_close_proc` / `_close_prev_procs`) closes for a spec -/
def Spec.held (s : Spec) : List Res :=
  valRes s.sin ++ valRes s.sout ++ valRes s.serr ++ optRes s.capOut ++ optRes s.capErr ++ chanRes s.chans

def closeSpec (s : Spec) : List CEv := s.held.map .cls

def closeAll (specs : List Spec) : List CEv := specs.flatMap closeSpec

structure Asg where
  slot : Option Val
  evs : List CEv
  raised : Bool

/-- the `stdin` / `stdout` / `stderr` property setters: the first value wins; a second non-None value is
`safe_close`d (a no-op unless it is a file object) and XonshError is raised -/
def assign (cur : Option Val) : Option Val → Asg
  | none => ⟨cur, [], false⟩
  | some x =>
    match cur with
    | none => ⟨some x, [], false⟩
    | some _ => ⟨cur, (valRes (some x)).map .cls, true⟩

structure Step where
  evs : List CEv
  spec : Spec
  raised : Bool

/-- `self.stdin, self.stdout, self.stderr = streams` (in this order; stops at the first raise) -/
def assign3 (s : Spec) (a b c : Option Val) : Step :=
  let x := assign s.sin a
  let s1 := { s with sin := x.slot }
  if x.raised then ⟨x.evs, s1, true⟩ else
  let y := assign s1.sout b
  let s2 := { s1 with sout := y.slot }
  if y.raised then ⟨x.evs ++ y.evs, s2, true⟩ else
  let z := assign s2.serr c
  ⟨x.evs ++ y.evs ++ z.evs, { s2 with serr := z.slot }, z.raised⟩

/-- `_redirect_streams` + the tuple assignment of `resolve_redirects`, for the j-th redirect of stage k -/
def applyRedir (k j : Nat) (s : Spec) : Redir → Step
  | .file _ false => ⟨[], s, true⟩
  | .file t true =>
    let f : Res := ⟨k, .file j⟩
    let v := some (Val.obj f)
    let st := match t with
      | .inp => assign3 s v none none
      | .out => assign3 s none v none
      | .err => assign3 s none none v
      | .all => assign3 s none v v
    ⟨.opn f :: st.evs, st.spec, st.raised⟩
  | .errToOut => assign3 s none none (some .stdoutFlag)
  | .outToErr => assign3 s none (some .two) none
  | .errToPipe => assign3 s none none (some .sentinel)
  | .allToPipe => assign3 s none (some .sentinel) (some .stdoutFlag)

def applyRedirs (k : Nat) : Nat → Spec → List Redir → Step
  | _, s, [] => ⟨[], s, false⟩
  | j, s, r :: rs =>
    let st := applyRedir k j s r
    if st.raised then st else
    let st' := applyRedirs k (j + 1) st.spec rs
    ⟨st.evs ++ st'.evs, st'.spec, st'.raised⟩

def Spec.new (k : Nat) (st : Stage) : Spec :=
  ⟨k, st.kind, st.found, none, none, none, none, none, [], false⟩

/-- `SubprocSpec.build`: the redirects, then the remaining resolve_* steps -/
def build (k : Nat) (st : Stage) : Step :=
  let r := applyRedirs k 0 (Spec.new k st) st.redirs
  if r.raised then r else ⟨r.evs, r.spec, !st.buildOk⟩

structure Built where
  evs : List CEv
  specs : List Spec          -- appended to `specs` so far
  failed : Option Spec       -- the spec whose build raised: referenced by nothing but the exception's frames

/-- the first loop of `cmds_to_specs` -/
def buildAll : Nat → List Stage → Built
  | _, [] => ⟨[], [], none⟩
  | k, st :: rest =>
    let b := build k st
    if b.raised then ⟨b.evs, [], some b.spec⟩ else
    let r := buildAll (k + 1) rest
    ⟨b.evs ++ r.evs, b.spec :: r.specs, r.failed⟩

structure Wired where
  evs : List CEv
  specs : List Spec
  orphan : List Res     -- a PipeChannel created but not yet appended to `pipe_channels` when a setter raised
  raised : Bool

/-- the upstream side of one `|`: `e>p` puts the pipe on stderr (and leaves a stdout that is already redirected alone),
`a>p` frees the stdout slot, then `upstream.stdout = pipe.write_fd`; the Bool says that this setter raised -/
def wireUp (up : Spec) : Spec × Bool :=
  let errp := up.serr == some .sentinel
  let up1 := if errp then { up with serr := some .fd } else up
  let skip := errp && up.sout.isSome
  let up2 := if up1.sout == some .sentinel then { up1 with sout := none } else up1
  if !skip && up2.sout.isSome then (up2, true) else
  (if skip then up2 else { up2 with sout := some .fd }, false)

/-- the `|` loop of `cmds_to_specs`; `up` is the current upstream spec (its stdin is already decided) -/
def wire : Spec → List Spec → Wired
  | up, [] => ⟨[], [up], [], false⟩
  | up, dn :: rest =>
    let pr : Res := ⟨up.idx, .pipeR⟩
    let pw : Res := ⟨up.idx, .pipeW⟩
    let ev0 : List CEv := [.opn pr, .opn pw]
    let u := wireUp up
    if u.2 then ⟨ev0, u.1 :: dn :: rest, [pw, pr], true⟩ else
    if dn.sin.isSome then ⟨ev0, u.1 :: dn :: rest, [pw, pr], true⟩ else
    let r := wire { dn with sin := some .fd } rest
    ⟨ev0 ++ r.evs, { u.1 with chans := u.1.chans ++ [(pr, pw)] } :: r.specs, r.orphan, r.raised⟩

def hasSentinel (s : Spec) : Bool := s.sout == some .sentinel || s.serr == some .sentinel

def capPipe (k : Nat) (err : Bool) : List CEv :=
  [.opn ⟨k, .capR err⟩, .opn ⟨k, .capW err⟩, .opn ⟨k, .wrapW err⟩, .opn ⟨k, .wrapR err⟩]

def threadableLast (c : Capture) (ca : Bool) (s : Spec) : Bool :=
  match s.kind with
  | .ext => c == .stdout || c == .object || (c == .hidden && ca)
  | .thr => true
  | .unthr => false

/-- `_make_last_spec_captured`, stdout side -/
def capOutSide (s : Spec) : List CEv × Spec :=
  if s.sout.isSome then ([], s) else
  (capPipe s.idx false,
   { s with sout := some (.obj ⟨s.idx, .wrapW false⟩), capOut := some ⟨s.idx, .wrapR false⟩,
            chans := s.chans ++ [(⟨s.idx, .capR false⟩, ⟨s.idx, .capW false⟩)] })

/-- `_make_last_spec_captured`, stderr side -/
def capErrSide (c : Capture) (s : Spec) : List CEv × Spec :=
  if s.serr.isSome || c == .stdout then ([], s) else
  (capPipe s.idx true,
   { s with serr := some (.obj ⟨s.idx, .wrapW true⟩), capErr := some ⟨s.idx, .wrapR true⟩,
            chans := s.chans ++ [(⟨s.idx, .capR true⟩, ⟨s.idx, .capW true⟩)] })

/-- `if isinstance(last.stdout, int) and last.stdout == 2: last._stdout = last.stderr` -/
def fixOutToErr (s : Spec) : Spec :=
  if s.sout == some .two then { s with sout := s.serr } else s

/-- `if callable_alias and last.stderr == subprocess.STDOUT: last._stderr = last.stdout; last.captured_stderr = None` -/
def fixErrToOut (s : Spec) : Spec :=
  if s.kind != .ext && s.serr == some .stdoutFlag then { s with serr := s.sout, capErr := none } else s

/-- `_make_last_spec_captured` -/
def makeCaptured (c : Capture) (s : Spec) : List CEv × Spec :=
  ((capOutSide s).1 ++ (capErrSide c (capOutSide s).2).1, fixErrToOut (fixOutToErr (capErrSide c (capOutSide s).2).2))

/-- `_last_spec_update_threading`: an external last stage becomes a PopenThread when it is threadable -/
def setThreading (c : Capture) (ca : Bool) (s : Spec) : Spec :=
  if s.kind == .ext then { s with popenThread := threadableLast c ca s } else s

/-- `_update_last_spec` -/
def updateLast (c : Capture) (ca : Bool) (s : Spec) : List CEv × Spec :=
  if c == .none then ([], s) else
  if c == .hidden && !threadableLast c ca s then ([], setThreading c ca s) else
  makeCaptured c (setThreading c ca s)

def mapLast (f : Spec → List CEv × Spec) : List Spec → List CEv × List Spec
  | [] => ([], [])
  | s :: rest =>
    match rest with
    | [] => ((f s).1, [(f s).2])
    | _ :: _ => ((mapLast f rest).1, s :: (mapLast f rest).2)

/-- why `cmds_to_specs` raised -/
inductive Why | ok | build | empty | wire | sentinel | unthreadable
  deriving DecidableEq, Repr

structure Prepared where
  evs : List CEv
  specs : List Spec
  why : Why
  onRelease : List CEv      -- closes that happen only when the exception and its frames are dropped (refcounting)

/-- `cmds_to_specs`, with its `except BaseException: for s in specs: s.close(); raise` -/
def cmdsToSpecs (v : Variant) (c : Cmd) : Prepared :=
  let b := buildAll 0 c.stages
  match b.failed with
  | some f =>
    if v.closeOwn then ⟨b.evs ++ closeSpec f ++ closeAll b.specs, b.specs, .build, []⟩
    else ⟨b.evs ++ closeAll b.specs, b.specs, .build, closeSpec f⟩
  | none =>
    match b.specs with
    | [] => ⟨b.evs, [], .empty, []⟩
    | s0 :: rest =>
      let w := wire s0 rest
      if w.raised then
        if v.closeOwn then ⟨b.evs ++ w.evs ++ w.orphan.map .cls ++ closeAll w.specs, w.specs, .wire, []⟩
        else ⟨b.evs ++ w.evs ++ closeAll w.specs, w.specs, .wire, w.orphan.map .cls⟩
      else
      if w.specs.any hasSentinel then ⟨b.evs ++ w.evs ++ closeAll w.specs, w.specs, .sentinel, []⟩ else
      if decide (w.specs.length > 1) && w.specs.any (fun s => s.kind == .unthr) then
        ⟨b.evs ++ w.evs ++ closeAll w.specs, w.specs, .unthreadable, []⟩ else
      let u := mapLast (updateLast c.capture c.captureAlways) w.specs
      ⟨b.evs ++ w.evs ++ u.1, u.2, .ok, []⟩

-- CommandPipeline -----------------------------------------------------------------------------------------

/-- the signals whose handlers a proc object of this stage swaps -/
def Spec.sigs (s : Spec) : List Sig :=
  match s.kind with
  | .thr => [.int]
  | .ext => if s.popenThread then [.int, .tstp, .quit, .winch] else []
  | .unthr => []

/-- ... and only on the main thread (`xt.on_main_thread()`): elsewhere nothing is saved, so nothing is restored -/
def Spec.hs (onMain : Bool) (s : Spec) : List Sig := if onMain then s.sigs else []

def installs {ρ κ : Type} (k : κ) (ss : List Sig) : List (Ev ρ κ) := ss.map (Ev.install k)
def restores {ρ κ : Type} (k : κ) (ss : List Sig) : List (Ev ρ κ) := ss.map (Ev.restore k)

/-- what `spec.run` acquires besides handlers -/
def spawn (s : Spec) : List CEv :=
  match s.kind with
  | .ext => .opn ⟨s.idx, .child⟩ :: (if s.popenThread then [.opn ⟨s.idx, .thread⟩] else [])
  | .thr => [.opn ⟨s.idx, .thread⟩]
  | .unthr => []

/-- waiting for / joining a proc -/
def reap (s : Spec) : List CEv :=
  match s.kind with
  | .ext => .cls ⟨s.idx, .child⟩ :: (if s.popenThread then [.cls ⟨s.idx, .thread⟩] else [])
  | .thr => [.cls ⟨s.idx, .thread⟩]
  | .unthr => []

structure Started where
  evs : List CEv
  procs : List Spec      -- `self.procs`, as the specs they were started from
  failed : Bool          -- a `spec.run` raised: `self.proc = None`

/-- the loop of `CommandPipeline.__init__` with its failure branch -/
def start (onMain : Bool) : List Spec → Started
  | [] => ⟨[], [], false⟩
  | s :: rest =>
    if s.kind == .ext && !s.found then
      -- PopenThread.__init__ swaps the handlers first and gives them back (`_clean_up`) when Popen raises
      ⟨installs s.idx (s.hs onMain) ++ restores s.idx (s.hs onMain) ++ closeAll (s :: rest), [], true⟩
    else
      let r := start onMain rest
      ⟨installs s.idx (s.hs onMain) ++ spawn s ++ r.evs, s :: r.procs, r.failed⟩

/-- `_close_prev_procs` for one earlier stage -/
def closePrev (s : Spec) : List CEv := closeSpec s ++ reap s

def lastClose (specs : List Spec) : List CEv :=
  match specs.getLast? with
  | some l => closeSpec l
  | none => []

def restoreAll (onMain : Bool) (procs : List Spec) : List CEv :=
  procs.reverse.flatMap (fun s => restores s.idx (s.hs onMain))

/-- all `_close_proc` does with the last proc itself: join it if it is a thread (a PopenThread has polled its child by then) -/
def joinOnly (s : Spec) : List CEv :=
  match s.kind with
  | .thr => [.cls ⟨s.idx, .thread⟩]
  | .ext => if s.popenThread then [.cls ⟨s.idx, .child⟩, .cls ⟨s.idx, .thread⟩] else []
  | .unthr => []

/-- `end()`: iterraw's wait (skipped when the body is left early), then the `finally`: `_close_prev_procs`, `_close_proc` -/
def finish (v : Variant) (aborts onMain : Bool) (specs : List Spec) (st : Started) : List CEv :=
  if st.failed then
    (if v.teardown then st.procs else st.procs.dropLast).flatMap closePrev ++ lastClose specs
      ++ (if v.lifo then restoreAll onMain st.procs else [])
  else
    match st.procs.getLast? with
    | none => []
    | some l =>
      st.procs.dropLast.flatMap closePrev
        ++ (if aborts then joinOnly l else reap l ++ restores l.idx (l.hs onMain)) ++ closeSpec l
        ++ (if v.lifo then restoreAll onMain st.procs else [])

/-- `_run_specs`: which forms end the pipeline before the command returns (`!()` when its value is demanded) -/
def endCalled (c : Cmd) : Bool :=
  match c.capture with
  | .object => c.demanded
  | _ => !c.background

structure Run where
  main : List CEv          -- everything up to the moment the command has returned (or raised)
  onRelease : List CEv     -- what happens when the raised exception is dropped
  why : Why
  startFailed : Bool
  procs : List Spec        -- the stages that were started

/-- one subprocess-mode command -/
def command (v : Variant) (c : Cmd) : Run :=
  let p := cmdsToSpecs v c
  if p.why != .ok then ⟨p.evs, p.onRelease, p.why, false, []⟩ else
  let st := start c.onMain p.specs
  ⟨p.evs ++ st.evs ++ (if endCalled c then finish v c.endAborts c.onMain p.specs st else []), [], .ok, st.failed, st.procs⟩

def Run.all (r : Run) : List CEv := r.main ++ r.onRelease

def chanWriters : List (Res × Res) → List Res
  | [] => []
  | (_, w) :: cs => w :: chanWriters cs

/-- what a proc THREAD closes by itself if and when it ends (`ProcProxyThread.run`, `PopenThread.run`: `ch.close_writer()`
for the channels of its spec; a PopenThread also `safe_fdclose`s the stdout / stderr objects it was given); whether it
ends is not the ledger's business: these closes are optional extras -/
def selfCloses (s : Spec) : List Res :=
  if s.popenThread then chanWriters s.chans ++ valRes s.sout ++ valRes s.serr
  else if s.kind == .thr then chanWriters s.chans else []

/-- a session repeating a command: generations g, g+1, ... -/
def repeatCmd (v : Variant) (c : Cmd) : Nat → Nat → List SEv
  | _, 0 => []
  | g, n + 1 => atGen g (command v c).all ++ repeatCmd v c (g + 1) n

end FdLedger
