/-
C04 — Python string literals as xonsh's subprocess mode reads them (`ast.literal_eval` on the STRING
token in `xonsh/parsers/base.py p_string_literal`; f-strings go through CPython's own parser).

A Python `str` is a list of code points (`Nat`), NOT `List Char`: surrogate-escaped bytes are lone
surrogates (U+DC80..U+DCFF), which Lean's `Char` cannot hold.

`evalBody` is the value of the text between the quotes of a literal with a given prefix/quote style,
as a state machine folded over the body (structural recursion, no fuel):
  escapes `\\ \' \" \a \b \f \n \r \t \v`, `\<newline>` (dropped), `\o \oo \ooo`, `\xhh`, `\uhhhh`,
  `\Uhhhhhhhh` (≤ 0x10FFFF), unknown escapes kept with their backslash (CPython: a warning, not an
  error), `\N{…}` NOT modelled (answer `none`); raw prefixes keep every backslash; in f-strings the
  literal text has `{{`/`}}` for braces (a single brace — a replacement field — is outside a TEXT part;
  fields are separate `FPart.field`s whose already formatted value is a parameter).
  `none` = not a well-formed body for that quote style (terminator inside, raw newline in a
  single-quoted literal, dangling backslash, truncated hex escape) or not modelled.
`render` is the literal body the harness writes for a value (the renderer is run through the driver,
so what is written IS this function); `Props/C04.lean` proves `evalBody (render …) = some value`
for ALL values and ALL per-character escaping choices.
-/
namespace PyStr

abbrev Str := List Nat

inductive Quote where
  | s1 | d1 | s3 | d3          -- '  "  '''  """
  deriving DecidableEq, Repr

def Quote.ch : Quote → Nat
  | .s1 | .s3 => 39
  | .d1 | .d3 => 34

def Quote.triple : Quote → Bool
  | .s3 | .d3 => true
  | _ => false

/-- how a literal is read: the quote character, triple-quoted?, raw prefix?, f prefix? -/
structure LitCfg where
  qc : Nat
  triple : Bool
  raw : Bool
  f : Bool
  deriving Repr

def mkCfg (raw f : Bool) (q : Quote) : LitCfg := ⟨q.ch, q.triple, raw, f⟩

/-- CPython reads source text with universal newlines: `\r\n` and a lone `\r` are `\n` -/
def normNlGo : Bool → Str → Str
  | _, [] => []
  | prevCR, c :: cs =>
    if c = 13 then 10 :: normNlGo true cs
    else if c = 10 ∧ prevCR = true then normNlGo false cs
    else c :: normNlGo false cs

def normNl (s : Str) : Str := normNlGo false s

inductive St where
  | n (k : Nat)              -- plain text; `k` unescaped quote characters are pending (triple-quoted only)
  | b                        -- just after a backslash
  | o (digits acc : Nat)     -- inside an octal escape (`digits` ∈ {1,2} seen so far)
  | h (need acc : Nat)       -- inside `\x`/`\u`/`\U`: `need` hex digits still to come
  | lb                       -- f-string text: after one `{`
  | rb                       -- f-string text: after one `}`
  deriving Repr

def isOct (c : Nat) : Bool := 48 ≤ c && c ≤ 55

def hexVal (c : Nat) : Option Nat :=
  if 48 ≤ c ∧ c ≤ 57 then some (c - 48)
  else if 97 ≤ c ∧ c ≤ 102 then some (c - 87)
  else if 65 ≤ c ∧ c ≤ 70 then some (c - 55)
  else none

/-- a character met in plain text with `k` pending quote characters -/
def stepN (cfg : LitCfg) (k : Nat) (c : Nat) : Option (Str × St) :=
  let pend := List.replicate k cfg.qc
  if c = 92 then some (pend, .b)
  else if c = cfg.qc then
    (if cfg.triple = true ∧ k + 1 < 3 then some ([], .n (k + 1)) else none)
  else if c = 10 ∧ cfg.triple = false then none
  else if cfg.f = true ∧ c = 123 then some (pend, .lb)
  else if cfg.f = true ∧ c = 125 then some (pend, .rb)
  else some (pend ++ [c], .n 0)

/-- the single-character escapes of a non-raw literal -/
def simpleEsc (c : Nat) : Option Nat :=
  if c = 92 ∨ c = 39 ∨ c = 34 then some c
  else if c = 97 then some 7
  else if c = 98 then some 8
  else if c = 102 then some 12
  else if c = 110 then some 10
  else if c = 114 then some 13
  else if c = 116 then some 9
  else if c = 118 then some 11
  else none

def stepB (cfg : LitCfg) (c : Nat) : Option (Str × St) :=
  if cfg.f = true ∧ (c = 123 ∨ c = 125) then none            -- `\{` in an f-string: not modelled
  else if cfg.raw = true then some ([92, c], .n 0)
  else if c = 10 then some ([], .n 0)
  else match simpleEsc c with
    | some v => some ([v], .n 0)
    | none =>
      if isOct c = true then some ([], .o 1 (c - 48))
      else if c = 120 then some ([], .h 2 0)
      else if c = 117 then some ([], .h 4 0)
      else if c = 85 then some ([], .h 8 0)
      else if c = 78 then none                                 -- `\N{name}`: not modelled
      else some ([92, c], .n 0)

def step (cfg : LitCfg) : St → Nat → Option (Str × St)
  | .n k, c => stepN cfg k c
  | .b, c => stepB cfg c
  | .o d acc, c =>
    if isOct c = true then
      (if d + 1 < 3 then some ([], .o (d + 1) (acc * 8 + (c - 48))) else some ([acc * 8 + (c - 48)], .n 0))
    else (stepN cfg 0 c).map (fun r => (acc :: r.1, r.2))
  | .h need acc, c =>
    match hexVal c with
    | none => none
    | some v =>
      if need ≤ 1 then (if acc * 16 + v ≤ 1114111 then some ([acc * 16 + v], .n 0) else none)
      else some ([], .h (need - 1) (acc * 16 + v))
  | .lb, c => if c = 123 then some ([123], .n 0) else none
  | .rb, c => if c = 125 then some ([125], .n 0) else none

def finish : St → Option Str
  | .n 0 => some []
  | .o _ acc => some [acc]
  | _ => none

def run (cfg : LitCfg) : St → Str → Option Str
  | st, [] => finish st
  | st, c :: cs =>
    match step cfg st c with
    | none => none
    | some (out, st') => (run cfg st' cs).map (out ++ ·)

/-- the Python value of the text between the quotes -/
def evalBody (raw f : Bool) (q : Quote) (body : Str) : Option Str :=
  run (mkCfg raw f q) (.n 0) (normNl body)

/-- an f-string as the harness writes it: literal text and replacement fields (`{v3}`), the field's
formatted value being supplied (CPython formats it) -/
inductive FPart where
  | text (body : Str)
  | field (value : Str)
  deriving Repr

def evalParts (raw f : Bool) (q : Quote) : List FPart → Option Str
  | [] => some []
  | .text b :: ps =>
    match evalBody raw f q b, evalParts raw f q ps with
    | some v, some r => some (v ++ r)
    | _, _ => none
  | .field v :: ps => (evalParts raw f q ps).map (v ++ ·)

-- rendering -------------------------------------------------------------------------------

def hexChar (d : Nat) : Nat := if d < 10 then 48 + d else 87 + d

def hex2 (c : Nat) : Str := [hexChar (c / 16), hexChar (c % 16)]
def hex4 (c : Nat) : Str := [hexChar (c / 4096), hexChar (c / 256 % 16), hexChar (c / 16 % 16), hexChar (c % 16)]
def hex8 (c : Nat) : Str :=
  [hexChar (c / 268435456), hexChar (c / 16777216 % 16), hexChar (c / 1048576 % 16), hexChar (c / 65536 % 16),
   hexChar (c / 4096 % 16), hexChar (c / 256 % 16), hexChar (c / 16 % 16), hexChar (c % 16)]

/-- `\xhh`, `\uhhhh` or `\Uhhhhhhhh`, by magnitude -/
def hexEsc (c : Nat) : Str :=
  if c < 256 then 92 :: 120 :: hex2 c
  else if c < 65536 then 92 :: 117 :: hex4 c
  else 92 :: 85 :: hex8 c

/-- characters that can never be written as themselves: NUL (no NUL in source text), CR (the reader
would turn it into `\n`), lone surrogates (source text is UTF-8) -/
def mustHex (c : Nat) : Bool := c = 0 || c = 13 || (55296 ≤ c && c ≤ 57343)

/-- one character of a NON-RAW literal; `esc` = the harness chose to hex-escape it anyway;
`rawNl` = newlines are written as themselves (only meaningful in a triple-quoted literal) -/
def renderChar (f rawNl : Bool) (esc : Bool) (c : Nat) : Str :=
  if c = 92 then [92, 92]
  else if c = 39 then [92, 39]
  else if c = 34 then [92, 34]
  else if c = 10 then (if rawNl = true then [10] else [92, 110])
  else if mustHex c = true ∨ esc = true then hexEsc c
  else if f = true ∧ c = 123 then [123, 123]
  else if f = true ∧ c = 125 then [125, 125]
  else [c]

/-- the body of a non-raw literal for value `s`; `choices` (per position, missing = false) selects
characters to hex-escape on top of the mandatory ones -/
def render (f rawNl : Bool) : List Bool → Str → Str
  | _, [] => []
  | [], c :: cs => renderChar f rawNl false c ++ render f rawNl [] cs
  | e :: es, c :: cs => renderChar f rawNl e c ++ render f rawNl es cs

/-- can value `s` be written verbatim between the quotes of a RAW (non-f) literal? -/
def rawWritable (q : Quote) (s : Str) : Bool :=
  !(s.contains 13) && !(s.contains 0) && !(s.any fun c => 55296 ≤ c && c ≤ 57343) &&
  (evalBody true false q s == some s)

def validStr (s : Str) : Prop := ∀ c ∈ s, c ≤ 1114111

end PyStr
