/-
C10 — the converter / detyper pairs of xonsh/tools.py and xonsh/environ.py over plain character lists
(import-free), and the detype-cache machine of `Env` with OBJECT IDENTITY for mutable values.
-/
namespace Conv

abbrev Str := List Char

/-- `str.lower()` restricted to ASCII (the detypers only emit ASCII: "1", "", "None") -/
def lower (s : Str) : Str := s.map Char.toLower

/-- `to_bool` on a string: `False if x.lower() in _FALSES else True` -/
def toBool (falses : List Str) (s : Str) : Bool := !(falses.contains (lower s))
/-- `bool_to_str` -/
def boolToStr (b : Bool) : Str := if b then ['1'] else []

/-- `to_bool_or_none` on a string -/
def toBoolOrNone (falses : List Str) (s : Str) : Option Bool :=
  if lower s = "none".toList then none else some (toBool falses s)
/-- `bool_or_none_to_str` -/
def boolOrNoneToStr : Option Bool → Str
  | none => "None".toList
  | some b => boolToStr b

/-- Python `s.split(sep)` for a one-character separator: never returns the empty list -/
def splitOn (sep : Char) : Str → List Str
  | [] => [[]]
  | c :: cs =>
    if c = sep then [] :: splitOn sep cs
    else match splitOn sep cs with
      | [] => [[c]]
      | h :: t => (c :: h) :: t

/-- Python `sep.join(xs)` -/
def joinWith (sep : Char) : List Str → Str
  | [] => []
  | [x] => x
  | x :: y :: rest => x ++ sep :: joinWith sep (y :: rest)

/-- `pathsep_to_seq` / `EnvPath.__init__` on a string / `csv_to_set` (as the list whose set it is):
`[] if not x else x.split(sep)` -/
def sepToSeq (sep : Char) (s : Str) : List Str := if s.isEmpty then [] else splitOn sep s
/-- `seq_to_pathsep` / `env_path_to_str` / `set_to_csv` -/
def seqToSep (sep : Char) (l : List Str) : Str := joinWith sep l

/-- the values for which the sequence pairs can round-trip at all: no element contains the
separator, and the value is not the one-element list holding the empty string -/
def ValidSeq (sep : Char) (l : List Str) : Prop := (∀ x ∈ l, sep ∉ x) ∧ l ≠ [[]]

end Conv

namespace DetypeM
/-! the `_detyped` cache of `Env` with object identity for mutable (list-like) values -/

abbrev Key := Nat
abbrev Ref := Nat

inductive Value where
  | str (s : Nat)          -- an immutable value (its detyped form is itself)
  | list (r : Ref)         -- a mutable sequence object (EnvPath, list, set): identity `r`
  deriving DecidableEq, Repr

inductive Detyped where
  | str (s : Nat)
  | list (l : List Nat)
  deriving DecidableEq, Repr

structure St where
  vals : List (Key × Value)
  heap : List (Ref × List Nat)           -- current contents of every mutable object
  cache : Option (List (Key × Detyped))
  nextRef : Ref
  deriving DecidableEq, Repr

def deref (s : St) (r : Ref) : List Nat := (s.heap.lookup r).getD []

def detypeVal (s : St) : Value → Detyped
  | .str x => .str x
  | .list r => .list (deref s r)

/-- what a child must receive: the CURRENT values -/
def fresh (s : St) : List (Key × Detyped) := s.vals.map (fun p => (p.1, detypeVal s p.2))

def setVal (vals : List (Key × Value)) (k : Key) (v : Value) : List (Key × Value) :=
  (k, v) :: vals.filter (fun p => p.1 != k)

inductive Op where
  | setStr (k : Key) (x : Nat)            -- `$K = "x"`
  | setList (k : Key) (l : List Nat)      -- `$K = [..]` : a new object
  | del (k : Key)
  | getitem (k : Key)                     -- `$K` is read (a mutable value invalidates the cache)
  | mutateVia (k : Key) (x : Nat)         -- `$K.append(x)`: read `$K`, then mutate the object
  | mutateHeld (r : Ref) (x : Nat)        -- `p.append(x)` through a reference obtained earlier
  | detype                                -- `env.detype()` (also what every launch calls)
  deriving Repr

def heapSet (h : List (Ref × List Nat)) (r : Ref) (l : List Nat) : List (Ref × List Nat) :=
  (r, l) :: h.filter (fun p => p.1 != r)

def isMutable (s : St) (k : Key) : Bool :=
  match s.vals.lookup k with
  | some (.list _) => true
  | _ => false

def step (s : St) : Op → St × Option (List (Key × Detyped))
  | .setStr k x => ({ s with vals := setVal s.vals k (.str x), cache := none }, none)
  | .setList k l =>
    ({ s with vals := setVal s.vals k (.list s.nextRef), heap := heapSet s.heap s.nextRef l,
              nextRef := s.nextRef + 1, cache := none }, none)
  | .del k =>
    -- `del $K` of an unset variable raises KeyError and touches nothing
    (if (s.vals.lookup k).isSome then { s with vals := s.vals.filter (fun p => p.1 != k), cache := none } else s, none)
  | .getitem k => (if isMutable s k then { s with cache := none } else s, none)
  | .mutateVia k x =>
    match s.vals.lookup k with
    | some (.list r) => ({ s with heap := heapSet s.heap r (deref s r ++ [x]), cache := none }, none)
    | _ => (s, none)
  | .mutateHeld r x => ({ s with heap := heapSet s.heap r (deref s r ++ [x]) }, none)
  | .detype =>
    match s.cache with
    | some c => (s, some c)
    | none => let c := fresh s; ({ s with cache := some c }, some c)

def run (s : St) : List Op → St
  | [] => s
  | op :: rest => run (step s op).1 rest

def init : St := ⟨[], [], none, 0⟩

end DetypeM
