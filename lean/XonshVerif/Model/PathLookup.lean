/-
C08 — command lookup (xonsh/procs/executables.py) and the commands cache (xonsh/commands_cache.py).
Hand-written, executable, import-free.  Directories and names are abstract (`Nat`); the file system
is an oracle: which directories exist, what `realpath` maps them to, which names are executable
regular files in them, and each directory's mtime.
-/
namespace PathLookup

abbrev Dir := Nat
abbrev Name := Nat

structure Fs where
  rp : Dir → Dir                       -- os.path.realpath of a $PATH entry
  isDir : Dir → Bool                   -- os.path.isdir
  hasExec : Dir → Name → Bool          -- is_file ∧ os.access(X_OK) for dir/name

/-- `unique_everseen`: keep first occurrences -/
def dedup : List Dir → List Dir → List Dir
  | [], _ => []
  | d :: ds, seen => if seen.contains d then dedup ds seen else d :: dedup ds (d :: seen)

/-- `clear_paths`: realpath, first occurrence only, existing directories only -/
def clearPaths (fs : Fs) (paths : List Dir) : List Dir :=
  (dedup (paths.map fs.rp) []).filter fs.isDir

/-- `locate_file_in_path_env(name, check_executable=True)` without read-once directories:
the first cleared directory holding an executable regular file of that name -/
def locate (fs : Fs) (paths : List Dir) (n : Name) : Option Dir :=
  (clearPaths fs paths).find? (fun d => fs.hasExec d n)

/-- THE SPEC (execvp / `command -v`): walk `$PATH` in its own order, entry by entry -/
def posixFirst (fs : Fs) (paths : List Dir) (n : Name) : Option Dir :=
  (paths.find? (fun d => fs.isDir d && fs.hasExec d n)).map fs.rp

/-- what a sane file system guarantees about `realpath` -/
structure FsOk (fs : Fs) : Prop where
  idem : ∀ d, fs.rp (fs.rp d) = fs.rp d
  dirRp : ∀ d, fs.isDir (fs.rp d) = fs.isDir d
  execRp : ∀ d n, fs.hasExec (fs.rp d) n = fs.hasExec d n

-- the commands cache ---------------------------------------------------------------------

/-- the mutable world: per (real) directory its mtime and its current executable names -/
structure World where
  mtime : List (Dir × Nat)
  execs : List (Dir × List Name)
  path : List Dir                      -- $PATH as real, existing, distinct directories (cleared)
  deriving Repr

def World.mt (w : World) (d : Dir) : Nat := (w.mtime.lookup d).getD 0
def World.ex (w : World) (d : Dir) : List Name := (w.execs.lookup d).getD []

structure Cache where
  paths : List (Dir × Nat × List Name)     -- _paths_cache: dir ↦ (mtime, names)
  cmds : List (Name × Dir)                 -- _cmds_cache: name ↦ directory it is served from
  lastPath : Option (List Dir)             -- the $PATH the command table was last built for
  deriving Repr

def Cache.empty : Cache := ⟨[], [], none⟩

def setAssoc {α : Type} (l : List (Nat × α)) (k : Nat) (v : α) : List (Nat × α) :=
  (k, v) :: l.filter (fun p => p.1 != k)

/-- `_update_paths_cache`: rescan a directory that is not cached or whose mtime differs -/
def refreshDirs (w : World) : List Dir → List (Dir × Nat × List Name) → Bool → List (Dir × Nat × List Name) × Bool
  | [], pc, upd => (pc, upd)
  | d :: ds, pc, upd =>
    match pc.lookup d with
    | some (m, _) => if m != w.mt d then refreshDirs w ds (setAssoc pc d (w.mt d, w.ex d)) true
                     else refreshDirs w ds pc upd
    | none => refreshDirs w ds (setAssoc pc d (w.mt d, w.ex d)) true

/-- the command table: iterate `$PATH` back to front so that entries at the front overwrite -/
def buildCmds (pc : List (Dir × Nat × List Name)) : List Dir → List (Name × Dir) → List (Name × Dir)
  | [], acc => acc
  | d :: ds, acc =>
    let names := ((pc.lookup d).map (·.2)).getD []
    buildCmds pc ds (names.foldl (fun a n => setAssoc a n d) acc)

/-- `update_cache` (as repaired: a changed `$PATH` list also rebuilds the command table) -/
def updateCache (w : World) (c : Cache) : Cache :=
  let (pc, upd) := refreshDirs w w.path.reverse c.paths false
  if upd || c.lastPath != some w.path then
    { paths := pc, cmds := buildCmds pc w.path.reverse [], lastPath := some w.path }
  else { c with paths := pc }

/-- `update_cache` of the pinned snapshot: only directory mtimes (and aliases) trigger a rebuild -/
def updateCacheOld (w : World) (c : Cache) : Cache :=
  let (pc, upd) := refreshDirs w w.path.reverse c.paths false
  if upd then { paths := pc, cmds := buildCmds pc w.path.reverse [], lastPath := some w.path }
  else { c with paths := pc }

/-- `locate_binary(name)` / `name in cache` -/
def cacheLookup (w : World) (c : Cache) (n : Name) : Cache × Option Dir :=
  let c' := updateCache w c
  (c', c'.cmds.lookup n)

/-- what the file system says: first `$PATH` directory whose current executables include the name -/
def worldLocate (w : World) (n : Name) : Option Dir := w.path.find? (fun d => (w.ex d).contains n)

inductive Op where
  | lookup (n : Name)
  | create (d : Dir) (n : Name)        -- a new executable appears: the directory's mtime changes
  | delete (d : Dir) (n : Name)
  | chmodOff (d : Dir) (n : Name)      -- loses its x bit: the directory's mtime does NOT change
  | setPath (p : List Dir)
  | setMtime (d : Dir) (m : Nat)       -- the directory's mtime is set (possibly backwards: mv / tar / touch -d)
  deriving Repr

def bump (w : World) (d : Dir) : World := { w with mtime := setAssoc w.mtime d (w.mt d + 1) }

def stepWorld (w : World) : Op → World
  | .lookup _ => w
  | .create d n => if (w.ex d).contains n then w else bump { w with execs := setAssoc w.execs d (w.ex d ++ [n]) } d
  | .delete d n => if (w.ex d).contains n then bump { w with execs := setAssoc w.execs d ((w.ex d).filter (· != n)) } d else w
  | .chmodOff d n => { w with execs := setAssoc w.execs d ((w.ex d).filter (· != n)) }
  | .setPath p => { w with path := p }
  | .setMtime d m => { w with mtime := setAssoc w.mtime d m }

end PathLookup
