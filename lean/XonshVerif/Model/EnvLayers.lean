/-
C11 — the layered environment of xonsh/environ.py: one global dict, a thread-local dict per thread
(`InternalEnvironDict`), a thread-local stack of overlays, registered defaults, the `DELETE_VAR`
mask and the single shared `_detyped` cache.  Hand-written, executable, import-free.
Values are immutable here (in-place mutation of list values is C10's subject); callable defaults
are not modelled (the tie uses plain defaults).
-/
namespace EnvL

abbrev Key := Nat
abbrev Val := Nat

inductive Cell where
  | val (v : Val)
  | mask                      -- DELETE_VAR
  deriving DecidableEq, Repr, Inhabited

abbrev Map := List (Key × Cell)

def mset (m : Map) (k : Key) (c : Cell) : Map := (k, c) :: m.filter (fun p => p.1 != k)
def mdel (m : Map) (k : Key) : Map := m.filter (fun p => p.1 != k)
def mkeys (m : Map) : List Key := m.map (·.1)

/-- what `swap` remembers per key: the captured cell, or `none` = NotImplemented (was absent) -/
abbrev Saved := List (Key × Option Cell)

structure Frame where
  old : Saved                 -- the `old` dict of one `swap` activation, in insertion order
  pushed : Bool               -- whether an overlay was pushed
  deriving DecidableEq, Repr, Inhabited

structure St where
  global : Map
  locals : List Map                  -- thread-local layer, per thread
  overlays : List (List Map)         -- overlay stack per thread, head = most recent
  frames : List (List Frame)         -- active `swap` activations per thread, head = innermost
  defaults : List (Key × Val)        -- registered variables with a (plain) default
  registered : List Key              -- all registered variable names (`self._vars`)
  detyped : Option (List (Key × Val))  -- the shared `_detyped` cache
  deriving DecidableEq, Repr, Inhabited

def St.loc (s : St) (t : Nat) : Map := s.locals.getD t []
def St.ovs (s : St) (t : Nat) : List Map := s.overlays.getD t []
def St.frs (s : St) (t : Nat) : List Frame := s.frames.getD t []
def St.setLoc (s : St) (t : Nat) (m : Map) : St := { s with locals := s.locals.set t m }

/-- `InternalEnvironDict.__getitem__/__contains__`: thread-local first, then global -/
def dLookup (s : St) (t : Nat) (k : Key) : Option Cell :=
  match (s.loc t).lookup k with
  | some c => some c
  | none => s.global.lookup k

/-- first overlay, most recent first, that mentions `k` -/
def ovLookup : List Map → Key → Option Cell
  | [], _ => none
  | o :: rest, k => match o.lookup k with
    | some c => some c
    | none => ovLookup rest k

/-- `Env.__getitem__` : `none` = KeyError -/
def vGet (s : St) (t : Nat) (k : Key) : Option Val :=
  match ovLookup (s.ovs t) k with
  | some (.val v) => some v
  | some .mask => none
  | none =>
    match dLookup s t k with
    | some (.val v) => some v
    | some .mask => none
    | none => s.defaults.lookup k

/-- `Env.__contains__`, written as the code writes it -/
def vContains (s : St) (t : Nat) (k : Key) : Bool :=
  match ovLookup (s.ovs t) k with
  | some c => c != .mask
  | none =>
    match dLookup s t k with
    | some c => c != .mask
    | none => (s.defaults.lookup k).isSome

/-- `Env.__iter__`: is `k` yielded?  (rawkeys = keys of `_d` ∪ defaulted vars; a key masked in ANY
overlay layer is skipped; a key whose `_d` cell is the mask is skipped) -/
def vIter (s : St) (t : Nat) (k : Key) : Bool :=
  ((dLookup s t k).isSome || (s.defaults.lookup k).isSome) &&
  !((s.ovs t).any (fun o => o.lookup k == some .mask)) &&
  !(dLookup s t k == some .mask)

/-- flatten `dict(self._d)` then `items.update(overlay)` for overlays oldest → newest -/
def detypeCells (s : St) (t : Nat) (k : Key) : Option Cell :=
  match ovLookup (s.ovs t) k with
  | some c => some c
  | none => dLookup s t k

def allKeys (s : St) (t : Nat) : List Key :=
  (mkeys s.global ++ mkeys (s.loc t) ++ ((s.ovs t).flatMap mkeys) ++ s.defaults.map (·.1)).eraseDups

/-- what a fresh computation of `detype()` yields, as an association list over `allKeys` -/
def detypeFresh (s : St) (t : Nat) : List (Key × Val) :=
  (allKeys s t).filterMap (fun k => match detypeCells s t k with
    | some (.val v) => some (k, v)
    | _ => none)

/-- `Env.detype()`: the shared cache is used (and filled) only while this thread has no overlay -/
def detype (s : St) (t : Nat) : St × List (Key × Val) :=
  match s.detyped, (s.ovs t).isEmpty with
  | some c, true => (s, c)
  | _, true => let c := detypeFresh s t; ({ s with detyped := some c }, c)
  | _, false => (s, detypeFresh s t)

/-- `InternalEnvironDict.__setitem__`: to the thread-local layer iff the key is overridden there -/
def dSet (s : St) (t : Nat) (k : Key) (c : Cell) : St :=
  if ((s.loc t).lookup k).isSome then s.setLoc t (mset (s.loc t) k c)
  else { s with global := mset s.global k c }

/-- `InternalEnvironDict.__delitem__` -/
def dDel (s : St) (t : Nat) (k : Key) : St :=
  if ((s.loc t).lookup k).isSome then s.setLoc t (mdel (s.loc t) k)
  else { s with global := mdel s.global k }

inductive Res where
  | ok | keyError
  deriving DecidableEq, Repr

/-- `env[k] = v` / `env[k] = DELETE_VAR` (non thread-local `_set_item`) -/
def setItem (s : St) (t : Nat) (k : Key) (c : Cell) : St :=
  match c with
  | .mask => if (dLookup s t k).isSome then { dDel s t k with detyped := none } else s
  | .val _ => { dSet s t k c with detyped := none }

/-- `del env[k]` (`_del_item`) -/
def delItem (s : St) (t : Nat) (k : Key) : St × Res :=
  if (dLookup s t k).isSome then ({ dDel s t k with detyped := none }, .ok)
  else if s.registered.contains k then (s, .ok) else (s, .keyError)

/-- `_set_item(k, c, thread_local=True)` -/
def setLocal (s : St) (t : Nat) (k : Key) (c : Cell) : St :=
  { s.setLoc t (mset (s.loc t) k c) with detyped := none }

/-- `_del_item(k, thread_local=True)` -/
def delLocal (s : St) (t : Nat) (k : Key) : St × Res :=
  if (dLookup s t k).isSome then ({ s.setLoc t (mdel (s.loc t) k) with detyped := none }, .ok)
  else if s.registered.contains k then (s, .ok) else (s, .keyError)

/-- `_capture_for_swap(key, local)`: the thread-local cell, else the explicitly set global value;
a registered default or a value seen only through an overlay is NOT captured (`none`). -/
def capture (s : St) (t : Nat) (k : Key) : Option Cell :=
  match (s.loc t).lookup k with
  | some c => some c
  | none => s.global.lookup k

/-- the capture rule of the pinned snapshot (before fix faca9c2): the VISIBLE value -/
def captureOld (s : St) (t : Nat) (k : Key) : Option Cell :=
  match (s.loc t).lookup k with
  | some c => some c
  | none => (vGet s t k).map .val

/-- `old[k] = captured` (a dict: a repeated key keeps one entry, with the latest value; the order in
which the entries are restored is immaterial because distinct keys touch distinct cells) -/
def savedSet (old : Saved) (k : Key) (c : Option Cell) : Saved :=
  (k, c) :: old.filter (fun p => p.1 != k)

/-- the entry half of `swap(other, overlay=…)` -/
def enterLoop (s : St) (t : Nat) : List (Key × Cell) → Saved → St × Saved
  | [], old => (s, old)
  | (k, c) :: rest, old =>
    let old' := savedSet old k (capture s t k)
    enterLoop (setLocal s t k c) t rest old'

def swapEnter (s : St) (t : Nat) (kvs : List (Key × Cell)) (overlay : Option Map) : St :=
  let (s1, old) := enterLoop s t kvs []
  let s2 := match overlay with
    | some o => { s1 with overlays := s1.overlays.set t (o :: s1.ovs t) }
    | none => s1
  { s2 with frames := s2.frames.set t (⟨old, overlay.isSome⟩ :: s2.frs t) }

/-- the `finally` half of `swap`: pop the overlay, restore every captured key; a KeyError from
removing an override the body already deleted is swallowed -/
def restoreLoop (s : St) (t : Nat) : Saved → St × Res
  | [] => (s, .ok)
  | (k, none) :: rest => restoreLoop (delLocal s t k).1 t rest
  | (k, some c) :: rest => restoreLoop (setLocal s t k c) t rest

def swapExit (s : St) (t : Nat) : St × Res :=
  match s.frs t with
  | [] => (s, .ok)
  | f :: outer =>
    let s1 := { s with frames := s.frames.set t outer }
    let s2 := if f.pushed then { s1 with overlays := s1.overlays.set t (s1.ovs t).tail } else s1
    restoreLoop s2 t f.old

inductive Op where
  | set (k : Key) (c : Cell)
  | del (k : Key)
  | enter (kvs : List (Key × Cell)) (overlay : Option Map)
  | exit
  | detype
  | spawn (child : Nat)            -- worker thread `child` starts: inherits `get_swapped_values()`
  deriving Repr

inductive Out where
  | ok | keyError | detyped (l : List (Key × Val))
  deriving Repr

def step (s : St) (t : Nat) : Op → St × Out
  | .set k c => (setItem s t k c, .ok)
  | .del k => match delItem s t k with
    | (s', .ok) => (s', .ok)
    | (s', .keyError) => (s', .keyError)
  | .enter kvs o => (swapEnter s t kvs o, .ok)
  | .exit => match swapExit s t with
    | (s', .ok) => (s', .ok)
    | (s', .keyError) => (s', .keyError)
  | .detype => let (s', l) := detype s t; (s', .detyped l)
  | .spawn child => (s.setLoc child (s.loc t), .ok)

def run (s : St) : List (Nat × Op) → St
  | [] => s
  | (t, op) :: rest => run (step s t op).1 rest

def init (nthreads : Nat) (global : Map) (defaults : List (Key × Val)) (registered : List Key) : St :=
  ⟨global, List.replicate nthreads [], List.replicate nthreads [], List.replicate nthreads [],
   defaults, registered, none⟩

end EnvL
