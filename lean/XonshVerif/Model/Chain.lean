/-
C05 — chains, exit codes and fail-fast.
`Spec`: the documented truth table (docs/error_handling.rst, the property text).
`Impl`: what the code does — Python `and`/`or` over the VALUES the subprocess helpers return
(xonsh/built_ins.py subproc_*), the parser's `in_boolop` mark on direct operands
(xonsh/parsers/base.py _mark_boolop_subproc_values), the three raise sites
(CommandPipeline._raise_subproc_error, _check_subproc_helper_raise, subproc_check_boolop with its
`XSH.lastcmd` fallback) and the outermost-only / statement-level wrapping (_SubprocChainRaiseWrapper).
Hand-written, executable, import-free.
-/
namespace Chain

inductive Form where
  | hidden       -- a bare command or `![...]`   → HiddenCommandPipeline
  | uncaptured   -- `$[...]`                     → None
  | stdout       -- `$(...)`                     → str
  | object       -- `!(...)`                     → CommandPipeline ("the user takes responsibility")
  deriving DecidableEq, Repr

inductive Dec where
  | none | raise | ignore                        -- `@error_raise` / `@error_ignore` on the LAST stage
  deriving DecidableEq, Repr

/-- a command injected into another one's arguments with `@$(...)`: runs first, as its own chain -/
structure Inner where
  id : Nat
  rc : Nat
  dec : Dec
  deriving DecidableEq, Repr

/-- one pipeline: earlier stages (all of them run; their exit codes and decorators do not count),
the last stage's exit code and decorator, the capture form, whether it prints anything (the value of
`$()`), and whether its text is also valid Python (such an operand is wrapped only in the
context-aware phase and never receives the `in_boolop` mark) -/
structure Cmd where
  id : Nat
  rc : Nat
  form : Form
  dec : Dec
  prints : Bool
  pyLike : Bool
  early : List Nat
  inject : List Inner
  deriving DecidableEq, Repr

inductive Ch where
  | cmd (c : Cmd)
  | and (a b : Ch)
  | or (a b : Ch)
  deriving Repr

structure Flags where
  raiseErr : Bool        -- $XONSH_SUBPROC_RAISE_ERROR
  cmdRaise : Bool        -- $XONSH_SUBPROC_CMD_RAISE_ERROR
  deriving DecidableEq, Repr

/-- what escapes: CalledProcessError(returncode, command id) -/
structure Raised where
  rc : Nat
  id : Nat
  deriving DecidableEq, Repr

/-- the executed log (command ids, in order) and the last completed pipeline's facts -/
structure St where
  log : List Nat
  last : Option (Nat × Nat × Form × Dec)     -- XSH.lastcmd: id, rc, captured form, decorator
  deriving DecidableEq, Repr

def St.init : St := ⟨[], none⟩

def innerFacts (i : Inner) : Nat × Nat × Form × Dec := (i.id, i.rc, .stdout, i.dec)
def facts (c : Cmd) : Nat × Nat × Form × Dec := (c.id, c.rc, c.form, c.dec)

-- ===================================================================== the specification

namespace Spec

/-- does this command raise AT the command: `@error_raise`, or `$XONSH_SUBPROC_CMD_RAISE_ERROR`
unless `@error_ignore` -/
def raisesAt (fl : Flags) (rc : Nat) (d : Dec) : Bool :=
  rc != 0 && (d == .raise || (fl.cmdRaise && d != .ignore))

/-- a chain's final result raises: `$XONSH_SUBPROC_RAISE_ERROR`, the last command that ran failed,
it is not a `!()` and not `@error_ignore`d -/
def raisesFinal (fl : Flags) (rc : Nat) (f : Form) (d : Dec) : Bool :=
  fl.raiseErr && rc != 0 && f != .object && d != .ignore

/-- injected commands are chains of their own, run before the command that receives them -/
def runInner (fl : Flags) : List Inner → List Nat → Except (Raised × List Nat) (List Nat)
  | [], log => .ok log
  | i :: is, log =>
    let log := log ++ [i.id]
    if raisesAt fl i.rc i.dec || raisesFinal fl i.rc .stdout i.dec then .error (⟨i.rc, i.id⟩, log)
    else runInner fl is log

/-- run one command: (log, success) or the raise -/
def runCmd (fl : Flags) (c : Cmd) (log : List Nat) : Except (Raised × List Nat) (List Nat) :=
  match runInner fl c.inject log with
  | .error e => .error e
  | .ok log =>
    let log := log ++ c.early ++ [c.id]
    if raisesAt fl c.rc c.dec then .error (⟨c.rc, c.id⟩, log) else .ok log

/-- short-circuit evaluation over EXIT CODES; returns the log and the last command that ran -/
def eval (fl : Flags) : Ch → List Nat → Except (Raised × List Nat) (List Nat × Cmd)
  | .cmd c, log => (runCmd fl c log).map (fun l => (l, c))
  | .and a b, log =>
    match eval fl a log with
    | .error e => .error e
    | .ok (l, c) => if c.rc == 0 then eval fl b l else .ok (l, c)
  | .or a b, log =>
    match eval fl a log with
    | .error e => .error e
    | .ok (l, c) => if c.rc == 0 then .ok (l, c) else eval fl b l

/-- one statement: the executed commands and whether a CalledProcessError escapes -/
def stmt (fl : Flags) (ch : Ch) (log : List Nat) : List Nat × Option Raised :=
  match eval fl ch log with
  | .error (r, l) => (l, some r)
  | .ok (l, c) => if raisesFinal fl c.rc c.form c.dec then (l, some ⟨c.rc, c.id⟩) else (l, none)

/-- a program: once a statement raises, no later statement runs -/
def prog (fl : Flags) : List Ch → List Nat → List Nat × Option Raised
  | [], log => (log, none)
  | s :: ss, log =>
    match stmt fl s log with
    | (l, some r) => (l, some r)
    | (l, none) => prog fl ss l

end Spec

-- ===================================================================== the implementation

namespace Impl

inductive Val where
  | pipe (c : Cmd)           -- a (Hidden)CommandPipeline: truthy iff returncode == 0
  | none                     -- `$[...]` returns None
  | str (nonempty : Bool)    -- `$(...)` returns the output
  | lazy (c : Cmd) (marked : Bool)  -- `!(...)`: a CommandPipeline that has NOT ended yet (spec.background)
  deriving Repr

def truthy : Val → Bool
  | .pipe c => c.rc == 0
  | .none => false
  | .str ne => ne
  | .lazy c _ => c.rc == 0

/-- `CommandPipeline._raise_subproc_error` (called when the pipeline ends).  `cmdFirst` selects the
repaired order of the last two tests (fix: $XONSH_SUBPROC_CMD_RAISE_ERROR before the in_boolop
deferral); `false` is the pinned snapshot -/
def pipeRaise (cmdFirst : Bool) (fl : Flags) (marked : Bool) (rc : Nat) (d : Dec) : Bool :=
  if rc == 0 then false
  else match d with
    | .ignore => false
    | .raise => true
    | .none => if cmdFirst then fl.cmdRaise else (if marked then false else fl.cmdRaise)

/-- `_check_subproc_helper_raise(in_boolop)`, looking at `XSH.lastcmd` -/
def helperRaise (fl : Flags) (marked : Bool) (last : Option (Nat × Nat × Form × Dec)) : Option Raised :=
  if marked then none
  else if !fl.raiseErr then none
  else match last with
    | none => none
    | some (id, rc, f, d) =>
      if f == .object then none else if d == .ignore then none else if rc == 0 then none else some ⟨rc, id⟩

def runInner (cf : Bool) (fl : Flags) : List Inner → St → Except (Raised × St) St
  | [], s => .ok s
  | i :: is, s =>
    let s : St := ⟨s.log ++ [i.id], some (innerFacts i)⟩
    if pipeRaise cf fl false i.rc i.dec then .error (⟨i.rc, i.id⟩, s)
    else match helperRaise fl false s.last with
      | some r => .error (r, s)
      | none => runInner cf fl is s

/-- one helper call `__xonsh__.subproc_*(…, in_boolop=marked)` -/
def runCmd (cf : Bool) (fl : Flags) (marked : Bool) (c : Cmd) (s : St) : Except (Raised × St) (Val × St) :=
  match runInner cf fl c.inject s with
  | .error e => .error e
  | .ok s =>
    let s : St := ⟨s.log ++ c.early ++ [c.id], some (facts c)⟩
    -- `!(...)` returns at once; its pipeline ends (and `_raise_subproc_error` runs) when somebody asks for its result
    if c.form == .object then .ok (.lazy c marked, s)
    else if pipeRaise cf fl marked c.rc c.dec then .error (⟨c.rc, c.id⟩, s)
    else match c.form with
      | .hidden => .ok (.pipe c, s)
      | .object => .ok (.lazy c marked, s)
      | .uncaptured =>
        match helperRaise fl marked s.last with
        | some r => .error (r, s)
        | none => .ok (.none, s)
      | .stdout =>
        match helperRaise fl marked s.last with
        | some r => .error (r, s)
        | none => .ok (.str c.prints, s)

/-- `bool(value)`: a lazy pipeline ends now, which is where its raise site runs -/
def demand (cf : Bool) (fl : Flags) (v : Val) (s : St) : Except (Raised × St) (Val × St) :=
  match v with
  | .lazy c marked => if pipeRaise cf fl marked c.rc c.dec then .error (⟨c.rc, c.id⟩, s) else .ok (.pipe c, s)
  | v => .ok (v, s)

/-- Python's `and` / `or` over the values; a direct operand is marked unless its text is Python -/
def eval (cf : Bool) (fl : Flags) : Ch → St → Except (Raised × St) (Val × St)
  | .cmd c, s => runCmd cf fl (!c.pyLike) c s
  | .and a b, s =>
    match eval cf fl a s with
    | .error e => .error e
    | .ok (v, s) =>
      match demand cf fl v s with
      | .error e => .error e
      | .ok (v, s) => if truthy v then eval cf fl b s else .ok (v, s)
  | .or a b, s =>
    match eval cf fl a s with
    | .error e => .error e
    | .ok (v, s) =>
      match demand cf fl v s with
      | .error e => .error e
      | .ok (v, s) => if truthy v then .ok (v, s) else eval cf fl b s

/-- KNOWN DEFECT of the context-aware phase (CtxAwareTransformer.visit_BoolOp / try_subproc_toks),
not part of the refinement: the text of a Python-looking operand that is the LAST operand of a
parenthesised sub-chain sometimes cannot be wrapped on its own (its column window runs into the `)`);
the sub-chain is then "not in scope" as a whole and is replaced by a wrap of the tail of its text —
the last operand alone.  WHEN this happens is decided by `subproc_toks` (C03's subject); `collapse`
describes WHAT happens, and is used only to classify observations (`col := true`).  `top` = the
chain is the whole statement (not in parentheses). -/
def collapse (top : Bool) : Ch → Ch
  | .cmd c => .cmd c
  | .and a b =>
    match b with
    | .cmd c => if c.pyLike && !top then .cmd c else .and (collapse false a) (.cmd c)
    | b => .and (collapse false a) (collapse false b)
  | .or a b =>
    match b with
    | .cmd c => if c.pyLike && !top then .cmd c else .or (collapse false a) (.cmd c)
    | b => .or (collapse false a) (collapse false b)

/-- `subproc_check_boolop(value)` -/
def checkBoolop (fl : Flags) (v : Val) (s : St) : Option Raised :=
  if !fl.raiseErr then none
  else
    let who : Option (Nat × Nat × Form × Dec) := match v with
      | .pipe c => some (facts c)
      | .lazy c _ => some (facts c)   -- (spec.background: returned untouched; `facts c` has form `.object`, never raises)
      | _ => s.last
    match who with
    | none => none
    | some (id, rc, f, d) =>
      if rc == 0 then none else if f == .object then none else if d == .ignore then none else some ⟨rc, id⟩

/-- one statement: a standalone helper call is unmarked and is wrapped unless it is `!()`;
the outermost BoolOp is wrapped -/
def stmt (cf : Bool) (fl : Flags) (ch : Ch) (s : St) (col : Bool := false) : St × Option Raised :=
  match ch with
  | .cmd c =>
    match runCmd cf fl false c s with
    | .error (r, s) => (s, some r)
    | .ok (v, s) => if c.form == .object then (s, none) else (s, checkBoolop fl v s)
  | ch =>
    match eval cf fl (if col then collapse true ch else ch) s with
    | .error (r, s) => (s, some r)
    | .ok (v, s) => (s, checkBoolop fl v s)

def prog (cf : Bool) (fl : Flags) (col : Bool := false) : List Ch → St → St × Option Raised
  | [], s => (s, none)
  | c :: cs, s =>
    match stmt cf fl c s col with
    | (s, some r) => (s, some r)
    | (s, none) => prog cf fl col cs s

end Impl

end Chain
