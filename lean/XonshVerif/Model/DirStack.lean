/-
C16 — `$PWD`, the process directory and the directory stack (xonsh/dirstack.py).
Hand-written, executable, import-free.  Paths are abstract absolute normalised names (`Nat`);
the file system is part of the state (a directory can be removed between two commands);
`real` resolves symlinks.  Each function follows the Python function of the same name line by line.
-/
namespace DirStack

abbrev Path := Nat

inductive Kind where
  | dir       -- a directory we may enter
  | noexec    -- a directory without search permission: isdir, exists, but access(X_OK)/chdir fail
  | file
  | missing
  deriving DecidableEq, Repr, Inhabited

structure Cfg where
  autoPushd : Bool
  pushdMinus : Bool
  size : Int                     -- $DIRSTACK_SIZE
  home : Path
  links : List (Path × Path)     -- symlink ↦ target (both absolute names)
  deriving Repr, Inhabited

structure St where
  pwd : Path
  oldpwd : Option Path
  stack : List Path              -- DIRSTACK, index 0 = top
  cwd : Path                     -- the process's physical working directory
  fs : List (Path × Kind)
  deriving Repr, Inhabited, DecidableEq

def real (c : Cfg) (p : Path) : Path := (c.links.lookup p).getD p
def kind (c : Cfg) (s : St) (p : Path) : Kind := (s.fs.lookup (real c p)).getD .missing
def isDir (c : Cfg) (s : St) (p : Path) : Bool := kind c s p = .dir || kind c s p = .noexec
def pathExists (c : Cfg) (s : St) (p : Path) : Bool := kind c s p != .missing
def xOk (c : Cfg) (s : St) (p : Path) : Bool := kind c s p = .dir
def chdirOk (c : Cfg) (s : St) (p : Path) : Bool := kind c s p = .dir

inductive Err where
  | noPrev | invalid | tooFew | arity | noSuch | notDir | perm | empty
  deriving DecidableEq, Repr

/-- result of a command: rc 0 (with an optional listing) or rc 1 with an error class -/
inductive Out where
  | ok
  | listing (l : List Path)
  | err (e : Err)
  deriving DecidableEq, Repr

def Out.rc : Out → Nat
  | .err _ => 1
  | _ => 0

/-- `_change_working_directory(newdir, follow_symlinks)` for an absolute `newdir` -/
def changeDir (c : Cfg) (s : St) (d : Path) (follow : Bool) : St :=
  let new := if follow then real c d else d
  if chdirOk c s new then { s with pwd := new, oldpwd := some s.pwd, cwd := real c new } else s

def truncate (c : Cfg) (stack : List Path) : List Path :=
  if (stack.length : Int) > c.size then
    -- Python `DIRSTACK[:maxsize]` (a negative maxsize counts from the end)
    if c.size ≥ 0 then stack.take c.size.toNat else stack.take (stack.length - (-c.size).toNat)
  else stack

inductive PArg where
  | none
  | path (p : Path)
  | plus (n : Nat)      -- "+N"
  | minus (n : Nat)     -- "-N"
  | bad                 -- anything else that is not a directory
  deriving DecidableEq, Repr

def removeNth (l : List Path) (i : Nat) : List Path := l.eraseIdx i

/-- which stack index `+N` / `-N` denotes for pushd/popd (none = the current directory itself) -/
def stackIndex (c : Cfg) (len : Nat) (plus : Bool) (n : Nat) : Option Nat :=
  let backward := (plus != c.pushdMinus)     -- BACKWARD is "+" unless $PUSHD_MINUS
  if backward then (if n = 0 then none else some (n - 1))
  else (if n = len then none else some (len - 1 - n))

/-- `pushd_fn(dir_or_n, cd, quiet)` -/
def pushd (c : Cfg) (s : St) (a : PArg) (doCd : Bool) : St × Out :=
  let sel : Except Err (Option Path × List Path) :=
    match a with
    | .none => match s.stack with
      | [] => .error .empty
      | top :: rest => .ok (some top, rest)
    | .path p => if isDir c s p then .ok (some p, s.stack) else .error .invalid
    | .bad => .error .invalid
    | .plus n | .minus n =>
      if n > s.stack.length then .error .tooFew
      else match stackIndex c s.stack.length (a matches .plus _) n with
        | none => .ok (none, s.stack)
        | some i => .ok (s.stack[i]?, removeNth s.stack i)
  match sel with
  | .error e => (s, .err e)
  | .ok (newPwd, stack) =>
    let s1 : St := match newPwd with
      | none => { s with stack := stack }
      | some np =>
        if doCd then changeDir c { s with stack := s.pwd :: stack } np false
        else { s with stack := np :: stack }
    ({ s1 with stack := truncate c s1.stack }, .ok)

/-- `popd_fn(nth, cd, quiet)` -/
def popd (c : Cfg) (s : St) (a : PArg) (doCd : Bool) : St × Out :=
  let sel : Except Err (Option Path × List Path) :=
    match a with
    | .none => match s.stack with
      | [] => .error .empty
      | top :: rest => .ok (some top, rest)
    | .path _ | .bad => .error .invalid      -- int(nth[1:]) fails / neither prefix
    | .plus n | .minus n =>
      if s.stack.isEmpty then .error .tooFew
      else if n > s.stack.length then .error .tooFew
      else match stackIndex c s.stack.length (a matches .plus _) n with
        | none => match s.stack with
          | top :: rest => .ok (some top, rest)
          | [] => .error .tooFew
        | some i => .ok (none, removeNth s.stack i)
  match sel with
  | .error e => (s, .err e)
  | .ok (newPwd, stack) =>
    let s1 : St := { s with stack := stack }
    match newPwd with
    | some np => if doCd then (changeDir c s1 np false, .ok) else (s1, .ok)
    | none => (s1, .ok)

inductive CdArg where
  | none
  | path (p : Path)
  | dash                -- "-"
  | dashNum (n : Int)   -- "-N" with N parsed by int()
  | dashBad             -- "-x"
  | many
  deriving DecidableEq, Repr

/-- `cd(args)` (after an optional leading `-P`) -/
def cd (c : Cfg) (s : St) (a : CdArg) (follow : Bool) : St × Out :=
  let target : Except Out Path :=
    match a with
    | .none => .ok c.home
    | .many => .error (.err .arity)
    | .path p => .ok p                       -- a directory, or (CDPATH empty) the path as given
    | .dash =>
      -- $OLDPWD is registered with the default "." — before the first change `cd -` re-enters the
      -- current directory (the "no previous directory stored" branch of the code is unreachable)
      .ok (s.oldpwd.getD s.pwd)
    | .dashBad => .error (.err .invalid)
    | .dashNum n =>
      if n = 0 then .error .ok               -- `cd -0`: returns rc 0 without doing anything
      else if n < 0 then .error (.err .invalid)
      else if n > s.stack.length then .error (.err .tooFew)
      else match s.stack[n.toNat - 1]? with
        | some d => .ok d
        | none => .error (.err .tooFew)
  match target with
  | .error o => (s, o)
  | .ok d =>
    if !pathExists c s d then (s, .err .noSuch)
    else if !isDir c s d then (s, .err .notDir)
    else if !xOk c s d then (s, .err .perm)
    else
      -- AUTO_PUSHD: `pushd -n -q $PWD` (its own error return is ignored)
      let s1 := if c.autoPushd then (pushd c s (.path s.pwd) false).1 else s
      (changeDir c s1 d follow, .ok)

inductive DArg where
  | none | plus (n : Nat) | minus (n : Nat) | bad | clear
  deriving DecidableEq, Repr

/-- `dirs_fn(nth, clear)`: the listing is `[$PWD] + DIRSTACK` -/
def dirs (c : Cfg) (s : St) (a : DArg) : St × Out :=
  let l := s.pwd :: s.stack
  match a with
  | .clear => ({ s with stack := [] }, .ok)
  | .none => (s, .listing l)
  | .bad => (s, .err .invalid)
  | .plus n | .minus n =>
    if n ≥ l.length then (s, .err .tooFew)
    else
      let backward := ((a matches .plus _) != c.pushdMinus)
      let idx := if backward then n else l.length - 1 - n
      match l[idx]? with
      | some p => (s, .listing [p])
      | none => (s, .err .tooFew)

/-- `BaseShell._fix_cwd` (run after every command), for a process directory that still exists:
`if realpath(cwd) != realpath($PWD): $OLDPWD = $PWD; $PWD = cwd` -/
def fixCwd (c : Cfg) (s : St) : St :=
  if real c s.cwd != real c s.pwd then { s with pwd := s.cwd, oldpwd := some s.pwd } else s

inductive Op where
  | fixCwd                        -- the shell's post-command resynchronisation
  | extChdir (p : Path)           -- something changes the process directory behind the shell's back
  | cd (a : CdArg) (follow : Bool)
  | pushd (a : PArg) (doCd : Bool)
  | popd (a : PArg) (doCd : Bool)
  | dirs (a : DArg)
  | rmdir (p : Path)             -- the world changes: a directory disappears
  | mkdir (p : Path)
  | setCfg (autoPushd pushdMinus : Bool) (size : Int)
  deriving Repr

def setKind (fs : List (Path × Kind)) (p : Path) (k : Kind) : List (Path × Kind) :=
  (p, k) :: fs.filter (fun q => q.1 != p)

def step (c : Cfg) (s : St) : Op → Cfg × St × Out
  | .fixCwd => (c, fixCwd c s, .ok)
  | .extChdir p => (c, (if chdirOk c s p then { s with cwd := real c p } else s), .ok)
  | .cd a f => let (s', o) := cd c s a f; (c, s', o)
  | .pushd a d => let (s', o) := pushd c s a d; (c, s', o)
  | .popd a d => let (s', o) := popd c s a d; (c, s', o)
  | .dirs a => let (s', o) := dirs c s a; (c, s', o)
  | .rmdir p => (c, { s with fs := setKind s.fs p .missing }, .ok)
  | .mkdir p => (c, { s with fs := setKind s.fs p .dir }, .ok)
  | .setCfg a m z => ({ c with autoPushd := a, pushdMinus := m, size := z }, s, .ok)

def run (c : Cfg) (s : St) : List Op → Cfg × St
  | [] => (c, s)
  | op :: rest => let (c', s', _) := step c s op; run c' s' rest

-- the SPEC of `pushd +N` as documented ("by rotating the stack", bash manual) -------------------
/-- rotate the listing `[$PWD] + DIRSTACK` left so that entry `k` becomes the top -/
def rotateListing (l : List Path) (k : Nat) : List Path := l.drop k ++ l.take k

end DirStack
