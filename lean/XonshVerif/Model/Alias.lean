import XonshVerif.Model.Py
/-
C15 — alias expansion (`Aliases.eval_alias`, `Aliases.get` in xonsh/aliases.py and the spec-level
`SubprocSpec.resolve_decorators` / `resolve_alias`).  Hand-written, executable, import-free.

Tokens are abstract (`Nat`); `XSH.expand_path` is a PARAMETER `exp : Tok → Tok` (its own behaviour is
C04's subject): it is applied to the alias's words — never to the user's arguments.
A return-command alias is an ORACLE `args ↦ returned command` (theorems quantify over all oracles).
TERMINATION IS PART OF THE RESULT: `evalAlias` is accepted by Lean by well-founded recursion on the
number of table keys not yet seen — no fuel, for every table, cycles included.
-/
namespace Alias
open Py (filter_length_lt)

abbrev Tok := Nat

inductive Val where
  | words (ws : List Tok)     -- list alias (string aliases are split into this at definition time)
  | callable (id : Nat)       -- FuncAlias / ExecAlias / any callable
  | decorator (id : Nat)      -- DecoratorAlias (also callable)
  | retcmd (id : Nat)         -- callable with return_what == "command"
  deriving DecidableEq, Repr, Inhabited

abbrev Tbl := List (Tok × Val)
/-- what calling return-command alias `id` with `args` returns: `none` = it raised -/
abbrev Oracle := Nat → List Tok → Option (List Tok)

inductive Res where
  | cmd (ws : List Tok)                          -- a list of words: [token] ++ rest ++ args
  | call (v : Val) (args : List Tok)             -- [callable] ++ args
  | raisedInAlias                                -- exception inside a return-command alias: printed, None
  | valueError                                   -- empty value: `token, *rest = …` cannot unpack
  | notAlias                                     -- `get` returned `default`
  deriving DecidableEq, Repr, Inhabited

def keys (tbl : Tbl) : List Tok := tbl.map (·.1)

/-- the leading-decorator loop shared by `eval_alias` and `resolve_decorators` -/
def stripDecs (tbl : Tbl) : List Tok → List Nat → List Tok × List Nat
  | [], decs => ([], decs)
  | t :: rest, decs =>
    match tbl.lookup t with
    | some (.decorator d) => stripDecs tbl rest (decs ++ [d])
    | _ => (t :: rest, decs)

def unseen (tbl : Tbl) (seen : List Tok) : List Tok := (keys tbl).filter (fun k => !seen.contains k)

theorem unseen_lt (tbl : Tbl) (seen : List Tok) (t : Tok) (hs : t ∉ seen) (hk : t ∈ keys tbl) :
    (unseen tbl (t :: seen)).length < (unseen tbl seen).length := by
  apply filter_length_lt
  · intro x hx; simp at hx ⊢; exact hx.2
  · exact ⟨t, hk, by simpa using hs, by simp⟩

theorem lookup_isSome_mem (tbl : Tbl) (t : Tok) (v : Val) (h : tbl.lookup t = some v) : t ∈ keys tbl := by
  induction tbl with
  | nil => cases h
  | cons p ps ih =>
    obtain ⟨a, b⟩ := p
    simp only [List.lookup] at h
    by_cases e : t = a
    · subst e; simp [keys]
    · have : (t == a) = false := by simpa using e
      rw [this] at h
      have := ih h
      simp only [keys, List.map_cons, List.mem_cons] at this ⊢
      exact Or.inr this

/-- outcome of the non-recursive first half of `eval_alias` -/
inductive Prep where
  | done (r : Res) (decs : List Nat)
  | go (token : Tok) (rest acc : List Tok) (decs : List Nat)
  deriving DecidableEq, Repr

/-- steps 1 and 2 of `eval_alias`: strip leading decorator aliases of a multi-word value; call a
return-command alias with the accumulated arguments (its result replaces the value, the arguments
are consumed); a callable ends the expansion; a list is split into `token, *rest`. -/
def prepare (tbl : Tbl) (orc : Oracle) (exp : Tok → Tok) (v : Val) (acc : List Tok) (decs : List Nat) : Prep :=
  match v with
  | .words ws =>
    let (ws, decs) := if ws.length > 1 then stripDecs tbl ws decs else (ws, decs)
    match ws with
    | [] => .done .valueError decs               -- `token, *rest = …` cannot unpack
    | token :: rest => .go (exp token) (rest.map exp) acc decs    -- `token, *rest = map(expand_path, value)`
  | .retcmd id =>
    match orc id acc with
    | none => .done .raisedInAlias decs
    | some [] => .done .valueError decs          -- _normalize_return_command_result rejects it
    | some (token :: rest) => .go (exp token) (rest.map exp) [] decs
  | .callable _ | .decorator _ => .done (.call v acc) decs

/-- `Aliases.eval_alias(value, seen_tokens, acc_args, decorators)`; returns the result, the
decorators collected so far, and the final `seen_tokens` (for the each-alias-once theorem). -/
def evalAlias (tbl : Tbl) (orc : Oracle) (exp : Tok → Tok) (v : Val) (seen : List Tok) (acc : List Tok) (decs : List Nat) :
    Res × List Nat × List Tok :=
  match prepare tbl orc exp v acc decs with
  | .done r decs => (r, decs, seen)
  | .go token rest acc decs =>
    -- 3. the leftmost token is expanded again unless already seen or not an alias
    if hs : seen.contains token then (.cmd (token :: rest ++ acc), decs, seen)
    else match hl : tbl.lookup token with
      | none => (.cmd (token :: rest ++ acc), decs, seen)
      | some v' => evalAlias tbl orc exp v' (token :: seen) (rest ++ acc) decs
termination_by (unseen tbl seen).length
decreasing_by
  exact unseen_lt tbl seen token (by simpa using hs) (lookup_isSome_mem tbl token v' hl)

/-- `Aliases.get(key_or_cmd, decorators=…)` with `cmd = key :: args` -/
def get (tbl : Tbl) (orc : Oracle) (exp : Tok → Tok) (key : Tok) (args : List Tok) : Res × List Nat × List Tok :=
  match tbl.lookup key with
  | none => (.notAlias, [], [key])
  | some (.retcmd id) =>
    match orc id args with
    | none => (.raisedInAlias, [], [key])
    | some [] => (.valueError, [], [key])
    | some ws => evalAlias tbl orc exp (.words ws) [key] [] []
  | some v => evalAlias tbl orc exp v [key] args []

/-- what `SubprocSpec.resolve_decorators` + `resolve_alias` leave in the spec -/
structure Spec where
  cmd : List Tok
  alias : Res          -- `.notAlias` = no alias (binary lookup), `.call` = callable alias, `.cmd` = list alias
  decorators : List Nat
  deriving DecidableEq, Repr

/-- `SubprocSpec.resolve_decorators`: `for i in range(len(cmd)): … else: break; cmd = cmd[i:]`.
Unlike the loop in `eval_alias`, when EVERY word is a decorator alias the index stops at the last
word, which therefore stays in the command (and is also collected as a decorator). -/
def specStrip (tbl : Tbl) (cmd : List Tok) : List Tok × List Nat :=
  let (rest, decs) := stripDecs tbl cmd []
  match rest with
  | [] => (cmd.drop (cmd.length - 1), decs)
  | _ => (rest, decs)

def specResolve (tbl : Tbl) (orc : Oracle) (exp : Tok → Tok) (cmd : List Tok) : Spec :=
  -- resolve_decorators: only when the command has more than one word
  let (cmd, decs0) := if cmd.length > 1 then specStrip tbl cmd else (cmd, [])
  match cmd with
  | [] => ⟨[], .valueError, decs0⟩          -- `self.cmd[0]` raises IndexError
  | cmd0 :: args =>
    let (r, decs, _) := get tbl orc exp cmd0 args
    match r with
    | .call v a => ⟨cmd0 :: a, .call v a, decs0 ++ decs⟩
    | r => ⟨cmd0 :: args, r, decs0 ++ decs⟩

end Alias
