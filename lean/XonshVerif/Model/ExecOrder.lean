/-
C02, clause "the Python-vs-command decision is made for the whole input before anything runs":
a control skeleton of `Execer.exec` / `Execer.eval` / `Execer.compile` (xonsh/execer.py), produced from the source by
translator/c02.py on every run, and the ordering obligation on it.  Import-free.

Variables are numbered by the translator.  A variable holds
  `whole` – the complete input text (the parameter, or a rewrite that keeps all of it: `rstrip("\n")`, `+ "\n"`),
  `tree`  – the tree `self.parse` made from a `whole` text (context-free parse, context-aware transform and raise
            wrapping of the complete input: the Python-vs-command decision for every statement),
  `code`  – the code object builtin `compile` made from such a tree / `self.compile` made from a `whole` text, or an
            object the caller passed that already is a code object,
  `none`  – None,   `other` – anything else.
`orderOk`: on EVERY path through the method, `exec(v, …)` / `eval(v, …)` is only ever applied to a `code` variable, i.e. every
run is dominated by the complete parse + compile of the whole input.
-/
namespace ExecOrder

abbrev Var := Nat

inductive Status where
  | whole | tree | code | none | other
  deriving Repr, DecidableEq

inductive Src where
  | wholeOf (v : Var)          -- `v.rstrip("\n")`, `v + "\n"`
  | selfParse (v : Var)        -- `self.parse(v, …)`
  | selfCompile (v : Var)      -- `self.compile(input=v, …)`
  | pyCompile (v : Var)        -- builtin `compile(v, …)`
  | constCode                  -- builtin `compile("<literal>", …)`
  | copy (v : Var)
  | noneLit
  | other
  deriving Repr

inductive Cond where
  | isCode (v : Var)           -- `isinstance(v, types.CodeType)`
  | isNone (v : Var)           -- `v is None`
  | other
  deriving Repr

mutual
  inductive Sk where
    | assign (x : Var) (s : Src)
    | ite (c : Cond) (t e : Sks)
    | retRun (v : Var)          -- `return exec(v, …)` / `return eval(v, …)`
    | run (v : Var)             -- `exec(v, …)` / `eval(v, …)` as a statement or inside another expression
    | ret (s : Src)
    | raise
    | tryCatch (assigned : List Var) (body handler : Sks)   -- `assigned`: the variables the body assigns
    | skip
  inductive Sks where
    | nil
    | cons (s : Sk) (ss : Sks)
end

abbrev State := List (Var × Status)

def look (σ : State) (v : Var) : Status := (σ.lookup v).getD .other
def set (σ : State) (v : Var) (s : Status) : State := (v, s) :: σ.filter (fun p => p.1 != v)

def evalSrc (σ : State) : Src → Status
  | .wholeOf v => if look σ v = .whole then .whole else .other
  | .selfParse v => if look σ v = .whole then .tree else .other
  | .selfCompile v => if look σ v = .whole then .code else .other
  | .pyCompile v => if look σ v = .tree then .code else .other
  | .constCode => .code
  | .copy v => look σ v
  | .noneLit => .none
  | .other => .other

def refine (σ : State) : Cond → Bool → State
  | .isCode v, true => set σ v .code
  | .isNone v, true => set σ v .none
  | _, _ => σ

structure Res where
  ok : Bool                  -- every run so far was applied to a `code` variable; every return value is `code` / `none` where asked
  out : List State           -- the states in which control falls through
  deriving Repr

mutual
  /-- all paths through one statement from state σ.  `retCode`: returned values must be `code` or `none` (for `compile`) -/
  def step (retCode : Bool) (σ : State) : Sk → Res
    | .assign x s => ⟨true, [set σ x (evalSrc σ s)]⟩
    | .ite c t e =>
      let rt := steps retCode [refine σ c true] t
      let re := steps retCode [refine σ c false] e
      ⟨rt.ok && re.ok, rt.out ++ re.out⟩
    | .retRun v => ⟨look σ v = .code, []⟩
    | .run v => ⟨look σ v = .code, [σ]⟩
    | .ret s => ⟨!retCode || evalSrc σ s = .code || evalSrc σ s = .none, []⟩
    | .raise => ⟨true, []⟩
    | .tryCatch assigned body handler =>
      let rb := steps retCode [σ] body
      -- the handler may start after any prefix of the body: whatever the body assigns is unknown there
      let rh := steps retCode [assigned.foldl (fun s v => set s v .other) σ] handler
      ⟨rb.ok && rh.ok, rb.out ++ rh.out⟩
    | .skip => ⟨true, [σ]⟩
  def steps (retCode : Bool) (σs : List State) : Sks → Res
    | .nil => ⟨true, σs⟩
    | .cons s ss =>
      let rs := σs.map (fun σ => step retCode σ s)
      let r2 := steps retCode (rs.flatMap (·.out)) ss
      ⟨rs.all (·.ok) && r2.ok, r2.out⟩
end

/-- a method whose parameter `input` is variable 0 -/
def orderOk (retCode : Bool) (sk : Sks) : Bool := (steps retCode [[(0, .whole)]] sk).ok

end ExecOrder
