/-
C14 — history garbage collection: the SPEC (what the property demands) and the recursive
twins of the loops in xonsh/history/json.py.  Import-free (linked into xvdriver).
-/
import XonshVerif.Model.Py
namespace HistGc

/-- (timestamp, number of commands, path id, file size); lists are oldest first. -/
abbrev F := Int × Int × Int × Int

inductive Units where
  | commands | files | seconds | bytes
  deriving DecidableEq, Repr

def ts (f : F) : Int := f.1
def ncmds (f : F) : Int := f.2.1
def fsize (f : F) : Int := f.2.2.2

def sumW (w : F → Int) (fs : List F) : Int := (fs.map w).sum

/-- "this set of kept files is within `$XONSH_HISTORY_SIZE`" -/
def fits (u : Units) (limit now : Int) (kept : List F) : Bool :=
  match u with
  | .commands => decide (sumW ncmds kept ≤ limit)
  | .bytes => decide (sumW fsize kept ≤ limit)
  | .files => decide ((kept.length : Int) ≤ limit)
  | .seconds => kept.all (fun f => decide (now - ts f < limit))

/-- THE SPEC: discard from the oldest end, one file at a time, until what is left fits.
Everything the statement says (oldest-first, largest fitting set of newest files is kept,
nothing is discarded when within the limit) is a corollary (Props/C14.lean). -/
def specRemoved (u : Units) (limit now : Int) : List F → List F
  | [] => []
  | f :: fs => if fits u limit now (f :: fs) then [] else f :: specRemoved u limit now fs

/-- `specRemoved` for the two cumulative units, generically in the weight -/
def cumSpec (w : F → Int) (limit : Int) : List F → List F
  | [] => []
  | f :: fs => if sumW w (f :: fs) ≤ limit then [] else f :: cumSpec w limit fs

/-- units of history discarded, as reported by the code for the refuse rule -/
def specSizeOver (u : Units) (limit now : Int) (removed : List F) : Int :=
  match u with
  | .commands => sumW ncmds removed
  | .bytes => sumW fsize removed
  | .files => removed.length
  | .seconds => match removed with
    | [] => 0
    | f :: _ => now - limit - ts f

/-- whole GC pass over (file, locked) pairs sorted oldest first: the files that get deleted -/
def specRun (u : Units) (force : Bool) (limit now : Int) (all : List (F × Bool)) : List F :=
  let cands := (all.filter (fun p => !p.2)).map (·.1)
  let rm := specRemoved u limit now cands
  if force || decide (specSizeOver u limit now rm < limit) then rm else []

/-- executable verdict used by the failing-input search: is `deleted` what the property allows? -/
def specOk (u : Units) (force : Bool) (limit now : Int) (all : List (F × Bool)) (deleted : List F) : Bool :=
  deleted == specRun u force limit now all

-- recursive twins of the code's loops ----------------------------------------------------

/-- body of the "count newest files while the running total fits" loop; state = (n, total) -/
def cumBody (w : F → Int) (limit : Int) (it : F) (st : Int × Int) : Except (Int × Int) (Int × Int) :=
  if st.2 + w it > limit then .error st else .ok (st.1 + 1, st.2 + w it)

def fitCount (w : F → Int) (limit : Int) : List F → Int → Nat
  | [], _ => 0
  | f :: fs, acc => if acc + w f > limit then 0 else 1 + fitCount w limit fs (acc + w f)

def sumBody (w : F → Int) (it : F) (st : Int) : Except Int Int := .ok (st + w it)

/-- body of the "count leading files that are too old" loop -/
def oldBody (limit now : Int) (it : F) (st : Int) : Except Int Int :=
  if now - ts it < limit then .error st else .ok (st + 1)

def oldCount (limit now : Int) : List F → Nat
  | [] => 0
  | f :: fs => if now - ts f < limit then 0 else 1 + oldCount limit now fs

def SortedTs (fs : List F) : Prop := fs.Pairwise (fun a b => ts a ≤ ts b)

/-- SQLite keep-newest-N (`_xh_sqlite_delete_records`): rows are `tsb` values in any order.
`threshold` = min over the N largest; rows strictly below it are deleted.
`none` models SQL NULL (min over an empty set: N = 0 or an empty table); the repaired code then
deletes every row (`sqlKeptOld`: the pinned snapshot compared `tsb < NULL`, never true, and kept all). -/
def sqlThreshold (n : Nat) (rows : List Int) : Option Int :=
  ((rows.mergeSort (fun a b => decide (b ≤ a))).take n).getLast?
def sqlKept (n : Nat) (rows : List Int) : List Int :=
  match sqlThreshold n rows with
  | none => []
  | some t => rows.filter (fun r => !decide (r < t))
def sqlKeptOld (n : Nat) (rows : List Int) : List Int :=
  match sqlThreshold n rows with
  | none => rows
  | some t => rows.filter (fun r => !decide (r < t))

end HistGc
