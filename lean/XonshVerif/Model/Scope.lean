/-
C02 — "Python wins": the context-aware phase of xonsh's parser
(xonsh/parsers/ast.py `CtxAwareTransformer`, driven by xonsh/execer.py `Execer.compile/parse`).

Hand-written, executable, import-free.  Three parts:

* a mini-AST of Python (`Expr`/`Exprs`, `Tgt`/`Tgts`, `Stmt`/`Stmts`/`Handlers`, mutually inductive),
* `Impl`: the transformer, visitor by visitor (context stack, ctxadd/ctxupdate/ctxremove, `contexts[1]`
  for `global`, BoolOp/UnaryOp-only descent, comprehension non-descent, the Lambda exemption,
  `gather_load_store_names` with `names -= store`, `is_in_scope`, the `user_names` shield of the
  bare-builtin rewrite).  It does not rewrite trees: it reports, for every place where the code calls
  `is_in_scope`, the verdict `keep | offer` (offer = `try_subproc_toks` is called on the node; whether
  that re-parse succeeds is the lexer's business and not modelled) and `builtin` for the
  `__xonsh__.builtin_cmd` rewrite.
  `Fixes.none` is the code as it was found, `Fixes.all` the code after the nine fix commits to xonsh/parsers/ast.py (the
  harness selects the variant per mechanism by replaying the findings' witnesses).  Every flag of `Fixes` switches ONE mechanism to a repaired
  behaviour; they exist so that (a) the theorems can say exactly which mechanism breaks the property and
  (b) the harness can attribute a failure on the real code to a mechanism (the failure disappears when
  exactly that flag is set).
* `Spec`: the property's own binding rule — which names are bound where, by Python's lexical rules and the
  property's binder list — written without looking at the transformer.

`run` walks a program once and evaluates both on every statement.
-/
namespace Scope

abbrev Name := Nat

inductive NodeKind where
  | attr | call | binop | compare | tuple | subscript | ifexp | fstr | dict | star
  deriving Repr, DecidableEq, Inhabited

mutual
  inductive Expr where
    | name (x : Name)                                   -- Name(ctx=Load)
    | const (ellipsis : Bool)                           -- Constant (`...` is treated specially by visit_Expr)
    | node (k : NodeKind) (cs : Exprs)                  -- any form the transformer visits generically
    | boolop (vs : Exprs)                               -- BoolOp(and/or, values)
    | unary (e : Expr)                                  -- UnaryOp(not/-/+/~, operand)
    | lam (ps : List Name) (body : Expr)                -- Lambda
    | comp (elt : Expr) (tgts : List Name) (iter : Expr) (conds : Exprs)   -- List/Set/Dict comprehension, generator
    | walrus (x : Name) (v : Expr)                      -- NamedExpr
  inductive Exprs where
    | nil
    | cons (e : Expr) (es : Exprs)
end

mutual
  /-- assignment / for / with targets -/
  inductive Tgt where
    | name (x : Name)
    | attr (x : Name)                                   -- `x.a`, `x[i]`: x is read, nothing is bound
    | star (x : Name)                                   -- `*x`
    | seq (isList : Bool) (ts : Tgts)                   -- `(a, b)` / `[a, b]`
  inductive Tgts where
    | nil
    | cons (t : Tgt) (ts : Tgts)
end

structure ImpItem where
  head : Name                 -- `import a.b.c` ↦ a;  `from m import a` ↦ a
  dotted : Bool               -- the imported module name has a dot (plain `import` only)
  asname : Option Name
  deriving Repr

mutual
  inductive Stmt where
    | expr (sid : Nat) (e : Expr)
    | assign (sid : Nat) (tgts : Tgts) (v : Expr)
    | annassign (sid : Nat) (t : Tgt) (ann : Expr) (v : Exprs)          -- v: zero or one value
    | augassign (sid : Nat) (t : Tgt) (v : Expr)
    | imp (sid : Nat) (items : List ImpItem)
    | impFrom (sid : Nat) (items : List ImpItem)
    | fdef (sid : Nat) (f : Name) (ps : List Name) (defaults : Exprs) (body : Stmts) (decos : Exprs)
    | cdef (sid : Nat) (cn : Name) (bases : Exprs) (body : Stmts) (decos : Exprs)
    | for_ (sid : Nat) (tgt : Tgt) (iter : Expr) (body orelse : Stmts)
    | while_ (sid : Nat) (test : Expr) (body orelse : Stmts)
    | if_ (sid : Nat) (test : Expr) (body orelse : Stmts)
    | with_ (sid : Nat) (ctxs : Exprs) (tgts : Tgts) (body : Stmts)
    | try_ (sid : Nat) (body : Stmts) (hs : Handlers) (orelse final : Stmts)
    | global_ (sid : Nat) (xs : List Name)
    | del (sid : Nat) (names : List Name) (nested : List Name)         -- `del a, (b, c)` ↦ names [a], nested [b, c]
    | ret (sid : Nat) (v : Exprs)                                       -- return / raise / assert: expressions only
    | pass (sid : Nat)
  inductive Stmts where
    | nil
    | cons (s : Stmt) (ss : Stmts)
  inductive Handlers where
    | nil
    | cons (sid : Nat) (ty : Exprs) (nm : Option Name) (body : Stmts) (rest : Handlers)
end

/-! ## names in expressions and targets -/

mutual
  /-- every `Name(ctx=Load)` id under the node (`ast.walk`: lambdas and comprehensions included) -/
  def loads : Expr → List Name
    | .name x => [x]
    | .const _ => []
    | .node _ cs => loadsL cs
    | .boolop vs => loadsL vs
    | .unary e => loads e
    | .lam _ b => loads b
    | .comp elt _ iter conds => loads elt ++ (loads iter ++ loadsL conds)
    | .walrus _ v => loads v
  def loadsL : Exprs → List Name
    | .nil => []
    | .cons e es => loads e ++ loadsL es
end

mutual
  /-- every `Name` id with a non-Load ctx under the node: walrus and comprehension targets.  Lambda
  parameters are `ast.arg`, not `Name`: they are NOT collected by the code (`lamToo` = the repaired variant) -/
  def stores (lamToo : Bool) : Expr → List Name
    | .name _ => []
    | .const _ => []
    | .node _ cs => storesL lamToo cs
    | .boolop vs => storesL lamToo vs
    | .unary e => stores lamToo e
    | .lam ps b => (if lamToo then ps else []) ++ stores lamToo b
    | .comp elt tgts iter conds => tgts ++ (stores lamToo elt ++ (stores lamToo iter ++ storesL lamToo conds))
    | .walrus x v => x :: stores lamToo v
  def storesL (lamToo : Bool) : Exprs → List Name
    | .nil => []
    | .cons e es => stores lamToo e ++ storesL lamToo es
end

mutual
  /-- walrus targets that bind in the enclosing function/module scope (Python: a walrus inside a
  comprehension binds in the containing scope; inside a lambda it is local to the lambda) -/
  def allW : Expr → List Name
    | .name _ => []
    | .const _ => []
    | .node _ cs => allWL cs
    | .boolop vs => allWL vs
    | .unary e => allW e
    | .lam _ _ => []
    | .comp elt _ iter conds => allW elt ++ (allW iter ++ allWL conds)
    | .walrus x v => x :: allW v
  def allWL : Exprs → List Name
    | .nil => []
    | .cons e es => allW e ++ allWL es
end

mutual
  /-- no lambda below the node reads one of its own parameters -/
  def lamOk : Expr → Bool
    | .name _ => true
    | .const _ => true
    | .node _ cs => lamOkL cs
    | .boolop vs => lamOkL vs
    | .unary e => lamOk e
    | .lam ps b => ps.all (fun p => !(loads b).contains p) && lamOk b
    | .comp elt _ iter conds => lamOk elt && (lamOk iter && lamOkL conds)
    | .walrus _ v => lamOk v
  def lamOkL : Exprs → Bool
    | .nil => true
    | .cons e es => lamOk e && lamOkL es
end

mutual
  /-- `generic_visit` meets no BoolOp / UnaryOp below the node (so no `is_in_scope` test happens) -/
  def decFree : Expr → Bool
    | .name _ => true
    | .const _ => true
    | .node _ cs => decFreeL cs
    | .boolop _ => false
    | .unary _ => false
    | .lam _ b => decFree b
    | .comp elt _ _ _ => decFree elt
    | .walrus _ v => decFree v
  def decFreeL : Exprs → Bool
    | .nil => true
    | .cons e es => decFree e && decFreeL es
end

mutual
  /-- the walrus targets `generic_visit` records in the enclosing context (not below a BoolOp / UnaryOp, not in a
  comprehension's `for` / `if` clauses), latest first.  `loc` = parameters of enclosing lambdas / variables of enclosing
  comprehensions in the repaired variants (`lamFix`, `compFix`): a target that is one of them stays inside (it is dropped with the
  lambda's / comprehension's own context); in the code as found `loc` is always empty -/
  def vW (lamFix compFix : Bool) (loc : List Name) : Expr → List Name
    | .name _ => []
    | .const _ => []
    | .node _ cs => vWL lamFix compFix loc cs
    | .boolop _ => []
    | .unary _ => []
    | .lam ps b => vW lamFix compFix (if lamFix then ps ++ loc else loc) b
    | .comp elt tgts _ _ => vW lamFix compFix (if compFix then tgts ++ loc else loc) elt
    | .walrus x v => vW lamFix compFix loc v ++ (if loc.contains x then [] else [x])
  def vWL (lamFix compFix : Bool) (loc : List Name) : Exprs → List Name
    | .nil => []
    | .cons e es => vWL lamFix compFix loc es ++ vW lamFix compFix loc e
end

mutual
  /-- every walrus target anywhere below the node -/
  def wAny : Expr → List Name
    | .name _ => []
    | .const _ => []
    | .node _ cs => wAnyL cs
    | .boolop vs => wAnyL vs
    | .unary e => wAny e
    | .lam _ b => wAny b
    | .comp elt _ iter conds => wAny elt ++ (wAny iter ++ wAnyL conds)
    | .walrus x v => x :: wAny v
  def wAnyL : Exprs → List Name
    | .nil => []
    | .cons e es => wAny e ++ wAnyL es
end

def Exprs.toList : Exprs → List Expr
  | .nil => []
  | .cons e es => e :: es.toList

mutual
  def tBinds : Tgt → List Name            -- names Python binds
    | .name x => [x]
    | .attr _ => []
    | .star x => [x]
    | .seq _ ts => tBindsL ts
  def tBindsL : Tgts → List Name
    | .nil => []
    | .cons t ts => tBinds t ++ tBindsL ts
end

mutual
  def tReads : Tgt → List Name            -- names a target reads (`x.a = …` reads x)
    | .name _ => []
    | .attr x => [x]
    | .star _ => []
    | .seq _ ts => tReadsL ts
  def tReadsL : Tgts → List Name
    | .nil => []
    | .cons t ts => tReads t ++ tReadsL ts
end

mutual
  def tNames : Tgt → List Name            -- `gather_names`: every Name id in the target
    | .name x => [x]
    | .attr x => [x]
    | .star x => [x]
    | .seq _ ts => tNamesL ts
  def tNamesL : Tgts → List Name
    | .nil => []
    | .cons t ts => tNames t ++ tNamesL ts
end

/-- `leftmostname(target)`: Name / Attribute / Subscript / Starred go to their name; a Tuple to the
leftmost name of its FIRST element; a List (and anything else) to None -/
def lmName : Tgt → List Name
  | .name x => [x]
  | .attr x => [x]
  | .star x => [x]
  | .seq true _ => []
  | .seq false .nil => []
  | .seq false (.cons t _) => lmName t

def lmEach : Tgts → List Name
  | .nil => []
  | .cons t ts => lmName t ++ lmEach ts

/-- the names `visit_Assign` adds for ONE target: per element for a Tuple/List target, else the leftmost name -/
def assignAdds1 : Tgt → List Name
  | .seq _ ts => lmEach ts
  | t => lmName t

def assignAdds : Tgts → List Name
  | .nil => []
  | .cons t ts => assignAdds1 t ++ assignAdds ts

/-! ## the transformer -/

/-- one flag per repaired mechanism; `Fixes.none` is the code as it was found, `Fixes.all` the code as repaired -/
structure Fixes where
  dotted : Bool      -- `import a.b` records `a` (the code records the string "a.b")
  walrus : Bool      -- a statement's walrus targets are recorded on entry (the code records a walrus only where generic_visit reaches it)
  lam : Bool         -- lambda parameters count as bound inside the lambda
  comp : Bool        -- comprehension variables count as bound while the element expression is visited
  delB : Bool        -- ctxremove never strikes a builtin from contexts[0]
  nested : Bool      -- `a, (b, c) = …` records every name of the target (gather_names; the code: leftmostname of each element)
  delSeq : Bool      -- `del (a, b)` / `del [a]` strike a and b (the code: Name targets only)
  delSess : Bool     -- a module-level `del x` strikes x from contexts[0] too (same namespace) unless it is a builtin
  handler : Bool     -- an `except … as e` records e when the handler is entered (the code: when the `try` is entered; a `del e` in between strikes it)
  deriving Repr, DecidableEq

def Fixes.none : Fixes := ⟨false, false, false, false, false, false, false, false, false⟩
def Fixes.all : Fixes := ⟨true, true, true, true, true, true, true, true, true⟩

structure Env where
  B : List Name       -- `dir(builtins)` (with a session loaded: includes `__xonsh__`)
  U : List Name       -- user_names: keys of the caller's globals / locals
  fx : Fixes

/-- `self.contexts`: `[base, glob] ++ reverse inner` -/
structure Ctxs where
  base : List Name              -- contexts[0] = builtins ∪ user names
  glob : List Name              -- contexts[1]
  inner : List (List Name)      -- contexts[2:], innermost first
  deriving Repr

def Ctxs.init (env : Env) : Ctxs := ⟨env.B ++ env.U, [], []⟩

def Ctxs.addTop (c : Ctxs) (xs : List Name) : Ctxs :=
  match c.inner with
  | [] => { c with glob := xs ++ c.glob }
  | t :: r => { c with inner := (xs ++ t) :: r }

def Ctxs.addGlob (c : Ctxs) (xs : List Name) : Ctxs := { c with glob := xs ++ c.glob }
def Ctxs.push (c : Ctxs) : Ctxs := { c with inner := [] :: c.inner }
def Ctxs.pop (c : Ctxs) : Ctxs := { c with inner := c.inner.tail }

def Ctxs.vis (c : Ctxs) (x : Name) : Bool :=
  c.inner.any (·.contains x) || c.glob.contains x || c.base.contains x

/-- strike x from the innermost inner context that has it -/
def removeInner : List (List Name) → Name → Option (List (List Name))
  | [], _ => none
  | t :: r, x =>
    if t.contains x then some (t.filter (· != x) :: r)
    else match removeInner r x with
      | some r' => some (t :: r')
      | none => none

/-- `ctxremove`: strike x from the innermost context that has it -/
def Ctxs.remove (env : Env) (c : Ctxs) (x : Name) : Ctxs :=
  match removeInner c.inner x with
  | some inner' => { c with inner := inner' }
  | none =>
    if c.glob.contains x then
      if env.fx.delSess && c.inner.isEmpty && !env.B.contains x then
        { c with glob := c.glob.filter (· != x), base := c.base.filter (· != x) }
      else { c with glob := c.glob.filter (· != x) }
    else if c.base.contains x then
      if env.fx.delB && env.B.contains x then c else { c with base := c.base.filter (· != x) }
    else c

def Ctxs.removeAll (env : Env) (c : Ctxs) : List Name → Ctxs
  | [] => c
  | x :: xs => (c.remove env x).removeAll env xs

inductive Verdict where
  | keep | offer | builtin
  deriving Repr, DecidableEq, Inhabited

structure Dec where
  kind : Nat          -- 0 expression statement, 1 BoolOp operand, 2 UnaryOp operand
  v : Verdict
  deriving Repr, DecidableEq

/-- `is_in_scope(node)`: load names minus store names, all found in some context.  `loc` (always empty in
the code as it is) holds lambda parameters / comprehension variables of enclosing nodes in the repaired variants -/
def inScope (env : Env) (c : Ctxs) (loc : List Name) (e : Expr) : Bool :=
  (loads e).all fun x => (stores env.fx.lam e).contains x || c.vis x || loc.contains x

def verdictOf (b : Bool) : Verdict := if b then .keep else .offer

mutual
  /-- decisions taken while `visit_BoolOp` / `visit_UnaryOp` visit a node (nothing for other nodes: only
  BoolOp and UnaryOp are "descendable") -/
  def xD (env : Env) (c : Ctxs) (loc : List Name) : Expr → List Dec
    | .boolop vs => xOps env c loc vs
    | .unary e => xD env c loc e ++ [⟨2, verdictOf (inScope env c loc e)⟩]
    | _ => []
  def xOps (env : Env) (c : Ctxs) (loc : List Name) : Exprs → List Dec
    | .nil => []
    | .cons v vs => xD env c loc v ++ (⟨1, verdictOf (inScope env c loc v)⟩ :: xOps env c loc vs)
end

mutual
  /-- `generic_visit` reaching an expression: decisions and the contexts afterwards (a visited walrus
  records its target in the innermost context; in the repaired variants a target that is a parameter of an enclosing
  lambda / a variable of an enclosing comprehension lives in that node's own context and is gone with it) -/
  def xE (env : Env) (loc : List Name) (c : Ctxs) : Expr → List Dec × Ctxs
    | .name _ => ([], c)
    | .const _ => ([], c)
    | .node _ cs => xEs env loc c cs
    | .boolop vs => (xD env c loc (.boolop vs), c)
    | .unary e => (xD env c loc (.unary e), c)
    | .lam ps b => xE env (if env.fx.lam then ps ++ loc else loc) c b
    | .comp elt tgts _ _ => xE env (if env.fx.comp then tgts ++ loc else loc) c elt
    | .walrus x v => xE env loc (if loc.contains x then c else c.addTop [x]) v
  def xEs (env : Env) (loc : List Name) (c : Ctxs) : Exprs → List Dec × Ctxs
    | .nil => ([], c)
    | .cons e es =>
      let r1 := xE env loc c e
      let r2 := xEs env loc r1.2 es
      (r1.1 ++ r2.1, r2.2)
end

/-- `_is_bare_builtin` -/
def bareBuiltin (env : Env) (c : Ctxs) : Expr → Bool
  | .name x => env.B.contains x && !env.U.contains x && !c.glob.contains x && !c.inner.any (·.contains x)
  | .const ell => ell
  | _ => false

def isLam : Expr → Bool
  | .lam _ _ => true
  | _ => false

/-- `visit_Expr` (with `$XONSH_BUILTINS_TO_CMD` unset, so `_looks_like_flag_subproc` is False) -/
def xExprStmt (env : Env) (c : Ctxs) (e : Expr) : List Dec :=
  xD env c [] e ++
    [⟨0, if bareBuiltin env c e then .builtin
         else if inScope env c [] e || isLam e then .keep else .offer⟩]

def impAdds (fx : Fixes) : List ImpItem → List Name
  | [] => []
  | it :: r =>
    (match it.asname with
     | some n => [n]
     | none => if it.dotted then (if fx.dotted then [it.head] else []) else [it.head]) ++ impAdds fx r

def Handlers.names : Handlers → List Name
  | .nil => []
  | .cons _ _ nm _ rest => (match nm with | some n => [n] | none => []) ++ rest.names

/-- the repaired walrus rule: on entering a statement, record the walrus targets of its own expressions -/
def preW (env : Env) (c : Ctxs) (ws : List Name) : Ctxs := if env.fx.walrus then c.addTop ws else c

/-! ## the property's binding rule -/

/-- the lexical scopes at a point of the source: `frames` innermost first, the last one is the module's;
`dels` runs parallel to `frames`: names deleted in that scope; `sess` = the session's names (the module's
namespace before the input runs) -/
structure Sp where
  frames : List (List Name)
  dels : List (List Name)
  sess : List Name
  deriving Repr

def Sp.init (env : Env) : Sp := ⟨[[]], [[]], env.U⟩

/-- a name is defined: a builtin, a session name, or bound earlier in an enclosing scope of the source -/
def Sp.vis (env : Env) (s : Sp) (x : Name) : Bool :=
  env.B.contains x || s.sess.contains x || s.frames.any (·.contains x)

def Sp.bind (s : Sp) (xs : List Name) : Sp :=
  match s.frames with
  | [] => s
  | t :: r => { s with frames := (xs ++ t) :: r }

def bindLast : List (List Name) → List Name → List (List Name)
  | [], _ => []
  | [m], xs => [xs ++ m]
  | t :: r, xs => t :: bindLast r xs

/-- `global x`: x is a name of the module scope -/
def Sp.bindGlobal (s : Sp) (xs : List Name) : Sp := { s with frames := bindLast s.frames xs }

def Sp.push (s : Sp) (xs : List Name) : Sp := { s with frames := xs :: s.frames, dels := [] :: s.dels }
def Sp.pop (s : Sp) : Sp := { s with frames := s.frames.tail, dels := s.dels.tail }

def strikeTop (x : Name) : List (List Name) → List (List Name)
  | [] => []
  | t :: r => t.filter (· != x) :: r

def noteTop (x : Name) : List (List Name) → List (List Name)
  | [] => []
  | d :: dr => (x :: d) :: dr

/-- `del x` in the current scope: x is no longer bound there; at module level the session's x is the same variable -/
def Sp.del1 (s : Sp) (x : Name) : Sp :=
  { frames := strikeTop x s.frames, dels := noteTop x s.dels,
    sess := if s.frames.length == 1 then s.sess.filter (· != x) else s.sess }

def Sp.delAll (s : Sp) : List Name → Sp
  | [] => s
  | x :: xs => (s.del1 x).delAll xs

/-- a `del x` that Python can execute: x is bound in this very scope (or, at module level, in the session) -/
def Sp.tame (s : Sp) (x : Name) : Bool :=
  match s.frames with
  | [m] => m.contains x || s.sess.contains x
  | t :: _ => t.contains x
  | [] => false

mutual
  /-- every name the expression reads is in `bound`, with Python's scoping of lambda parameters and
  comprehension variables -/
  def freeOk (bound : List Name) : Expr → Bool
    | .name x => bound.contains x
    | .const _ => true
    | .node _ cs => freeOkL bound cs
    | .boolop vs => freeOkL bound vs
    | .unary e => freeOk bound e
    | .lam ps b => freeOk (ps ++ bound) b
    | .comp elt tgts iter conds => freeOk bound iter && (freeOkL (tgts ++ bound) conds && freeOk (tgts ++ bound) elt)
    | .walrus _ v => freeOk bound v
  def freeOkL (bound : List Name) : Exprs → Bool
    | .nil => true
    | .cons e es => freeOk bound e && freeOkL bound es
end

/-- names visible at a point, as a list -/
def Sp.visList (env : Env) (s : Sp) : List Name := env.B ++ (s.sess ++ s.frames.flatten)

/-- "every name the statement reads is defined": the statement's own expressions `es`, plus names `rs` it reads
outright; names bound by a walrus of the same statement do not count against it (`names -= store`) -/
def Sp.readsOk (env : Env) (s : Sp) (es : Exprs) (rs : List Name) : Bool :=
  freeOkL (allWL es ++ s.visList env) es && rs.all (fun x => s.vis env x)

/-- an expression statement reads a name that was deleted (in an enclosing scope of the source) and is not defined
any more: the property sends it back to command interpretation -/
def Sp.userBound (s : Sp) : Expr → Bool
  | .name x => s.sess.contains x || s.frames.any (·.contains x)
  | _ => false

def Sp.delRead (env : Env) (s : Sp) (e : Expr) : List Name :=
  (loads e).filter fun x => !(stores true e).contains x && s.dels.any (·.contains x) && !s.vis env x

/-! ## guards: where the mechanisms that break the property are absent

Each guard names the syntactic trigger of ONE mechanism and is switched off by the corresponding repair flag.
They are hypotheses of the `_partial` theorems (`Rec.g`), nothing else: the verdicts above do not depend on them. -/

mutual
  /-- for an expression that `generic_visit` walks through -/
  def gV (fx : Fixes) : Expr → Bool
    | .name _ => true
    | .const _ => true
    | .node _ cs => gVL fx cs
    | .boolop vs => fx.lam || lamOkL vs
    | .unary e => fx.lam || lamOk e
    | .lam ps b => gV fx b && (fx.lam || ps.isEmpty || decFree b)
    | .comp elt tgts _ _ => gV fx elt && (fx.comp || tgts.isEmpty || decFree elt)
    | .walrus _ v => gV fx v
  def gVL (fx : Fixes) : Exprs → Bool
    | .nil => true
    | .cons e es => gV fx e && gVL fx es
end

def subset (xs ys : List Name) : Bool := xs.all ys.contains

/-- a statement's own expressions `es`, visited generically: lambdas / comprehensions as above; a walrus target must be
reached by `generic_visit`, and the statement must not test operands while it also binds by walrus -/
def gExprs (fx : Fixes) (es : Exprs) : Bool :=
  gVL fx es && (fx.walrus || ((allWL es).isEmpty || decFreeL es) && subset (allWL es) (vWL fx.lam fx.comp [] es))

/-- a header whose expressions are visited inside the pushed scope (def / class): no walrus there -/
def gHeader (fx : Fixes) (es : Exprs) : Bool :=
  gVL fx es && (fx.walrus || (allWL es).isEmpty)

/-- an expression statement (never visited generically) -/
def gExprStmt (fx : Fixes) (e : Expr) : Bool :=
  (fx.walrus || (allW e).isEmpty) && (fx.lam || isLam e || lamOk e)

/-- `del x`, one name at a time: Python can execute it (`tame`), and it does not strike a builtin's only record -/
def Sp.tameAll (s : Sp) : List Name → Bool
  | [] => true
  | x :: xs => s.tame x && (s.del1 x).tameAll xs

def topHas (s : Sp) (x : Name) : Bool :=
  match s.frames with
  | [] => false
  | t :: _ => t.contains x

def gDel (env : Env) (s : Sp) : List Name → Bool
  | [] => true
  | x :: xs => (env.fx.delB || !env.B.contains x || topHas s x) && gDel env (s.del1 x) xs

def Ctxs.top (c : Ctxs) : List Name :=
  match c.inner with
  | [] => c.glob
  | t :: _ => t

/-! ## one walk, both verdicts -/

structure Rec where
  sid : Nat
  ok : Bool            -- Spec: every name the statement reads is defined
  delRead : List Name  -- Spec: the deleted, now undefined names an expression statement reads (the property sends it back to command interpretation)
  tame : Bool          -- Spec: every `del` so far could be executed by Python (else the property says nothing)
  shadow : Bool        -- Spec: the statement is a bare name that the session / the source binds (it must not be read from `builtins`)
  g : Bool             -- no known property-breaking mechanism has been triggered so far (see the guards)
  decs : List Dec      -- Impl: the verdicts of the code for the statement's own expressions
  deriving Repr

structure St where
  c : Ctxs
  s : Sp
  tame : Bool
  g : Bool
  deriving Repr

def St.init (env : Env) : St := ⟨Ctxs.init env, Sp.init env, true, true⟩

def one (e : Expr) : Exprs := .cons e .nil
def Exprs.append : Exprs → Exprs → Exprs
  | .nil, b => b
  | .cons e es, b => .cons e (es.append b)

def optName : Option Name → List Name
  | some n => [n]
  | none => []

mutual
  def runS (env : Env) (st : St) : Stmt → List Rec × St
    | .expr sid e =>
      let g := st.g && gExprStmt env.fx e
      let c0 := preW env st.c (allW e)
      ([⟨sid, st.s.readsOk env (one e) [], st.s.delRead env e, st.tame, st.s.userBound e, g, xExprStmt env c0 e⟩],
       { st with c := c0, s := st.s.bind (allW e), g := g })
    | .assign sid tgts v =>
      let g := st.g && gExprs env.fx (one v) && (env.fx.nested || subset (tBindsL tgts) (assignAdds tgts))
      let c0 := preW env st.c (allW v)
      let c1 := c0.addTop (assignAdds tgts ++ (if env.fx.nested then tNamesL tgts else []))
      let r := xEs env [] c1 (one v)
      ([⟨sid, st.s.readsOk env (one v) (tReadsL tgts), [], st.tame, false, g, r.1⟩],
       { st with c := r.2, s := st.s.bind (allW v ++ tBindsL tgts), g := g })
    | .annassign sid t ann v =>
      let es := Exprs.cons ann v
      let g := st.g && gExprs env.fx es && (env.fx.nested || subset (tBinds t) (lmName t))
      let c0 := preW env st.c (allWL es)
      let c1 := c0.addTop (lmName t ++ (if env.fx.nested then tBinds t else []))
      let r := xEs env [] c1 es
      ([⟨sid, st.s.readsOk env es (tReads t), [], st.tame, false, g, r.1⟩],
       { st with c := r.2, s := st.s.bind (allWL es ++ (match v with | .nil => [] | _ => tBinds t)), g := g })
    | .augassign sid t v =>
      let g := st.g && gExprs env.fx (one v)
      let c0 := preW env st.c (allW v)
      let r := xEs env [] c0 (one v)
      ([⟨sid, st.s.readsOk env (one v) (tNames t), [], st.tame, false, g, r.1⟩],
       { st with c := r.2, s := st.s.bind (allW v), g := g })
    | .imp sid items =>
      let g := st.g && subset (impAdds Fixes.all items) (impAdds env.fx items)
      ([⟨sid, true, [], st.tame, false, g, []⟩],
       { st with c := st.c.addTop (impAdds env.fx items), s := st.s.bind (impAdds Fixes.all items), g := g })
    | .impFrom sid items =>
      let g := st.g && subset (impAdds Fixes.all items) (impAdds env.fx items)
      ([⟨sid, true, [], st.tame, false, g, []⟩],
       { st with c := st.c.addTop (impAdds env.fx items), s := st.s.bind (impAdds Fixes.all items), g := g })
    | .fdef sid f ps defaults body decos =>
      let hdr := defaults.append decos
      let g := st.g && gHeader env.fx hdr
      let ok := st.s.readsOk env hdr []
      let c0 := preW env st.c (allWL hdr)
      let c1 := ((c0.addTop [f]).push).addTop ps
      let r1 := xEs env [] c1 defaults
      let st1 : St := { st with c := r1.2, s := ((st.s.bind (allWL hdr)).bind [f]).push ps, g := g }
      let rb := runL env st1 body
      let r2 := xEs env [] rb.2.c decos
      -- decorators are evaluated before the body exists but visited after it: the claim is made only if their reads are bound at both points
      let ok2 := ok && freeOkL (rb.2.s.pop.visList env) decos
      (⟨sid, ok, [], st.tame, false, g, r1.1⟩ :: (rb.1 ++ [⟨sid, ok2, [], rb.2.tame, false, rb.2.g, r2.1⟩]),
       { rb.2 with c := r2.2.pop, s := rb.2.s.pop })
    | .cdef sid cn bases body decos =>
      let hdr := bases.append decos
      let g := st.g && gHeader env.fx hdr
      let ok := st.s.readsOk env hdr []
      let c0 := preW env st.c (allWL hdr)
      let c1 := (c0.addTop [cn]).push
      let r1 := xEs env [] c1 bases
      let st1 : St := { st with c := r1.2, s := ((st.s.bind (allWL hdr)).bind [cn]).push [], g := g }
      let rb := runL env st1 body
      let r2 := xEs env [] rb.2.c decos
      let ok2 := ok && freeOkL (rb.2.s.pop.visList env) decos
      (⟨sid, ok, [], st.tame, false, g, r1.1⟩ :: (rb.1 ++ [⟨sid, ok2, [], rb.2.tame, false, rb.2.g, r2.1⟩]),
       { rb.2 with c := r2.2.pop, s := rb.2.s.pop })
    | .for_ sid tgt iter body orelse =>
      let g := st.g && gExprs env.fx (one iter)
      let c0 := preW env st.c (allW iter)
      let c1 := c0.addTop (tNames tgt)
      let r := xEs env [] c1 (one iter)
      let st1 : St := { st with c := r.2, s := st.s.bind (allW iter ++ tBinds tgt), g := g }
      let rb := runL env st1 body
      let ro := runL env rb.2 orelse
      (⟨sid, st.s.readsOk env (one iter) (tReads tgt), [], st.tame, false, g, r.1⟩ :: (rb.1 ++ ro.1), ro.2)
    | .while_ sid test body orelse =>
      let g := st.g && gExprs env.fx (one test)
      let c0 := preW env st.c (allW test)
      let r := xEs env [] c0 (one test)
      let st1 : St := { st with c := r.2, s := st.s.bind (allW test), g := g }
      let rb := runL env st1 body
      let ro := runL env rb.2 orelse
      (⟨sid, st.s.readsOk env (one test) [], [], st.tame, false, g, r.1⟩ :: (rb.1 ++ ro.1), ro.2)
    | .if_ sid test body orelse =>
      let g := st.g && gExprs env.fx (one test)
      let c0 := preW env st.c (allW test)
      let r := xEs env [] c0 (one test)
      let st1 : St := { st with c := r.2, s := st.s.bind (allW test), g := g }
      let rb := runL env st1 body
      let ro := runL env rb.2 orelse
      (⟨sid, st.s.readsOk env (one test) [], [], st.tame, false, g, r.1⟩ :: (rb.1 ++ ro.1), ro.2)
    | .with_ sid ctxs tgts body =>
      let g := st.g && gExprs env.fx ctxs
      let c0 := preW env st.c (allWL ctxs)
      let c1 := c0.addTop (tNamesL tgts)
      let r := xEs env [] c1 ctxs
      let st1 : St := { st with c := r.2, s := st.s.bind (allWL ctxs ++ tBindsL tgts), g := g }
      let rb := runL env st1 body
      (⟨sid, st.s.readsOk env ctxs (tReadsL tgts), [], st.tame, false, g, r.1⟩ :: rb.1, rb.2)
    | .try_ _ body hs orelse final =>
      let st0 : St := { st with c := st.c.addTop hs.names }
      let rb := runL env st0 body
      let rh := runH env rb.2 hs
      let ro := runL env rh.2 orelse
      let rf := runL env ro.2 final
      (rb.1 ++ (rh.1 ++ (ro.1 ++ rf.1)), rf.2)
    | .global_ sid xs =>
      ([⟨sid, true, [], st.tame, false, st.g, []⟩], { st with c := st.c.addGlob xs, s := st.s.bindGlobal xs })
    | .del sid names nested =>
      let all := names ++ nested
      let tame := st.tame && st.s.tameAll all
      let g := st.g && gDel env st.s all
      ([⟨sid, all.all (fun x => st.s.vis env x), [], tame, false, g, []⟩],
       { c := st.c.removeAll env (names ++ (if env.fx.delSeq then nested else [])), s := st.s.delAll all, tame := tame, g := g })
    | .ret sid v =>
      let g := st.g && gExprs env.fx v
      let c0 := preW env st.c (allWL v)
      let r := xEs env [] c0 v
      ([⟨sid, st.s.readsOk env v [], [], st.tame, false, g, r.1⟩], { st with c := r.2, s := st.s.bind (allWL v), g := g })
    | .pass sid => ([⟨sid, true, [], st.tame, false, st.g, []⟩], st)
  def runL (env : Env) (st : St) : Stmts → List Rec × St
    | .nil => ([], st)
    | .cons s ss =>
      let r1 := runS env st s
      let r2 := runL env r1.2 ss
      (r1.1 ++ r2.1, r2.2)
  def runH (env : Env) (st : St) : Handlers → List Rec × St
    | .nil => ([], st)
    | .cons sid ty nm body rest =>
      -- the handler's name was recorded when the `try` was entered: it must still be there (a `del` in between strikes it)
      let g := st.g && gExprs env.fx ty && (env.fx.handler || subset (optName nm) st.c.top)
      let c0 := preW env st.c (allWL ty)
      let r := xEs env [] (c0.addTop (if env.fx.handler then optName nm else [])) ty
      let st1 : St := { st with c := r.2, s := st.s.bind (allWL ty ++ optName nm), g := g }
      let rb := runL env st1 body
      let rr := runH env rb.2 rest
      (⟨sid, st.s.readsOk env ty [], [], st.tame, false, g, r.1⟩ :: (rb.1 ++ rr.1), rr.2)
end

/-- what `Execer.compile` + `CtxAwareTransformer.ctxvisit` decide for a whole input, next to what the property says -/
def run (env : Env) (p : Stmts) : List Rec := (runL env (St.init env) p).1

end Scope

/-
Phase 3 of `Execer.parse`: xonsh/parsers/base.py `_SubprocChainRaiseWrapper` (hand-written model; tied to the code by the
harness's tree-identity oracle: whatever is kept must be the tree `ast.parse` builds).
-/
namespace RaiseWrap

mutual
  inductive T where
    | helper (raising : Bool) (args : Ts)      -- a `__xonsh__.subproc_*` call (`raising`: subproc_uncaptured / captured_hiddenobject)
    | boolop (vs : Ts)                          -- BoolOp
    | wrapped (t : T)                           -- `__xonsh__.subproc_check_boolop(t)`
    | stmtVal (t : T)                           -- Expr / Assign / AugAssign / AnnAssign with value t
    | other (cs : Ts)                           -- any other node
  inductive Ts where
    | nil
    | cons (t : T) (ts : Ts)
end

mutual
  /-- `_boolop_contains_subproc`: a subprocess helper call somewhere below -/
  def hasHelper : T → Bool
    | .helper _ _ => true
    | .boolop vs => hasHelperL vs
    | .wrapped t => hasHelper t
    | .stmtVal t => hasHelper t
    | .other cs => hasHelperL cs
  def hasHelperL : Ts → Bool
    | .nil => false
    | .cons t ts => hasHelper t || hasHelperL ts
end

def isWrapped : T → Bool
  | .wrapped _ => true
  | _ => false

def isRaisingHelper : T → Bool
  | .helper r _ => r
  | _ => false

mutual
  /-- `_SubprocChainRaiseWrapper.visit` (`inside` = `self._inside_boolop`) -/
  def visit (inside : Bool) : T → T
    | .helper r args => .helper r (visitL inside args)
    | .boolop vs =>
      if inside then .boolop (visitL true vs)
      else if hasHelperL (visitL true vs) then .wrapped (.boolop (visitL true vs)) else .boolop (visitL true vs)
    | .wrapped t => .wrapped (visit inside t)
    | .stmtVal t =>
      .stmtVal (if isWrapped (visit inside t) then visit inside t
                else if isRaisingHelper (visit inside t) then .wrapped (visit inside t) else visit inside t)
    | .other cs => .other (visitL inside cs)
  def visitL (inside : Bool) : Ts → Ts
    | .nil => .nil
    | .cons t ts => .cons (visit inside t) (visitL inside ts)
end

end RaiseWrap
