/-
C18 — the path completer's quoting (xonsh/completers/path.py `_quote_paths`, `_quote_to_use`,
`_raw_quote`, `_CONTROL_CHAR_ESCAPE`, the `~` special case and the partial-string detection of
`_complete_path_raw`; xonsh/lib/completion_quoting.py `name_needs_quotes`) and the way xonsh READS the
inserted text back as a subprocess argument (tokenizer string scanning, `ast.literal_eval` of the
simple escapes, `expand_path` = `expandvars` + the tilde rule, the bare-word rules of the lexer, the
`!` macro rule).  Hand-written, executable, import-free; strings are lists of characters.

Character classes that come from regular expressions / CPython (`_PATTERN`, `\w`, `str.isidentifier`)
and the two small helpers `_quote_to_use`, `_raw_quote` are PARAMETERS (`Tables`): the theorems in
Props/C18.lean instantiate them with the tables TRANSLATED from /repo (Gen/Quote.lean); the driver
instantiates them with what the running implementation answers for the characters at hand.
-/
namespace PathQuote

abbrev Str := List Char

structure Tables where
  special : Char → Bool              -- the character class of completion_quoting._PATTERN
  word : Char → Bool                 -- Python `\w`
  idStart : Char → Bool              -- `c.isidentifier()`
  keywords : List Str                -- the `\bX\b` alternatives of _PATTERN
  ctrl : List (Char × Str)           -- path._CONTROL_CHAR_ESCAPE
  quoteToUse : Str → Str             -- path._quote_to_use
  rawQuote : Str → Str               -- path._raw_quote

/-- what the reader consults: `$NAME` values (detyped) and home directories (`""` = the current user) -/
structure Env where
  vars : Str → Option Str
  home : Str → Option Str

-- ---------------------------------------------------------------------------- small string helpers
def bs : Char := '\\'
def sq : Char := '\''
def dq : Char := '"'

/-- `pat in s` -/
def isInfix (pat : Str) : Str → Bool
  | [] => pat.isEmpty
  | c :: cs => pat.isPrefixOf (c :: cs) || isInfix pat cs

def endsWith (s suf : Str) : Bool := suf.isSuffixOf s
def startsWith (s pre : Str) : Bool := pre.isPrefixOf s

/-- `s.replace(pat, rep)` for a non-empty `pat` (leftmost, non-overlapping); `skip` = characters of a
match still to be dropped -/
def replaceGo (pat rep : Str) : Nat → Str → Str
  | _, [] => []
  | skip + 1, _ :: cs => replaceGo pat rep skip cs
  | 0, c :: cs =>
    if pat.isPrefixOf (c :: cs) then rep ++ replaceGo pat rep (pat.length - 1) cs
    else c :: replaceGo pat rep 0 cs

def replaceAll (pat rep s : Str) : Str := if pat.isEmpty then s else replaceGo pat rep 0 s

/-- `s.rstrip(" ")` -/
def rstripSpaces (s : Str) : Str := (s.reverse.dropWhile (· == ' ')).reverse

/-- `str.translate(_CONTROL_CHAR_ESCAPE)` -/
def translate (tbl : List (Char × Str)) (s : Str) : Str :=
  s.flatMap fun c => (tbl.lookup c).getD [c]

-- ---------------------------------------------------------------------------- name_needs_quotes
def isW (T : Tables) : Option Char → Bool
  | none => false
  | some c => T.word c

/-- `\bkw\b` matches at the head of `s` (`prev` = the character before it) -/
def matchAt (T : Tables) (prev : Option Char) (kw s : Str) : Bool :=
  kw.isPrefixOf s && (isW T prev != isW T kw.head?) && (isW T kw.getLast? != isW T (s.drop kw.length).head?)

/-- `re.search(r"\bkw\b", s)` -/
def hasWord (T : Tables) (kw : Str) : Option Char → Str → Bool
  | prev, [] => matchAt T prev kw []
  | prev, c :: cs => matchAt T prev kw (c :: cs) || hasWord T kw (some c) cs

/-- `name_needs_quotes(name, sep="/")` -/
def needsQuotes (T : Tables) (s : Str) : Bool :=
  s.any T.special || T.keywords.any (fun k => hasWord T k none s) || s.contains bs

/-- reference twins of the two translated helpers -/
def quoteToUseRef (x : Str) : Str :=
  if x.contains sq && !x.contains dq then [dq] else [sq]

def rawQuoteRef (s : Str) : Str :=
  let s := if endsWith s [bs] && !endsWith s [bs, bs] then s ++ [bs] else s
  ['r', sq] ++ s ++ [sq]

-- ---------------------------------------------------------------------------- expand_path
/-- the longest `\w+` prefix -/
def takeWord (T : Tables) : Str → Str × Str
  | [] => ([], [])
  | c :: cs => if T.word c then let (w, r) := takeWord T cs; (c :: w, r) else ([], c :: cs)

/-- POSIX_ENVVAR_REGEX at a `$` (the `$` already consumed): `${'NAME'}`, `${"NAME"}` or `$NAME`;
returns the variable name and the rest after the match -/
def matchVar (T : Tables) (s : Str) : Option (Str × Str) :=
  let braced : Option (Str × Str) :=
    match s with
    | '{' :: q :: rest =>
      if q == sq || q == dq then
        match takeWord T rest with
        | (w, q' :: '}' :: rest') => if !w.isEmpty && q' == q then some (w, rest') else none
        | _ => none
      else none
    | _ => none
  match braced with
  | some r => some r
  | none =>
    match takeWord T s with
    | ([], _) => none
    | (w, rest) => some (w, rest)

/-- `expandvars`: left to right over the non-overlapping matches; unknown variables stay.
`fuel` only makes the recursion structural (one unit per character is enough). -/
def expandVarsGo (T : Tables) (E : Env) : Nat → Str → Str
  | 0, s => s
  | _, [] => []
  | fuel + 1, c :: cs =>
    if c == '$' then
      match matchVar T cs with
      | some (name, rest) =>
        let matched := (c :: cs).take ((c :: cs).length - rest.length)
        (match E.vars name with | some v => v | none => matched) ++ expandVarsGo T E fuel rest
      | none => c :: expandVarsGo T E fuel cs
    else c :: expandVarsGo T E fuel cs

def expandVars (T : Tables) (E : Env) (s : Str) : Str := expandVarsGo T E s.length s

/-- the text before the first `c`, and the rest from that `c` on -/
def splitAtChar (c : Char) : Str → Str × Str
  | [] => ([], [])
  | a :: r => if a == c then ([], a :: r) else ((a :: (splitAtChar c r).1), (splitAtChar c r).2)

/-- `str.partition(c)` / first piece of `split` -/
def splitAt1 (c : Char) (s : Str) : Str × Option Str :=
  match splitAtChar c s with
  | (a, []) => (a, none)
  | (a, _ :: b) => (a, some b)

/-- `s.split(c)` (`fuel` as above) -/
def splitOn (c : Char) : Nat → Str → List Str
  | 0, s => [s]
  | fuel + 1, s =>
    match splitAt1 c s with
    | (a, none) => [a]
    | (a, some b) => a :: splitOn c fuel b

/-- posixpath.expanduser -/
def expandUser (E : Env) (p : Str) : Str :=
  match p with
  | '~' :: rest =>
    let (user, tail) := splitAtChar '/' rest
    match E.home user with
    | none => p
    | some h =>
      let r := rstripChar '/' h ++ tail
      if r.isEmpty then ['/'] else r
  | _ => p
where rstripChar (c : Char) (s : Str) : Str := (s.reverse.dropWhile (· == c)).reverse

def joinWith (sep : Char) : List Str → Str
  | [] => []
  | [a] => a
  | a :: rest => a ++ sep :: joinWith sep rest

/-- built_ins.expand_path (EXPAND_ENV_VARS and XONSH_SUBPROC_ARG_EXPANDUSER on, the defaults) -/
def expandPath (T : Tables) (E : Env) (s : Str) : Str :=
  let s := expandVars T E s
  match splitAt1 '=' s with
  | (_, none) => expandUser E s
  | (pre, some post) =>
    expandUser E pre ++ '=' :: joinWith ':' ((splitOn ':' post.length post).map (expandUser E))

-- ---------------------------------------------------------------------------- _quote_paths
def isRawStart (start : Str) : Bool := start.any fun c => c == 'r' || c == 'R'

/-- a path-string prefix (`p'…'`, `pr'…'`, `rp'…'`): `path_literal` applies `expand_path` even when raw -/
def isPathString (start : Str) : Bool := start.any fun c => c == 'p' || c == 'P'

def hasCtrl (T : Tables) (s : Str) : Bool := T.ctrl.any fun kv => s.contains kv.1

/-- `if start == "" and path_needs_quotes: start = end = _quote_to_use(s)` -/
def autoQuote (T : Tables) (s start0 end0 : Str) : Str × Str :=
  if start0.isEmpty && needsQuotes T s then (T.quoteToUse s, T.quoteToUse s) else (start0, end0)

/-- `_tail` -/
def tailOf (end_ : Str) (isDir : Bool) : Str :=
  if isDir then ['/'] else if end_.isEmpty then [' '] else []

/-- `needs_raw` -/
def needsRaw (T : Tables) (s : Str) : Bool := (s.contains bs || s.contains '$') && !hasCtrl T s

/-- `if start != "" and "r" not in start.lower() and needs_raw: start = f"r{start}"` -/
def effStart (T : Tables) (s start : Str) : Str :=
  if !start.isEmpty && !isRawStart start && needsRaw T s then 'r' :: start else start

/-- the escaping passes over `x` = the candidate with its tail (`s0` = the candidate itself): trailing
backslash of a raw string doubled, backslashes doubled in a non-raw string, the closing quote escaped,
control characters translated — in this order -/
def escBody (T : Tables) (s0 start end_ x : Str) : Str :=
  let x := if isRawStart start && !end_.isEmpty && endsWith x [bs] then x ++ [bs] else x
  let x := if !end_.isEmpty && !isRawStart start then replaceAll [bs] [bs, bs] x else x
  let x := if isInfix end_ x then replaceAll end_ (end_.flatMap fun c => [bs, c]) x else x
  if hasCtrl T s0 then translate T.ctrl x else x

/-- `start + s + end` (or without the end), and the trailing space of a quoted non-directory -/
def wrap (start end_ body : Str) (isDir appendEnd : Bool) : Str :=
  let t := if appendEnd then start ++ body ++ end_ else start ++ body
  if !isDir && !end_.isEmpty && appendEnd then t ++ [' '] else t

/-- one iteration of the loop of `_quote_paths` (POSIX: sep = "/"), `isDir` = the outcome of its
`os.path.isdir` test -/
def quoteOne (T : Tables) (s start0 end0 : Str) (isDir appendEnd : Bool) : Str :=
  let se := autoQuote T s start0 end0
  let start := effStart T s se.1
  wrap start se.2 (escBody T s start se.2 (s ++ tailOf se.2 isDir)) isDir appendEnd

/-- `_normpath` on a name without separators: `rstrip(" ")`, and `normpath("") == "."` -/
def normName (n : Str) : Str :=
  let s := rstripSpaces n
  if s.isEmpty then ['.'] else s

/-- the `is_dir` that `_quote_paths` computes for the candidate `s` of the directory entry `name`
(`isDirFs` = that entry is a directory; no other entry exists) -/
def isDirEff (T : Tables) (E : Env) (name s : Str) (isDirFs : Bool) : Bool :=
  if s != name then s == ['.']
  else if s.contains '$' || startsWith s ['~'] then isDirFs
  else isDirFs && expandPath T E s == s

/-- the stripping that the `~` special case of `_complete_path_raw` applies to a candidate -/
def tildeInner (t : Str) : Str :=
  let raw := rstripSpaces t   -- `p.rstrip()`: only spaces can be there
  let inner := match raw with
    | c :: r => if c == sq || c == dq then r else raw
    | [] => raw
  let inner := match inner.getLast? with
    | some c => if c == sq || c == dq then inner.dropLast else inner
    | none => inner
  let inner := replaceAll [bs, bs] [bs] inner
  (inner.reverse.dropWhile (fun c => c == bs || c == '/' || c == ' ')).reverse

/-- the `~` special case of `_complete_path_raw` applies: a literal `~` exists in the directory and the
typed string is not raw -/
def tildeSpecial (name start : Str) : Bool := !isRawStart start && name == ['~']

/-- the special case leaves the regular candidate `t` in the list (it only recognises `~` behind at most
one quote character on each side) -/
def tildeKeeps (t : Str) : Bool :=
  let raw := rstripSpaces t
  startsWith raw ['r', sq] || startsWith raw ['r', dq] || tildeInner t != ['~']

/-- the regular candidate for the entry `name` -/
def regular (T : Tables) (E : Env) (name start end_ : Str) (isDirFs appendEnd : Bool) : Str :=
  let s := normName name
  quoteOne T s start end_ (isDirEff T E name s isDirFs) appendEnd

/-- every text the completer offers for the single entry `name` of the current directory, given the
(start, end, append_end) that `_complete_path_raw` derived from the typed text -/
def completions (T : Tables) (E : Env) (name start end_ : Str) (isDirFs appendEnd : Bool) : List Str :=
  let t := regular T E name start end_ isDirFs appendEnd
  if tildeSpecial name start then
    (if tildeKeeps t then [t] else []) ++ [T.rawQuote (if isDirFs then ['~', '/'] else ['~'])]
  else [t]

/-- where the cursor is relative to the quotes the user typed -/
inductive Mode | atEnd | closedInside | closedAfter
  deriving DecidableEq, Repr

/-- is the user's opening quote `o` left unrecognised (see `seenStyle`)? -/
def loneQuote (o : Str) (typedEmpty : Bool) (m : Mode) : Bool :=
  !o.isEmpty && typedEmpty && !isRawStart o && m != .closedAfter

def stripStringPrefix (o : Str) : Str :=
  o.dropWhile fun c => c == 'b' || c == 'B' || c == 'p' || c == 'r' || c == 'R' || c == 'u' || c == 'U' || c == 'f'

/-- (start, end, append_end) as `_complete_path_raw` derives them (`_path_from_partial_string`):
`o` = the opening quote the user typed (with its prefix letters, `""` for none), `typedEmpty` = nothing
typed after it.  A lone NON-raw opening quote is not recognised as an opened string.  The test for "the
closing quote is already there" compares ONE character with the whole closing quote (so it never holds of
a triple quote) — unless `wholeQuote`, the repaired variant that compares the whole quote. -/
def seenStyle (wholeQuote : Bool) (o : Str) (typedEmpty : Bool) (m : Mode) : Str × Str × Bool :=
  if o.isEmpty then ([], [], true)
  else if loneQuote o typedEmpty m then ([], [], true)
  else
    let e := stripStringPrefix o
    (o, e, !(m == .closedInside && (e.length == 1 || wholeQuote)))

/-- what stays in the line right after the inserted text -/
def lineTail (o : Str) (m : Mode) : Str :=
  if m == .closedInside then stripStringPrefix o else []

-- ---------------------------------------------------------------------------- the reader
inductive Read where
  | args (l : List Str)      -- the command receives exactly these arguments
  | error                    -- the line does not parse (SyntaxError)
  | unmodelled               -- outside the fragment this model describes
  deriving DecidableEq, Repr

/-- `str.splitlines` boundaries: Execer._parse_ctx_free cuts the input there -/
def isLineBreak (c : Char) : Bool :=
  c == '\n' || c == '\r' || c == Char.ofNat 0x0b || c == Char.ofNat 0x0c || c == Char.ofNat 0x1c ||
  c == Char.ofNat 0x1d || c == Char.ofNat 0x1e || c == Char.ofNat 0x85 || c == Char.ofNat 0x2028 ||
  c == Char.ofNat 0x2029

def push (c : Char) : Option (Str × Str) → Option (Str × Str)
  | none => none
  | some (b, a) => some (c :: b, a)

/-- tokenizer, tail of a single-quoted string (`[^\n'\\]*(?:\\.[^\n'\\]*)*'`): body and what follows
the closing quote; `esc` = the previous character was an unconsumed backslash -/
def scan1 (q : Char) : Bool → Str → Option (Str × Str)
  | _, [] => none
  | true, c :: rest => if c == '\n' then none else push c (scan1 q false rest)
  | false, c :: rest =>
    if c == bs then push c (scan1 q true rest)
    else if c == q then some ([], rest)
    else if c == '\n' then none
    else push c (scan1 q false rest)

/-- tokenizer, tail of a triple-quoted string (`[^'\\]*(?:(?:\\.|'(?!''))[^'\\]*)*'''`) -/
def scan3 (q : Char) : Bool → Str → Option (Str × Str)
  | _, [] => none
  | true, c :: rest => push c (scan3 q false rest)
  | false, c :: rest =>
    if c == bs then push c (scan3 q true rest)
    else if c == q && rest.take 2 == [q, q] then some ([], rest.drop 2)
    else push c (scan3 q false rest)

/-- the one-letter escapes of a (non-bytes) string literal -/
def simpleEscape (c : Char) : Option Char :=
  if c == bs then some bs else if c == sq then some sq else if c == dq then some dq
  else if c == 'a' then some (Char.ofNat 7) else if c == 'b' then some (Char.ofNat 8)
  else if c == 'f' then some (Char.ofNat 0x0c) else if c == 'n' then some '\n'
  else if c == 'r' then some '\r' else if c == 't' then some '\t'
  else if c == 'v' then some (Char.ofNat 0x0b) else none

/-- escapes whose meaning this model does not describe (octal, \x, \u, \U, \N{…}, line continuation) -/
def otherEscape (c : Char) : Bool :=
  ('0' ≤ c && c ≤ '7') || c == 'x' || c == 'u' || c == 'U' || c == 'N' || c == '\n'

/-- `ast.literal_eval` of the body of a non-raw `str` literal; `none` = outside the model -/
def unescape : Bool → Str → Option Str
  | false, [] => some []
  | true, [] => none
  | true, c :: rest =>
    match simpleEscape c with
    | some d => (unescape false rest).map (d :: ·)
    | none => if otherEscape c then none else (unescape false rest).map (fun r => bs :: c :: r)
  | false, c :: rest =>
    if c == bs then unescape true rest else (unescape false rest).map (c :: ·)

/-- characters that end or change a bare word (tokenizer / lexer / parser rules for subprocess
arguments): blanks and newlines, quotes, backtick, `$`, `#`, brackets, glob characters, `| & ; < >`,
the backslash — and the remaining Unicode white space (the source is stripped with `str.strip`) -/
def bareUnsafe : List Char :=
  [' ', '\t', '\n', '\r', Char.ofNat 0x0b, Char.ofNat 0x0c, sq, dq, '`', '$', '#', '(', ')', '[', ']',
   '{', '}', '*', '?', '|', '&', ';', '<', '>', bs,
   Char.ofNat 0x1f, Char.ofNat 0xa0, Char.ofNat 0x1680, Char.ofNat 0x2000, Char.ofNat 0x2001, Char.ofNat 0x2002,
   Char.ofNat 0x2003, Char.ofNat 0x2004, Char.ofNat 0x2005, Char.ofNat 0x2006, Char.ofNat 0x2007, Char.ofNat 0x2008,
   Char.ofNat 0x2009, Char.ofNat 0x200a, Char.ofNat 0x202f, Char.ofNat 0x205f, Char.ofNat 0x3000]

/-- the names the lexer turns into AND / OR tokens in subprocess mode (lexer.NEED_WHITESPACE) -/
def readerKeywords : List Str := [['a', 'n', 'd'], ['o', 'r']]

/-- position of the first `!` that the lexer makes a BANG token (`!=` is the NE operator) -/
def bangSplit : Str → Option (Str × Str)
  | [] => none
  | c :: rest =>
    if c == '!' then
      match rest with
      | d :: rest' =>
        if d == '=' then (bangSplit rest').map (fun (a, b) => (c :: d :: a, b))
        else some ([], rest)
      | [] => some ([], [])
    else (bangSplit rest).map (fun (a, b) => (c :: a, b))

/-- a `\w` character that can neither start an identifier nor is an ASCII digit: when such a character
starts a name token the tokenizer emits an OP token the lexer does not know ("Unexpected token") -/
def oddChar (T : Tables) (c : Char) : Bool :=
  T.word c && !T.idStart c && !('0' ≤ c && c ≤ '9')

/-- `CMD w` parses as a Python statement (assignment / annotation), so it never reaches subprocess mode -/
def pyStmt (w : Str) : Bool :=
  match w with
  | [] => false
  | c :: r =>
    if c == '=' then r.head? != some '='
    else if c == ':' then true
    else (c == '+' || c == '-' || c == '%' || c == '^' || c == '@') && r.head? == some '='

/-- a bare word `w`, followed on the line by `after` -/
def readBare (T : Tables) (E : Env) (w after : Str) : Read :=
  match bangSplit w with
  | some (before, rest) =>
    -- subprocess macro: everything after the `!` up to the end of the command, stripped, is ONE more
    -- argument (modelled when that text is the rest of this word)
    if !after.all (· == ' ') then .unmodelled
    else if before.any (fun c => bareUnsafe.contains c) || rest.any (fun c => bareUnsafe.contains c) then .unmodelled
    else if before.any (oddChar T) || pyStmt before || readerKeywords.contains before then .unmodelled
    else .args ((if before.isEmpty then [] else [expandPath T E before]) ++ [rest])
  | none =>
    if !after.all (· == ' ') then .unmodelled
    else if w.any (fun c => bareUnsafe.contains c) then .unmodelled
    else if w.any (oddChar T) then .unmodelled
    else if readerKeywords.contains w then .unmodelled
    else if pyStmt w then .unmodelled
    else .args [expandPath T E w]

/-- an optional `r`/`R`, then a quote: (raw, quote character, triple, rest) -/
def parseOpening (t : Str) : Option (Bool × Char × Bool × Str) :=
  let (raw, t') := match t with
    | c :: r => if (c == 'r' || c == 'R') && (r.head? == some sq || r.head? == some dq) then (true, r) else (false, t)
    | [] => (false, t)
  match t' with
  | q :: r =>
    if q == sq || q == dq then
      if r.take 2 == [q, q] then some (raw, q, true, r.drop 2) else some (raw, q, false, r)
    else none
  | [] => none

/-- how xonsh reads `text`, the rest of the command line after `CMD ` -/
def readBack (T : Tables) (E : Env) (text : Str) : Read :=
  if text.any isLineBreak then .unmodelled
  else
    match parseOpening text with
    | some (raw, q, triple, rest) =>
      match (if triple then scan3 q false rest else scan1 q false rest) with
      | none => .error
      | some (body, after) =>
        if !after.all (· == ' ') then .unmodelled
        else if raw then .args [body]
        else match unescape false body with
          | none => .unmodelled
          | some v => .args [expandPath T E v]
    | none =>
      let (w, after) := splitAtChar ' ' text
      if w.isEmpty then (if after.all (· == ' ') then .args [] else .unmodelled)
      else readBare T E w after

-- ---------------------------------------------------------------------------- the classes of names
/-- the classes of (name, typed text) on which the unchanged completer inserts text that does not mean
the name; each is a known finding.  `[]` = the round-trip theorem applies. -/
inductive Cls
  | trailingSpace | lineSeparator | bangUnquoted | oddToken | pythonStatement | tildeExpansion
  | dollarExpansion | trailingBackslash | rawQuoteConflict | rawControlChar | tripleQuoteEnd
  | tripleCursorInside | loneQuoteInside | tildeCursorInside
  deriving DecidableEq, Repr

/-- line boundaries of `str.splitlines` that `_CONTROL_CHAR_ESCAPE` does not escape (FIXED list: it
must not follow the table) -/
def unescapedBreaks : List Char :=
  [Char.ofNat 0x1c, Char.ofNat 0x1d, Char.ofNat 0x1e, Char.ofNat 0x85, Char.ofNat 0x2028, Char.ofNat 0x2029]

/-- the characters `_CONTROL_CHAR_ESCAPE` is documented to escape (FIXED list) -/
def escapedCtrl : List Char := ['\n', '\t', '\r', Char.ofNat 0x0c, Char.ofNat 0x0b]

def when (b : Bool) (c : Cls) : List Cls := if b then [c] else []

/-- does `_CONTROL_CHAR_ESCAPE` escape `c`?  The documented five; `sepEscaped` = the repaired variant whose table
also escapes the six remaining line boundaries (as `\\x1c` … `\\u2029`). -/
def isCtrl (sepEscaped : Bool) (c : Char) : Bool :=
  escapedCtrl.contains c || (sepEscaped && unescapedBreaks.contains c)

/-- the classes that depend on the quoting style `_quote_paths` ends up with for the candidate -/
def styleClasses (T : Tables) (E : Env) (sepEscaped : Bool) (name start0 end0 : Str) (isDirFs : Bool) : List Cls :=
  let s := normName name
  let auto := start0.isEmpty && needsQuotes T s
  let start := if auto then quoteToUseRef s else start0
  let end_ := if auto then quoteToUseRef s else end0
  let ctrl := s.any (isCtrl sepEscaped)
  let needsRaw := (s.contains bs || s.contains '$') && !ctrl
  let raw := isRawStart start || (!start.isEmpty && needsRaw)
  let isDir := isDirEff T E name s isDirFs
  let v := s ++ (if isDir then ['/'] else [])
  let q := end_.head?.getD sq
  if end_.isEmpty then
    when (bangSplit s).isSome .bangUnquoted ++
    when (s.any (oddChar T)) .oddToken ++
    when (pyStmt s) .pythonStatement ++
    when (expandPath T E v != v) .tildeExpansion
  else if raw then
    when (!isDir && endsWith s [bs]) .trailingBackslash ++
    when (isInfix end_ s) .rawQuoteConflict ++
    when ctrl .rawControlChar ++
    when (end_.length == 3 && !isDir && s.getLast? == some q) .tripleQuoteEnd ++
    when (isPathString start && expandVars T E v != v) .dollarExpansion ++
    when (isPathString start && expandVars T E v == v && expandPath T E v != v) .tildeExpansion
  else
    when (expandVars T E v != v) .dollarExpansion ++
    when (expandVars T E v == v && expandPath T E v != v) .tildeExpansion ++
    when (end_.length == 3 && !isDir && s.getLast? == some q) .tripleQuoteEnd

def classify (T : Tables) (E : Env) (wholeQuote sepEscaped : Bool) (name o : Str) (typedEmpty : Bool) (m : Mode)
    (isDirFs : Bool) : List Cls :=
  let s := normName name
  let sty := seenStyle wholeQuote o typedEmpty m
  -- is the regular candidate offered at all? (the `~` special case may replace it by r'~')
  let offered := !tildeSpecial name sty.1 || tildeKeeps (regular T E name sty.1 sty.2.1 isDirFs sty.2.2)
  when (s != name) .trailingSpace ++
  when (!sepEscaped && s.any fun c => unescapedBreaks.contains c) .lineSeparator ++
  (if offered then styleClasses T E sepEscaped name sty.1 sty.2.1 isDirFs else []) ++
  when (!wholeQuote && m == .closedInside && !loneQuote o typedEmpty m && (stripStringPrefix o).length == 3)
    .tripleCursorInside ++
  when (m == .closedInside && loneQuote o typedEmpty m) .loneQuoteInside ++
  -- the r'~' entry of the `~` special case always brings its own closing quote
  when (m == .closedInside && !loneQuote o typedEmpty m && tildeSpecial name sty.1 && !o.isEmpty) .tildeCursorInside

-- ---------------------------------------------------------------------------- the analyser clause
/-- what a CommandContext of CompletionContextParser.parse says about the text around the cursor -/
structure CmdCtx where
  openingQuote : Str
  prefix_ : Str
  suffix : Str
  closingQuote : Str
  afterClosingQuote : Bool

def CmdCtx.rawPrefix (c : CmdCtx) : Str :=
  c.openingQuote ++ c.prefix_ ++ (if c.afterClosingQuote then c.closingQuote else [])

def CmdCtx.rawSuffix (c : CmdCtx) : Str :=
  c.suffix ++ (if c.afterClosingQuote then [] else c.closingQuote)

/-- "its prefix and suffix reproduce the text around the cursor" -/
def reconstructs (text : Str) (cursor : Nat) (c : CmdCtx) : Bool :=
  endsWith (text.take cursor) c.rawPrefix && startsWith (text.drop cursor) c.rawSuffix

/-- the same for a PythonContext (`multiline_code`, `cursor_index`) -/
def reconstructsPy (text : Str) (cursor : Nat) (code : Str) (idx : Nat) : Bool :=
  idx ≤ code.length && endsWith (text.take cursor) (code.take idx) && startsWith (text.drop cursor) (code.drop idx)

/-- splicing a completion into the line: the `lprefix` characters before the cursor are replaced -/
def splice (text : Str) (cursor lprefix : Nat) (comp : Str) : Str :=
  text.take (cursor - lprefix) ++ comp ++ text.drop cursor

end PathQuote
