/-
C03 — control skeleton of the execer's recovery loop (xonsh/execer.py `Execer._parse_ctx_free` and its
inner `_try_parse`).  Hand-written, import-free: the mini-language, its semantics over an arbitrary
oracle (every non-control expression is opaque: conditions, whether a call raises, which handler
matches, the value `len(input.splitlines()) * 2 + 10` are all chosen by the oracle), the decidable
shape predicate, and the syntactic call counts.  The skeleton itself is REGENERATED from the source
(translator/c03.py → Gen/TryParse.lean); Lemmas/TrySkel.lean proves shape ⇒ bound once, generically.
-/
namespace TrySkel

/-- loop-free statements (a nested loop is a translator error) -/
inductive Stmt where
  | skip
  | seq (a b : Stmt)
  | assign (v : String)            -- `v = …`, `v += …`, `del v[…]`: opaque right-hand side
  | call (f : String)              -- an opaque call evaluated here (may raise)
  | recCall                        -- `self._parse_ctx_free(…, logical_input=True)`
  | guardCtr (v : String)          -- `if v <= 0: raise …`
  | decCtr (v : String)            -- `v -= 1`
  | ite (notLogical : Bool) (t e : Stmt)   -- notLogical: the test is a conjunction with `not logical_input`
  | tryExc (body handlers : Stmt)  -- handlers: a chain of `ite false h (… raise)` (no match ⇒ re-raise)
  | cont
  | raise
  | ret
  deriving Repr, DecidableEq

/-- a function of the shape  `pre; while <opaque>: body; post` -/
structure Fn where
  ctr : String
  pre : Stmt
  body : Stmt
  post : Stmt
  deriving Repr, DecidableEq

inductive Out where
  | normal | cont | raise | ret
  | fuel      -- the interpreter's fuel ran out (the loop did not stop in time)
  | deeper    -- a third recursion level was entered
  deriving Repr, DecidableEq

structure St where
  ctr : Nat
  parses : Nat
  orc : Nat
  deriving Repr

structure Env where
  o : Nat → Bool                           -- opaque booleans, consumed in order
  ci : Nat → Nat                           -- opaque naturals (the value assigned to the counter)
  logical : Bool                           -- this frame's `logical_input`
  recf : Nat → Nat → Out × Nat × Nat       -- the recursive call: (parses, orc) ↦ (outcome, parses', orc')
  ctrName : String
  parseName : String

def St.tick (s : St) : St := { s with orc := s.orc + 1 }

def exec (E : Env) : Stmt → St → Out × St
  | .skip, s => (.normal, s)
  | .seq a b, s =>
    match exec E a s with
    | (.normal, s') => exec E b s'
    | r => r
  | .assign v, s =>
    if v == E.ctrName then (.normal, { s.tick with ctr := E.ci s.orc }) else (.normal, s)
  | .call f, s =>
    let s' := { s.tick with parses := s.parses + (if f == E.parseName then 1 else 0) }
    if E.o s.orc then (.normal, s') else (.raise, s')
  | .recCall, s =>
    let r := E.recf s.parses s.orc
    match r.1 with
    | .fuel => (.fuel, { s with parses := r.2.1, orc := r.2.2 })
    | .deeper => (.deeper, { s with parses := r.2.1, orc := r.2.2 })
    | .raise => (.raise, { s with parses := r.2.1, orc := r.2.2 })
    | _ => (.normal, { s with parses := r.2.1, orc := r.2.2 })
  | .guardCtr v, s =>
    if v == E.ctrName then (if s.ctr = 0 then (.raise, s) else (.normal, s))
    else (if E.o s.orc then (.normal, s.tick) else (.raise, s.tick))
  | .decCtr v, s =>
    if v == E.ctrName then (.normal, { s with ctr := s.ctr - 1 }) else (.normal, s)
  | .ite nl t e, s =>
    if nl && E.logical then exec E e s.tick
    else if E.o s.orc then exec E t s.tick else exec E e s.tick
  | .tryExc b h, s =>
    match exec E b s with
    | (.raise, s') => exec E h s'
    | r => r
  | .cont, s => (.cont, s)
  | .raise, s => (.raise, s)
  | .ret, s => (.ret, s)

/-- `while <opaque>: body` with interpreter fuel -/
def loop (E : Env) (body : Stmt) : Nat → St → Out × St
  | 0, s => (.fuel, s)
  | fuel + 1, s =>
    if E.o s.orc then
      match exec E body s.tick with
      | (.normal, s') => loop E body fuel s'
      | (.cont, s') => loop E body fuel s'
      | r => r
    else (.normal, s.tick)

def runFn (E : Env) (f : Fn) (fuel parses orc : Nat) : Out × Nat × Nat :=
  match exec E f.pre ⟨0, parses, orc⟩ with
  | (.normal, s1) =>
    match loop E f.body fuel s1 with
    | (.normal, s2) =>
      match exec E f.post s2 with
      | (.fuel, s3) => (.fuel, s3.parses, s3.orc)
      | (.deeper, s3) => (.deeper, s3.parses, s3.orc)
      | (.raise, s3) => (.raise, s3.parses, s3.orc)
      | (_, s3) => (.normal, s3.parses, s3.orc)
    | (o, s2) => (o, s2.parses, s2.orc)
  | (o, s1) => (o, s1.parses, s1.orc)

/-- `_parse_ctx_free`:  `try: return _try_parse(greedy=False)  except SyntaxError: return _try_parse(greedy=True)` -/
def ctxFree (E : Env) (f : Fn) (fuel parses orc : Nat) : Out × Nat × Nat :=
  match runFn E f fuel parses orc with
  | (.raise, p, k) => if E.o k then runFn E f fuel p (k + 1) else (.raise, p, k + 1)
  | r => r

/-- the frame entered with `logical_input=True`; a further recursion would be a third level -/
def envInner (o : Nat → Bool) (ci : Nat → Nat) (f : Fn) (pn : String) : Env :=
  { o, ci, logical := true, recf := fun p k => (.deeper, p, k), ctrName := f.ctr, parseName := pn }

def parseInner (o : Nat → Bool) (ci : Nat → Nat) (f : Fn) (pn : String) (fuel : Nat) (p k : Nat) : Out × Nat × Nat :=
  ctxFree (envInner o ci f pn) f fuel p k

def envOuter (o : Nat → Bool) (ci : Nat → Nat) (f : Fn) (pn : String) (fuel : Nat) : Env :=
  { o, ci, logical := false, recf := parseInner o ci f pn fuel, ctrName := f.ctr, parseName := pn }

/-- `Execer._parse_ctx_free(input)` as called by `Execer.parse` (logical_input=False) -/
def parseOuter (o : Nat → Bool) (ci : Nat → Nat) (f : Fn) (pn : String) (fuel : Nat) : Out × Nat × Nat :=
  ctxFree (envOuter o ci f pn fuel) f fuel 0 0

-- syntactic measures -------------------------------------------------------------------------

/-- no statement writes the counter `c` -/
def noCtrWrite (c : String) : Stmt → Bool
  | .seq a b => noCtrWrite c a && noCtrWrite c b
  | .assign v => v != c
  | .guardCtr _ => true
  | .decCtr v => v != c
  | .ite _ t e => noCtrWrite c t && noCtrWrite c e
  | .tryExc b h => noCtrWrite c b && noCtrWrite c h
  | _ => true

/-- every recursive call sits in the then-branch of a test that includes `not logical_input` -/
def recGuarded : Bool → Stmt → Bool
  | g, .seq a b => recGuarded g a && recGuarded g b
  | g, .recCall => g
  | g, .ite nl t e => recGuarded (g || nl) t && recGuarded g e
  | g, .tryExc b h => recGuarded g b && recGuarded g h
  | _, _ => true

def noRec : Stmt → Bool
  | .seq a b => noRec a && noRec b
  | .recCall => false
  | .ite _ t e => noRec t && noRec e
  | .tryExc b h => noRec b && noRec h
  | _ => true

/-- most calls of `f` on any path -/
def maxCalls (f : String) : Stmt → Nat
  | .seq a b => maxCalls f a + maxCalls f b
  | .call g => if g == f then 1 else 0
  | .ite _ t e => max (maxCalls f t) (maxCalls f e)
  | .tryExc b h => maxCalls f b + maxCalls f h
  | _ => 0

/-- most recursive calls on any path -/
def maxRec : Stmt → Nat
  | .seq a b => maxRec a + maxRec b
  | .recCall => 1
  | .ite _ t e => max (maxRec t) (maxRec e)
  | .tryExc b h => maxRec b + maxRec h
  | _ => 0

/-- what `shapeOk` exposes of the body -/
def bodyRest (f : Fn) : Stmt :=
  match f.body with
  | .seq (.guardCtr _) (.seq (.decCtr _) rest) => rest
  | _ => .skip

/-- THE SHAPE: the loop body starts with `if ctr <= 0: raise; ctr -= 1`, nothing after that writes the
counter, recursion is guarded by `not logical_input`, and neither the prologue nor the epilogue parse or recurse -/
def shapeOk (f : Fn) (pn : String) : Bool :=
  f.body == .seq (.guardCtr f.ctr) (.seq (.decCtr f.ctr) (bodyRest f))
    && noCtrWrite f.ctr (bodyRest f) && recGuarded false (bodyRest f)
    && noRec f.pre && noRec f.post && maxCalls pn f.pre == 0 && maxCalls pn f.post == 0

/-- the expected text of `_parse_ctx_free`'s own body after the prologue -/
def outerExpected : Stmt :=
  .tryExc (.seq (.call "_try_parse") .ret) (.ite false (.seq (.call "_try_parse") .ret) .raise)

end TrySkel
