import XonshVerif.Model.Py
/-
C20 — the job table of xonsh/procs/jobs.py: a dict `num ↦ job` and an MRU deque `tasks`,
one pair per owner (the main thread, each alias thread).  Hand-written, executable, import-free.
Every definition follows the Python function named in its doc-string statement by statement;
`proc.poll()` is the scripted field `alive`, signals/`pipeline.resume` are outside the model.
-/
namespace Jobs
open Py (filter_length_lt)

structure Job where
  bg : Bool
  running : Bool   -- status == "running"  (the other status the code uses is "stopped")
  alive : Bool     -- `obj is not None and obj.poll() is None`
  deriving DecidableEq, Repr, Inhabited

structure Table where
  jobs : List (Nat × Job)   -- dict, insertion ordered
  tasks : List Nat          -- deque, index 0 = most recently used
  deriving DecidableEq, Repr, Inhabited

def Table.keys (t : Table) : List Nat := t.jobs.map (·.1)
def Table.get? (t : Table) (n : Nat) : Option Job := t.jobs.lookup n

def empty : Table := ⟨[], []⟩

/-- `_clear_dead_jobs` -/
def isDead (t : Table) (tid : Nat) : Bool :=
  match t.get? tid with
  | none => true            -- KeyError branch
  | some j => !j.alive
def clearDead (t : Table) : Table :=
  { tasks := t.tasks.filter (fun tid => !isDead t tid)
    jobs := t.jobs.filter (fun p => !(t.tasks.contains p.1 && isDead t p.1)) }

/-- `get_next_job_number` (after its `_clear_dead_jobs()`): `i = start; while i in keys: i += 1` -/
def nextFrom (keys : List Nat) (i : Nat) : Nat :=
  if h : i ∈ keys then nextFrom keys (i + 1) else i
termination_by (keys.filter (fun k => decide (i ≤ k))).length
decreasing_by
  apply filter_length_lt
  · intro x hx; simp at hx ⊢; omega
  · exact ⟨i, h, by simp, by simp⟩

def nextNum (t : Table) : Nat := nextFrom t.keys 1

/-- `add_job` (without the printing) -/
def addJob (t : Table) (bg running : Bool) : Table × Nat :=
  let t := clearDead t
  let num := nextNum t
  ({ tasks := num :: t.tasks, jobs := t.jobs ++ [(num, ⟨bg, running, true⟩)] }, num)

/-- the process of job `n` exits (external event; the table itself is not touched) -/
def die (t : Table) (n : Nat) : Table :=
  { t with jobs := t.jobs.map (fun p => if p.1 = n then (p.1, { p.2 with alive := false }) else p) }

/-- the process of job `n` is stopped by a signal: `update_job_attr(pid, "status", "stopped")` -/
def stop (t : Table) (n : Nat) : Table :=
  { t with jobs := t.jobs.map (fun p => if p.1 = n then (p.1, { p.2 with running := false }) else p) }

/-- job-control argument as typed by the user -/
inductive Arg where
  | none            -- no argument
  | plus            -- "+"
  | minus           -- "-"
  | num (n : Int)   -- anything `int()` accepts
  | bad             -- anything `int()` rejects
  | many            -- two or more arguments
  deriving DecidableEq, Repr

inductive Out where
  | ok (tid : Nat)
  | noJobs          -- "There are currently no suspended jobs" / "There are no active jobs"
  | invalid         -- "Invalid job: …" / "'…' is not a valid job ID"
  | arity           -- "… expects 0 or 1 arguments"
  | none            -- returned None without selecting (get_next_task with nothing runnable)
  deriving DecidableEq, Repr

/-- the `tid` selection of `resume_job`, after the purge, on a non-empty deque -/
def select (t : Table) (a : Arg) : Except Out Nat :=
  match a with
  | .none => match t.tasks with
    | tid :: _ => .ok tid
    | [] => .error .noJobs
  | .plus => match t.tasks with
    | tid :: _ => if t.keys.contains tid then .ok tid else .error .invalid
    | [] => .error .invalid
  | .minus => match t.tasks with
    | _ :: tid :: _ => if t.keys.contains tid then .ok tid else .error .invalid
    | _ => .error .invalid                    -- IndexError
  | .num n => if n ≥ 0 ∧ t.keys.contains n.toNat then .ok n.toNat else .error .invalid
  | .bad => .error .invalid                   -- ValueError
  | .many => .error .arity

def setJob (jobs : List (Nat × Job)) (n : Nat) (f : Job → Job) : List (Nat × Job) :=
  jobs.map (fun p => if p.1 = n then (p.1, f p.2) else p)

def toFront (tasks : List Nat) (tid : Nat) : List Nat := tid :: tasks.erase tid

/-- `resume_job(args, wording)`; for `bg` the caller then sets `bg = True` on `tasks[0]` -/
def resume (t : Table) (a : Arg) (isBg : Bool) : Table × Out :=
  let t := clearDead t
  if t.tasks.isEmpty then (t, .noJobs) else
  match select t a with
  | .error e => (t, e)
  | .ok tid =>
    ({ tasks := toFront t.tasks tid
       jobs := setJob t.jobs tid (fun j => { j with bg := isBg, running := true }) }, .ok tid)

/-- `disown_fn(job_ids)` — ids are applied one at a time; the first invalid id stops the command -/
def disownLoop (t : Table) : List Int → Table × Out
  | [] => (t, .none)
  | i :: rest =>
    if i ≥ 0 ∧ t.keys.contains i.toNat then
      disownLoop { tasks := t.tasks.erase i.toNat, jobs := t.jobs.filter (fun p => p.1 ≠ i.toNat) } rest
    else (t, .invalid)

def disown (t : Table) (ids : List Int) : Table × Out :=
  match t.tasks with
  | [] => (t, .noJobs)
  | top :: _ => disownLoop t (if ids.isEmpty then [(top : Int)] else ids)

/-- `get_next_task` -/
def nextTask (t : Table) : Table × Out :=
  let t := clearDead t
  match t.tasks.find? (fun tid => match t.get? tid with
      | some j => !j.bg && j.running
      | none => false) with
  | none => (t, .none)
  | some tid => ({ t with tasks := toFront t.tasks tid }, .ok tid)

/-- `jobs` / `clean_jobs` (interactive): purge, then list `tasks` in order -/
def listJobs (t : Table) : Table := clearDead t

-- owners -------------------------------------------------------------------------------

/-- one table per owner: index 0 = main thread, i+1 = alias thread i -/
structure State where
  main : Table
  workers : List Table
  deriving Repr, Inhabited

inductive Op where
  | add (bg running : Bool)
  | die (n : Nat)
  | stop (n : Nat)
  | fg (a : Arg)
  | bg (a : Arg)
  | disown (ids : List Int)
  | jobs
  | nextTask
  | clean
  deriving Repr

def stepTable (t : Table) : Op → Table × Out
  | .add b r => let (t', n) := addJob t b r; (t', .ok n)
  | .die n => (die t n, .none)
  | .stop n => (stop t n, .none)
  | .fg a => resume t a false
  | .bg a => resume t a true
  | .disown ids => disown t ids
  | .jobs => (listJobs t, .none)
  | .nextTask => nextTask t
  | .clean => (listJobs t, .none)

/-- `jobs`, `bg` and `disown` are wrapped in `use_main_jobs()`: they act on the main table from any thread -/
def usesMain : Op → Bool
  | .bg _ | .disown _ | .jobs => true
  | _ => false

def step (s : State) (owner : Nat) (op : Op) : State × Out :=
  if owner = 0 ∨ usesMain op then
    let (t, o) := stepTable s.main op
    ({ s with main := t }, o)
  else
    match s.workers[owner - 1]? with
    | none => (s, .none)
    | some w =>
      let (t, o) := stepTable w op
      ({ s with workers := s.workers.set (owner - 1) t }, o)

def run (s : State) : List (Nat × Op) → State
  | [] => s
  | (o, op) :: rest => run (step s o op).1 rest

/-- THE INVARIANT: the MRU order is a duplicate-free list of exactly the registered job numbers -/
def TInv (t : Table) : Prop :=
  t.tasks.Nodup ∧ t.keys.Nodup ∧ (∀ n, n ∈ t.tasks ↔ n ∈ t.keys) ∧ (∀ n ∈ t.keys, 1 ≤ n)

end Jobs
