/-
C07 — where the stdout / stderr / stdin of every stage of a pipeline end up.

Hand-written, executable, import-free model of
  * xonsh/procs/specs.py: `_parse_redirects`, `_redirect_streams`, the single-assignment slots of
    `SubprocSpec` (stdin / stdout / stderr setters), `SubprocSpec.resolve_redirects`, the pipe wiring of
    `cmds_to_specs` (`_PIPE_ALL` / `_PIPE_ERR` sentinels, `skip_stdout`, leftover-sentinel error, the
    unthreadable-alias-in-a-pipeline error), `_update_last_spec`, `_last_spec_update_threading`,
    `_last_spec_update_captured`, `_make_last_spec_captured` (stream choice per capture kind and the
    two fix-ups at its end);
  * xonsh/procs/proxies.py: `ProcProxyThread._get_handles` + the stream choice at the top of
    `ProcProxyThread.run`, `ProcProxy._pick_buf` / `ProcProxy.wait`;
  * xonsh/procs/pipelines.py: which captured channels `CommandPipeline.iterraw` / `tee_stdout` /
    `stream_stderr` read and where they deliver them.
The decoding tables are a PARAMETER (`Tables`): Props/C07.lean and the driver instantiate them with
the tables translated from /repo (Gen/Redir.lean).

Seven behaviours of the PINNED SNAPSHOT of xonsh that contradict the documented routing are switchable (`Quirks`):
`Quirks.fixed` is the code since the seven repairs (ce03276 55d432e c8fac0d 58fc858 e44af9d 6c98380 0a66bfd),
`Quirks.current` the snapshot before them (all seven present).  The harness asks
the implementation which ones it still has (known-finding witnesses) and runs the model with those.
-/
namespace Redir

abbrev Str := List Char

/-- the decoding tables of xonsh/procs/specs.py -/
structure Tables where
  regex : List (Str × (Str × Str × Str))   -- language of _REDIR_REGEX with its groups (orig, mode, dest)
  modes : List (Str × Str)                 -- _MODES
  writeModes : List Str                    -- _WRITE_MODES
  redirAll : List Str
  redirErr : List Str
  redirOut : List Str
  e2o : List Str
  o2e : List Str
  a2p : List Str
  e2p : List Str

inductive Err where
  | noMatch          -- `_REDIR_REGEX.match(r)` is None (AttributeError on `.groups()`)
  | valueErr         -- `int("")` for a destination `&`
  | unrecognized     -- XonshError "Unrecognized redirection command"
  | unsupportedLoc   -- the target is a list of several words
  | openFailed       -- safe_open raised (missing input file, missing directory, no target)
  | multiStdin       -- XonshError "Multiple inputs for stdin"
  | multiStdout      -- XonshError "Multiple redirections for stdout"
  | multiStderr      -- XonshError "Multiple redirections for stderr"
  | needsPipe        -- XonshError "redirect 'a>p'/'e>p' requires a following pipe"
  | unthreadable     -- XonshError "Callable alias … is explicitly marked as unthreadable and is not supported in pipelines"
  | intNotReadable   -- AttributeError: 'int' object has no attribute 'readable' (pipelines.safe_readable)
  deriving DecidableEq, Repr

instance {α : Type} [DecidableEq α] : DecidableEq (Except Err α) := fun a b =>
  match a, b with
  | .ok x, .ok y => if h : x = y then isTrue (by rw [h]) else isFalse (fun h' => by cases h'; exact h rfl)
  | .error x, .error y => if h : x = y then isTrue (by rw [h]) else isFalse (fun h' => by cases h'; exact h rfl)
  | .ok _, .error _ => isFalse (fun h => by cases h)
  | .error _, .ok _ => isFalse (fun h => by cases h)

/-- what the decoder makes of an operator string (before any file is opened) -/
inductive Cls where
  | allPipe                 -- r ∈ _A2P_MAP
  | errPipe                 -- r ∈ _E2P_MAP
  | errToOut                -- r without `&` ∈ _E2O_MAP
  | outToErr                -- r without `&` ∈ _O2E_MAP
  | input                   -- mode "r"
  | outFile (mode : Str)    -- orig ∈ _REDIR_OUT, mode ∈ _WRITE_MODES
  | errFile (mode : Str)
  | allFile (mode : Str)
  deriving DecidableEq, Repr

def isWrite (T : Tables) : Option Str → Bool
  | some x => T.writeModes.contains x
  | none => false

/-- `_parse_redirects(r)` (always called with `loc=None`) -/
def stripFinalNewline (r : Str) : Str :=
  match r.reverse with
  | '\n' :: rest => rest.reverse
  | _ => r

/-- `_parse_redirects` after the regex matched with groups (orig, mode, dest) (always called with `loc=None`) -/
def parseGiven (T : Tables) (g : Str × Str × Str) : Except Err (Str × Option Str × Str) :=
  let (orig, mode, dest) := g
  let dest' : Except Err Str :=
    match dest with
    | '&' :: rest => if rest = [] then .error .valueErr else .ok []   -- `loc, dest = int(dest[1:]), ""`
    | _ => .ok dest
  match dest' with
  | .error e => .error e
  | .ok d =>
    let m := T.modes.lookup mode
    if m = some ['r'] ∧ (orig ≠ [] ∨ d ≠ []) then .error .unrecognized
    else if isWrite T m = true ∧ d ≠ [] then .error .unrecognized
    else .ok (orig, m, d)

/-- `_REDIR_REGEX.match(r)`: the groups, from the enumerated language (the pattern ends in `$`, which also matches just
before one final newline) -/
def regexMatch (T : Tables) (r : Str) : Option (Str × Str × Str) := T.regex.lookup (stripFinalNewline r)

def parseRedirects (T : Tables) (r : Str) : Except Err (Str × Option Str × Str) :=
  match regexMatch T r with
  | none => .error .noMatch
  | some g => parseGiven T g

/-- the classification part of `_redirect_streams`, given what the regex says about `r` -/
def classifyGiven (T : Tables) (g : Option (Str × Str × Str)) (r : Str) : Except Err Cls :=
  if T.a2p.contains r then .ok .allPipe
  else if T.e2p.contains r then .ok .errPipe
  else
    let noAmp := r.filter (· ≠ '&')
    if T.e2o.contains noAmp then .ok .errToOut
    else if T.o2e.contains noAmp then .ok .outToErr
    else
      match g with
      | none => .error .noMatch
      | some g =>
        match parseGiven T g with
        | .error e => .error e
        | .ok (orig, m, _) =>
          match m with
          | none => .error .unrecognized
          | some mode =>
            if mode = ['r'] then .ok .input
            else if T.writeModes.contains mode then
              if T.redirAll.contains orig then .ok (.allFile mode)
              else if T.redirOut.contains orig then .ok (.outFile mode)
              else if T.redirErr.contains orig then .ok (.errFile mode)
              else .error .unrecognized
            else .error .unrecognized

def classify (T : Tables) (r : Str) : Except Err Cls := classifyGiven T (regexMatch T r) r

/-- the second element of a redirect tuple -/
inductive Loc where
  | none            -- operator alone (`('e>o',)`)
  | one (t : Nat)   -- one word: target number t of the cell
  | many            -- a list of several words (glob, `@([...])`)
  deriving DecidableEq, Repr

/-- what the file system will say when the target is opened -/
inductive TState where
  | present | missing | unopenable
  deriving DecidableEq, Repr

/-- contents of a stdin / stdout / stderr slot of a SubprocSpec -/
inductive Slot where
  | file (t : Nat) (mode : Str)    -- the file object returned by safe_open
  | toStdout                       -- subprocess.STDOUT
  | fd2                            -- the integer 2 ("using 2 as a flag")
  | pipeAll | pipeErr              -- the sentinels _PIPE_ALL / _PIPE_ERR
  | pipeW (i : Nat) | pipeR (i : Nat)   -- write / read end of the pipe after stage i
  | capOutW | capErrW              -- writers of the capture channels made by _make_last_spec_captured
  | shellErr                       -- the shell's own stderr stream (only in the repaired `o>e` fix-up)
  deriving DecidableEq, Repr

def safeOpen (ts : Nat → TState) (loc : Loc) (mode : Str) : Except Err Slot :=
  match loc with
  | .one t =>
    match ts t with
    | .present => .ok (.file t mode)
    | .missing => if mode = ['r'] then .error .openFailed else .ok (.file t mode)
    | .unopenable => .error .openFailed
  | _ => .error .openFailed     -- open(None): TypeError → "unable to open file"

/-- `_redirect_streams(r, loc)`: (stdin, stdout, stderr) -/
def redirectStreams (T : Tables) (ts : Nat → TState) (r : Str) (loc : Loc) :
    Except Err (Option Slot × Option Slot × Option Slot) :=
  if loc = .many then .error .unsupportedLoc
  else
    match classify T r with
    | .error e => .error e
    | .ok .allPipe => .ok (none, some .pipeAll, some .toStdout)
    | .ok .errPipe => .ok (none, none, some .pipeErr)
    | .ok .errToOut => .ok (none, none, some .toStdout)
    | .ok .outToErr => .ok (none, some .fd2, none)
    | .ok .input => (safeOpen ts loc ['r']).map fun f => (some f, none, none)
    | .ok (.outFile m) => (safeOpen ts loc m).map fun f => (none, some f, none)
    | .ok (.errFile m) => (safeOpen ts loc m).map fun f => (none, none, some f)
    | .ok (.allFile m) => (safeOpen ts loc m).map fun f => (none, some f, some f)

/-- a SubprocSpec slot setter: the first non-None value wins, a second one is an error -/
def setSlot (e : Err) (cur new : Option Slot) : Except Err (Option Slot) :=
  match cur, new with
  | none, v => .ok v
  | some c, none => .ok (some c)
  | some _, some _ => .error e

inductive Kind where
  | proc (predThreadable : Bool)   -- external command; commands_cache.predict_threadable
  | alias (markThreadable : Bool)  -- callable alias; `__xonsh_threadable__`
  deriving DecidableEq, Repr

structure Stage where
  kind : Kind
  redirs : List (Str × Loc)
  deriving Repr

structure Cfg where
  thread : Bool      -- $THREAD_SUBPROCS
  always : Bool      -- $XONSH_CAPTURE_ALWAYS
  printErr : Bool    -- $XONSH_SUBPROC_CAPTURED_PRINT_STDERR
  deriving DecidableEq, Repr

/-- `captured` argument of run_subproc -/
inductive Cap where
  | uncaptured    -- $[ ]   (False)
  | hidden        -- ![ ] and bare commands ("hiddenobject")
  | stdout        -- $( )
  | object        -- !( )
  deriving DecidableEq, Repr

structure Spec where
  kind : Kind
  threadable : Bool          -- spec.threadable
  sin : Option Slot
  sout : Option Slot
  serr : Option Slot
  files : List (Nat × Str)   -- the targets safe_open opened for writing while the spec was built (stdout's, then stderr's)
  deriving DecidableEq, Repr

/-- `SubprocSpec.resolve_redirects`: every redirect is decoded and assigned, in order -/
def applyRedirs (T : Tables) (ts : Nat → TState) :
    List (Str × Loc) → (Option Slot × Option Slot × Option Slot) → Except Err (Option Slot × Option Slot × Option Slot)
  | [], s => .ok s
  | (r, loc) :: rest, (i, o, e) =>
    match redirectStreams T ts r loc with
    | .error x => .error x
    | .ok (ni, no, ne) =>
      match setSlot .multiStdin i ni with
      | .error x => .error x
      | .ok i' =>
        match setSlot .multiStdout o no with
        | .error x => .error x
        | .ok o' =>
          match setSlot .multiStderr e ne with
          | .error x => .error x
          | .ok e' => applyRedirs T ts rest (i', o', e')

def slotFile : Option Slot → List (Nat × Str)
  | some (.file t m) => [(t, m)]
  | _ => []

/-- `SubprocSpec.build`: redirects, then `_update_proc_alias_threadable` for callable aliases -/
def buildSpec (T : Tables) (ts : Nat → TState) (cfg : Cfg) (st : Stage) : Except Err Spec :=
  match applyRedirs T ts st.redirs (none, none, none) with
  | .error x => .error x
  | .ok (i, o, e) =>
    let thr := match st.kind with
      | .proc _ => true
      | .alias mark => cfg.thread && mark
    .ok { kind := st.kind, threadable := thr, sin := i, sout := o, serr := e, files := slotFile o ++ slotFile e }

def buildAll (T : Tables) (ts : Nat → TState) (cfg : Cfg) : List Stage → Except Err (List Spec)
  | [] => .ok []
  | st :: rest =>
    match buildSpec T ts cfg st with
    | .error x => .error x
    | .ok s =>
      match buildAll T ts cfg rest with
      | .error x => .error x
      | .ok ss => .ok (s :: ss)

/-- the upstream side of one `|` in cmds_to_specs -/
def wireUp (i : Nat) (up : Spec) : Except Err Spec :=
  let (up1, skip) :=
    if up.serr = some .pipeErr then ({ up with serr := some (.pipeW i) }, up.sout.isSome) else (up, false)
  let up2 := if up1.sout = some .pipeAll then { up1 with sout := none } else up1
  if skip then .ok up2
  else
    match setSlot .multiStdout up2.sout (some (.pipeW i)) with
    | .error x => .error x
    | .ok o => .ok { up2 with sout := o }

/-- the loop over the `|` separators: pipe i joins stage i (`up`, already holding its stdin) and stage i+1 -/
def wireFrom : Nat → Spec → List Spec → Except Err (List Spec)
  | _, up, [] => .ok [up]
  | i, up, dn :: rest =>
    match wireUp i up with
    | .error x => .error x
    | .ok up' =>
      match setSlot .multiStdin dn.sin (some (.pipeR i)) with
      | .error x => .error x
      | .ok di =>
        match wireFrom (i + 1) { dn with sin := di } rest with
        | .error x => .error x
        | .ok tail => .ok (up' :: tail)

def wire : List Spec → Except Err (List Spec)
  | [] => .ok []
  | s :: rest => wireFrom 0 s rest

def isAlias : Kind → Bool
  | .alias _ => true
  | .proc _ => false

/-- the behaviours of the pinned snapshot that contradict the documented routing (true = present) -/
structure Quirks where
  bothMinusOne : Bool        -- ProcProxyThread.run: `errwrite == c2pwrite` also holds when both are -1
  pickBufSmallInt : Bool     -- ProcProxy._pick_buf: an int handle < 3 (2, or subprocess.STDOUT = -2) means "the sys stream"
  flag2BecomesNone : Bool    -- _make_last_spec_captured: `last._stdout = last.stderr` even when stderr is None
  intNotReadable : Bool      -- pipelines.safe_readable(int) raises AttributeError
  unthreadedErrNotRead : Bool -- CommandPipeline.iterraw: the non-threadable path never reads captured_stderr
  fd2Literal : Bool          -- the flag 2 reaches Popen / _get_handles as "file descriptor 2", not "this command's stderr"
  unthreadedStdinText : Bool -- ProcProxy.wait wraps the text file of `< file` in a TextIOWrapper
  deriving DecidableEq, Repr

def Quirks.current : Quirks := ⟨true, true, true, true, true, true, true⟩
def Quirks.fixed : Quirks := ⟨false, false, false, false, false, false, false⟩

/-- `_update_last_spec` (+ `_last_spec_update_threading`, `_last_spec_update_captured`,
`_make_last_spec_captured`) -/
def updateLast (q : Quirks) (cfg : Cfg) (cap : Cap) (s : Spec) : Spec :=
  if cap = .uncaptured then s
  else
    -- _last_spec_update_threading (callable aliases keep what _update_proc_alias_threadable decided)
    let s1 : Spec :=
      match s.kind with
      | .alias _ => s
      | .proc pred =>
        let thr := cfg.thread && (cap != .hidden || cfg.always) && pred
        { s with threadable := thr }
    -- _last_spec_update_captured
    let captured := !(cap = .hidden && !s1.threadable) && !(isAlias s1.kind && !s1.threadable && cap = .hidden)
    if !captured then s1
    else
      -- _make_last_spec_captured: stdout
      let s2 : Spec := if s1.sout.isSome then s1 else { s1 with sout := some .capOutW }
      -- stderr
      let s3 : Spec :=
        if s2.serr.isSome then s2
        else if cap = .stdout then s2
        else { s2 with serr := some .capErrW }
      -- "redirect stdout to stderr, if we should"
      let s4 : Spec :=
        if s3.sout = some .fd2 then
          -- snapshot: `last._stdout = last.stderr`, also when stderr is None (captured == "stdout");
          -- repaired: `last.stderr if last.stderr is not None else sys.stderr`
          { s3 with sout := if q.flag2BecomesNone then s3.serr else (match s3.serr with | some x => some x | none => some .shellErr) }
        else s3
      -- "redirect stderr to stdout, if we should"
      if isAlias s4.kind && s4.serr = some .toStdout then { s4 with serr := s4.sout } else s4

def updateLastOf (q : Quirks) (cfg : Cfg) (cap : Cap) : List Spec → List Spec
  | [] => []
  | [s] => [updateLast q cfg cap s]
  | s :: rest => s :: updateLastOf q cfg cap rest

/-- `cmds_to_specs` for `stage₀ | stage₁ | …` -/
def cmdsToSpecs (T : Tables) (ts : Nat → TState) (q : Quirks) (cfg : Cfg) (cap : Cap) (stages : List Stage) :
    Except Err (List Spec) :=
  match buildAll T ts cfg stages with
  | .error x => .error x
  | .ok specs =>
    match wire specs with
    | .error x => .error x
    | .ok wired =>
      if wired.any (fun s => s.sout = some .pipeAll || s.serr = some .pipeErr) then .error .needsPipe
      else if wired.length > 1 && wired.any (fun s => isAlias s.kind && !s.threadable) then .error .unthreadable
      else .ok (updateLastOf q cfg cap wired)

/-! ## where the bytes go -/

/-- an observable place -/
inductive Place where
  | file (t : Nat) (mode : Str)   -- target file t, opened with `mode`
  | stdinOf (j : Nat)             -- what stage j reads
  | capOut                        -- the `$()` string / `.out` of `!()`
  | capErr                        -- `.err` of `!()`
  | termOut | termErr             -- xonsh's own file descriptors 1 and 2
  deriving DecidableEq, Repr

/-- where a stage reads from -/
inductive Src where
  | inherit           -- the shell's stdin (a process), or no stdin at all (a callable alias gets None)
  | file (t : Nat)
  | pipe              -- the previous stage
  | broken            -- a stream object on which read() raises
  deriving DecidableEq, Repr

/-- what CommandPipeline does with the two capture channels of the last stage -/
def capOutPlaces (cap : Cap) : List Place :=
  match cap with
  | .stdout | .object => [.capOut]
  | _ => [.termOut]                    -- tee_stdout streams the lines to sys.stdout

def capErrPlaces (q : Quirks) (cfg : Cfg) (cap : Cap) (threadable : Bool) : List Place :=
  if !threadable && q.unthreadedErrNotRead then []      -- iterraw's early-return path: never read
  else
    match cap with
    | .object => .capErr :: (if cfg.printErr then [.termErr] else [])
    | _ => [.termErr]                  -- stream_stderr writes to sys.stderr

/-- a slot that holds a real handle, resolved to the places its bytes reach -/
def handlePlaces (q : Quirks) (cfg : Cfg) (cap : Cap) (threadable : Bool) : Slot → Option (List Place)
  | .file t m => some [.file t m]
  | .pipeW i => some [.stdinOf (i + 1)]
  | .capOutW => some (capOutPlaces cap)
  | .capErrW => some (capErrPlaces q cfg cap threadable)
  | .shellErr => some [.termErr]
  | _ => none

structure StageOut where
  src : Src
  out : List Place
  err : List Place
  files : List (Nat × Str)    -- the targets this stage opened for writing, with their open mode (`a> f`: f twice)
  deriving DecidableEq, Repr


def srcOf (q : Quirks) (s : Spec) : Src :=
  match s.sin with
  | some (.file t _) => if isAlias s.kind && !s.threadable && q.unthreadedStdinText then .broken else .file t
  | some (.pipeR _) => .pipe
  | _ => .inherit

/-- `SubprocSpec.run`: in the snapshot the flag 2 of `o>e` is handed on as it is; repaired, it is replaced by the command's own
stderr handle when there is one (a file or a pipe end) -/
def resolveFd2 (q : Quirks) (s : Spec) : Spec :=
  if !q.fd2Literal && s.sout = some .fd2 then
    match s.serr with
    | none => s
    | some .toStdout => s
    | some x => { s with sout := some x }
  else s

/-- the three ways a stage is executed: Popen / PopenThread, ProcProxyThread, ProcProxy -/
def stageOut (q : Quirks) (cfg : Cfg) (cap : Cap) (s0 : Spec) : StageOut :=
  let s := resolveFd2 q s0
  let hp := handlePlaces q cfg cap s.threadable
  let src := srcOf q s
  let (o, e) : List Place × List Place :=
    match s.kind, s.threadable with
    | .proc _, _ =>
      -- subprocess.Popen(stdin, stdout, stderr): None inherits, STDOUT follows stdout, 2 is a descriptor
      let errDirect : List Place := match s.serr with
        | none => [.termErr]
        | some sl => (hp sl).getD [.termErr]
      let o : List Place := match s.sout with
        | none => [.termOut]
        | some .fd2 => if q.fd2Literal then [.termErr] else errDirect
        | some sl => (hp sl).getD [.termOut]
      let e : List Place := match s.serr with
        | some .toStdout => o
        | _ => errDirect
      (o, e)
    | .alias _, true =>
      -- ProcProxyThread._get_handles + run: c2pwrite / errwrite, -1 = "use sys.stdout / sys.stderr"
      let errDirect : List Place := match s.serr with
        | none => [.termErr]
        | some sl => (hp sl).getD [.termErr]
      let o : List Place := match s.sout with
        | none => [.termOut]
        | some .fd2 => if q.fd2Literal then [.termErr] else errDirect
        | some sl => (hp sl).getD [.termOut]
      let e : List Place := match s.serr with
        | some .toStdout => o                                   -- errwrite = c2pwrite
        | none => if s.sout.isNone && q.bothMinusOne then o else errDirect   -- -1 == -1
        | _ => errDirect
      (o, e)
    | .alias _, false =>
      -- ProcProxy.wait: _pick_buf(handle, sys stream)
      let errDirect : List Place := match s.serr with
        | none => [.termErr]
        | some sl => (hp sl).getD [.termErr]
      let o : List Place := match s.sout with
        | none => [.termOut]
        | some .fd2 => if q.pickBufSmallInt then [.termOut] else errDirect    -- repaired: "this alias's stderr buffer"
        | some sl => (hp sl).getD [.termOut]
      let e : List Place := match s.serr with
        | some .toStdout => if q.pickBufSmallInt then [.termErr] else o
        | _ => errDirect
      (o, e)
  -- a stage of the harness reads its stdin to the end before it writes
  if src = .broken then ⟨src, [], [], s.files⟩ else ⟨src, o, e, s.files⟩

/-- does CommandPipeline crash on an integer handle?  (a) ProcProxy whose stdout slot still holds the
flag 2: before the alias runs; (b) ProcProxyThread, uncaptured, stderr = subprocess.STDOUT: after it ran -/
def crashBefore (q : Quirks) (last0 : Spec) : Bool :=
  let last := resolveFd2 q last0
  isAlias last.kind && !last.threadable && last.sout = some .fd2 && q.intNotReadable

def crashAfter (q : Quirks) (cap : Cap) (last : Spec) : Bool :=
  isAlias last.kind && last.threadable && cap = .uncaptured && last.serr = some .toStdout && q.intNotReadable

structure Outcome where
  err : Option Err            -- raised before anything ran
  raisedAfter : Bool          -- an exception was raised although the stages ran
  stages : List StageOut
  deriving DecidableEq, Repr

def route (T : Tables) (ts : Nat → TState) (q : Quirks) (cfg : Cfg) (cap : Cap) (stages : List Stage) : Outcome :=
  match cmdsToSpecs T ts q cfg cap stages with
  | .error x => ⟨some x, false, []⟩
  | .ok specs =>
    match specs.getLast? with
    | none => ⟨none, false, []⟩
    | some last =>
      if crashBefore q last then ⟨some .intNotReadable, false, []⟩
      else
        let outs := specs.map (stageOut q cfg cap)
        if crashAfter q cap last then
          -- inside a pipeline the exception leaves the pipe into the last stage open in the shell (the alias may never
          -- see EOF) and the earlier stages are torn down at an unpredictable moment: nothing is claimed about the stages
          ⟨none, true, if specs.length > 1 then [] else outs⟩
        else ⟨none, false, outs⟩

/-! ## the documented routing (docs/tutorial.rst "Input/Output Redirection", the comments of
tokenize._redir_map) — written without looking at the tables above -/

/-- what a redirect operator means -/
inductive Op where
  | outFile (append : Bool)    -- `>` `o>` `out>` `1>`   /  `>>` …
  | errFile (append : Bool)    -- `e>` `err>` `2>`
  | allFile (append : Bool)    -- `a>` `all>` `&>`
  | errToOut                   -- `e>o` `err>out` `2>&1` …
  | outToErr                   -- `o>e` `out>err` `1>&2` …
  | allToPipe                  -- `a>p` `all>p`
  | errToPipe                  -- `e>p` `err>p` `2>p`
  | input                      -- `<`
  deriving DecidableEq, Repr

inductive StreamName where
  | out | err | all
  deriving DecidableEq, Repr

/-- the documented names of the streams on the LEFT of an operator -/
def srcName (s : Str) : Option StreamName :=
  if s = [] ∨ s = ['o'] ∨ s = "out".toList ∨ s = ['1'] then some .out
  else if s = ['e'] ∨ s = "err".toList ∨ s = ['2'] then some .err
  else if s = ['a'] ∨ s = "all".toList ∨ s = ['&'] then some .all
  else none

/-- the documented names of a stream on the RIGHT of `>` (POSIX `&1` / `&2` included) -/
def dstName (s : Str) : Option StreamName :=
  if s = ['o'] ∨ s = "out".toList ∨ s = ['1'] ∨ s = "&1".toList then some .out
  else if s = ['e'] ∨ s = "err".toList ∨ s = ['2'] ∨ s = "&2".toList then some .err
  else none

/-- split an operator at its first `>` or `<` -/
def splitOp : Str → Str × Str
  | [] => ([], [])
  | c :: rest => if c = '>' ∨ c = '<' then ([], c :: rest) else let (a, b) := splitOp rest; (c :: a, b)

/-- the documented meaning of a spelling; `none` = not a documented operator -/
def specDecode (r : Str) : Option Op :=
  let (l, rest) := splitOp r
  match rest with
  | ['<'] => if l = [] then some .input else none
  | ['>'] => (srcName l).map fun | .out => .outFile false | .err => .errFile false | .all => .allFile false
  | ['>', '>'] => (srcName l).map fun | .out => .outFile true | .err => .errFile true | .all => .allFile true
  | '>' :: d =>
    if d = ['p'] then
      (match srcName l with
       | some .all => if l = ['&'] then none else some .allToPipe    -- `&>p` is not an operator
       | some .err => some .errToPipe
       | _ => none)
    else
      match srcName l, dstName d with
      | some .err, some .out => if l = [] then none else some .errToOut
      | some .out, some .err => if l = [] then none else some .outToErr
      | _, _ => none
  | _ => none

/-- what the decoder should make of a documented operator -/
def clsOf : Op → Cls
  | .outFile a => .outFile (if a then ['a'] else ['w'])
  | .errFile a => .errFile (if a then ['a'] else ['w'])
  | .allFile a => .allFile (if a then ['a'] else ['w'])
  | .errToOut => .errToOut
  | .outToErr => .outToErr
  | .allToPipe => .allPipe
  | .errToPipe => .errPipe
  | .input => .input

/-- who claims a stream of a stage -/
inductive Claim where
  | file (t : Nat) (append : Bool)
  | other        -- merged into the other stream (`e>o` claims stderr, `o>e` claims stdout)
  | pipe         -- into the following pipe (`a>p` claims stdout, `e>p` claims stderr)
  deriving DecidableEq, Repr

/-- a redirect that is acceptable on its own: documented operator, exactly the target it needs, and the
target can be opened -/
def wellFormed (ts : Nat → TState) (r : Str) (loc : Loc) : Option (Op × Option Nat) :=
  match specDecode r, loc with
  | some .input, .one t => if ts t = .present then some (.input, some t) else none
  | some (.outFile a), .one t => if ts t = .unopenable then none else some (.outFile a, some t)
  | some (.errFile a), .one t => if ts t = .unopenable then none else some (.errFile a, some t)
  | some (.allFile a), .one t => if ts t = .unopenable then none else some (.allFile a, some t)
  | some .errToOut, .none => some (.errToOut, none)
  | some .outToErr, .none => some (.outToErr, none)
  | some .allToPipe, .none => some (.allToPipe, none)
  | some .errToPipe, .none => some (.errToPipe, none)
  -- a merge / pipe operator followed by a word never reaches the decoder with a target (the word is an argument)
  | _, _ => none

def claimOut : Op × Option Nat → Option Claim
  | (.outFile a, some t) => some (.file t a)
  | (.allFile a, some t) => some (.file t a)
  | (.outToErr, _) => some .other
  | (.allToPipe, _) => some .pipe
  | _ => none

def claimErr : Op × Option Nat → Option Claim
  | (.errFile a, some t) => some (.file t a)
  | (.allFile a, some t) => some (.file t a)
  | (.errToOut, _) => some .other
  | (.allToPipe, _) => some .other      -- `a>p`: stdout into the pipe, stderr merged into stdout
  | (.errToPipe, _) => some .pipe
  | _ => none

def claimIn : Op × Option Nat → Option Nat
  | (.input, some t) => some t
  | _ => none

def modeOf (append : Bool) : Str := if append then ['a'] else ['w']

/-- is this stage one that xonsh documents as unusable inside a pipeline? -/
def unthreadedAlias (cfg : Cfg) : Kind → Bool
  | .alias mark => !(cfg.thread && mark)
  | .proc _ => false

inductive SpecOutcome where
  | error                          -- an error must be reported and nothing delivered
  | unspecified                    -- `o>e` together with `e>o`: the documentation does not say
  | ok (stages : List StageOut)
  deriving DecidableEq, Repr

/-- the documented routing of one stage whose streams are claimed by `outs` / `errs` / `ins` (at most one claim each).
`first` / `last`: is it the first / the last stage of the pipeline; `idx` its position -/
def specCoreB (cfg : Cfg) (cap : Cap) (first last : Bool) (idx : Nat) (kind : Kind)
    (outs errs : List Claim) (ins : List Nat) : SpecOutcome :=
  let multi := !(first && last)                                                          -- more than one stage
  if multi = true ∧ unthreadedAlias cfg kind = true then .error                          -- documented limitation
  else if first = false ∧ ins ≠ [] then .error                                           -- `<` against the incoming pipe
  else if last = true ∧ (outs = [.pipe] ∨ errs = [.pipe]) then .error                    -- `a>p` / `e>p` need a following `|`
  else if last = false ∧ errs ≠ [.pipe] ∧ outs ≠ [] ∧ outs ≠ [.pipe] then .error         -- `> file` / `o>e` against the outgoing pipe
  else if outs = [.other] ∧ errs = [.other] then .unspecified
  else
    let dfltOut : List Place :=
      if last = false then [.stdinOf (idx + 1)]
      else match cap with
        | .stdout | .object => [.capOut]
        | _ => [.termOut]
    let dfltErr : List Place :=
      if last = true ∧ cap = .object then .capErr :: (if cfg.printErr then [.termErr] else []) else [.termErr]
    let errDirect : List Place := match errs with
      | [.file t a] => [.file t (modeOf a)]
      | [.pipe] => [.stdinOf (idx + 1)]
      | _ => dfltErr
    let o : List Place := match outs with
      | [.file t a] => [.file t (modeOf a)]
      | [.pipe] => [.stdinOf (idx + 1)]
      | [.other] => errDirect
      | _ => dfltOut
    let e : List Place := match errs with
      | [.other] => o
      | _ => errDirect
    let src : Src := match ins with
      | [t] => .file t
      | _ => if first = false then .pipe else .inherit
    let fo : List (Nat × Str) := match outs with
      | [.file t a] => [(t, modeOf a)]
      | _ => []
    let fe : List (Nat × Str) := match errs with
      | [.file t a] => [(t, modeOf a)]
      | _ => []
    .ok [⟨src, o, e, fo ++ fe⟩]

/-- … for the stage at position `i` of `n` -/
def specCore (cfg : Cfg) (cap : Cap) (n i : Nat) (kind : Kind) (outs errs : List Claim) (ins : List Nat) : SpecOutcome :=
  specCoreB cfg cap (i == 0) (i + 1 == n) i kind outs errs ins

/-- the documented routing of ONE stage -/
def specStage (ts : Nat → TState) (cfg : Cfg) (cap : Cap) (n i : Nat) (st : Stage) : SpecOutcome :=
  let ws := st.redirs.map fun (r, loc) => wellFormed ts r loc
  if ws.any Option.isNone then .error                                                -- an undocumented / ill-formed redirect
  else
    let ops := ws.filterMap id
    let outs := ops.filterMap claimOut
    let errs := ops.filterMap claimErr
    let ins := ops.filterMap claimIn
    if outs.length > 1 ∨ errs.length > 1 ∨ ins.length > 1 then .error               -- two redirects for one stream
    else specCore cfg cap n i st.kind outs errs ins

def specFrom (ts : Nat → TState) (cfg : Cfg) (cap : Cap) (n : Nat) : Nat → List Stage → SpecOutcome
  | _, [] => .ok []
  | i, st :: rest =>
    match specStage ts cfg cap n i st, specFrom ts cfg cap n (i + 1) rest with
    | .error, _ => .error
    | _, .error => .error
    | .unspecified, _ => .unspecified
    | _, .unspecified => .unspecified
    | .ok a, .ok b => .ok (a ++ b)

/-- the documented routing of a pipeline -/
def specRoute (ts : Nat → TState) (cfg : Cfg) (cap : Cap) (stages : List Stage) : SpecOutcome :=
  specFrom ts cfg cap stages.length 0 stages

/-- does the model's outcome satisfy the documented routing? -/
def agrees (m : Outcome) : SpecOutcome → Bool
  | .error => m.err.isSome && m.stages = []
  | .unspecified => true
  | .ok st => m.err.isNone && !m.raisedAfter && m.stages = st

end Redir
