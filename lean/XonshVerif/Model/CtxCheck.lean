/-
C01 — two small pure parts of xonsh's parser front end, hand-written, executable, import-free.

(1) `CtxCheck`: xonsh/parsers/context_check.py `_not_assignable` / `check_contexts` (which assignment, augmented-assignment and
    `del` targets xonsh accepts) against CPython's own target rule.  The isinstance chain of `_not_assignable` is NOT written
    here: it is a parameter (`Cfg.rows`, read from the source by translator/c01.py on every run), so the theorems in
    Props/C01.lean are about the table the code has now.
(2) `TokMap`: how one operator spelling becomes one PLY token: the tokenizer's operator pattern (ordered alternation, as the
    backtracking regex engine tries it) followed by the lexer's `special_handlers` / `token_map` lookup; and `handle_name`.

Strings are lists of code points.
-/
namespace CtxCheck

abbrev Str := List Nat

/-- an expression standing where a target is expected.  `leaf tags` is any expression that is neither a Tuple, a List nor a
Starred; `tags` are the class tags that describe it, as the isinstance chain sees it: its ast class name and, where xonsh looks
closer, the refined tag too (`["Constant", "Constant:num"]` for a Constant carrying xonsh's `num` marker, `["Name", "Name:keyword"]`
for a Name whose id is a hard keyword; a plain Name is `["Name"]`). -/
inductive Tgt where
  | leaf (tags : List Str)
  | starred (t : Tgt)
  | tuple (es : List Tgt)
  | list (es : List Tgt)
  deriving Repr, Inhabited

/-- what translator/c01.py reads from `_not_assignable` -/
structure Cfg where
  rows : List (Str × Str)        -- the isinstance chain after the sequence branches: class tag ↦ message, in source order
  augSeqMsg : Str                -- `if augassign and isinstance(x, Tuple | List): return …`
  emptySeqMsg : Option Str       -- `if len(x.elts) == 0: return …` (none: the test is not there)
  recAug : Bool                  -- does the recursive call pass `augassign` on?

/-- first row of the chain that applies to an expression described by `tags` -/
def chain (rows : List (Str × Str)) (tags : List Str) : Option Str :=
  (rows.find? (fun r => tags.contains r.1)).map (·.2)

def sStarred : Str := [83, 116, 97, 114, 114, 101, 100]   -- "Starred"

/-- the two `isinstance(x, Tuple | List)` branches, given what the element loop returns -/
def seqCase (c : Cfg) (isEmpty : Bool) (aug : Bool) (loop : Option Str) : Option Str :=
  if aug then some c.augSeqMsg
  else if isEmpty && c.emptySeqMsg.isSome then c.emptySeqMsg
  else loop

mutual
/-- `_not_assignable(x, augassign)`: `none` = assignable, `some msg` = the error text -/
def notAssignable (c : Cfg) : Tgt → Bool → Option Str
  | .leaf tags, _ => chain c.rows tags
  | .starred _, _ => chain c.rows [sStarred]          -- a Starred falls through the chain; its operand is never looked at
  | .tuple es, aug => seqCase c es.isEmpty aug (firstBad c es (c.recAug && aug))
  | .list es, aug => seqCase c es.isEmpty aug (firstBad c es (c.recAug && aug))
/-- `for i in x.elts: res = _not_assignable(i); if res is not None: return res` -/
def firstBad (c : Cfg) : List Tgt → Bool → Option Str
  | [], _ => none
  | e :: rest, aug => match notAssignable c e aug with
    | some m => some m
    | none => firstBad c rest aug
end

/-- the three statements `check_contexts` visits -/
inductive Mode where
  | assign | aug | del
  deriving Repr, DecidableEq, Inhabited

/-- `ContextCheckingVisitor.visit_Assign / visit_AugAssign / visit_Delete` on one target: accepted? -/
def xonshAccepts (c : Cfg) (m : Mode) (t : Tgt) : Bool :=
  (notAssignable c t (m == .aug)).isNone

-- CPython's rule ---------------------------------------------------------------------------------------------------------

def sName : Str := [78, 97, 109, 101]
def sAttribute : Str := [65, 116, 116, 114, 105, 98, 117, 116, 101]
def sSubscript : Str := [83, 117, 98, 115, 99, 114, 105, 112, 116]

/-- exactly a Name (not one spelled like a keyword — no parser produces that), an Attribute or a Subscript -/
def simpleTarget (tags : List Str) : Bool :=
  tags == [sName] || tags == [sAttribute] || tags == [sSubscript]

def isStarred : Tgt → Bool
  | .starred _ => true
  | _ => false

/-- "multiple starred expressions in assignment" -/
def oneStar (es : List Tgt) : Bool := (es.filter isStarred).length ≤ 1

mutual
/-- CPython's rule for targets (Grammar/python.gram `star_targets`, `single_target`, `del_targets` + the compiler's checks:
"starred assignment target must be in a list or tuple", "multiple starred expressions in assignment"):
assignment: Name / Attribute / Subscript, or a Tuple / List (EMPTY ONES INCLUDED) of targets where AT MOST ONE element may be
`*target` (the starred operand itself not starred); augmented: Name / Attribute / Subscript only;
`del`: Name / Attribute / Subscript, or a Tuple / List (empty ones included) of del-targets, never starred. -/
def cpyValid : Mode → Tgt → Bool
  | _, .leaf tags => simpleTarget tags
  | _, .starred _ => false                         -- a bare `*x` is no target
  | .aug, .tuple _ => false
  | .aug, .list _ => false
  | m, .tuple es => oneStar es && cpyValidElts m es
  | m, .list es => oneStar es && cpyValidElts m es
def cpyValidElts : Mode → List Tgt → Bool
  | _, [] => true
  | .assign, .starred (.starred _) :: _ => false     -- `**`-like double star: the starred operand itself is not starred
  | .assign, .starred t :: rest => cpyValid .assign t && cpyValidElts .assign rest
  | m, e :: rest => cpyValid m e && cpyValidElts m rest
end

-- side conditions of the partial theorems ----------------------------------------------------------------------------------

mutual
/-- no empty Tuple / List anywhere in the target -/
def noEmptySeq : Tgt → Bool
  | .leaf _ => true
  | .starred t => noEmptySeq t
  | .tuple es => !es.isEmpty && noEmptySeqL es
  | .list es => !es.isEmpty && noEmptySeqL es
def noEmptySeqL : List Tgt → Bool
  | [] => true
  | e :: rest => noEmptySeq e && noEmptySeqL rest
end

end CtxCheck

namespace TokMap

abbrev TStr := List Nat

/-- Python `re` on a star-free alternation: `alts` lists every string the pattern can match IN THE ORDER THE BACKTRACKING ENGINE
TRIES THEM; the first one that is a prefix of the input is the match (nothing follows the group in the tokenizer's pattern, so a
successful alternative is never abandoned). -/
def firstMatch (alts : List TStr) (s : TStr) : Option TStr :=
  alts.find? (fun a => a.isPrefixOf s)

/-- the tables translator/c01.py reads from lexer.py / tokenize.py -/
structure Lex where
  funny : List TStr                     -- tokenize.Funny, ordered
  special : List (TStr × TStr)           -- special_handlers[(OP, s)], resolved to the PLY type yielded in Python mode
  tokenMap : List (TStr × TStr)          -- token_map[(OP, s)]
  errTok : List (TStr × TStr)            -- handle_error_token: spellings with their own type

/-- the PLY token type of operator spelling `op` standing alone in Python mode:
the tokenizer must take all of it as ONE operator token, then `handle_token` looks `(OP, op)` up in `special_handlers`, then in
`token_map`; what the operator pattern does not match at all comes out as an ERRORTOKEN, which `handle_error_token` may rename. -/
def xonshTok (l : Lex) (op : TStr) : Option TStr :=
  match firstMatch l.funny op with
  | some m =>
    if m == op then
      match l.special.lookup op with
      | some t => some t
      | none => l.tokenMap.lookup op
    else none
  | none => l.errTok.lookup op

def toUpper (s : TStr) : TStr := s.map (fun c => if 97 ≤ c ∧ c ≤ 122 then c - 32 else c)

def sNAME : TStr := [78, 65, 77, 69]

/-- `handle_name` in Python mode for a word that does not need surrounding blanks (or has them): keywords and the extra words
become their own upper-cased token type, everything else is NAME -/
def nameTok (kwlist kwExtra : List TStr) (w : TStr) : TStr :=
  if (kwlist ++ kwExtra).contains w then toUpper w else sNAME

/-- `handle_name` with its blank test: a word of NEED_WHITESPACE that is not followed by a blank (`hasWs = false`) stays a NAME -/
def nameTokAt (kwlist kwExtra needWs : List TStr) (hasWs : Bool) (w : TStr) : TStr :=
  if needWs.contains w && !hasWs then sNAME else nameTok kwlist kwExtra w

end TokMap
