/-
C13 — file-system traces with crash prefixes.  Hand-written, executable, import-free.
A trace is the sequence of file-system events one history-rewriting operation performs
(captured from the REAL operation at run time by xv/props/c13.py); `crash` is the disk a machine
that dies at any point — including in the middle of a write — leaves behind.
-/
namespace FsTrace

abbrev Path := Nat
abbrev Bytes := List Nat

inductive Ev where
  | create (p : Path)               -- mkstemp / open(p, "w"): the file exists and is empty
  | write (p : Path) (b : Bytes)    -- bytes reach the file (appended)
  | close (p : Path)
  | rename (a b : Path)             -- os.replace(a, b): atomic
  | unlink (p : Path)
  deriving DecidableEq, Repr

abbrev Disk := List (Path × Bytes)

def get (d : Disk) (p : Path) : Option Bytes := d.lookup p
def put (d : Disk) (p : Path) (b : Bytes) : Disk := (p, b) :: d.filter (fun q => q.1 != p)
def del (d : Disk) (p : Path) : Disk := d.filter (fun q => q.1 != p)

def apply (d : Disk) : Ev → Disk
  | .create p => put d p []
  | .write p b => put d p ((get d p).getD [] ++ b)
  | .close _ => d
  | .rename a b => match get d a with
    | some c => put (del d a) b c
    | none => d
  | .unlink p => del d p

def applyAll (d : Disk) (tr : List Ev) : Disk := tr.foldl apply d

/-- the machine dies: the first `k` events happened; if event `k` is a write, only its first `j`
bytes reached the disk (every `j`, 0 and the full length included) -/
def crash (d : Disk) (tr : List Ev) (k j : Nat) : Disk :=
  let d' := applyAll d (tr.take k)
  match tr[k]? with
  | some (.write p b) => apply d' (.write p (b.take j))
  | _ => d'

/-- THE DISCIPLINE for a set `H` of protected (already saved) history files: they are never created
over, written to, unlinked or moved away; they change only by an atomic rename of another file onto
them, and that file must have been closed (its data flushed) before the rename. `opened` tracks the
files currently open for writing. -/
def discOk (H : List Path) : List Path → List Ev → Bool
  | _, [] => true
  | opened, .create p :: rest => !H.contains p && discOk H (p :: opened) rest
  | opened, .write p _ :: rest => !H.contains p && discOk H opened rest
  | opened, .close p :: rest => discOk H (opened.filter (· != p)) rest
  | opened, .rename a _ :: rest => !H.contains a && !opened.contains a && discOk H opened rest
  | opened, .unlink p :: rest => !H.contains p && discOk H opened rest

/-- an event that cannot change the content of a protected file except by renaming onto it -/
def safeEv (H : List Path) : Ev → Bool
  | .create p => !H.contains p
  | .write p _ => !H.contains p
  | .close _ => true
  | .rename a _ => !H.contains a
  | .unlink p => !H.contains p

end FsTrace
