/-
C17 — model of `xonsh format` (xonsh/formatter/core.py): the token re-emission pass
`_Formatter.run` with `_space_between`, `_raw_between`, `_render_token`, the line-start logic
(`_comment_indent`, `_flush_blank_lines`, `_is_subproc_statement`, `_is_alias_macro_line`,
`_dash_looks_like_subproc_flag`), `_update_state`, and `_finalize`.

Input: the source split at "\n" (`_src_lines`) and the token sequence AS DELIVERED BY THE REAL
TOKENIZER (kind, text, start, end).  The tokenizer itself (xonsh/parsers/tokenize.py, a 1600-line
regex scanner) is NOT modelled: the correspondence harness feeds the real token stream to this model
and compares the emitted text with the real `format_source`.

The string tables the rules consult (`_OPENERS`, `_CLOSERS`, `_ALWAYS_SPACED`, `_PY_KEYWORDS`, …) are a
parameter (`Tables`); the translator instantiates them from the source on every run
(Gen/FormatTables.lean) and the harness passes the live values to the driver.

Output: a list of `Piece`s — token texts and the separators put between them, each separator tagged
with the rule that produced it — so that theorems (and the harness's attribution of a failure to a
rule) can talk about what the formatter did, not only about the final string.

Import-free.  Strings are `List Char`; columns are code points (Python `str` indices).
-/
namespace Format

abbrev Str := List Char

inductive Kind where
  | encoding | endmarker | indent | dedent | newline | nl | comment | name | number | string
  | op | errortoken | fstart | fmiddle | fend | searchpath | dollarname | other
  deriving DecidableEq, Repr, Inhabited

structure Tok where
  kind : Kind
  text : Str
  sl : Nat
  sc : Nat
  el : Nat
  ec : Nat
  deriving Repr, Inhabited

/-- the module-level sets of xonsh/formatter/core.py -/
structure Tables where
  openers : List Str
  closers : List Str
  alwaysSpaced : List Str
  pyKeywords : List Str
  lineStartPy : List Str
  pyAfterLeadingName : List Str
  pyInfix : List Str

/-- which repairs the running implementation has (probed by the harness on every run; all `false` = the
snapshot the known findings were established against):
 * `guard`  — `_in_subproc_text()`: in subprocess text `_space_between` forces nothing past the bracket rules;
 * `eofFix` — `_finalize` keeps two newlines after a final backslash;
 * `litFix` — `_finalize` does not strip the lines that end inside a token. -/
structure Variant where
  guard : Bool := false
  eofFix : Bool := false
  litFix : Bool := false

structure Cfg where
  tb : Tables
  indent : Str
  src : List Str
  v : Variant := {}

/-- which statement of the formatter produced a piece of output -/
inductive Rule where
  | tok          -- a token's (rendered) text
  | newline      -- NEWLINE token → "\n"
  | nlCont       -- NL inside brackets → "\n"
  | blank        -- one kept blank line
  | lineBracket  -- continuation line inside brackets: the source's leading whitespace, verbatim
  | lineIndent   -- indent_str * level
  | fstr | bang | raw | rawCont | contSub | contPy | comment | opener | closer
  | commaB | commaA | colonB | colonSlice | colonA | eq | always | kw
  | gapLines | gapSome | gapNone | noPrev
  deriving DecidableEq, Repr, Inhabited

structure Piece where
  isTok : Bool
  rule : Rule
  fromSrc : Bool
  text : Str
  deriving Repr, Inhabited

def sepP (r : Rule) (t : Str) : Piece := ⟨false, r, false, t⟩
def srcP (r : Rule) (t : Str) : Piece := ⟨false, r, true, t⟩
def tokP (t : Str) : Piece := ⟨true, .tok, false, t⟩

/-! ## Python string primitives -/

/-- `s.split("\n")` -/
def splitNl : Str → List Str
  | [] => [[]]
  | c :: cs =>
    if c = '\n' then [] :: splitNl cs
    else match splitNl cs with
      | [] => [[c]]
      | l :: ls => (c :: l) :: ls

/-- `l[a:b]` for non-negative a, b -/
def pySlice (l : Str) (a b : Nat) : Str := (l.drop a).take (b - a)

/-- `src_lines[n - 1]` (1-based line number of a token) -/
def lineAt (src : List Str) (n : Nat) : Str := src.getD (n - 1) []

/-- `s * n` (a non-positive count gives the empty string) -/
def repeatStr (s : Str) (n : Int) : Str := (List.replicate n.toNat s).flatten

def spaces (n : Int) : Str := List.replicate n.toNat ' '

def isBlank (c : Char) : Bool := c = ' ' || c = '\t'

/-- `str.isspace()` for one character (what `lstrip()` removes) -/
def isPySpace (c : Char) : Bool :=
  let n := c.toNat
  (9 ≤ n && n ≤ 13) || (28 ≤ n && n ≤ 32) || n = 0x85 || n = 0xa0 || n = 0x1680 ||
  (0x2000 ≤ n && n ≤ 0x200a) || n = 0x2028 || n = 0x2029 || n = 0x202f || n = 0x205f || n = 0x3000

def lstrip (s : Str) : Str := s.dropWhile isPySpace

def countNl (s : Str) : Nat := (s.filter (· = '\n')).length

/-- text after the last "\n" (`s.rsplit("\n", 1)[-1]`) -/
def afterLastNl (s : Str) : Str := (splitNl s).getLastD []

def joinNl : List Str → Str
  | [] => []
  | [l] => l
  | l :: ls => l ++ '\n' :: joinNl ls

/-! ## `_finalize` -/

/-- per-line `rstrip(" \t")` of a whole text: reading right to left, a blank is dropped exactly when
what follows it (after dropping) is a line end or the end of the text -/
def stripTrailFrom (tail : Str) : Str → Str
  | [] => tail
  | c :: cs =>
    let r := stripTrailFrom tail cs
    if isBlank c && (match r with | [] => true | d :: _ => d = '\n') then r else c :: r

def stripTrail (s : Str) : Str := stripTrailFrom [] s

/-- `text.rstrip("\n")` -/
def rstripNl : Str → Str
  | [] => []
  | c :: cs =>
    match rstripNl cs with
    | [] => if c = '\n' then [] else [c]
    | r => c :: r

/-- `_finalize`: strip trailing blanks of every line, then exactly one final newline -/
def finalize (s : Str) : Str := rstripNl (stripTrail s) ++ ['\n']

/-- what `_finalize` puts after the text stripped of its final newlines: one newline — two when the repaired
code finds a backslash there (a final backslash-newline must stay followed by a line end) -/
def endsInContinuation (body : Str) : Bool :=
  match body.reverse with
  | '\\' :: _ => true
  | '\r' :: '\\' :: _ => true
  | _ => false

def finalTail (eofFix : Bool) (body : Str) : Str :=
  if eofFix && endsInContinuation body then ['\n', '\n'] else ['\n']

/-- `_finalize` of either variant -/
def finalizeV (eofFix : Bool) (s : Str) : Str :=
  rstripNl (stripTrail s) ++ finalTail eofFix (rstripNl (stripTrail s))

/-- the reference form of `_finalize`, literally `"\n".join(ln.rstrip(" \t") for ln in text.split("\n"))` -/
def rstripBlank : Str → Str
  | [] => []
  | c :: cs =>
    match rstripBlank cs with
    | [] => if isBlank c then [] else [c]
    | r => c :: r

def stripTrailRef (s : Str) : Str := joinNl ((splitNl s).map rstripBlank)

/-! ## pieces -/

def flatten (ps : List Piece) : Str := ps.flatMap (·.text)

def toksOf (ps : List Piece) : Str := (ps.filter (·.isTok)).flatMap (·.text)

/-- per-line `rstrip(" \t")` of ONE separator, given whether what follows it (already processed) is a line
end / the end of the text (`eol`); also returns that flag for what precedes the separator -/
def stripSepFrom (eol : Bool) : Str → Str × Bool
  | [] => ([], eol)
  | c :: cs =>
    let (r, e) := stripSepFrom eol cs
    if isBlank c && e then (r, e) else (c :: r, c = '\n')

/-- finalize that touches separators only: a blank of a separator is dropped when what follows is a
line end / the end of the text; token texts are copied unchanged -/
def stripSeps : List Piece → List Piece × Bool
  | [] => ([], true)
  | p :: ps =>
    let (ps', e) := stripSeps ps
    if p.isTok then (p :: ps', match p.text with | [] => e | c :: _ => c = '\n')
    else
      let (t, e') := stripSepFrom e p.text
      ({ p with text := t } :: ps', e')

/-- the "safe" formatter output: like `finalize (flatten ps)` but token texts are never edited -/
def finalizeSafe (ps : List Piece) : Str := rstripNl (flatten (stripSeps ps).1) ++ ['\n']

/-! ### the repaired `_finalize`: lines that end inside a token are left alone -/

/-- a token's characters, each marked "a newline here lies inside the token" (every position but the first) -/
def markTok : Str → List (Char × Bool)
  | [] => []
  | c :: cs => (c, false) :: cs.map (fun d => (d, true))

def markSep (t : Str) : List (Char × Bool) := t.map (fun d => (d, false))

/-- the output with the newlines inside tokens marked (`_literal_line_ends`) -/
def marked (ps : List Piece) : List (Char × Bool) :=
  ps.flatMap (fun p => if p.isTok then markTok p.text else markSep p.text)

/-- per-line strip that skips the lines ending at a marked newline; `e` = what follows the processed part is
the end of the text or an unmarked newline -/
def stripMarkedFrom (R : Str) (e : Bool) : List (Char × Bool) → Str × Bool
  | [] => (R, e)
  | (c, k) :: cs =>
    let (r, e') := stripMarkedFrom R e cs
    if isBlank c && e' then (r, e') else (c :: r, c = '\n' && !k)

def finalizeLit (eofFix : Bool) (ps : List Piece) : Str :=
  let b := rstripNl (stripMarkedFrom [] true (marked ps)).1
  b ++ finalTail eofFix b

/-- no blank directly before a newline inside the text, and no blank at its end -/
def tokClean : Str → Bool
  | [] => true
  | [c] => !isBlank c
  | c :: d :: cs => !(isBlank c && d = '\n') && tokClean (d :: cs)

/-! ## the formatter state (`_Formatter` attributes) -/

structure St where
  out : List Piece := []          -- reversed
  indentLevel : Int := 0
  brackets : List Str := []       -- head = innermost
  lambdaDepth : Nat := 0
  lineStart : Bool := true
  pendingBlanks : Nat := 0
  subprocLine : Bool := false
  macroAliasLine : Bool := false
  macroUntilDepth : Nat := 0
  srcIndentWidth : Option Nat := none
  prev : Option Tok := none
  done : Bool := false

def St.push (st : St) (p : Piece) : St := { st with out := p :: st.out }

def isContTok (t : Tok) : Bool :=
  t.kind = .errortoken && (t.text = ['\\', '\n'] || t.text = ['\\', '\r', '\n'])

def isBang (t : Tok) : Bool := t.kind = .errortoken && t.text = ['!']

def startsAtEndOf (cur prev : Tok) : Bool := prev.el = cur.sl && prev.ec = cur.sc

/-- `_source_indent_width()`: the value, which is also stored -/
def srcWidth (cfg : Cfg) (st : St) : Nat :=
  match st.srcIndentWidth with
  | some w => w
  | none => if cfg.indent.length = 0 then 4 else cfg.indent.length

/-- `_real_end` -/
def realEnd (t : Tok) : Nat × Nat :=
  let k := countNl t.text
  if k = 0 then (t.sl, t.sc + t.text.length) else (t.sl + k, (afterLastNl t.text).length)

/-- the source lines with 0-based indices a ≤ i < b, each preceded by "\n" -/
def midLines (src : List Str) (a b : Nat) : Str :=
  ((src.drop a).take (b - a)).flatMap (fun l => '\n' :: l)

/-- `_raw_between`, after the continuation special case -/
def rawSlice (src : List Str) (prev cur : Tok) : Str :=
  let (sLine, sCol) := realEnd prev
  if sLine = cur.sl then
    if cur.sc < sCol then [] else pySlice (lineAt src sLine) sCol cur.sc
  else if cur.sl < sLine then [' ']
  else (lineAt src sLine).drop sCol ++ midLines src sLine (cur.sl - 1) ++ '\n' :: (lineAt src cur.sl).take cur.sc

/-- Python `round()` of the non-negative rational a / b (half to even); b = 0 gives 0 -/
def roundDiv (a b : Nat) : Nat :=
  if b = 0 then 0
  else
    let q := a / b
    let r := a % b
    if 2 * r > b then q + 1 else if 2 * r < b then q else if q % 2 = 0 then q else q + 1

def subprocOpeners : List Str := [['$', '('], ['$', '['], ['!', '('], ['!', '['], ['@', '$', '(']]
def pythonOpeners : List Str := [['@', '('], ['$', '{'], ['@', '!', '(']]

/-- `_in_subproc_text` (repaired code): the innermost mode-switching bracket decides; outside any, the
statement-level heuristic does -/
def inSubprocTextGo : List Str → Bool → Bool
  | [], d => d
  | b :: bs, d =>
    if pythonOpeners.contains b then false
    else if subprocOpeners.contains b then true
    else inSubprocTextGo bs d

def inSubprocText (st : St) : Bool := inSubprocTextGo st.brackets st.subprocLine

/-- the rules of `_space_between` that look only at the two tokens' kinds and texts and at the lexical
context (bracket stack, lambda depth, subprocess-line flag) — never at positions -/
def forcedLate (cfg : Cfg) (st : St) (pk : Kind) (ps : Str) (cs : Str) : Option Piece :=
  if cs = [','] || cs = [';'] then some (sepP .commaB [])
  else if ps = [','] || ps = [';'] then some (sepP .commaA [' '])
  else if cs = [':'] then some (sepP .colonB [])
  else if ps = [':'] then
    if st.brackets.head? = some ['['] then some (sepP .colonSlice []) else some (sepP .colonA [' '])
  else if (ps = ['='] || cs = ['=']) && st.brackets.length = 0 && st.lambdaDepth = 0 && !st.subprocLine then
    some (sepP .eq [' '])
  else if cfg.tb.alwaysSpaced.contains ps || cfg.tb.alwaysSpaced.contains cs then some (sepP .always [' '])
  else if pk = .name && cfg.tb.pyKeywords.contains ps then some (sepP .kw [' '])
  else none

def forced (cfg : Cfg) (st : St) (pk : Kind) (ps : Str) (ck : Kind) (cs : Str) : Option Piece :=
  if ck = .comment then some (sepP .comment [' ', ' '])
  else if cfg.tb.openers.contains ps then some (sepP .opener [])
  else if cfg.tb.closers.contains cs then some (sepP .closer [])
  else if cfg.v.guard && inSubprocText st then none   -- repaired code: subprocess text keeps its gaps
  else forcedLate cfg st pk ps cs

/-- the default of `_space_between`: keep the source's gap, as one blank or none -/
def gapOf (prev cur : Tok) : Piece :=
  if prev.el ≠ cur.sl then sepP .gapLines [' ']
  else if cur.sc > prev.ec then sepP .gapSome [' '] else sepP .gapNone []

/-- after a backslash-newline in a Python statement: the visual offset past the statement's indentation,
rescaled from the source's indent width to the formatter's -/
def contPyIndent (cfg : Cfg) (st : St) (cur : Tok) : Str :=
  let w := srcWidth cfg st
  let srcBase : Int := st.indentLevel * w
  let visual : Nat := ((cur.sc : Int) - srcBase).toNat
  let newBase : Int := st.indentLevel * cfg.indent.length
  let off : Nat := roundDiv (visual * cfg.indent.length) w
  spaces (newBase + off)

/-- `_space_between` past its first three tests: macro bodies verbatim, continuation indents, the forced
rules, the source's gap -/
def spaceLate (cfg : Cfg) (st : St) (prev cur : Tok) : Piece :=
  match forced cfg st prev.kind prev.text cur.kind cur.text with
  | some p => p
  | none => gapOf prev cur

def spaceRest (cfg : Cfg) (st : St) (prev cur : Tok) : Piece :=
  if st.macroUntilDepth > 0 || st.macroAliasLine then
    if isContTok prev then sepP .rawCont (repeatStr cfg.indent (st.indentLevel + 1))
    else srcP .raw (rawSlice cfg.src prev cur)
  else if isContTok prev then
    if st.subprocLine then sepP .contSub (repeatStr cfg.indent (st.indentLevel + 1))
    else sepP .contPy (contPyIndent cfg st cur)
  else spaceLate cfg st prev cur

/-- `_space_between`: the separator and the rule that chose it -/
def spaceBetween (cfg : Cfg) (st : St) (prev cur : Tok) : Piece :=
  if cur.kind = .fmiddle || cur.kind = .fend then sepP .fstr []
  else if prev.kind = .fstart || prev.kind = .fmiddle then sepP .fstr []
  else if isBang cur && startsAtEndOf cur prev then sepP .bang []
  else spaceRest cfg st prev cur

/-- does `_space_between` call `_source_indent_width()` (which stores the width)? -/
def spaceTouchesWidth (st : St) (prev cur : Tok) : Bool :=
  !(cur.kind = .fmiddle || cur.kind = .fend) && !(prev.kind = .fstart || prev.kind = .fmiddle) &&
  !(isBang cur && startsAtEndOf cur prev) && !(st.macroUntilDepth > 0 || st.macroAliasLine) &&
  isContTok prev && !st.subprocLine

/-! ## `_render_token` -/

def escBraces (s : Str) : Str :=
  s.flatMap (fun c => if c = '{' then ['{', '{'] else if c = '}' then ['}', '}'] else [c])

def spanReliable (t : Tok) : Bool :=
  if t.el < t.sl then false else if t.el > t.sl then true else t.ec ≥ t.sc + t.text.length

/-- `_source_slice`: lines joined with "\n" -/
def sourceSlice (src : List Str) (t : Tok) : Option Str :=
  if t.sl = t.el then
    if t.ec < t.sc then none else some (pySlice (lineAt src t.sl) t.sc t.ec)
  else if t.el < t.sl then none
  else some ((lineAt src t.sl).drop t.sc ++ midLines src t.sl (t.el - 1) ++ '\n' :: (lineAt src t.el).take t.ec)

def renderToken (cfg : Cfg) (t : Tok) : Str :=
  if t.kind = .comment then lstrip t.text
  else if t.kind = .fmiddle then
    if spanReliable t then
      match sourceSlice cfg.src t with
      | some s => s
      | none => escBraces t.text
    else escBraces t.text
  else t.text

/-! ## line-start decisions -/

def trivialTok (t : Tok) : Bool := t.kind = .comment || t.kind = .nl

/-- the first token that is neither COMMENT nor NL, and what follows it -/
def nextReal : List Tok → Option (Tok × List Tok)
  | [] => none
  | t :: ts => if trivialTok t then nextReal ts else some (t, ts)

def dashLooksLikeFlag (rest : List Tok) (dash : Tok) : Bool :=
  match nextReal rest with
  | none => false
  | some (t, _) =>
    if t.kind = .op && t.text = ['-'] then true
    else if t.kind = .name && t.sl = dash.el && t.sc = dash.ec then true
    else false

def macroOpenersAfterName : List Str := [['!', '('], ['!', '['], ['?'], ['?', '?']]

/-- `_is_subproc_statement(tokens, i)` with `first = tokens[i]`, `rest = tokens[i+1:]` -/
def isSubprocStatement (tb : Tables) (first : Tok) (rest : List Tok) : Bool :=
  if first.kind ≠ .name then false
  else if tb.lineStartPy.contains first.text then false
  else match nextReal rest with
    | none => false
    | some (second, rest2) =>
      if second.kind = .newline then false
      else if second.kind = .op && tb.pyAfterLeadingName.contains second.text then false
      else if second.kind = .op && second.text = ['-'] then dashLooksLikeFlag rest2 second
      else if second.kind = .op && macroOpenersAfterName.contains second.text then false
      else if isBang second then true
      else if second.kind = .name then !tb.pyInfix.contains second.text
      else if second.kind = .number || second.kind = .string || second.kind = .fstart ||
              second.kind = .searchpath || second.kind = .dollarname then true
      else false

/-- `_is_alias_macro_line` -/
def isAliasMacroLine (tb : Tables) (first : Tok) (rest : List Tok) : Bool :=
  if first.kind ≠ .name then false
  else if tb.lineStartPy.contains first.text then false
  else match nextReal rest with
    | none => false
    | some (t, _) => isBang t && t.sl = first.el && t.sc = first.ec

/-- Python `round(x)` for a non-negative float (half to even) -/
def roundHalfEvenF (x : Float) : Nat :=
  let f := Float.floor x
  let d := x - f
  let n := f.toUInt64.toNat
  if d > 0.5 then n + 1 else if d < 0.5 then n else if n % 2 = 0 then n else n + 1

/-- the accumulation loop of `_comment_indent` — in double precision, as in the source -/
def commentLevels (width : Nat) : Str → Float → Float
  | [], acc => acc
  | c :: cs, acc =>
    if c = '\t' then commentLevels width cs (acc + 1.0)
    else if c = ' ' then commentLevels width cs (acc + 1.0 / width.toFloat)
    else acc

/-- `_comment_indent(tok)` given the (possibly just stored) source indent width -/
def commentIndent (cfg : Cfg) (width : Nat) (t : Tok) : Nat :=
  if t.sc = 0 then 0
  else if width = 0 then 0
  else roundHalfEvenF (commentLevels width ((lineAt cfg.src t.sl).take t.sc) 0.0)

/-- `_flush_blank_lines(target_level)`: the kept blank lines -/
def blanksFor (pending : Nat) (level : Int) : List Piece :=
  List.replicate (min pending (if level = 0 then 2 else 1)) (sepP .blank ['\n'])

/-! ## `_update_state` and the macro bookkeeping of the run loop -/

def updateBrackets (tb : Tables) (br : List Str) (t : Tok) : List Str :=
  if t.kind = .op then
    if tb.openers.contains t.text then t.text :: br
    else if tb.closers.contains t.text && !br.isEmpty then br.tail
    else br
  else br

def updateLambda (tb : Tables) (br : List Str) (ld : Nat) (t : Tok) : Nat :=
  if t.kind = .op then
    if tb.openers.contains t.text then ld
    else if tb.closers.contains t.text && !br.isEmpty then ld
    else if t.text = [':'] && ld > 0 then ld - 1
    else ld
  else if t.kind = .name && t.text = ['l', 'a', 'm', 'b', 'd', 'a'] then ld + 1
  else ld

def macroAfter (st : St) (newDepth : Nat) (t : Tok) : Nat :=
  let m :=
    if t.kind = .op && t.text = ['!', '('] &&
       (match st.prev with | some p => p.kind = .name && startsAtEndOf t p | none => false)
    then newDepth else st.macroUntilDepth
  if m ≠ 0 && newDepth < m then 0 else m

/-! ## the run loop -/

/-- what is put before a real token (blank lines, indentation or the inter-token gap), newest first,
together with the flags decided at a line start and the stored source indent width -/
structure Lead where
  pieces : List Piece          -- in output order
  subprocLine : Bool
  macroAliasLine : Bool
  srcIndentWidth : Option Nat

def leadOf (cfg : Cfg) (st : St) (t : Tok) (rest : List Tok) : Lead :=
  if st.lineStart then
    if st.brackets.length > 0 then
      { pieces := blanksFor st.pendingBlanks st.indentLevel ++ [srcP .lineBracket ((lineAt cfg.src t.sl).take t.sc)]
        subprocLine := st.subprocLine, macroAliasLine := st.macroAliasLine, srcIndentWidth := st.srcIndentWidth }
    else if t.kind = .comment then
      let touched := t.sc ≠ 0
      let w := srcWidth cfg st
      let level : Int := commentIndent cfg w t
      { pieces := blanksFor st.pendingBlanks level ++ [sepP .lineIndent (repeatStr cfg.indent level)]
        subprocLine := st.subprocLine, macroAliasLine := st.macroAliasLine
        srcIndentWidth := if touched then some w else st.srcIndentWidth }
    else
      { pieces := blanksFor st.pendingBlanks st.indentLevel ++ [sepP .lineIndent (repeatStr cfg.indent st.indentLevel)]
        subprocLine := isSubprocStatement cfg.tb t rest
        macroAliasLine := isAliasMacroLine cfg.tb t rest
        srcIndentWidth := st.srcIndentWidth }
  else
    match st.prev with
    | none => { pieces := [sepP .noPrev []], subprocLine := st.subprocLine, macroAliasLine := st.macroAliasLine,
                srcIndentWidth := st.srcIndentWidth }
    | some p =>
      { pieces := [spaceBetween cfg st p t]
        subprocLine := st.subprocLine, macroAliasLine := st.macroAliasLine
        srcIndentWidth := if spaceTouchesWidth st p t then some (srcWidth cfg st) else st.srcIndentWidth }

def stepReal (cfg : Cfg) (st : St) (t : Tok) (rest : List Tok) : St :=
  let ld := leadOf cfg st t rest
  let br := updateBrackets cfg.tb st.brackets t
  { st with
    out := tokP (renderToken cfg t) :: (ld.pieces.reverse ++ st.out)
    brackets := br
    lambdaDepth := updateLambda cfg.tb st.brackets st.lambdaDepth t
    lineStart := false
    pendingBlanks := if st.lineStart then 0 else st.pendingBlanks
    subprocLine := ld.subprocLine
    macroAliasLine := ld.macroAliasLine
    macroUntilDepth := macroAfter st br.length t
    srcIndentWidth := ld.srcIndentWidth
    prev := some t }

def step (cfg : Cfg) (st : St) (t : Tok) (rest : List Tok) : St :=
  if st.done then st
  else match t.kind with
    | .encoding => st
    | .endmarker => { st with done := true }
    | .indent =>
      { st with
        srcIndentWidth := match st.srcIndentWidth with
          | some w => some w
          | none => some (if t.text.length ≠ 0 then t.text.length else cfg.indent.length)
        indentLevel := st.indentLevel + 1 }
    | .dedent => { st with indentLevel := st.indentLevel - 1 }
    | .newline =>
      { st with out := sepP .newline ['\n'] :: st.out, lineStart := true, pendingBlanks := 0,
                subprocLine := false, macroAliasLine := false }
    | .nl =>
      if st.lineStart then { st with pendingBlanks := st.pendingBlanks + 1 }
      else { st with out := sepP .nlCont ['\n'] :: st.out, lineStart := true }
    | _ => stepReal cfg st t rest

def runFrom (cfg : Cfg) : St → List Tok → St
  | st, [] => st
  | st, t :: rest => runFrom cfg (step cfg st t rest) rest

/-- the pieces `_Formatter.run` appends to `_out`, in order -/
def pieces (cfg : Cfg) (toks : List Tok) : List Piece := (runFrom cfg {} toks).out.reverse

/-- `format_source` for a non-empty source (snapshot `_finalize`) -/
def format (cfg : Cfg) (toks : List Tok) : Str := finalize (flatten (pieces cfg toks))

/-- `format_source` for a non-empty source, with the `_finalize` of the implementation's variant -/
def formatV (cfg : Cfg) (toks : List Tok) : Str :=
  if cfg.v.litFix then finalizeLit cfg.v.eofFix (pieces cfg toks)
  else finalizeV cfg.v.eofFix (flatten (pieces cfg toks))

/-- the same with the token-preserving finalize -/
def formatSafe (cfg : Cfg) (toks : List Tok) : Str := finalizeSafe (pieces cfg toks)

/-! ## which juxtapositions of two token texts would read back as something else -/

def isWordChar (c : Char) : Bool :=
  c.isAlphanum || c = '_' || c.toNat ≥ 128

def isQuoteLike (c : Char) : Bool := c = '\'' || c = '"' || c = '`'

/-- `a` is a proper prefix of `op` and `op` continues with the character `d` -/
def extendsWith (a : Str) (d : Char) (op : Str) : Bool :=
  a.isPrefixOf op && (op.drop a.length).head? = some d

/-- could writing `b` directly after `a` change how the text tokenises?  (an over-approximation:
whatever is flagged gets a separator, see Props/C17)
 * a word character followed by a word character, a quote or a backtick (names, numbers, keywords,
   string prefixes, search-path prefixes);
 * `$` or `@` followed by a word character or backtick (`$NAME`, `@name` search-path prefixes);
 * the first character of `b` continues `a` into a longer operator / redirect of the tokenizer's
   tables (`<` `<=`, `*` `*=`, `$` `(`, `2` `>`, `.` `.`, …);
 * a digit followed by `.` or `.` followed by a digit (number literals);
 * a closing quote followed by the same quote (`''` `'x'` reads as a triple-quote opener);
 * `{` `{` and `}` `}` (inside an f-string field two braces in a row are an escaped brace);
 * anything followed by `#` (a comment would start). -/
def merges (ops : List Str) (a b : Str) : Bool :=
  match a.getLast?, b.head? with
  | some x, some y =>
    (isWordChar x && (isWordChar y || isQuoteLike y)) ||
    ((x = '$' || x = '@') && (isWordChar y || y = '`')) ||
    ops.any (extendsWith a y) ||
    (x.isDigit && y = '.') || (x = '.' && y.isDigit) ||
    ((x = '\'' || x = '"') && x = y) ||
    ((x = '{' || x = '}') && x = y) ||
    y = '#'
  | _, _ => false

/-- every separator that was copied out of the source is whitespace (the tokenizer's positions are
coherent with the text) -/
def allWs (s : Str) : Bool := s.all isPySpace

def srcSepsWs (ps : List Piece) : Bool := ps.all (fun p => !p.fromSrc || allWs p.text)

/-- `"".join(text.split())` -/
def stripWs (s : Str) : Str := s.filter (fun c => !isPySpace c)

end Format
