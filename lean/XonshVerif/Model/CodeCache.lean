/-
C19 — the bytecode cache of xonsh/codecache.py as a state machine over one script: its source
(content, mtime), at most one cache entry (version header ok?, payload, mtime) and a clock.
Hand-written, executable, import-free.  `compile` and `marshal.load` are abstract: a payload is
either the bytecode of some source content or unreadable.
-/
namespace CodeCache

inductive Payload where
  | code (content : Nat)      -- marshalled bytecode compiled from source text `content`
  | unreadable                -- truncated / corrupted: marshal.load raises
  deriving DecidableEq, Repr

structure Entry where
  hdrOk : Bool                -- xonsh and Python version lines match
  payload : Payload
  mtime : Int
  deriving DecidableEq, Repr

structure St where
  content : Nat
  srcMtime : Int
  cache : Option Entry
  clock : Int
  deriving DecidableEq, Repr

inductive Op where
  | tick (d : Nat)                 -- time passes (d + 1 units)
  | edit (c : Nat)                 -- the script is saved with new text: mtime := clock
  | touch                          -- mtime := clock, same text
  | run (useCache : Bool)          -- run_script_with_cache with the switches decided by should_use_cache
  | damage                         -- the cache file is truncated or corrupted
  | foreign                        -- the cache file was written by another xonsh / Python version
  | removeCache
  deriving Repr

/-- `script_cache_check` + `run_script_with_cache`: returns the content whose bytecode is executed -/
def runScript (fresh : Int → Int → Bool) (s : St) (useCache : Bool) : St × Nat :=
  let cached : Option Nat :=
    if useCache then
      match s.cache with
      | some e =>
        if fresh e.mtime s.srcMtime then
          if e.hdrOk then
            match e.payload with
            | .code c => some c
            | .unreadable => none
          else none
        else none
      | none => none
    else none
  match cached with
  | some c => (s, c)
  | none =>
    -- compile the current source; update_cache when caching is on
    (if useCache then { s with cache := some ⟨true, .code s.content, s.clock⟩ } else s, s.content)

def step (fresh : Int → Int → Bool) (s : St) : Op → St × Option Nat
  | .tick d => ({ s with clock := s.clock + d + 1 }, none)
  | .edit c => ({ s with content := c, srcMtime := s.clock }, none)
  | .touch => ({ s with srcMtime := s.clock }, none)
  | .run u => let (s', r) := runScript fresh s u; (s', some r)
  | .damage => ({ s with cache := s.cache.map (fun e => { e with payload := .unreadable }) }, none)
  | .foreign => ({ s with cache := s.cache.map (fun e => { e with hdrOk := false }) }, none)
  | .removeCache => ({ s with cache := none }, none)

def run (fresh : Int → Int → Bool) (s : St) : List Op → St
  | [] => s
  | op :: rest => run fresh (step fresh s op).1 rest

-- cache file names -------------------------------------------------------------------------

abbrev Str := List Char

/-- `"".join(_CHARACTER_MAP.get(i, i) for i in w)` for a character table -/
def escape (tbl : List (Char × Str)) (w : Str) : Str := w.flatMap (fun c => (tbl.lookup c).getD [c])

/-- `_cache_renamer` on the already split path: escape every component, tag the last one -/
def renamer (tbl : List (Char × Str)) (tag : Str) : List Str → List Str
  | [] => []
  | [w] => [escape tbl w ++ '.' :: tag]
  | w :: rest => escape tbl w :: renamer tbl tag rest

end CodeCache
