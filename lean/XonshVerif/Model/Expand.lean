/-
C04 — the documented expansion of non-raw arguments: `xonsh/tools.py expandvars` (the language of
`POSIX_ENVVAR_REGEX`  \$({(?P<quote>['"])|)(?P<envvar>\w+)((?P=quote)}|(?:\1\b))  scanned left to right
like `finditer`, unknown names unchanged, no re-scan of substituted values) and `expand_path`
(the Bash-like tilde-prefix rule incl. the `=` / pathsep case; `os.path.expanduser` is modelled over a
table of home directories).

Parameters (external behaviour, supplied by the harness from the real session):
  * `uniWord`  — Python's `\w` for NON-ASCII code points (the Unicode database); ASCII is concrete;
  * `lookup`   — `name in env` and the detyped value (`Env.get_detyper`, typed conversion belongs to C10);
  * `home`     — home directory of a tilde-prefix user name ("" = current user: `$HOME` of the process);
  * the two switches `$EXPAND_ENV_VARS`, `$XONSH_SUBPROC_ARG_EXPANDUSER`.
-/
import XonshVerif.Model.PyStr
namespace Expand
open PyStr (Str)

structure Env where
  uniWord : Nat → Bool
  lookup : Str → Option Str
  home : Str → Option Str
  expandVars : Bool
  expandUser : Bool
  pathsep : Nat := 58

/-- the regex source this model was written for (compared with the translated one in `Props/C04`) -/
def modelledPattern : String := "\\$({(?P<quote>['\"])|)(?P<envvar>\\w+)((?P=quote)}|(?:\\1\\b))"

def asciiWord (c : Nat) : Bool :=
  (48 ≤ c && c ≤ 57) || (65 ≤ c && c ≤ 90) || (97 ≤ c && c ≤ 122) || c = 95

def isWord (e : Env) (c : Nat) : Bool := if c < 128 then asciiWord c else e.uniWord c

/-- maximal run of `\w` characters -/
def wordRun (e : Env) : Str → Str
  | [] => []
  | c :: cs => if isWord e c = true then c :: wordRun e cs else []

/-- the regex tried just after a `$`: `some (name, n)` = it matches the next `n` characters -/
def matchVar (e : Env) (cs : Str) : Option (Str × Nat) :=
  match cs with
  | 123 :: q :: rest =>
    if q = 39 ∨ q = 34 then
      let w := wordRun e rest
      if w = [] then none
      else match rest.drop w.length with
        | a :: b :: more =>
          if a = q ∧ b = 125 then some (w, w.length + 4)                       -- ${'NAME'}
          else if a = 123 ∧ b = q then                                         -- (?:\1\b): `{'` again, then a word boundary
            (match more with
             | m :: _ => if isWord e m = true then some (w, w.length + 4) else none
             | [] => none)
          else none
        | _ => none
    else none
  | _ =>
    let w := wordRun e cs
    if w = [] then none else some (w, w.length)                                -- $NAME (maximal run; `\b` holds there)

/-- `expandvars` after the `"$" in path` test; `skip` characters belong to a match already handled -/
def expandGo (e : Env) : Nat → Str → Str
  | _, [] => []
  | k + 1, _ :: cs => expandGo e k cs
  | 0, c :: cs =>
    if c = 36 then
      match matchVar e cs with
      | some (name, n) =>
        (match e.lookup name with
         | some v => v
         | none => 36 :: cs.take n) ++ expandGo e n cs
      | none => 36 :: expandGo e 0 cs
    else c :: expandGo e 0 cs

def expandvars (e : Env) (s : Str) : Str := expandGo e 0 s

def stripTrailing (c : Nat) (s : Str) : Str := (s.reverse.dropWhile (· == c)).reverse

/-- `posixpath.expanduser` -/
def expanduser (e : Env) (s : Str) : Str :=
  match s with
  | 126 :: rest =>
    let name := rest.takeWhile (· != 47)
    let tail := rest.dropWhile (· != 47)
    match e.home name with
    | none => s
    | some h =>
      let r := stripTrailing 47 h ++ tail
      if r = [] then [47] else r
  | _ => s

def splitOn (sep : Nat) : Str → List Str
  | [] => [[]]
  | c :: cs =>
    if c = sep then [] :: splitOn sep cs
    else match splitOn sep cs with
      | [] => [[c]]
      | p :: ps => (c :: p) :: ps

def joinWith (sep : Nat) : List Str → Str
  | [] => []
  | [p] => p
  | p :: ps => p ++ sep :: joinWith sep ps

/-- `expand_path(s)` -/
def expandPath (e : Env) (s : Str) : Str :=
  let s := if e.expandVars = true then expandvars e s else s
  if e.expandUser = true then
    if s.contains 61 then
      let pre := s.takeWhile (· != 61)
      let post := (s.dropWhile (· != 61)).drop 1
      expanduser e pre ++ 61 :: joinWith e.pathsep ((splitOn e.pathsep post).map (expanduser e))
    else expanduser e s
  else s

/-- a tilde-prefix in the sense of `expand_path`: at the start of the word, or — when the word has
an `=` — at the start of the text before it or of a pathsep-separated piece after it -/
def tildePrefix (e : Env) (s : Str) : Bool :=
  if s.contains 61 then
    (s.takeWhile (· != 61)).head? == some 126 ||
      (splitOn e.pathsep ((s.dropWhile (· != 61)).drop 1)).any (fun p => p.head? == some 126)
  else s.head? == some 126

end Expand
