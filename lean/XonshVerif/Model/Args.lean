/-
C04 — how the argument list of ONE subprocess command is assembled and handed over.

  parser   xonsh/parsers/base.py   p_subproc_atom_* / p_subproc_arg_* give every atom an action
                                   (`append` / `extend` / …) and `_subproc_cliargs` weaves them into
                                   `[…] + ext + […]`;
  runtime  xonsh/built_ins.py      `list_of_strs_or_callables`, `ensure_str_or_callable` (`@(…)`),
                                   `ensure_list_of_strs`, `list_of_list_of_strs_outer_product` (`a@(x)b`),
                                   `expand_path` / `glob` for bare words and non-raw literals;
  hand-off xonsh/procs/specs.py    `resolve_args_list` (flatten list-valued entries),
                                   `_fix_null_cmd_bytes` (real processes only).

Values are what the source text DENOTES: the Python value of a literal (`PyStr.evalBody`), the text of a
word as the lexer delimits it (tied, not modelled), the Python objects an `@(expr)` evaluates to.
File-system globbing is an oracle (`Cfg.glob`).
-/
import XonshVerif.Model.Expand
namespace Args
open PyStr (Str)

/-- one element met by `@(…)`: a `str`, a `bytes` (with its `os.fsdecode`), anything else (with its `str()`) -/
inductive Item where
  | str (s : Str)
  | bytes (fsdecoded : Str)
  | other (strOf : Str)
  deriving Repr

/-- the value of the expression inside `@(…)` -/
inductive PyVal where
  | one (i : Item)             -- a str / bytes / non-iterable object
  | iter (xs : List Item)      -- any other iterable (list, tuple, generator, …)
  deriving Repr

/-- `ensure_str_or_callable` -/
def Item.ensure : Item → Str
  | .str s => s
  | .bytes d => d
  | .other r => r

/-- `list_of_strs_or_callables` -/
def injectList : PyVal → List Str
  | .one i => [i.ensure]
  | .iter xs => xs.map Item.ensure

/-- a piece of one word (`subproc_arg_part`) -/
inductive Part where
  | text (s : Str)             -- ordinary tokens glued together: their source text
  | inj (v : PyVal)            -- `@(expr)`
  | macroAt (lbBefore : Bool) (s : Str)   -- `@!(text)`: the source text between the parentheses
  deriving Repr

inductive Atom where
  | word (text : Str)                  -- a bare word (all parts are ordinary tokens)
  | lit (raw f : Bool) (value : Str)   -- a string literal standing alone (r / f prefixes); `value` = its Python value
  | inject (v : PyVal)                 -- `@(expr)` standing alone
  | macroAt (lbBefore : Bool) (text : Str)   -- `@!(text)` standing alone (`lbBefore`: see `sourceSlice`)
  | adjacent (parts : List Part)       -- a word with at least one `@(…)` / `@!(…)` part
  deriving Repr

structure Cfg where
  env : Expand.Env
  glob : Str → List Str        -- the file system: sorted matches of an (already expanded) pattern
  /-- does the f-string rule of the running parser put `is_raw` on the node it builds? (translated from
  `FStringRules.p_fstring_expr`; as of this writing it does not, so `fr"…"` is expanded like `f"…"`) -/
  fstrKeepsRaw : Bool
  /-- does `BaseParser.lines` cut the source with `str.splitlines` (translated; as of this writing it does,
  so `_source_slice` stops at the first U+000B/000C/001C-1E/0085/2028/2029 of a line: see `sourceSlice`) -/
  linesCutAtLB : Bool
  /-- does `_append_subproc_bang` append to `.elts` of the argument expression (translated; as of this
  writing it does, so a macro tail after an `extend` atom crashes the parser: see `bangFits`) -/
  bangNeedsList : Bool

/-- Python's `str.isspace` (the characters `str.strip()` removes) -/
def pySpace : List Nat :=
  [9, 10, 11, 12, 13, 28, 29, 30, 31, 32, 133, 160, 5760, 8192, 8193, 8194, 8195, 8196, 8197, 8198, 8199, 8200,
   8201, 8202, 8232, 8233, 8239, 8287, 12288]

def strip (s : Str) : Str :=
  ((s.dropWhile pySpace.contains).reverse.dropWhile pySpace.contains).reverse

/-- the characters at which `str.splitlines` cuts, other than `\n` and `\r` -/
def lbChars : List Nat := [11, 12, 28, 29, 30, 133, 8232, 8233]

def cutAtLB : Str → Str
  | [] => []
  | c :: cs => if lbChars.contains c then [c] else c :: cutAtLB cs

/-- `_source_slice(beg, end)` for a macro text `t` on a ONE-LINE source, as the code is: the parser's `lines`
are the `str.splitlines` pieces of the source while the lexer's line numbers count `\n` only, so the slice
never reaches past the first piece: nothing if a line-boundary character occurs before the text
(`lbBefore`), else the text up to and including its first such character -/
def sourceSlice (lbBefore : Bool) (t : Str) : Str := if lbBefore = true then [] else cutAtLB t

/-- the macro argument: the slice (the whole text when `lines` is cut at `\n` only), stripped -/
def macroArg (c : Cfg) (lbBefore : Bool) (t : Str) : Str :=
  strip (if c.linesCutAtLB = true then sourceSlice lbBefore t else t)

/-- `__xonsh__.glob(s)` = `globpath(s)`: expand, ask the file system, fall back to the expanded pattern -/
def xglob (c : Cfg) (s : Str) : List Str :=
  let s' := Expand.expandPath c.env s
  match c.glob s' with
  | [] => [s']
  | o => o

/-- the character that makes a word a glob pattern (`hasglobstar`, `"*" in s`) -/
def globTrigger : Nat := 42

/-- `itertools.product` (the rightmost factor varies fastest) -/
def product : List (List Str) → List (List Str)
  | [] => [[]]
  | xs :: rest => xs.flatMap (fun x => (product rest).map (x :: ·))

/-- `ensure_list_of_strs` applied to the run-time value of a part -/
def partStrs (c : Cfg) : Part → List Str
  | .text s => [s]
  | .inj v => injectList v
  | .macroAt lb s => [macroArg c lb s]

/-- `list_of_list_of_strs_outer_product` -/
def outerProduct (c : Cfg) (lolos : List (List Str)) : List Str :=
  (product lolos).flatMap (fun los =>
    let s := los.flatten
    if s.contains globTrigger then xglob c s else [Expand.expandPath c.env s])

/-- what the parser's action for each atom evaluates to at run time -/
inductive Act where
  | append (a : Str)
  | extend (xs : List Str)
  deriving Repr

def atomAct (c : Cfg) : Atom → Act
  | .word t => if t.contains globTrigger then .extend (xglob c t) else .append (Expand.expandPath c.env t)
  | .lit raw f v =>
    if raw && (!f || c.fstrKeepsRaw) then .append v            -- `is_raw`: the node itself
    else .append (Expand.expandPath c.env v)
  | .inject v => .extend (injectList v)
  | .macroAt lb t => .append (macroArg c lb t)
  | .adjacent ps => .extend (outerProduct c (ps.map (partStrs c)))

/-- `_subproc_cliargs`: the expression `L0 + L1 + …` under construction as its list of summands,
`open_` = the last summand is the list literal `currlist` still being appended to -/
structure Weave where
  chain : List (List Str)
  open_ : Bool
  deriving Repr

def weaveStep (w : Weave) : Act → Weave
  | .append a =>
    if w.open_ = true then
      match w.chain.reverse with
      | last :: before => ⟨(((last ++ [a]) :: before).reverse), true⟩
      | [] => ⟨[[a]], true⟩
    else ⟨w.chain ++ [[a]], true⟩
  | .extend xs => ⟨w.chain ++ [xs], false⟩

/-- the list the woven expression evaluates to -/
def weave (acts : List Act) : List Str :=
  (acts.foldl weaveStep ⟨[[]], true⟩).chain.flatten

def Act.args : Act → List Str
  | .append a => [a]
  | .extend xs => xs

/-- the text after a subprocess-macro `!` (`_append_subproc_bang`): the source slice, stripped, as
ONE more element of the list -/
def bangArg (c : Cfg) : Option (Bool × Str) → List Str
  | none => []
  | some (lb, t) => [macroArg c lb t]

/-- the argument list of a command: its atoms, then the macro tail if there is one -/
def cliargs (c : Cfg) (atoms : List Atom) (bang : Option (Bool × Str)) : List Str :=
  weave (atoms.map (atomAct c)) ++ bangArg c bang

/-- `_append_subproc_bang` does `p[2][-1].elts.append(node)`: it needs the woven expression to be still the
ONE list literal it started as — true only while no atom was an `extend` (after the first `extend` the
expression is a `BinOp`, which has no `elts`: the parser raises AttributeError) -/
def bangFits (acts : List Act) : Bool :=
  acts.all (fun a => match a with | .append _ => true | .extend _ => false)

/-- one command as the parser + run time treat it: `none` = the parser crashes (see `bangFits`) -/
def command (c : Cfg) (atoms : List Atom) (bang : Option (Bool × Str)) : Option (List Str) :=
  if bang.isSome && c.bangNeedsList && !bangFits (atoms.map (atomAct c)) then none else some (cliargs c atoms bang)

/-- an entry of `spec.cmd` before `resolve_args_list` -/
inductive Entry where
  | s (x : Str)
  | l (xs : List Str)
  deriving Repr

/-- `SubprocSpec.resolve_args_list` (redirect tuples aside): list-valued entries are spliced in -/
def resolveArgsList : List Entry → List Str
  | [] => []
  | .s x :: r => x :: resolveArgsList r
  | .l xs :: r => xs ++ resolveArgsList r

/-- `str.replace(old, new)` for a one-character `old` -/
def replaceChar (old : Nat) (new : Str) : Str → Str
  | [] => []
  | c :: cs => if c = old then new ++ replaceChar old new cs else c :: replaceChar old new cs

/-- `_fix_null_cmd_bytes`: `"\0"` becomes backslash, zero -/
def fixNull (s : Str) : Str := replaceChar 0 [92, 48] s

/-- what a callable alias receives (`spec.cmd` without the alias name) -/
def aliasArgv (args : List Str) : List Str := resolveArgsList (args.map .s)

/-- what `Popen` is given for a real process -/
def popenArgv (args : List Str) : List Str := (resolveArgsList (args.map .s)).map fixNull

/-! ### `@$(cmd)`: the captured output is re-split line by line (`subproc_captured_inject`)

`o.splitlines()`, then `Lexer.split(line)` for every line, the results concatenated.  The lexer is not modelled:
`split` is an abstract per-line splitter (the harness supplies what the session's own `Lexer.split` answers for
each line); what IS modelled is the contract that the lexer only ever sees ONE line at a time, so nothing can
reach across a line end (a trailing backslash cannot continue a line, indentation of one line cannot
influence the next). -/

/-- the characters at which `str.splitlines` ends a line -/
def isLineEnd (c : Nat) : Bool := c == 10 || c == 13 || lbChars.contains c

/-- Python `str.splitlines()`; `cur` = the current line reversed, `prevCR` = the previous character was `\r` -/
def splitlinesGo : Str → Str → Bool → List Str
  | [], cur, _ => if cur = [] then [] else [cur.reverse]
  | c :: cs, cur, prevCR =>
    if c = 10 ∧ prevCR = true then splitlinesGo cs cur false          -- the `\n` of a `\r\n`
    else if isLineEnd c = true then cur.reverse :: splitlinesGo cs [] (c == 13)
    else splitlinesGo cs (c :: cur) false

def pySplitlines (s : Str) : List Str := splitlinesGo s [] false

/-- `subproc_captured_inject` on the captured text `out` -/
def capturedInject (split : Str → List Str) (out : Str) : List Str :=
  (pySplitlines out).flatMap split

end Args
