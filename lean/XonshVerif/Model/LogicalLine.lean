/-
C03 — logical lines (xonsh/tools.py `get_logical_line`, `replace_logical_line`, and the two character scanners they
consult: `_ends_with_line_continuation`, `_have_open_triple_quotes`).  Hand-written, executable, import-free.
Lines are `List Char` without newlines.  The walk functions take the scanners as parameters (`Scan`), so the theorems
hold for ANY scanners; `pyScan` is the faithful transcription of the real ones (ASCII identifiers), used by the driver.
-/
namespace LogicalLine

abbrev Line := List Char

structure Scan where
  cont : Line → Bool      -- _ends_with_line_continuation(line, "\\")
  open3 : Line → Bool     -- bool(_have_open_triple_quotes(s))

/-- `"\n".join(lines)` -/
def joinNl : List Line → Line
  | [] => []
  | [l] => l
  | l :: ls => l ++ '\n' :: joinNl ls

/-- the test of the backward walk at `idx = k+1`: does physical line `k` continue into line `k+1`? -/
def backTest (sc : Scan) (ls : List Line) (k : Nat) : Bool :=
  sc.cont (ls.getD k []) || sc.open3 (joinNl (ls.take (k + 1)))

/-- `while idx > 0: if <backTest>: idx -= 1; continue … break` -/
def backStart (sc : Scan) (ls : List Line) : Nat → Nat
  | 0 => 0
  | i + 1 => if backTest sc ls i then backStart sc ls i else i + 1

/-- the test of the forward walk on the ACCUMULATED line -/
def joins (sc : Scan) (line : Line) : Bool := sc.cont line || sc.open3 line

/-- one forward step: a continuation drops the backslash, an open triple quote keeps the newline -/
def stepLine (sc : Scan) (line l : Line) : Line :=
  if sc.cont line then line.dropLast ++ l else line ++ '\n' :: l

def fwd (sc : Scan) : Line → List Line → Nat → Line × Nat
  | line, [], n => (line, n)
  | line, l :: rest, n => if joins sc line then fwd sc (stepLine sc line l) rest (n + 1) else (line, n)

/-- `get_logical_line(lines, idx)` = (line, n, start); defined for `idx < len(lines)` (the execer checks this) -/
def getLogical (sc : Scan) (ls : List Line) (idx : Nat) : Line × Nat × Nat :=
  let start := backStart sc ls idx
  let r := fwd sc (ls.getD start []) (ls.drop (start + 1)) 1
  (r.1, r.2, start)

-- replace_logical_line --------------------------------------------------------------------------

def findSpaceFrom : Line → Nat → Nat → Option Nat
  | [], _, _ => none
  | c :: cs, 0, pos => if c == ' ' then some pos else findSpaceFrom cs 0 (pos + 1)
  | _ :: cs, k + 1, pos => findSpaceFrom cs k (pos + 1)

/-- `logical.find(" ", a - 1)` including Python's rule for a negative start -/
def pyFind (logical : Line) (a : Nat) : Option Nat :=
  if a = 0 then findSpaceFrom logical (logical.length - 1) 0 else findSpaceFrom logical (a - 1) 0

/-- the loop of replace_logical_line over the lengths of the first n-1 physical lines: the pieces the logical line is cut
into (flag: the continuation character is appended), and what is left for the last physical line -/
def pieces : List Nat → Line → List (Line × Bool) × Line
  | [], logical => ([], logical)
  | a :: as, logical =>
    match pyFind logical a with
    | none => let r := pieces as []; ((logical, false) :: r.1, r.2)
    | some b => let r := pieces as (logical.drop b); ((logical.take b, true) :: r.1, r.2)

def renderPiece : Line × Bool → Line
  | (p, true) => p ++ ['\\']
  | (p, false) => p

/-- `replace_logical_line(lines, logical, idx, n)`; `none` where Python raises IndexError (n ≥ 1 as in every call) -/
def replaceLogical (ls : List Line) (logical : Line) (idx n : Nat) : Option (List Line) :=
  if n = 0 then none
  else if n = 1 then (if idx < ls.length then some (ls.set idx logical) else none)
  else if logical.contains '\n' then some (ls.take idx ++ [logical] ++ ls.drop (idx + n))
  else if idx + n ≤ ls.length then
    let r := pieces (((ls.drop idx).take (n - 1)).map List.length) logical
    some (ls.take idx ++ r.1.map renderPiece ++ [r.2] ++ ls.drop (idx + n))
  else none

-- the real scanners ------------------------------------------------------------------------------

/-- `_ends_with_line_continuation(line, "\\")`: state = (active quote, triple?, escape pending) -/
def contScan : Line → Option Char → Bool → Bool → Bool
  | [], _, _, _ => true
  | c :: rest, none, _, _ =>
    if c == '#' then false
    else if c == '\'' || c == '"' then
      match hr : rest with
      | c2 :: c3 :: rest' => if c2 == c && c3 == c then contScan rest' (some c) true false else contScan rest (some c) false false
      | _ => contScan rest (some c) false false
    else contScan rest none false false
  | c :: rest, some q, triple, esc =>
    if esc then contScan rest (some q) triple false
    else if c == '\\' then contScan rest (some q) triple true
    else if triple then
      match hr : rest with
      | c2 :: c3 :: rest' => if c == q && c2 == q && c3 == q then contScan rest' none false false else contScan rest (some q) triple false
      | _ => contScan rest (some q) triple false
    else if c == q then contScan rest none false false
    else contScan rest (some q) triple false
termination_by l => l.length
decreasing_by
  all_goals simp_wf
  all_goals (try subst hr)
  all_goals (first | omega | (simp; omega) | simp)

def endsCont (line : Line) : Bool :=
  match line.getLast? with
  | some '\\' => contScan line.dropLast none false false
  | _ => false

def isPrefixChar (c : Char) : Bool := "rRbBuUfF".toList.contains c
def isIdentChar (c : Char) : Bool := c.isAlphanum || c == '_'

/-- is the literal opening here raw?  `before` = the characters before the quote, nearest first -/
def rawPrefix (before : List Char) : Bool :=
  let p := (before.take 2).takeWhile isPrefixChar
  let rest := before.drop p.length
  let raw := p.any (fun c => c == 'r' || c == 'R')
  if p.isEmpty then false
  else match rest with
    | c :: _ => if isIdentChar c then false else raw
    | [] => raw

inductive Mode where
  | normal
  | comment
  | single (q : Char) (raw esc : Bool)
  | triple (q : Char) (raw esc : Bool)

/-- `_have_open_triple_quotes(s)`: one pass; `bef` = everything already consumed, nearest first (for the prefix look-back) -/
def open3Go : Line → List Char → Mode → Option Char
  | [], _, .triple q _ _ => some q
  | [], _, _ => none
  | c :: rest, bef, .comment =>
    if c == '\n' then open3Go rest (c :: bef) .normal else open3Go rest (c :: bef) .comment
  | c :: rest, bef, .normal =>
    if c == '#' then open3Go rest (c :: bef) .comment
    else if c == '\'' || c == '"' then
      match hr : rest with
      | c2 :: c3 :: rest' =>
        if c2 == c && c3 == c then open3Go rest' (c3 :: c2 :: c :: bef) (.triple c (rawPrefix bef) false)
        else open3Go rest (c :: bef) (.single c (rawPrefix bef) false)
      | _ => open3Go rest (c :: bef) (.single c (rawPrefix bef) false)
    else open3Go rest (c :: bef) .normal
  | c :: rest, bef, .single q raw esc =>
    if esc then open3Go rest (c :: bef) (.single q raw false)
    else if c == '\n' then open3Go rest (c :: bef) .normal
    else if !raw && c == '\\' then open3Go rest (c :: bef) (.single q raw true)
    else if c == q then open3Go rest (c :: bef) .normal
    else open3Go rest (c :: bef) (.single q raw false)
  | c :: rest, bef, .triple q raw esc =>
    if esc then open3Go rest (c :: bef) (.triple q raw false)
    else if !raw && c == '\\' && !rest.isEmpty then open3Go rest (c :: bef) (.triple q raw true)
    else
      match hr : rest with
      | c2 :: c3 :: rest' =>
        if c == q && c2 == q && c3 == q then open3Go rest' (c3 :: c2 :: c :: bef) .normal
        else open3Go rest (c :: bef) (.triple q raw false)
      | _ => open3Go rest (c :: bef) (.triple q raw false)
termination_by l => l.length
decreasing_by
  all_goals simp_wf
  all_goals (try subst hr)
  all_goals (first | omega | (simp; omega) | simp)

def openTriple (s : Line) : Option Char := open3Go s [] .normal

/-- the real scanners -/
def pyScan : Scan := { cont := endsCont, open3 := fun s => (openTriple s).isSome }

end LogicalLine
