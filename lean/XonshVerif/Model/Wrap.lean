/-
C03 — the wrap operation at the end of `subproc_toks` (xonsh/tools.py): given the first collected token's offset `beg`
and the raw end offset `e0` (last token's offset + end_offset), the line becomes
    line[:beg] + "![" + line[beg:end] + "]" + line[end:]      with  end = len(line[:e0].rstrip()).
Hand-written, executable, import-free; Python slice semantics (out-of-range and crossing indices) included.
-/
namespace Wrap

abbrev Line := List Char

/-- white space for `str.rstrip()` (the ASCII part and the common Unicode blanks) -/
def isSpace (c : Char) : Bool :=
  c == ' ' || c == '\t' || c == '\n' || c == '\r' || c == '\x0b' || c == '\x0c'
    || c == '\x1c' || c == '\x1d' || c == '\x1e' || c == '\x1f' || c == '\u0085' || c == ' '
    || c == ' ' || c == ' ' || c == '　'

/-- `len(l.rstrip())` -/
def rstripLen (l : Line) : Nat := (l.reverse.dropWhile isSpace).length

def endOf (line : Line) (e0 : Nat) : Nat := rstripLen (line.take e0)

/-- `subproc_toks(..., returnline=True)`'s last five lines -/
def wrap (line : Line) (beg e0 : Nat) : Line :=
  let en := endOf line e0
  line.take beg ++ ['!', '['] ++ (line.take en).drop beg ++ [']'] ++ line.drop en

/-- `returnline=False` -/
def wrapOnly (line : Line) (beg e0 : Nat) : Line :=
  ['!', '['] ++ (line.take (endOf line e0)).drop beg ++ [']']

/-- remove the three inserted characters again: `![` at `beg`, `]` at `en + 2` -/
def erase (w : Line) (beg en : Nat) : Line :=
  w.take beg ++ (w.drop (beg + 2)).take (en - beg) ++ w.drop (en + 3)

/-- a token occupies `[pos, pos+len)` -/
structure Tok where
  pos : Nat
  len : Nat
  deriving Repr

def Tok.stop (t : Tok) : Nat := t.pos + t.len

/-- tokens in source order, not overlapping -/
def Sorted : List Tok → Prop
  | [] => True
  | [_] => True
  | a :: b :: rest => a.stop ≤ b.pos ∧ Sorted (b :: rest)

end Wrap
