/-
C12 — the self-indexing JSON writer `_to_json_with_size` of xonsh/lib/lazyjson.py.
Hand-written, executable, import-free.  Leaves carry the text `json.dumps` produced for them
(strings, numbers, true/false/null): the theorems hold for ANY leaf texts.
-/
namespace LJ

abbrev Str := List Char

inductive J where
  | leaf (text : Str)
  | arr (xs : List J)
  | obj (kvs : List (Str × J))      -- keys by their json.dumps text
  deriving Repr, Inhabited

/-- the `offsets` / `sizes` structures: an int for a leaf; for a container one entry per child plus
the container's own number (`[-1]` of the list, `"__total__"` of the dict) -/
inductive Idx where
  | leaf (n : Nat)
  | arr (xs : List Idx) (total : Nat)
  | obj (kvs : List (Str × Idx)) (total : Nat)
  deriving Repr, Inhabited, BEq

structure Out where
  text : Str
  offs : Idx
  n : Nat
  sizes : Idx
  deriving Repr, Inhabited

def sep : Str := [',', ' ']
def kvSep : Str := [':', ' ']

/-- `if s.endswith(", "): s = s[:-2]` for a body made of `x ++ ", "` pieces -/
def stripSep (body : Str) : Str := if body.isEmpty then body else body.take (body.length - 2)

mutual
/-- `_to_json_with_size(obj, offset)` -/
def ser : J → Nat → Out
  | .leaf t, off => ⟨t, .leaf off, t.length, .leaf t.length⟩
  | .arr xs, off =>
    let r := serList xs (off + 1)
    let s := '[' :: stripSep r.1 ++ [']', '\n']
    ⟨s, .arr r.2.1 off, s.length, .arr r.2.2 s.length⟩
  | .obj kvs, off =>
    let r := serKvs kvs (off + 1)
    let s := '{' :: stripSep r.1 ++ ['}', '\n']
    ⟨s, .obj r.2.1 off, s.length, .obj r.2.2 s.length⟩
/-- the loop over a sequence: body text (every element followed by ", "), offsets, sizes -/
def serList : List J → Nat → Str × List Idx × List Idx
  | [], _ => ([], [], [])
  | x :: xs, j =>
    let o := ser x j
    let r := serList xs (j + o.n + 2)
    (o.text ++ sep ++ r.1, o.offs :: r.2.1, o.sizes :: r.2.2)
/-- the loop over a mapping: `key: value, ` pieces -/
def serKvs : List (Str × J) → Nat → Str × List (Str × Idx) × List (Str × Idx)
  | [], _ => ([], [], [])
  | (k, v) :: kvs, j =>
    let o := ser v (j + k.length + 2)
    let r := serKvs kvs (j + k.length + 2 + o.n + 2)
    (k ++ kvSep ++ o.text ++ sep ++ r.1, (k, o.offs) :: r.2.1, (k, o.sizes) :: r.2.2)
end

/-- `text[off : off + size]` -/
def slice (s : Str) (off size : Nat) : Str := (s.drop off).take size

/-- the offset a node's index entry records for the node itself -/
def Idx.self : Idx → Nat
  | .leaf n => n
  | .arr _ t => t
  | .obj _ t => t

end LJ
