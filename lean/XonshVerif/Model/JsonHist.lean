/-
C12 — the buffer / file machine of `JsonHistory` (xonsh/history/json.py): `append`, `flush`, the FIFO
of flusher threads (each carrying a snapshot of the buffer), `__len__`, `JsonCommandField.__getitem__`.
Hand-written, executable, import-free.  A flusher is one atomic step (`flusherRuns`): the code
serialises them with a queue + condition variable, the interleaving with the session thread is the
schedule the theorems quantify over.
-/
namespace JsonHist

structure Cmd where
  inp : Nat          -- the command text (abstract)
  rtn : Nat          -- return code
  spc : Bool         -- typed with a leading space
  deriving DecidableEq, Repr, Inhabited

structure Cfg where
  bufsize : Nat
  ignoredups : Bool
  ignoreerr : Bool
  ignorespace : Bool
  deriving DecidableEq, Repr, Inhabited

structure St where
  file : List Cmd              -- the session's commands on disk
  buffer : List Cmd
  len : Nat                    -- `_len`
  skipped : Nat                -- `_skipped`
  queue : List (List Cmd)      -- pending flushers, front first, each with its buffer snapshot
  deriving DecidableEq, Repr, Inhabited

def init : St := ⟨[], [], 0, 0, []⟩

/-- the filter `JsonHistoryFlusher.dump` applies to ITS snapshot (`last_inp` starts at None for every
dump, so duplicates are only recognised inside one snapshot) -/
def dumpFilter (c : Cfg) : List Cmd → Option Nat → List Cmd
  | [], _ => []
  | x :: xs, last =>
    if c.ignoredups && last == some x.inp then dumpFilter c xs last
    else if c.ignoreerr && x.rtn != 0 then dumpFilter c xs last
    else x :: dumpFilter c xs (some x.inp)

def size (s : St) : Nat := s.len - s.skipped

/-- `JsonHistory.flush` (not at exit): a new flusher takes the buffer -/
def flush (s : St) : St :=
  if s.buffer.isEmpty then s else { s with queue := s.queue ++ [s.buffer], buffer := [] }

/-- `JsonHistory.append` -/
def append (c : Cfg) (s : St) (x : Cmd) : St :=
  if c.ignorespace && x.spc then s
  else
    let s1 := { s with buffer := s.buffer ++ [x], len := s.len + 1 }
    if s1.buffer.length ≥ c.bufsize then flush s1 else s1

/-- the flusher at the front of the queue runs `dump` -/
def flusherRuns (c : Cfg) (s : St) : St :=
  match s.queue with
  | [] => s
  | snap :: rest =>
    let kept := dumpFilter c snap none
    { s with file := s.file ++ kept, skipped := s.skipped + (snap.length - kept.length), queue := rest }

def drain (c : Cfg) (s : St) : St := s.queue.foldl (fun st _ => flusherRuns c st) s

inductive Read where
  | val (x : Cmd)
  | indexError
  deriving DecidableEq, Repr

/-- `hist.inps[i]` for `0 ≤ i`: `size` is computed FIRST, then a file read waits for the queue -/
def readIdx (c : Cfg) (s : St) (i : Nat) : St × Read :=
  let sz := size s
  if sz = 0 ∨ i ≥ sz then (s, .indexError)          -- (Python: "is empty" / the buffer or file lookup fails)
  else
    let bufsize := s.buffer.length
    if sz - bufsize ≤ i then
      match s.buffer[i + bufsize - sz]? with
      | some x => (s, .val x)
      | none => (s, .indexError)
    else
      let s' := drain c s
      match s'.file[i]? with
      | some x => (s', .val x)
      | none => (s', .indexError)

inductive Op where
  | append (x : Cmd)
  | flush
  | flusherRuns
  | read (i : Nat)
  deriving Repr

def step (c : Cfg) (s : St) : Op → St × Option Read
  | .append x => (append c s x, none)
  | .flush => (flush s, none)
  | .flusherRuns => (flusherRuns c s, none)
  | .read i => let (s', r) := readIdx c s i; (s', some r)

def run (c : Cfg) (s : St) : List Op → St
  | [] => s
  | op :: rest => run c (step c s op).1 rest

/-- everything the session will have recorded once all pending flushers have run, in order -/
def contents (c : Cfg) (s : St) : List Cmd :=
  s.file ++ (s.queue.flatMap (fun snap => dumpFilter c snap none)) ++ s.buffer

/-- the accounting invariant between `_len`, `_skipped`, the file, the queue and the buffer -/
def HInv (s : St) : Prop :=
  s.len = s.file.length + s.skipped + (s.queue.map List.length).sum + s.buffer.length

end JsonHist
