/-
Model of xonsh's output-capture path (C06).  Import-free.

Three protocol models and one table:

* `Capture.QReader` — xonsh/procs/readers.py `QueueReader` / `populate_fd_queue`: a producer thread copies the pipe into
  a queue in chunks and then raises `closed`; a consumer polls the queue and finally drains it until `is_fully_read`.
  Small-step semantics at the granularity of single Python statements; a schedule is a list of thread ids.
* `Capture.MemBuf` — xonsh/procs/posix.py `PopenThread._alt_mode_writer` (tell / seek END / write / seek back, under the
  writer's own lock) against the unlocked `BytesIO.readlines` of `CommandPipeline.iterraw`: ONE shared file position.
* `Capture.Shape` — xonsh/procs/pipelines.py `tee_stdout` (per-fragment CRLF/CR fix, decode, `RE_HIDE_ESCAPE`),
  the `$()` path of `iterraw` (join, decode, universal newlines, `str.splitlines`) and `get_formatted_lines`.
* `Capture.Rtn` — xonsh/procs/proxies.py `parse_proxy_return` and "the pipeline's return code is the last stage's".

Bytes and code points are `Nat`s.
-/
namespace Capture

/-! ## bytes.splitlines(keepends=True) — what `QueueReader.readlines` applies to every chunk -/

/-- `bytes.splitlines(keepends=True)`: break after `\n`, after `\r\n`, after a lone `\r`; `cur` is the line being built
(reversed). -/
def splitLinesAux : List Nat → List Nat → List (List Nat)
  | [], cur => if cur.isEmpty then [] else [cur.reverse]
  | 13 :: 10 :: rest, cur => (10 :: 13 :: cur).reverse :: splitLinesAux rest []
  | 13 :: rest, cur => (13 :: cur).reverse :: splitLinesAux rest []
  | 10 :: rest, cur => (10 :: cur).reverse :: splitLinesAux rest []
  | b :: rest, cur => splitLinesAux rest (b :: cur)

def splitLinesB (b : List Nat) : List (List Nat) := splitLinesAux b []

/-! ## A. the queue reader -/
namespace QReader

/-- program counter of `populate_fd_queue` -/
inductive PPc where
  | reading                      -- about to `os.read(fd, 1024)`
  | putting (c : List Nat)       -- holds a non-empty chunk, about to `queue.put(c)`
  | closing                      -- saw EOF, about to `reader.closed = True`
  | exiting                      -- about to return (thread stops being alive)
  | dead
  deriving Repr, DecidableEq

/-- program counter of the consumer: `poll` = the non-blocking phase (`readlines(hint)`, `read_queue` in a loop driven by
somebody else); `chk1..chk3` = the three reads of `is_fully_read` (`closed`, `thread.is_alive()`, `queue.empty()`), `rd` = the
`read_queue()` of the blocking loops `_read_all_lines` / `iterqueue`; `done` = the loop left because `is_fully_read()` -/
inductive CPc where
  | poll | chk1 | chk2 | chk3 | rd | done
  deriving Repr, DecidableEq

structure St where
  unread : List (List Nat)       -- what the following `os.read` calls will return (the writer's chunking cut at 1024), then EOF
  ppc : PPc
  queue : List (List Nat)
  closed : Bool
  alive : Bool
  cpc : CPc
  frags : List (List Nat)        -- what the consumer handed on so far (`chunk.splitlines(keepends=True)` of every chunk)
  deriving Repr

def init (chunks : List (List Nat)) : St :=
  { unread := chunks, ppc := .reading, queue := [], closed := false, alive := true, cpc := .poll, frags := [] }

/-- thread ids of a schedule: `P` producer, `C` consumer, `D` = the consumer's driver decides that the process is over and
starts the final blocking drain (`safe_readlines(stdout)` / `_read_all`) -/
inductive Tid where
  | P | C | D
  deriving Repr, DecidableEq

def stepP (s : St) : St :=
  match s.ppc with
  | .reading =>
    match s.unread with
    | [] => { s with ppc := .closing }
    | c :: rest => if c.isEmpty then { s with ppc := .closing } else { s with unread := rest, ppc := .putting c }
  | .putting c => { s with queue := s.queue ++ [c], ppc := .reading }
  | .closing => { s with closed := true, ppc := .exiting }
  | .exiting => { s with alive := false, ppc := .dead }
  | .dead => s

/-- `read_queue()` with a timeout: the head of the queue, or `b""` -/
def pop (s : St) : St :=
  match s.queue with
  | [] => s
  | c :: q => { s with queue := q, frags := s.frags ++ splitLinesB c }

def stepC (s : St) : St :=
  match s.cpc with
  | .poll => pop s
  | .chk1 => if s.closed then { s with cpc := .chk2 } else { s with cpc := .rd }
  | .chk2 => if s.alive then { s with cpc := .rd } else { s with cpc := .chk3 }
  | .chk3 => if s.queue.isEmpty then { s with cpc := .done } else { s with cpc := .rd }
  | .rd => { pop s with cpc := .chk1 }
  | .done => s

def stepD (s : St) : St :=
  match s.cpc with
  | .poll => { s with cpc := .chk1 }
  | _ => s

def step (s : St) : Tid → St
  | .P => stepP s
  | .C => stepC s
  | .D => stepD s

def run (s : St) : List Tid → St
  | [] => s
  | t :: ts => run (step s t) ts

/-- the bytes handed on -/
def St.collected (s : St) : List Nat := s.frags.flatten

/-! the same consumer-side methods as whole operations, for the correspondence with the real class -/

/-- `is_fully_read()` -/
def isFullyRead (s : St) : Bool := s.closed && !s.alive && s.queue.isEmpty

/-- `readlines(hint)` for `hint ≥ 0`: pop chunks while fewer than `hint` lines were gathered; returns the lines -/
def readlinesHint (hint : Nat) : Nat → St → List (List Nat) → St × List (List Nat)
  | 0, s, acc => (s, acc)
  | fuel + 1, s, acc =>
    if acc.length < hint then
      match s.queue with
      | [] => (s, acc)
      | c :: q => readlinesHint hint fuel { s with queue := q } (acc ++ splitLinesB c)
    else (s, acc)

/-- `read(size)` (`size < 0` ↦ `none`): pop chunks until `size` bytes are there, the queue is empty or `is_fully_read()` -/
def readSize (size : Option Nat) : Nat → St → List Nat → St × List Nat
  | 0, s, acc => (s, acc)
  | fuel + 1, s, acc =>
    if (match size with | none => true | some n => decide (acc.length < n)) && !isFullyRead s then
      match s.queue with
      | [] => (s, acc)
      | c :: q => readSize size fuel { s with queue := q } (acc ++ c)
    else (s, acc)

/-- `readline(size)`: as `read` but also stops after a chunk that ends with `\n` -/
def readlineSize (size : Option Nat) : Nat → St → List Nat → St × List Nat
  | 0, s, acc => (s, acc)
  | fuel + 1, s, acc =>
    if (match size with | none => true | some n => decide (acc.length < n)) && !isFullyRead s then
      match s.queue with
      | [] => (s, acc)
      | c :: q =>
        if c.getLast? = some 10 then ({ s with queue := q }, acc ++ c)
        else readlineSize size fuel { s with queue := q } (acc ++ c)
    else (s, acc)

end QReader

/-! ## B. the in-memory buffer of `PopenThread` -/
namespace MemBuf

/-- writer program counter inside `_alt_mode_writer` (one call per chunk) -/
inductive WPc where
  | idle
  | told (p : Nat)      -- after `p = membuf.tell()`
  | atEnd (p : Nat)     -- after `membuf.seek(0, io.SEEK_END)`
  | written (p : Nat)   -- after `membuf.write(chunk)`, before `membuf.seek(p)`
  deriving Repr, DecidableEq

structure St where
  buf : List Nat
  pos : Nat                      -- THE file position of the BytesIO (shared by both threads)
  wpc : WPc
  todo : List (List Nat)         -- chunks still to be written (the head is the one in flight)
  delivered : List Nat           -- what `readlines` returned to `iterraw` so far
  deriving Repr

def init (chunks : List (List Nat)) : St := { buf := [], pos := 0, wpc := .idle, todo := chunks, delivered := [] }

/-- `W` = the writer thread executes its next statement; `R k` = the main thread executes one `readlines` that returns (up
to) the next `k` bytes after the position (the `hint` and the line structure decide `k`; every `k` is allowed) -/
inductive Ev where
  | W | R (k : Nat)
  deriving Repr, DecidableEq

/-- `BytesIO.write(c)` at position `pos` (overwrites what is there, extends at the end) -/
def writeAt (buf : List Nat) (pos : Nat) (c : List Nat) : List Nat :=
  buf.take pos ++ c ++ buf.drop (pos + c.length)

def stepW (s : St) : St :=
  match s.wpc with
  | .idle =>
    match s.todo with
    | [] => s
    | _ :: _ => { s with wpc := .told s.pos }
  | .told p => { s with pos := s.buf.length, wpc := .atEnd p }
  | .atEnd p =>
    match s.todo with
    | [] => { s with wpc := .idle }
    | c :: _ => { s with buf := writeAt s.buf s.pos c, pos := s.pos + c.length, wpc := .written p }
  | .written p => { s with pos := p, todo := s.todo.tail, wpc := .idle }

def stepR (s : St) (k : Nat) : St :=
  let d := (s.buf.drop s.pos).take k
  { s with delivered := s.delivered ++ d, pos := s.pos + d.length }

/-- `locked = true` is the repaired reader that takes the writer's lock around `readlines`: while the writer is inside
`_alt_mode_writer` the reader waits (its event is skipped) -/
def step (locked : Bool) (s : St) : Ev → St
  | .W => stepW s
  | .R k => if locked && s.wpc != .idle then s else stepR s k

def run (locked : Bool) (s : St) : List Ev → St
  | [] => s
  | e :: es => run locked (step locked s e) es

/-- a read lands in the window between `tell()` and `seek(0, END)` -/
def inWindow (s : St) : Ev → Bool
  | .R _ => match s.wpc with | .told _ => true | _ => false
  | .W => false

/-- no read of the schedule lands in the window -/
def tame (locked : Bool) (s : St) : List Ev → Bool
  | [] => true
  | e :: es => !(inWindow s e && !locked) && tame locked (step locked s e) es

/-- everything the reader got after the final blocking `readlines()` -/
def final (s : St) : List Nat := s.delivered ++ s.buf.drop s.pos

end MemBuf

/-! ## C. shaping -/
namespace Shape

/-- `tee_stdout`: a fragment that ends in `\r\n` or `\r` gets `\n` instead -/
def fixEnd (f : List Nat) : List Nat :=
  match f.reverse with
  | 10 :: 13 :: r => (10 :: r).reverse
  | 13 :: r => (10 :: r).reverse
  | _ => f

def isCont (b : Nat) : Bool := 128 ≤ b && b ≤ 191

/-- `bytes.decode("utf-8", "surrogateescape")`: a byte that does not start a well-formed sequence becomes U+DC00+byte;
`fuel` = number of bytes (every step consumes at least one) -/
def decodeF : Nat → List Nat → List Nat
  | 0, _ => []
  | _, [] => []
  | fuel + 1, b :: rest =>
    if b < 128 then b :: decodeF fuel rest
    else if 194 ≤ b && b ≤ 223 then
      match rest with
      | c :: rest' => if isCont c then ((b - 192) * 64 + (c - 128)) :: decodeF fuel rest' else (56320 + b) :: decodeF fuel rest
      | [] => (56320 + b) :: decodeF fuel rest
    else if 224 ≤ b && b ≤ 239 then
      match rest with
      | c :: d :: rest' =>
        if isCont c && isCont d && (b != 224 || 160 ≤ c) && (b != 237 || c ≤ 159) then
          ((b - 224) * 4096 + (c - 128) * 64 + (d - 128)) :: decodeF fuel rest'
        else (56320 + b) :: decodeF fuel rest
      | _ => (56320 + b) :: decodeF fuel rest
    else if 240 ≤ b && b ≤ 244 then
      match rest with
      | c :: d :: e :: rest' =>
        if isCont c && isCont d && isCont e && (b != 240 || 144 ≤ c) && (b != 244 || c ≤ 143) then
          ((b - 240) * 262144 + (c - 128) * 4096 + (d - 128) * 64 + (e - 128)) :: decodeF fuel rest'
        else (56320 + b) :: decodeF fuel rest
      | _ => (56320 + b) :: decodeF fuel rest
    else (56320 + b) :: decodeF fuel rest

def decodeU8 (l : List Nat) : List Nat := decodeF l.length l

/-! `RE_HIDE_ESCAPE = (\001.*?\002)|((\u009b|\u001b\[)[0-?]*[ -\/]*[@-~])` applied with `.sub("", line)` -/

/-- `\001.*?\002` right after the `\001`: the rest after the first `\002`, provided no `\n` comes before it -/
def hiddenRest : List Nat → Option (List Nat)
  | [] => none
  | 2 :: rest => some rest
  | 10 :: _ => none
  | _ :: rest => hiddenRest rest

def dropWhileP (p : Nat → Bool) : List Nat → List Nat
  | [] => []
  | c :: rest => if p c then dropWhileP p rest else c :: rest

/-- `[0-?]*[ -\/]*[@-~]` after the CSI introducer (the three classes are disjoint, so greedy matching never backtracks) -/
def csiRest (l : List Nat) : Option (List Nat) :=
  match dropWhileP (fun c => 32 ≤ c && c ≤ 47) (dropWhileP (fun c => 48 ≤ c && c ≤ 63) l) with
  | c :: rest => if 64 ≤ c && c ≤ 126 then some rest else none
  | [] => none

/-- a match of `RE_HIDE_ESCAPE` at the head of the text: what follows it -/
def matchAt : List Nat → Option (List Nat)
  | 1 :: rest =>
    match hiddenRest rest with
    | some r => some r
    | none => none
  | 155 :: rest => csiRest rest
  | 27 :: 91 :: rest => csiRest rest
  | _ => none

/-- `RE_HIDE_ESCAPE.sub("", text)`; `fuel` = length of the text (every match is non-empty) -/
def stripEscF : Nat → List Nat → List Nat
  | 0, l => l
  | _, [] => []
  | fuel + 1, c :: rest =>
    match matchAt (c :: rest) with
    | some r => stripEscF fuel r
    | none => c :: stripEscF fuel rest

def stripEsc (l : List Nat) : List Nat := stripEscF l.length l

/-- what `tee_stdout` appends to `lines` for one raw fragment -/
def shapeFrag (f : List Nat) : List Nat := stripEsc (decodeU8 (fixEnd f))

/-- `line.rstrip("\n")` -/
def rstripNL (l : List Nat) : List Nat := (l.reverse.dropWhile (· == 10)).reverse

/-- `get_formatted_lines` for the default `stream_lines` format -/
def fmtLines (lines : List (List Nat)) : List Nat :=
  match lines with
  | [l] => rstripNL l
  | _ => lines.flatten

/-- `!(…)`: `lines`, `.out`, `.raw_out` from the raw fragments `iterraw` yielded -/
def objLines (frags : List (List Nat)) : List (List Nat) := frags.map shapeFrag
def objOut (frags : List (List Nat)) : List Nat := fmtLines (objLines frags)
def objRaw (frags : List (List Nat)) : List Nat := frags.flatten

/-- `s.replace("\r\n", "\n").replace("\r", "\n")` -/
def normNL : List Nat → List Nat
  | [] => []
  | 13 :: 10 :: rest => 10 :: normNL rest
  | 13 :: rest => 10 :: normNL rest
  | c :: rest => c :: normNL rest

def isStrBreak (c : Nat) : Bool :=
  c == 10 || c == 13 || c == 11 || c == 12 || c == 28 || c == 29 || c == 30 || c == 133 || c == 8232 || c == 8233

/-- `str.splitlines(keepends=True)` on a text without `\r` (it was normalised before) -/
def strSplitAux : List Nat → List Nat → List (List Nat)
  | [], cur => if cur.isEmpty then [] else [cur.reverse]
  | c :: rest, cur => if isStrBreak c then (c :: cur).reverse :: strSplitAux rest [] else strSplitAux rest (c :: cur)

def strSplitLines (t : List Nat) : List (List Nat) := strSplitAux t []

/-- `$(…)`: the whole captured byte string is decoded, normalised, split and formatted -/
def stdoutLines (b : List Nat) : List (List Nat) := strSplitLines (normNL (decodeU8 b))
def stdoutOut (b : List Nat) : List Nat := fmtLines (stdoutLines b)

/-- the line iteration of `io.BytesIO.readlines()` (what `iterraw` gets from a `PopenThread`'s buffer): break after `\n` only -/
def linesLFAux : List Nat → List Nat → List (List Nat)
  | [], cur => if cur.isEmpty then [] else [cur.reverse]
  | b :: rest, cur => if b = 10 then (b :: cur).reverse :: linesLFAux rest [] else linesLFAux rest (b :: cur)

def linesLF (b : List Nat) : List (List Nat) := linesLFAux b []

/-- a fragmentation into whole lines: every fragment but the last is `…\n` with no other `\n`; the last is non-empty and has
no `\n` except possibly at its end -/
def LFAligned : List (List Nat) → Prop
  | [] => True
  | [f] => f ≠ [] ∧ ∀ x ∈ f.dropLast, x ≠ 10
  | f :: g :: rest => (∃ pre, f = pre ++ [10] ∧ ∀ x ∈ pre, x ≠ 10) ∧ LFAligned (g :: rest)

/-- plain text: printable ASCII and `\n` -/
def plainB (b : Nat) : Bool := (32 ≤ b && b ≤ 126) || b == 10

/-! ### the property's text: only CR/CRLF→LF and escape stripping may separate a text view from the bytes -/

def canon (t : List Nat) : List Nat := stripEsc (normNL t)

/-- the text the command wrote, in normal form -/
def specText (b : List Nat) : List Nat := canon (decodeU8 b)

/-- one line: no `\n` except possibly as the very last character -/
def oneLine (t : List Nat) : Bool := !(t.dropLast.contains 10)

def dropFinalNL (t : List Nat) : List Nat := if t.getLast? = some 10 then t.dropLast else t

/-- `$()`: equal to the text modulo the two normalisations, and a one-line text has lost its final newline -/
def specStdout (b view : List Nat) : Bool :=
  let t := specText b
  canon view == (if oneLine t then dropFinalNL t else t)

/-- `.out` / joined iteration of `!()`: equal to the text modulo the two normalisations; a one-line text may have lost its
final newline (the statement pins that down for `$()` only) -/
def specObjOut (b view : List Nat) : Bool :=
  let t := specText b
  canon view == t || (oneLine t && canon view == dropFinalNL t)

/-- iteration yields the text itself (no final newline is dropped) -/
def specIter (b : List Nat) (lines : List (List Nat)) : Bool := canon lines.flatten == specText b

/-- `.raw_out`: the bytes -/
def specRaw (b raw : List Nat) : Bool := raw == b

end Shape

/-! ## the `output` view over a history of reads (xonsh/procs/pipelines.py `CommandPipeline.output`, `.out`, `str()`, `==`) -/
namespace Hist
open Shape

/-- `lines` grows while `tee_stdout` runs, `ended` flips once, `_output` caches the formatted text -/
structure St where
  ended : Bool
  cache : Option (List Nat)
  lines : List (List Nat)
  deriving Repr

def init : St := { ended := false, cache := none, lines := [] }

/-- `deliver l` = tee_stdout appends one shaped line (nothing arrives after the end); `finish` = `_end` sets `ended`;
`read` = the `output` property (which `.out`, `str()` and `==` return after `end()`) -/
inductive Op where
  | deliver (l : List Nat) | finish | read
  deriving Repr

/-- `stale = false` is the code as it is: the cache is filled only once the pipeline has ended.  `stale = true` caches whatever
an early read computed and keeps it after the end (what a careless "simplification" of the property does). -/
def step (stale : Bool) (s : St) : Op → St × Option (List Nat)
  | .deliver l => if s.ended then (s, none) else ({ s with lines := s.lines ++ [l] }, none)
  | .finish => ({ s with ended := true }, none)
  | .read =>
    if stale then
      if s.cache.isNone || !s.ended then
        let v := fmtLines s.lines
        ({ s with cache := some v }, some v)
      else (s, s.cache)
    else if s.ended then
      match s.cache with
      | some v => (s, some v)
      | none => let v := fmtLines s.lines; ({ s with cache := some v }, some v)
    else (s, some (fmtLines s.lines))

/-- the values returned by the reads of a history, each paired with `ended` at that moment -/
def run (stale : Bool) (s : St) : List Op → List (Bool × List Nat)
  | [] => []
  | op :: ops =>
    match step stale s op with
    | (s', some v) => (s.ended, v) :: run stale s' ops
    | (s', none) => run stale s' ops

/-- the lines a history delivers before its first `finish` (later `deliver`s are ignored by the machine, as by the code) -/
def delivered : Bool → List Op → List (List Nat)
  | _, [] => []
  | true, _ :: ops => delivered true ops
  | false, .deliver l :: ops => l :: delivered false ops
  | false, .finish :: ops => delivered true ops
  | false, .read :: ops => delivered false ops

end Hist

/-! ## return code -/
namespace Rtn

/-- what a callable alias may return, as far as `parse_proxy_return` distinguishes -/
inductive AliasRet where
  | none | int (n : Int) | str | tuple (rc : Option Int) | other
  | exit (code : Option Int) (truthy : Bool)   -- `SystemExit(code)`; a non-int code counts as `bool(code)`
  | raised                                      -- any other exception
  deriving Repr

/-- `parse_proxy_return` + the `except` clauses of `ProcProxyThread.run` / `ProcProxy.wait` -/
def aliasRc : AliasRet → Int
  | .none => 0
  | .int n => n
  | .str => 0
  | .tuple (some rc) => rc
  | .tuple none => 0
  | .other => 0
  | .exit (some c) _ => c
  | .exit none t => if t then 1 else 0
  | .raised => 1

inductive Stage where
  | proc (exitStatus : Int)      -- an external process: `Popen.returncode`
  | alias (r : AliasRet)
  deriving Repr

def stageRc : Stage → Int
  | .proc e => e
  | .alias r => aliasRc r

/-- `CommandPipeline.returncode`: `self.proc = self.procs[-1]`; `1` when nothing could be started -/
def pipelineRc (stages : List Stage) : Int :=
  match stages.getLast? with
  | some s => stageRc s
  | none => 1

def pipestatus (stages : List Stage) : List Int := stages.map stageRc

end Rtn
end Capture
