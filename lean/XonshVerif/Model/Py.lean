/-
Python primitives shared by every translated (`Gen/`) and hand-written (`Model/`) definition.
Import-free on purpose: everything here can be linked into the `xvdriver` executable.
-/
namespace Py

/-- `for x in xs: body` with `break`.  `.error s` is `break` carrying the loop-carried
locals `s`; `.ok s` is falling off the end of the body (or `continue`). Structural recursion. -/
def loopBreak {α σ : Type} : List α → σ → (α → σ → Except σ σ) → σ
  | [], s, _ => s
  | x :: xs, s, body =>
    match body x s with
    | .error s' => s'
    | .ok s' => loopBreak xs s' body

/-- Python `xs[:k]` for an arbitrary integer `k` (negative counts from the end, clamps). -/
def sliceTo {α : Type} (xs : List α) (k : Int) : List α :=
  if k ≥ 0 then xs.take k.toNat else xs.take (xs.length - (-k).toNat)

/-- Python `xs[k:]`. -/
def sliceFrom {α : Type} (xs : List α) (k : Int) : List α :=
  if k ≥ 0 then xs.drop k.toNat else xs.drop (xs.length - (-k).toNat)

/-- Python `xs[i]` where the caller has established the index is in range; out of range
(which Python reports as `IndexError`) yields `default` and is never relied upon by a theorem. -/
def idx {α : Type} [Inhabited α] (xs : List α) (i : Int) : α :=
  if i ≥ 0 then xs.getD i.toNat default else xs.getD (xs.length - (-i).toNat) default

def len {α : Type} (xs : List α) : Int := (xs.length : Int)

theorem sliceTo_neg_zero {α : Type} (xs : List α) : sliceTo xs (-(0:Int)) = [] := by
  simp [sliceTo]

theorem sliceTo_nonneg {α : Type} (xs : List α) (k : Nat) : sliceTo xs (k : Int) = xs.take k := by
  simp [sliceTo]

theorem sliceTo_negSucc {α : Type} (xs : List α) (k : Nat) (h : 0 < k) :
    sliceTo xs (-(k : Int)) = xs.take (xs.length - k) := by
  unfold sliceTo
  have h1 : ¬ (-(k:Int) ≥ 0) := by omega
  rw [if_neg h1]
  simp

/-- termination helper: a strictly stronger filter (that drops at least one element) is strictly shorter -/
theorem filter_length_lt {α} (p q : α → Bool) (l : List α) (hpq : ∀ x, p x = true → q x = true)
    (hex : ∃ x ∈ l, q x = true ∧ p x = false) : (l.filter p).length < (l.filter q).length := by
  induction l with
  | nil => obtain ⟨x, hx, _⟩ := hex; cases hx
  | cons a l ih =>
    have hle : ∀ l : List α, (l.filter p).length ≤ (l.filter q).length := by
      intro l
      induction l with
      | nil => simp
      | cons b l ihl =>
        simp only [List.filter_cons]
        cases hp : p b <;> cases hq : q b <;> simp <;> try omega
        have := hpq b hp; simp [hq] at this
    obtain ⟨x, hx, hqx, hpx⟩ := hex
    simp only [List.filter_cons]
    rcases List.mem_cons.mp hx with rfl | hx'
    · simp [hqx, hpx]; have := hle l; omega
    · have := ih ⟨x, hx', hqx, hpx⟩
      cases hp : p a <;> cases hq : q a <;> simp <;> try omega
      have := hpq a hp; simp [hq] at this


end Py
