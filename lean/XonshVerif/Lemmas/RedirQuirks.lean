/-
C07 helper lemmas, part 3: one stage of TODAY's model (all seven deviations present) outside the deviation regions.
(model only — no generated tables)
-/
import XonshVerif.Lemmas.Redir
set_option linter.unusedSimpArgs false
set_option linter.unusedVariables false
namespace Redir

/-- is an external command run threadable under a capturing form? (callable aliases: see `unthreadedAlias`) -/
def procThreadable (cfg : Cfg) : Kind → Bool
  | .proc pred => cfg.thread && pred
  | .alias _ => true

/-- the spec `cmds_to_specs` ends with for one stage (position class form) -/
def finalSpecP (q : Quirks) (cfg : Cfg) (cap : Cap) (p : Pos) (built : Spec) : Option Spec :=
  ((inAtP p built).bind (outAtP p)).bind (finAtP q cfg cap p)

/-- no integer handle reaches `safe_readable` on this (last) spec -/
def noCrash (q : Quirks) (cap : Cap) (last : Bool) (s : Spec) : Bool :=
  !crashBefore q s && !(last && crashAfter q cap s)

/-- OUTSIDE THE DEVIATION REGIONS: no `o>e`; no unthreaded callable alias; a callable alias is not the last stage of an
uncaptured `$[ ]`; the last stage under `!( )` is threadable -/
def Outside (cfg : Cfg) (cap : Cap) (last : Bool) (kind : Kind) (sout : Option Slot) : Prop :=
  sout ≠ some .fd2 ∧ unthreadedAlias cfg kind = false ∧
  (last = true → cap = .uncaptured → isAlias kind = false) ∧
  (last = true → cap = .object → procThreadable cfg kind = true)

set_option maxRecDepth 4000 in
set_option maxHeartbeats 4000000 in
/-- ONE STAGE of today's model outside the deviation regions: exactly the documented routing, and no crash -/
theorem core_current (cfg : Cfg) (cap : Cap) (first last : Bool) (idx : Nat) (kind : Kind)
    (sin sout serr : Option Slot) (hin : UserIn sin) (hout : UserOut sout) (herr : UserErr serr)
    (hinv : sout = some .pipeAll → serr = some .toStdout) (hR : Outside cfg cap last kind sout) :
    Matches (modelStageP Quirks.current cfg cap ⟨first, last, idx⟩ (mkBuilt cfg kind sin sout serr))
      (specCoreB cfg cap first last idx kind (sout.toList.map claimOfOutSlot) (serr.toList.map claimOfErrSlot)
        (sin.toList.map slotTarget)) ∧
    (finalSpecP Quirks.current cfg cap ⟨first, last, idx⟩ (mkBuilt cfg kind sin sout serr)).all
      (noCrash Quirks.current cap last) = true := by
  obtain ⟨h1, h2, h3, h4⟩ := hR
  obtain ⟨thread, always, printErr⟩ := cfg
  cases kind with
  | proc b =>
    rcases hin with _ | ⟨ti⟩ <;> rcases hout with _ | ⟨to, ao⟩ | _ | _ <;> rcases herr with _ | ⟨te, ae⟩ | _ | _ <;>
      (try cases ao) <;> (try cases ae) <;> cases b <;> cases first <;> cases last <;> cases thread <;> cases cap <;>
      first
        | exact absurd rfl h1
        | (have := h4 rfl rfl; simp [procThreadable] at this; done)
        | exact ⟨rfl, rfl⟩
        | exact ⟨trivial, rfl⟩
        | (exfalso; simp at hinv; done)
        | (cases always <;> first | exact ⟨rfl, rfl⟩ | exact ⟨trivial, rfl⟩)
  | alias b =>
    have hb : b = true ∧ thread = true := by
      cases b <;> cases thread <;> simp [unthreadedAlias] at h2 ⊢
    obtain ⟨rfl, rfl⟩ := hb
    rcases hin with _ | ⟨ti⟩ <;> rcases hout with _ | ⟨to, ao⟩ | _ | _ <;> rcases herr with _ | ⟨te, ae⟩ | _ | _ <;>
      (try cases ao) <;> (try cases ae) <;> cases first <;> cases last <;> cases cap <;>
      first
        | exact absurd rfl h1
        | (have := h3 rfl rfl; simp [isAlias] at this; done)
        | exact ⟨rfl, rfl⟩
        | exact ⟨trivial, rfl⟩
        | (exfalso; simp at hinv; done)

end Redir
