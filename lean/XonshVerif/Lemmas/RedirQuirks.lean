/-
C07 helper lemmas, part 3: ONE STAGE, assembled from the slices of the exhaustive case analysis
(Lemmas/RedirF*.lean: the repaired model; Lemmas/RedirC*.lean: the pinned snapshot's model outside the deviation regions).
(model only — no generated tables)
-/
import XonshVerif.Lemmas.Redir
import XonshVerif.Lemmas.RedirFProcLast
import XonshVerif.Lemmas.RedirFProcInner
import XonshVerif.Lemmas.RedirFAliasLast
import XonshVerif.Lemmas.RedirFAliasInner
import XonshVerif.Lemmas.RedirCProcFL
import XonshVerif.Lemmas.RedirCProcFI
import XonshVerif.Lemmas.RedirCProcNL
import XonshVerif.Lemmas.RedirCProcNI
import XonshVerif.Lemmas.RedirCAlias
set_option linter.unusedSimpArgs false
set_option linter.unusedVariables false
namespace Redir

/-- ONE STAGE, every shape of its slots, every kind, position class, capture form and configuration: the repaired model
delivers exactly what the documentation says (and fails exactly when the documentation says error) -/
theorem core_fixed (cfg : Cfg) (cap : Cap) (first last : Bool) (idx : Nat) (kind : Kind)
    (sin sout serr : Option Slot) (hin : UserIn sin) (hout : UserOut sout) (herr : UserErr serr)
    (hinv : sout = some .pipeAll → serr = some .toStdout) :
    Matches (modelStageP Quirks.fixed cfg cap ⟨first, last, idx⟩ (mkBuilt cfg kind sin sout serr))
      (specCoreB cfg cap first last idx kind (sout.toList.map claimOfOutSlot) (serr.toList.map claimOfErrSlot)
        (sin.toList.map slotTarget)) := by
  cases kind with
  | proc b =>
    cases last
    · exact core_fixed_proc_inner cfg cap first idx b sin sout serr hin hout herr hinv
    · exact core_fixed_proc_last cfg cap first idx b sin sout serr hin hout herr hinv
  | alias b =>
    cases last
    · exact core_fixed_alias_inner cfg cap first idx b sin sout serr hin hout herr hinv
    · exact core_fixed_alias_last cfg cap first idx b sin sout serr hin hout herr hinv

/-- ONE STAGE of the pinned snapshot's model (all seven deviations) outside the deviation regions: exactly the documented routing, and no crash -/
theorem core_current (cfg : Cfg) (cap : Cap) (first last : Bool) (idx : Nat) (kind : Kind)
    (sin sout serr : Option Slot) (hin : UserIn sin) (hout : UserOut sout) (herr : UserErr serr)
    (hinv : sout = some .pipeAll → serr = some .toStdout) (hR : Outside cfg cap last kind sout) :
    Matches (modelStageP Quirks.current cfg cap ⟨first, last, idx⟩ (mkBuilt cfg kind sin sout serr))
      (specCoreB cfg cap first last idx kind (sout.toList.map claimOfOutSlot) (serr.toList.map claimOfErrSlot)
        (sin.toList.map slotTarget)) ∧
    (finalSpecP Quirks.current cfg cap ⟨first, last, idx⟩ (mkBuilt cfg kind sin sout serr)).all
      (noCrash Quirks.current cap last) = true := by
  cases kind with
  | alias b => exact core_current_alias cfg cap first last idx b sin sout serr hin hout herr hinv hR
  | proc b =>
    cases first <;> cases last
    · exact core_current_proc_ni cfg cap idx b sin sout serr hin hout herr hinv hR
    · exact core_current_proc_nl cfg cap idx b sin sout serr hin hout herr hinv hR
    · exact core_current_proc_fi cfg cap idx b sin sout serr hin hout herr hinv hR
    · exact core_current_proc_fl cfg cap idx b sin sout serr hin hout herr hinv hR

end Redir
