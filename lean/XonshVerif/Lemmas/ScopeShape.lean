/-
Helper lemmas for C02 (C02_scope_pop, C02_del_returns): what a statement can ADD to the context stack.
`topAdds s` = names it may record in the context it runs in, `globAdds s` = names of `global` statements anywhere inside it.
Everything else only shrinks (ctxremove) — in particular whatever a def / class body records in its own context is gone
after the pop.
-/
import XonshVerif.Lemmas.ScopeWalk
namespace Scope

mutual
  def globAdds : Stmt → List Name
    | .global_ _ xs => xs
    | .fdef _ _ _ _ body _ => globAddsL body
    | .cdef _ _ _ body _ => globAddsL body
    | .for_ _ _ _ body orelse => globAddsL body ++ globAddsL orelse
    | .while_ _ _ body orelse => globAddsL body ++ globAddsL orelse
    | .if_ _ _ body orelse => globAddsL body ++ globAddsL orelse
    | .with_ _ _ _ body => globAddsL body
    | .try_ _ body hs orelse final => globAddsL body ++ (globAddsH hs ++ (globAddsL orelse ++ globAddsL final))
    | _ => []
  def globAddsL : Stmts → List Name
    | .nil => []
    | .cons s ss => globAdds s ++ globAddsL ss
  def globAddsH : Handlers → List Name
    | .nil => []
    | .cons _ _ _ body rest => globAddsL body ++ globAddsH rest
end

/-- what visiting a statement's own expressions may record: walrus targets (reached by generic_visit, or all of them in the repaired variant) -/
def exprAdds (es : Exprs) : List Name := allWL es ++ wAnyL es

mutual
  def topAdds : Stmt → List Name
    | .expr _ e => allW e
    | .assign _ tgts v => exprAdds (one v) ++ (assignAdds tgts ++ tNamesL tgts)
    | .annassign _ t ann v => exprAdds (.cons ann v) ++ (lmName t ++ tBinds t)
    | .augassign _ _ v => exprAdds (one v)
    | .imp _ items => impAdds Fixes.all items
    | .impFrom _ items => impAdds Fixes.all items
    | .fdef _ f _ dfl _ decos => f :: allWL (dfl.append decos)
    | .cdef _ cn bases _ decos => cn :: allWL (bases.append decos)
    | .for_ _ tgt iter body orelse => exprAdds (one iter) ++ (tNames tgt ++ (topAddsL body ++ topAddsL orelse))
    | .while_ _ test body orelse => exprAdds (one test) ++ (topAddsL body ++ topAddsL orelse)
    | .if_ _ test body orelse => exprAdds (one test) ++ (topAddsL body ++ topAddsL orelse)
    | .with_ _ ctxs tgts body => exprAdds ctxs ++ (tNamesL tgts ++ topAddsL body)
    | .try_ _ body hs orelse final => hs.names ++ (topAddsL body ++ (topAddsH hs ++ (topAddsL orelse ++ topAddsL final)))
    | .global_ _ _ => []
    | .del _ _ _ => []
    | .ret _ v => exprAdds v
    | .pass _ => []
  def topAddsL : Stmts → List Name
    | .nil => []
    | .cons s ss => topAdds s ++ topAddsL ss
  def topAddsH : Handlers → List Name
    | .nil => []
    | .cons _ ty nm body rest => exprAdds ty ++ (optName nm ++ (topAddsL body ++ topAddsH rest))
end

/-- levels below the current one: only `global` names may appear -/
def LowL (G : List Name) : List (List Name) → List (List Name) → Prop
  | [], [] => True
  | l' :: ls', l :: ls => (∀ x ∈ l', x ∈ l ∨ x ∈ G) ∧ LowL G ls' ls
  | _, _ => False

def ShapeL (T G : List Name) : List (List Name) → List (List Name) → Prop
  | l' :: ls', l :: ls => (∀ x ∈ l', x ∈ l ∨ x ∈ T ∨ x ∈ G) ∧ LowL G ls' ls
  | _, _ => False

/-- the contexts c' arose from c by recording names of T in the current context, names of G in any context, and by removals -/
structure Shape (T G : List Name) (c' c : Ctxs) : Prop where
  base : ∀ x ∈ c'.base, x ∈ c.base
  lv : ShapeL T G c'.levels c.levels

theorem LowL_refl (G : List Name) : ∀ ls : List (List Name), LowL G ls ls
  | [] => trivial
  | _ :: ls => ⟨fun _ hx => Or.inl hx, LowL_refl G ls⟩

theorem LowL_trans {G1 G2 : List Name} : ∀ {a b c : List (List Name)}, LowL G1 b a → LowL G2 c b → LowL (G1 ++ G2) c a
  | [], [], [], _, _ => trivial
  | _ :: a, _ :: b, _ :: c, h1, h2 =>
    ⟨fun x hx => by
      rcases h2.1 x hx with h | h
      · rcases h1.1 x h with h' | h'
        · exact Or.inl h'
        · exact Or.inr (List.mem_append.mpr (Or.inl h'))
      · exact Or.inr (List.mem_append.mpr (Or.inr h)), LowL_trans h1.2 h2.2⟩
  | [], _ :: _, _, h1, _ => by simp [LowL] at h1
  | _ :: _, [], _, h1, _ => by simp [LowL] at h1
  | _, [], _ :: _, _, h2 => by simp [LowL] at h2
  | _, _ :: _, [], _, h2 => by simp [LowL] at h2

theorem LowL_mono {G G' : List Name} (hG : ∀ x ∈ G, x ∈ G') : ∀ {a b : List (List Name)}, LowL G b a → LowL G' b a
  | [], [], _ => trivial
  | _ :: a, _ :: b, h => ⟨fun x hx => (h.1 x hx).imp id (hG x), LowL_mono hG h.2⟩
  | [], _ :: _, h => by simp [LowL] at h
  | _ :: _, [], h => by simp [LowL] at h

theorem Shape.refl (c : Ctxs) : Shape [] [] c c := by
  refine ⟨fun _ h => h, ?_⟩
  cases hl : c.levels with
  | nil => exact absurd hl (levels_ne_nil c)
  | cons l ls => exact ⟨fun _ hx => Or.inl hx, LowL_refl _ ls⟩

theorem Shape.trans {T1 G1 T2 G2 : List Name} {c0 c1 c2 : Ctxs} (h1 : Shape T1 G1 c1 c0) (h2 : Shape T2 G2 c2 c1) :
    Shape (T1 ++ T2) (G1 ++ G2) c2 c0 := by
  refine ⟨fun x hx => h1.base x (h2.base x hx), ?_⟩
  have a := h1.lv
  have b := h2.lv
  cases h0 : c0.levels with
  | nil => exact absurd h0 (levels_ne_nil c0)
  | cons l0 ls0 =>
    cases h1' : c1.levels with
    | nil => exact absurd h1' (levels_ne_nil c1)
    | cons l1 ls1 =>
      cases h2' : c2.levels with
      | nil => exact absurd h2' (levels_ne_nil c2)
      | cons l2 ls2 =>
        rw [h0, h1'] at a
        rw [h1', h2'] at b
        refine ⟨fun x hx => ?_, LowL_trans a.2 b.2⟩
        rcases b.1 x hx with h | h | h
        · rcases a.1 x h with h' | h' | h'
          · exact Or.inl h'
          · exact Or.inr (Or.inl (List.mem_append.mpr (Or.inl h')))
          · exact Or.inr (Or.inr (List.mem_append.mpr (Or.inl h')))
        · exact Or.inr (Or.inl (List.mem_append.mpr (Or.inr h)))
        · exact Or.inr (Or.inr (List.mem_append.mpr (Or.inr h)))

theorem Shape.mono {T G T' G' : List Name} {c' c : Ctxs} (h : Shape T G c' c) (hT : ∀ x ∈ T, x ∈ T') (hG : ∀ x ∈ G, x ∈ G') :
    Shape T' G' c' c := by
  refine ⟨h.base, ?_⟩
  have a := h.lv
  cases h0 : c.levels with
  | nil => exact absurd h0 (levels_ne_nil c)
  | cons l ls =>
    cases h1 : c'.levels with
    | nil => exact absurd h1 (levels_ne_nil c')
    | cons l' ls' =>
      rw [h0, h1] at a
      exact ⟨fun x hx => (a.1 x hx).imp id (fun h => h.imp (hT x) (hG x)), LowL_mono hG a.2⟩

theorem Shape.addTop (c : Ctxs) (xs : List Name) : Shape xs [] (c.addTop xs) c := by
  refine ⟨by rw [base_addTop]; exact fun _ h => h, ?_⟩
  rw [levels_addTop]
  cases hl : c.levels with
  | nil => exact absurd hl (levels_ne_nil c)
  | cons l ls =>
    refine ⟨fun x hx => ?_, LowL_refl _ ls⟩
    rcases List.mem_append.mp hx with h | h
    · exact Or.inr (Or.inl h)
    · exact Or.inl h

theorem Shape.preW (env : Env) (c : Ctxs) (ws : List Name) : Shape ws [] (preW env c ws) c := by
  unfold Scope.preW; split
  · exact Shape.addTop c ws
  · exact (Shape.refl c).mono (fun _ h => by simp at h) (fun _ h => h)

theorem LowL_bindLast (G : List Name) : ∀ (inner : List (List Name)) (g : List Name), LowL G (inner ++ [G ++ g]) (inner ++ [g])
  | [], g => ⟨fun x hx => by
      rcases List.mem_append.mp hx with h | h
      · exact Or.inr h
      · exact Or.inl h, trivial⟩
  | t :: r, g => ⟨fun _ hx => Or.inl hx, LowL_bindLast G r g⟩

theorem Shape.addGlob (c : Ctxs) (xs : List Name) : Shape [] xs (c.addGlob xs) c := by
  obtain ⟨b, g, i⟩ := c
  refine ⟨fun _ h => h, ?_⟩
  simp only [Ctxs.addGlob, Ctxs.levels]
  cases i with
  | nil =>
    refine ⟨fun x hx => ?_, trivial⟩
    rcases List.mem_append.mp hx with h | h
    · exact Or.inr (Or.inr h)
    · exact Or.inl h
  | cons t r => exact ⟨fun _ hx => Or.inl hx, LowL_bindLast xs r g⟩

theorem LowL_filter_last (x : Name) : ∀ (inner : List (List Name)) (g : List Name),
    LowL [] (inner ++ [g.filter (· != x)]) (inner ++ [g])
  | [], g => ⟨fun y hy => Or.inl (mem_filter_ne.mp hy).1, trivial⟩
  | t :: r, g => ⟨fun _ hx => Or.inl hx, LowL_filter_last x r g⟩

theorem LowL_removeInner (x : Name) (g : List Name) : ∀ (inner inner' : List (List Name)),
    removeInner inner x = some inner' → LowL [] (inner' ++ [g]) (inner ++ [g])
  | [], _, h => by simp [removeInner] at h
  | t :: r, inner', h => by
    simp only [removeInner] at h
    split at h
    · simp at h; subst h
      exact ⟨fun y hy => Or.inl (mem_filter_ne.mp hy).1, LowL_refl _ _⟩
    · split at h
      · rename_i r' hr
        simp at h; subst h
        exact ⟨fun _ hx => Or.inl hx, LowL_removeInner x g r r' hr⟩
      · simp at h

theorem LowL_to_ShapeL {G : List Name} {a b : List (List Name)} (h : LowL G b a) (hne : a ≠ []) : ShapeL [] G b a := by
  cases a with
  | nil => exact absurd rfl hne
  | cons l ls =>
    cases b with
    | nil => simp [LowL] at h
    | cons l' ls' => exact ⟨fun x hx => (h.1 x hx).imp id Or.inr, h.2⟩

theorem Shape.remove (env : Env) (c : Ctxs) (x : Name) : Shape [] [] (c.remove env x) c := by
  obtain ⟨b, g, i⟩ := c
  simp only [Ctxs.remove]
  split
  · rename_i inner' hr
    exact ⟨fun _ h => h, LowL_to_ShapeL (LowL_removeInner x g i inner' hr) (levels_ne_nil _)⟩
  · split
    · split
      · exact ⟨fun y hy => (mem_filter_ne.mp hy).1, LowL_to_ShapeL (LowL_filter_last x i g) (levels_ne_nil _)⟩
      · exact ⟨fun _ h => h, LowL_to_ShapeL (LowL_filter_last x i g) (levels_ne_nil _)⟩
    · split
      · split
        · exact Shape.refl _
        · exact ⟨fun y hy => (mem_filter_ne.mp hy).1, (Shape.refl (Ctxs.mk b g i)).lv⟩
      · exact Shape.refl _

theorem Shape.removeAll (env : Env) : ∀ (xs : List Name) (c : Ctxs), Shape [] [] (c.removeAll env xs) c
  | [], c => Shape.refl c
  | x :: xs, c => by
    simp only [Ctxs.removeAll]
    exact ((Shape.remove env c x).trans (Shape.removeAll env xs _)).mono (fun _ h => by simpa using h) (fun _ h => by simpa using h)

theorem Shape.vis {T G : List Name} {c' c : Ctxs} (h : Shape T G c' c) (x : Name) (hx : c'.vis x = true) :
    c.vis x = true ∨ x ∈ T ∨ x ∈ G := by
  rw [vis_iff] at hx
  have a := h.lv
  have lowMem : ∀ {G : List Name} {a b : List (List Name)}, LowL G b a → ∀ l' ∈ b, x ∈ l' → (∃ l ∈ a, x ∈ l) ∨ x ∈ G := by
    intro G a
    induction a with
    | nil => intro b hb l' hl' _; cases b with
      | nil => simp at hl'
      | cons _ _ => simp [LowL] at hb
    | cons l ls ih =>
      intro b hb l' hl' hxl
      cases b with
      | nil => simp at hl'
      | cons l0 ls0 =>
        rcases List.mem_cons.mp hl' with e | e
        · subst e
          rcases hb.1 x hxl with h | h
          · exact Or.inl ⟨l, List.mem_cons_self .., h⟩
          · exact Or.inr h
        · rcases ih hb.2 l' e hxl with ⟨l1, h1, h2⟩ | h
          · exact Or.inl ⟨l1, List.mem_cons_of_mem _ h1, h2⟩
          · exact Or.inr h
  have inLevels : (∃ l ∈ c'.levels, x ∈ l) ∨ x ∈ c'.base := by
    rcases hx with ⟨l, hl, hxl⟩ | hx | hx
    · exact Or.inl ⟨l, by simp [Ctxs.levels, hl], hxl⟩
    · exact Or.inl ⟨c'.glob, by simp [Ctxs.levels], hx⟩
    · exact Or.inr hx
  have back : (∃ l ∈ c.levels, x ∈ l) → c.vis x = true := by
    rintro ⟨l, hl, hxl⟩
    rw [vis_iff]
    simp only [Ctxs.levels, List.mem_append, List.mem_singleton] at hl
    rcases hl with hl | hl
    · exact Or.inl ⟨l, hl, hxl⟩
    · subst hl; exact Or.inr (Or.inl hxl)
  rcases inLevels with ⟨l', hl', hxl⟩ | hb
  · cases h0 : c.levels with
    | nil => exact absurd h0 (levels_ne_nil c)
    | cons l ls =>
      cases h1 : c'.levels with
      | nil => exact absurd h1 (levels_ne_nil c')
      | cons l0 ls0 =>
        rw [h0, h1] at a
        rw [h1] at hl'
        rcases List.mem_cons.mp hl' with e | e
        · subst e
          rcases a.1 x hxl with h | h | h
          · exact Or.inl (back ⟨l, by simp [h0], h⟩)
          · exact Or.inr (Or.inl h)
          · exact Or.inr (Or.inr h)
        · rcases lowMem a.2 l' e hxl with ⟨l1, h1', h2⟩ | h
          · exact Or.inl (back ⟨l1, by simp [h0, h1'], h2⟩)
          · exact Or.inr (Or.inr h)
  · left; rw [vis_iff]; exact Or.inr (Or.inr (h.base x hb))

/-- leaving a scope: what the body did to its own context is gone -/
theorem Shape.scope {T G : List Name} {c0 c1' : Ctxs} (ps : List Name) (h : Shape T G c1' (c0.push.addTop ps)) :
    Shape [] G c1'.pop c0 := by
  obtain ⟨b0, g0, i0⟩ := c0
  obtain ⟨b1, g1, i1⟩ := c1'
  have a := h.lv
  simp only [Ctxs.push, Ctxs.addTop, Ctxs.levels, List.cons_append] at a
  refine ⟨h.base, ?_⟩
  cases i1 with
  | nil =>
    simp only [Ctxs.levels, List.nil_append] at a
    have := a.2
    cases i0 <;> simp [LowL] at this
  | cons t r =>
    simp only [Ctxs.levels, List.cons_append] at a
    simp only [Ctxs.pop, Ctxs.levels, List.tail_cons]
    exact LowL_to_ShapeL a.2 (by simp)

end Scope

namespace Scope

theorem shape_header (env : Env) (c : Ctxs) (es : Exprs) (ws ys : List Name) (hws : ws = allWL es) :
    Shape (exprAdds es ++ ys) [] (xEs env [] ((preW env c ws).addTop ys) es).2 c := by
  subst hws
  rw [xEs_ctx]
  have h := ((Shape.preW env c (allWL es)).trans (Shape.addTop _ ys)).trans (Shape.addTop _ (vWL env.fx.lam env.fx.comp [] es))
  refine h.mono ?_ (fun _ hx => by simpa using hx)
  intro x hx
  simp only [exprAdds, List.mem_append] at hx ⊢
  rcases hx with (h | h) | h
  · exact Or.inl (Or.inl h)
  · exact Or.inr h
  · exact Or.inl (Or.inr (vWL_sub_wAnyL _ _ es [] x h))

theorem impAdds_sub (fx : Fixes) : ∀ (items : List ImpItem) (x : Name), x ∈ impAdds fx items → x ∈ impAdds Fixes.all items
  | [], x, hx => by simp [impAdds] at hx
  | it :: r, x, hx => by
    have hall : Fixes.all.dotted = true := rfl
    simp only [impAdds, List.mem_append] at hx ⊢
    rcases hx with h | h
    · left
      cases ha : it.asname with
      | some n => simpa [ha] using h
      | none =>
        simp only [ha] at h ⊢
        by_cases hd : it.dotted = true
        · simp only [hd, if_true, hall] at h ⊢
          split at h
          · exact h
          · simp at h
        · simpa [hd] using h
    · exact Or.inr (impAdds_sub fx r x h)

theorem Shape.seq {T1 G1 T2 G2 : List Name} {c0 c1 c2 : Ctxs} (h1 : Shape T1 G1 c1 c0) (h2 : Shape T2 G2 c2 c1) :
    Shape (T1 ++ T2) (G1 ++ G2) c2 c0 := h1.trans h2

mutual
theorem runS_shape (env : Env) : ∀ (s : Stmt) (st : St), Shape (topAdds s) (globAdds s) (runS env st s).2.c st.c
  | .expr _ e, st => by
    simp only [runS, topAdds, globAdds]
    exact Shape.preW env st.c (allW e)
  | .assign _ tgts v, st => by
    simp only [runS, topAdds, globAdds]
    refine (shape_header env st.c (one v) (allW v) _ (allWL_one v).symm).mono ?_ (fun _ h => h)
    intro x hx
    simp only [List.mem_append] at hx ⊢
    split at hx <;> grind
  | .annassign _ t ann v, st => by
    simp only [runS, topAdds, globAdds]
    refine (shape_header env st.c (.cons ann v) _ _ rfl).mono ?_ (fun _ h => h)
    intro x hx
    simp only [List.mem_append] at hx ⊢
    split at hx <;> grind
  | .augassign _ _ v, st => by
    simp only [runS, topAdds, globAdds]
    have := shape_header env st.c (one v) (allW v) [] (allWL_one v).symm
    simpa [addTop_nil] using this
  | .imp _ items, st => by
    simp only [runS, topAdds, globAdds]
    refine (Shape.addTop st.c _).mono ?_ (fun _ h => h)
    exact impAdds_sub env.fx items
  | .impFrom _ items, st => by
    simp only [runS, topAdds, globAdds]
    refine (Shape.addTop st.c _).mono ?_ (fun _ h => h)
    exact impAdds_sub env.fx items
  | .global_ _ xs, st => by
    simp only [runS, topAdds, globAdds]
    exact Shape.addGlob st.c xs
  | .del _ names nested, st => by
    simp only [runS, topAdds, globAdds]
    exact Shape.removeAll env _ st.c
  | .ret _ v, st => by
    simp only [runS, topAdds, globAdds]
    have := shape_header env st.c v (allWL v) [] rfl
    simpa [addTop_nil] using this
  | .pass _, st => by
    simp only [runS, topAdds, globAdds]
    exact Shape.refl st.c
  | .fdef sid f ps dfl body decos, st => by
    simp only [runS, topAdds, globAdds]
    -- entering: walrus pre-pass, the function's name
    have h0 : Shape (f :: allWL (dfl.append decos)) [] ((preW env st.c (allWL (dfl.append decos))).addTop [f]) st.c := by
      refine ((Shape.preW env st.c _).trans (Shape.addTop _ [f])).mono ?_ (fun _ h => by simpa using h)
      intro x hx; simp only [List.mem_append, List.mem_cons, List.mem_singleton] at hx ⊢; grind
    -- inside: parameters, defaults, body, decorators — all in the pushed context
    have h1 := Shape.addTop (((preW env st.c (allWL (dfl.append decos))).addTop [f]).push.addTop ps) (vWL env.fx.lam env.fx.comp [] dfl)
    rw [← xEs_ctx env dfl [] _] at h1
    have hb := runL_shape env body
      { st with c := (xEs env [] (((preW env st.c (allWL (dfl.append decos))).addTop [f]).push.addTop ps) dfl).2,
                s := ((st.s.bind (allWL (dfl.append decos))).bind [f]).push ps,
                g := st.g && gHeader env.fx (dfl.append decos) }
    have h2 := Shape.addTop (runL env
      { st with c := (xEs env [] (((preW env st.c (allWL (dfl.append decos))).addTop [f]).push.addTop ps) dfl).2,
                s := ((st.s.bind (allWL (dfl.append decos))).bind [f]).push ps,
                g := st.g && gHeader env.fx (dfl.append decos) } body).2.c (vWL env.fx.lam env.fx.comp [] decos)
    rw [← xEs_ctx env decos [] _] at h2
    have hin := (h1.trans hb).trans h2
    have hout := Shape.scope ps hin
    exact (h0.trans hout).mono (fun _ h => by simpa using h) (fun _ h => by simpa using h)
  | .cdef sid cn bases body decos, st => by
    simp only [runS, topAdds, globAdds]
    have h0 : Shape (cn :: allWL (bases.append decos)) [] ((preW env st.c (allWL (bases.append decos))).addTop [cn]) st.c := by
      refine ((Shape.preW env st.c _).trans (Shape.addTop _ [cn])).mono ?_ (fun _ h => by simpa using h)
      intro x hx; simp only [List.mem_append, List.mem_cons, List.mem_singleton] at hx ⊢; grind
    have hp : ((preW env st.c (allWL (bases.append decos))).addTop [cn]).push =
        ((preW env st.c (allWL (bases.append decos))).addTop [cn]).push.addTop [] := (addTop_nil _).symm
    have h1 := Shape.addTop (((preW env st.c (allWL (bases.append decos))).addTop [cn]).push.addTop []) (vWL env.fx.lam env.fx.comp [] bases)
    rw [← hp, ← xEs_ctx env bases [] _] at h1
    rw [hp] at h1
    have hb := runL_shape env body
      { st with c := (xEs env [] ((preW env st.c (allWL (bases.append decos))).addTop [cn]).push bases).2,
                s := ((st.s.bind (allWL (bases.append decos))).bind [cn]).push [],
                g := st.g && gHeader env.fx (bases.append decos) }
    have h2 := Shape.addTop (runL env
      { st with c := (xEs env [] ((preW env st.c (allWL (bases.append decos))).addTop [cn]).push bases).2,
                s := ((st.s.bind (allWL (bases.append decos))).bind [cn]).push [],
                g := st.g && gHeader env.fx (bases.append decos) } body).2.c (vWL env.fx.lam env.fx.comp [] decos)
    rw [← xEs_ctx env decos [] _] at h2
    have hin := (h1.trans hb).trans h2
    have hout := Shape.scope [] hin
    exact (h0.trans hout).mono (fun _ h => by simpa using h) (fun _ h => by simpa using h)
  | .for_ sid tgt iter body orelse, st => by
    simp only [runS, topAdds, globAdds]
    have h0 := shape_header env st.c (one iter) (allW iter) (tNames tgt) (allWL_one iter).symm
    have hb := runL_shape env body
      { st with c := (xEs env [] ((preW env st.c (allW iter)).addTop (tNames tgt)) (one iter)).2,
                s := st.s.bind (allW iter ++ tBinds tgt), g := st.g && gExprs env.fx (one iter) }
    have ho := runL_shape env orelse (runL env
      { st with c := (xEs env [] ((preW env st.c (allW iter)).addTop (tNames tgt)) (one iter)).2,
                s := st.s.bind (allW iter ++ tBinds tgt), g := st.g && gExprs env.fx (one iter) } body).2
    refine ((h0.trans hb).trans ho).mono ?_ (fun _ h => by simpa using h)
    intro x hx; simp only [List.mem_append] at hx ⊢; grind
  | .while_ sid test body orelse, st => by
    simp only [runS, topAdds, globAdds]
    have h0 := shape_header env st.c (one test) (allW test) [] (allWL_one test).symm
    simp only [addTop_nil] at h0
    have hb := runL_shape env body
      { st with c := (xEs env [] (preW env st.c (allW test)) (one test)).2,
                s := st.s.bind (allW test), g := st.g && gExprs env.fx (one test) }
    have ho := runL_shape env orelse (runL env
      { st with c := (xEs env [] (preW env st.c (allW test)) (one test)).2,
                s := st.s.bind (allW test), g := st.g && gExprs env.fx (one test) } body).2
    refine ((h0.trans hb).trans ho).mono ?_ (fun _ h => by simpa using h)
    intro x hx; simp only [List.mem_append] at hx ⊢; grind
  | .if_ sid test body orelse, st => by
    simp only [runS, topAdds, globAdds]
    have h0 := shape_header env st.c (one test) (allW test) [] (allWL_one test).symm
    simp only [addTop_nil] at h0
    have hb := runL_shape env body
      { st with c := (xEs env [] (preW env st.c (allW test)) (one test)).2,
                s := st.s.bind (allW test), g := st.g && gExprs env.fx (one test) }
    have ho := runL_shape env orelse (runL env
      { st with c := (xEs env [] (preW env st.c (allW test)) (one test)).2,
                s := st.s.bind (allW test), g := st.g && gExprs env.fx (one test) } body).2
    refine ((h0.trans hb).trans ho).mono ?_ (fun _ h => by simpa using h)
    intro x hx; simp only [List.mem_append] at hx ⊢; grind
  | .with_ sid ctxs tgts body, st => by
    simp only [runS, topAdds, globAdds]
    have h0 := shape_header env st.c ctxs (allWL ctxs) (tNamesL tgts) rfl
    have hb := runL_shape env body
      { st with c := (xEs env [] ((preW env st.c (allWL ctxs)).addTop (tNamesL tgts)) ctxs).2,
                s := st.s.bind (allWL ctxs ++ tBindsL tgts), g := st.g && gExprs env.fx ctxs }
    refine (h0.trans hb).mono ?_ (fun _ h => by simpa using h)
    intro x hx; simp only [List.mem_append] at hx ⊢; grind
  | .try_ sid body hs orelse final, st => by
    simp only [runS, topAdds, globAdds]
    have h0 := Shape.addTop st.c hs.names
    have hb := runL_shape env body { st with c := st.c.addTop hs.names }
    have hh := runH_shape env hs (runL env { st with c := st.c.addTop hs.names } body).2
    have ho := runL_shape env orelse (runH env (runL env { st with c := st.c.addTop hs.names } body).2 hs).2
    have hf := runL_shape env final (runL env (runH env (runL env { st with c := st.c.addTop hs.names } body).2 hs).2 orelse).2
    refine ((((h0.trans hb).trans hh).trans ho).trans hf).mono ?_ ?_
    · intro x hx; simp only [List.mem_append] at hx ⊢; grind
    · intro x hx; simp only [List.mem_append, List.nil_append] at hx ⊢; grind
theorem runL_shape (env : Env) : ∀ (ss : Stmts) (st : St), Shape (topAddsL ss) (globAddsL ss) (runL env st ss).2.c st.c
  | .nil, st => by simp only [runL, topAddsL, globAddsL]; exact Shape.refl st.c
  | .cons s ss, st => by
    simp only [runL, topAddsL, globAddsL]
    exact (runS_shape env s st).trans (runL_shape env ss _)
theorem runH_shape (env : Env) : ∀ (hs : Handlers) (st : St), Shape (topAddsH hs) (globAddsH hs) (runH env st hs).2.c st.c
  | .nil, st => by simp only [runH, topAddsH, globAddsH]; exact Shape.refl st.c
  | .cons sid ty nm body rest, st => by
    simp only [runH, topAddsH, globAddsH]
    have h0 := shape_header env st.c ty (allWL ty) (if env.fx.handler then optName nm else []) rfl
    have hb := runL_shape env body
      { st with c := (xEs env [] ((preW env st.c (allWL ty)).addTop (if env.fx.handler then optName nm else [])) ty).2,
                s := st.s.bind (allWL ty ++ optName nm),
                g := st.g && gExprs env.fx ty && (env.fx.handler || subset (optName nm) st.c.top) }
    have hr := runH_shape env rest (runL env
      { st with c := (xEs env [] ((preW env st.c (allWL ty)).addTop (if env.fx.handler then optName nm else [])) ty).2,
                s := st.s.bind (allWL ty ++ optName nm),
                g := st.g && gExprs env.fx ty && (env.fx.handler || subset (optName nm) st.c.top) } body).2
    refine ((h0.trans hb).trans hr).mono ?_ (fun _ h => by simpa using h)
    intro x hx
    simp only [List.mem_append] at hx ⊢
    split at hx <;> grind
end

end Scope
