/-
C07 helper lemmas: one slice of the exhaustive one-stage case analysis (generated layout: the analysis is cut by stage kind
and position class so that the slices build in parallel; see Lemmas/RedirQuirks.lean for the assembled statements).
-/
import XonshVerif.Lemmas.Redir
set_option linter.unusedSimpArgs false
set_option linter.unusedVariables false
namespace Redir

set_option maxRecDepth 4000 in
set_option maxHeartbeats 1000000 in
theorem core_fixed_alias_last (cfg : Cfg) (cap : Cap) (first : Bool) (idx : Nat) (b : Bool)
    (sin sout serr : Option Slot) (hin : UserIn sin) (hout : UserOut sout) (herr : UserErr serr)
    (hinv : sout = some .pipeAll → serr = some .toStdout) :
    Matches (modelStageP Quirks.fixed cfg cap ⟨first, true, idx⟩ (mkBuilt cfg (.alias b) sin sout serr))
      (specCoreB cfg cap first true idx (.alias b) (sout.toList.map claimOfOutSlot) (serr.toList.map claimOfErrSlot)
        (sin.toList.map slotTarget)) := by
  obtain ⟨thread, always, printErr⟩ := cfg
  rcases hin with _ | ⟨ti⟩ <;> rcases hout with _ | ⟨to, ao⟩ | _ | _ <;> rcases herr with _ | ⟨te, ae⟩ | _ | _ <;>
    (try cases ao) <;> (try cases ae) <;> cases b <;> cases first <;>
    cases thread <;> cases cap <;>
    first
      | exact rfl
      | exact trivial
      | (exfalso; simp at hinv; done)
      | (cases always <;> first | exact rfl | exact trivial)

end Redir
