/-
Helper lemmas for C04 about `Model/Expand.lean` (expandvars / expand_path).
-/
import XonshVerif.Model.Expand
namespace Expand
open PyStr (Str)

theorem expandGo_noDollar (e : Env) : ∀ (s : Str), ¬ 36 ∈ s → expandGo e 0 s = s := by
  intro s
  induction s with
  | nil => intro _; rfl
  | cons c cs ih =>
    intro h
    have hc : c ≠ 36 := fun eq => h (eq ▸ List.mem_cons_self ..)
    have hcs : ¬ 36 ∈ cs := fun m => h (List.mem_cons_of_mem _ m)
    simp [expandGo, hc, ih hcs]

/-- when no matched name is set, every match is put back as it was: nothing changes -/
theorem expandGo_unknown (e : Env) (hu : ∀ n, e.lookup n = none) :
    ∀ (s : Str) (k : Nat), expandGo e k s = s.drop k := by
  intro s
  induction s with
  | nil => intro k; cases k <;> simp [expandGo]
  | cons c cs ih =>
    intro k
    cases k with
    | succ k => simp [expandGo, ih k]
    | zero =>
      simp only [expandGo, List.drop_zero]
      by_cases hc : c = 36
      · subst hc
        simp only [if_true]
        cases hm : matchVar e cs with
        | none => simp [ih 0]
        | some p =>
          obtain ⟨name, n⟩ := p
          simp [hu name, ih n]
      · simp [hc, ih 0]

theorem splitOn_ne_nil (sep : Nat) (s : Str) : splitOn sep s ≠ [] := by
  induction s with
  | nil => simp [splitOn]
  | cons c cs ih =>
    simp only [splitOn]
    split
    · simp
    · split <;> simp

theorem joinWith_cons_cons (sep : Nat) (p q : Str) (ps : List Str) :
    joinWith sep (p :: q :: ps) = p ++ sep :: joinWith sep (q :: ps) := rfl

theorem joinWith_splitOn (sep : Nat) : ∀ s : Str, joinWith sep (splitOn sep s) = s := by
  intro s
  induction s with
  | nil => rfl
  | cons c cs ih =>
    simp only [splitOn]
    by_cases hc : c = sep
    · simp only [hc, if_true]
      cases hs : splitOn sep cs with
      | nil => exact absurd hs (splitOn_ne_nil sep cs)
      | cons p ps =>
        rw [joinWith_cons_cons, ← hs, ih]
        rfl
    · simp only [hc, if_false]
      cases hs : splitOn sep cs with
      | nil => exact absurd hs (splitOn_ne_nil sep cs)
      | cons p ps =>
        simp only []
        rw [hs] at ih
        cases ps with
        | nil => simp [joinWith] at ih ⊢; exact ih
        | cons q qs =>
          rw [joinWith_cons_cons] at ih ⊢
          simp [← ih]

theorem expanduser_id (e : Env) (s : Str) (h : (s.head? == some 126) = false) : expanduser e s = s := by
  unfold expanduser
  split
  · simp at h
  · rfl

theorem map_id_of_forall {α} (f : α → α) (l : List α) (h : ∀ x ∈ l, f x = x) : l.map f = l := by
  induction l with
  | nil => rfl
  | cons a as ih =>
    simp only [List.map, h a (List.mem_cons_self ..)]
    rw [ih (fun x hx => h x (List.mem_cons_of_mem _ hx))]

theorem take_drop_eq (s : Str) (h : s.contains 61 = true) :
    s.takeWhile (· != 61) ++ 61 :: (s.dropWhile (· != 61)).drop 1 = s := by
  induction s with
  | nil => simp at h
  | cons c cs ih =>
    by_cases hc : c = 61
    · subst hc; simp [List.takeWhile, List.dropWhile]
    · have hcs : cs.contains 61 = true := by
        simp only [List.contains_cons] at h
        have : (61 == c) = false := by simp; omega
        simpa [this] using h
      have hne : (c != 61) = true := by simp [hc]
      simp only [List.takeWhile, List.dropWhile, hne, List.cons_append]
      rw [ih hcs]

end Expand
