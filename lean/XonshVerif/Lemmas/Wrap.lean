import XonshVerif.Model.Wrap
/-
C03 — lemmas about the wrap operation (Model/Wrap.lean).
-/
namespace Wrap

theorem dropWhile_length_le (p : Char → Bool) : ∀ l : List Char, (l.dropWhile p).length ≤ l.length := by
  intro l
  induction l with
  | nil => simp
  | cons c cs ih => simp only [List.dropWhile]; split <;> simp <;> omega

theorem rstripLen_le (l : Line) : rstripLen l ≤ l.length := by
  have := dropWhile_length_le isSpace l.reverse
  simpa [rstripLen] using this

theorem endOf_le (line : Line) (e0 : Nat) : endOf line e0 ≤ e0 ∧ endOf line e0 ≤ line.length := by
  have := rstripLen_le (line.take e0)
  simp only [endOf]
  simp only [List.length_take] at this
  omega

/-- a non-blank character at offset e0-1 stops the right-strip there -/
theorem endOf_eq (line : Line) (e0 : Nat) (h0 : 0 < e0) (hle : e0 ≤ line.length)
    (hnb : ∀ c, line[e0 - 1]? = some c → isSpace c = false) : endOf line e0 = e0 := by
  have hlen : (line.take e0).length = e0 := by simp; omega
  have hne : line.take e0 ≠ [] := by intro e; rw [e] at hlen; simp at hlen; omega
  obtain ⟨ys, c, hyc⟩ : ∃ ys c, line.take e0 = ys ++ [c] := by
    have := List.getLast?_eq_some_iff.mp (List.getLast?_eq_getLast hne)
    obtain ⟨ys, h⟩ := this
    exact ⟨ys, _, h⟩
  have hys : ys.length = e0 - 1 := by
    have := congrArg List.length hyc; simp at this; omega
  have hc : line[e0 - 1]? = some c := by
    have h1 : (line.take e0)[e0 - 1]? = some c := by
      rw [hyc, ← hys]; simp
    rw [List.getElem?_take] at h1
    split at h1
    · exact h1
    · cases h1
  have hsp := hnb c hc
  simp only [endOf, rstripLen, hyc, List.reverse_append, List.reverse_cons, List.reverse_nil, List.nil_append,
    List.singleton_append, List.dropWhile, hsp]
  simp; omega

theorem wrap_preserves (line : Line) (beg e0 : Nat) (h : beg ≤ endOf line e0) :
    erase (wrap line beg e0) beg (endOf line e0) = line ∧ endOf line e0 ≤ e0 ∧ endOf line e0 ≤ line.length ∧
      wrap line beg e0 = line.take beg ++ ['!', '['] ++ (line.drop beg).take (endOf line e0 - beg) ++ [']'] ++ line.drop (endOf line e0) := by
  have hle := endOf_le line e0
  generalize hen : endOf line e0 = en at *
  have hmid : (line.take en).drop beg = (line.drop beg).take (en - beg) := by
    rw [List.drop_take]
  have hb : (line.take beg).length = beg := by simp; omega
  have hm : ((line.drop beg).take (en - beg)).length = en - beg := by simp; omega
  refine ⟨?_, hle.1, hle.2, ?_⟩
  · simp only [erase, wrap, hen, hmid]
    have e1 : (line.take beg ++ ['!', '['] ++ (line.drop beg).take (en - beg) ++ [']'] ++ line.drop en).take beg = line.take beg := by
      simp only [List.append_assoc]
      rw [List.take_append_of_le_length (by omega)]
      rw [List.take_of_length_le (by omega)]
    have e2 : (line.take beg ++ ['!', '['] ++ (line.drop beg).take (en - beg) ++ [']'] ++ line.drop en).drop (beg + 2)
        = (line.drop beg).take (en - beg) ++ [']'] ++ line.drop en := by
      have : line.take beg ++ ['!', '['] ++ (line.drop beg).take (en - beg) ++ [']'] ++ line.drop en
          = (line.take beg ++ ['!', '[']) ++ ((line.drop beg).take (en - beg) ++ [']'] ++ line.drop en) := by
        simp only [List.append_assoc]
      rw [this, List.drop_append_of_le_length (by simp; omega)]
      have hl2 : (line.take beg ++ ['!', '[']).length = beg + 2 := by simp; omega
      rw [List.drop_of_length_le (by omega)]
      simp
    have e3 : (line.take beg ++ ['!', '['] ++ (line.drop beg).take (en - beg) ++ [']'] ++ line.drop en).drop (en + 3) = line.drop en := by
      have : line.take beg ++ ['!', '['] ++ (line.drop beg).take (en - beg) ++ [']'] ++ line.drop en
          = (line.take beg ++ ['!', '['] ++ (line.drop beg).take (en - beg) ++ [']']) ++ line.drop en := by
        simp only [List.append_assoc]
      have hl3 : (line.take beg ++ ['!', '['] ++ (line.drop beg).take (en - beg) ++ [']']).length = en + 3 := by
        simp only [List.length_append, hb, hm]; simp; omega
      rw [this, List.drop_append_of_le_length (by omega), List.drop_of_length_le (by omega)]
      simp
    rw [e1, e2, e3]
    have e4 : ((line.drop beg).take (en - beg) ++ [']'] ++ line.drop en).take (en - beg) = (line.drop beg).take (en - beg) := by
      simp only [List.append_assoc]
      rw [List.take_append_of_le_length (by omega), List.take_of_length_le (by omega)]
    rw [e4]
    have e5 : (line.drop beg).take (en - beg) ++ line.drop en = line.drop beg := by
      have : line.drop en = (line.drop beg).drop (en - beg) := by
        rw [List.drop_drop]; congr 1; omega
      rw [this, List.take_append_drop]
    rw [List.append_assoc, e5, List.take_append_drop]
  · simp only [wrap, hen, hmid]

theorem wrap_no_split (line : Line) (toks : List Tok) (hs : toks.Pairwise (fun a b => a.stop ≤ b.pos))
    (i j : Nat) (hij : i ≤ j) (hj : j < toks.length)
    (hne : 0 < (toks[j]).len) (hin : (toks[j]).stop ≤ line.length)
    (hnb : ∀ c, line[(toks[j]).stop - 1]? = some c → isSpace c = false) :
    endOf line (toks[j]).stop = (toks[j]).stop ∧
      ∀ k (hk : k < toks.length),
        (k < i → (toks[k]).stop ≤ (toks[i]'(by omega)).pos) ∧
        (i ≤ k → k ≤ j → (toks[i]'(by omega)).pos ≤ (toks[k]).pos ∧ (toks[k]).stop ≤ endOf line (toks[j]).stop) ∧
        (j < k → endOf line (toks[j]).stop ≤ (toks[k]).pos) := by
  have hpos : 0 < (toks[j]).stop := by simp [Tok.stop]; omega
  have he := endOf_eq line (toks[j]).stop hpos hin hnb
  have hp := List.pairwise_iff_getElem.mp hs
  have hself : ∀ k (hk : k < toks.length), (toks[k]).pos ≤ (toks[k]).stop := by intro k hk; simp [Tok.stop]
  refine ⟨he, ?_⟩
  intro k hk
  rw [he]
  refine ⟨fun hki => hp k i hk (by omega) hki, fun hik hkj => ⟨?_, ?_⟩, fun hjk => hp j k hj hk hjk⟩
  · by_cases e : i = k
    · subst e; exact Nat.le_refl _
    · have := hp i k (by omega) hk (by omega); have := hself i (by omega); omega
  · by_cases e : k = j
    · subst e; exact Nat.le_refl _
    · have := hp k j hk hj (by omega); have := hself j hj; omega

end Wrap
