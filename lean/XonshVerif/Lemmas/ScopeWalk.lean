/-
Helper lemmas for C02 (Props/C02.lean): one statement at a time, then the whole walk.
-/
import XonshVerif.Lemmas.ScopeSim
namespace Scope

/-- what the property demands of one record -/
def RecOk (r : Rec) : Prop :=
  (r.ok = true → r.tame = true → r.g = true → ∀ d ∈ r.decs, d.v ≠ Verdict.offer) ∧
  (r.shadow = true → r.tame = true → r.g = true → ∀ d ∈ r.decs, d.v ≠ Verdict.builtin)

/-- while no known mechanism has been triggered, the contexts cover the property's scopes -/
def Good (env : Env) (st : St) : Prop := st.tame = true → st.g = true → Sim env st.s st.c

structure Post (env : Env) (st : St) (r : List Rec × St) : Prop where
  recs : ∀ rec ∈ r.1, RecOk rec
  good : Good env r.2
  len : r.2.s.frames.length = st.s.frames.length
  gmono : r.2.g = true → st.g = true
  tmono : r.2.tame = true → st.tame = true

theorem Post.seq {env : Env} {st : St} {r1 r2 : List Rec × St} (h1 : Post env st r1) (h2 : Post env r1.2 r2) :
    Post env st (r1.1 ++ r2.1, r2.2) :=
  ⟨fun rec hr => by
      rcases List.mem_append.mp hr with h | h
      · exact h1.recs rec h
      · exact h2.recs rec h,
   h2.good, h2.len.trans h1.len, fun h => h1.gmono (h2.gmono h), fun h => h1.tmono (h2.tmono h)⟩

theorem Post.nil (env : Env) (st : St) (h : Good env st) : Post env st ([], st) :=
  ⟨fun _ hr => by simp at hr, h, rfl, id, id⟩

theorem recOk_nodecs (sid : Nat) (a c d e : Bool) (b : List Name) : RecOk ⟨sid, a, b, c, d, e, []⟩ :=
  ⟨fun _ _ _ _ hd => by simp at hd, fun _ _ _ _ hd => by simp at hd⟩

theorem keep_ne_offer {ds : List Dec} (h : ∀ d ∈ ds, d.v = Verdict.keep) : ∀ d ∈ ds, d.v ≠ Verdict.offer :=
  fun d hd e => by rw [h d hd] at e; cases e

/-- the header step shared by assign / annassign / augassign / for / while / if / with / return / except:
the statement records `ys`, visits its own expressions `es`, and the property binds the walrus targets and `zs` -/
theorem header_step (env : Env) (st : St) (sid : Nat) (es : Exprs) (ws ys zs rs : List Name) (g : Bool) (dr : List Name)
    (hws : ws = allWL es)
    (hgood : Good env st)
    (hg : g = true → st.g = true ∧ gExprs env.fx es = true)
    (hz : g = true → ∀ x ∈ zs, x ∈ ys ∨ x ∈ st.c.top) :
    RecOk ⟨sid, st.s.readsOk env es rs, dr, st.tame, false, g, (xEs env [] ((preW env st.c ws).addTop ys) es).1⟩ ∧
    Good env { st with c := (xEs env [] ((preW env st.c ws).addTop ys) es).2, s := st.s.bind (ws ++ zs), g := g } := by
  subst hws
  refine ⟨⟨?_, fun h => by simp at h⟩, ?_⟩
  · intro hok ht hgt
    have hs := hgood ht (hg hgt).1
    have hv := visit_ok env st.s st.c es ys hs (hg hgt).2
    refine keep_ne_offer (hv.1 ?_)
    simp only [Sp.readsOk, Bool.and_eq_true] at hok
    exact hok.1
  · intro ht hgt
    have hs := hgood ht (hg hgt).1
    have hv := visit_ok env st.s st.c es ys hs (hg hgt).2
    refine hv.2.1.bind _ ?_
    intro x hx
    rcases List.mem_append.mp hx with h | h
    · exact hv.2.2.1 x (List.mem_append.mpr (Or.inl h))
    · rcases hz hgt x h with h2 | h2
      · exact hv.2.2.1 x (List.mem_append.mpr (Or.inr h2))
      · exact hv.2.2.2 x h2


/-! ### statements without nested blocks -/

theorem post_pass (env : Env) (st : St) (sid : Nat) (h : Good env st) : Post env st (runS env st (.pass sid)) := by
  simp only [runS]
  exact ⟨fun rec hr => by simp at hr; subst hr; exact recOk_nodecs .., h, rfl, id, id⟩

theorem post_global (env : Env) (st : St) (sid : Nat) (xs : List Name) (h : Good env st) :
    Post env st (runS env st (.global_ sid xs)) := by
  simp only [runS]
  refine ⟨fun rec hr => by simp at hr; subst hr; exact recOk_nodecs .., ?_, ?_, id, id⟩
  · intro ht hg; exact (h ht hg).global xs
  · simp [Sp.bindGlobal, length_bindLast]

theorem post_imp (env : Env) (st : St) (sid : Nat) (items : List ImpItem) (h : Good env st) :
    Post env st (runS env st (.imp sid items)) := by
  simp only [runS]
  refine ⟨fun rec hr => by simp at hr; subst hr; exact recOk_nodecs .., ?_, ?_, ?_, id⟩
  · intro ht hg
    simp only [Bool.and_eq_true] at hg
    refine ((h ht hg.1).addTop _).bind _ ?_
    intro x hx
    rw [top_addTop]
    exact List.mem_append.mpr (Or.inl (subset_iff.mp hg.2 x hx))
  · simp [frames_bind, length_addHead]
  · intro hg; simp only [Bool.and_eq_true] at hg; exact hg.1

theorem post_impFrom (env : Env) (st : St) (sid : Nat) (items : List ImpItem) (h : Good env st) :
    Post env st (runS env st (.impFrom sid items)) := by
  simp only [runS]
  refine ⟨fun rec hr => by simp at hr; subst hr; exact recOk_nodecs .., ?_, ?_, ?_, id⟩
  · intro ht hg
    simp only [Bool.and_eq_true] at hg
    refine ((h ht hg.1).addTop _).bind _ ?_
    intro x hx
    rw [top_addTop]
    exact List.mem_append.mpr (Or.inl (subset_iff.mp hg.2 x hx))
  · simp [frames_bind, length_addHead]
  · intro hg; simp only [Bool.and_eq_true] at hg; exact hg.1

theorem post_del (env : Env) (st : St) (sid : Nat) (names nested : List Name) (h : Good env st) :
    Post env st (runS env st (.del sid names nested)) := by
  simp only [runS]
  refine ⟨fun rec hr => by simp at hr; subst hr; exact recOk_nodecs .., ?_, ?_, ?_, ?_⟩
  · intro ht hg
    simp only [Bool.and_eq_true] at ht hg
    have hs := h ht.1 hg.1
    have ht2 := ht.2
    have hg2 := hg.2
    rw [tameAll_append, Bool.and_eq_true] at ht2
    rw [gDel_append, Bool.and_eq_true] at hg2
    show Sim env (st.s.delAll (names ++ nested)) _
    rw [delAll_append]
    by_cases hseq : env.fx.delSeq = true
    · simp only [hseq, if_true]
      rw [removeAll_append]
      exact (hs.delAll names ht2.1 hg2.1).delAll nested ht2.2 hg2.2
    · simp only [hseq, Bool.false_eq_true, if_false, List.append_nil]
      exact (hs.delAll names ht2.1 hg2.1).specDelAll nested
  · simp [length_delAll]
  · intro hg; simp only [Bool.and_eq_true] at hg; exact hg.1
  · intro ht; simp only [Bool.and_eq_true] at ht; exact ht.1

theorem Sub2_levels_mem {fs ls : List (List Name)} (h : Sub2 fs ls) {x : Name} (hx : fs.any (·.contains x) = true) :
    ∃ l ∈ ls, x ∈ l := by
  simp only [List.any_eq_true] at hx
  obtain ⟨f, hf, hxf⟩ := hx
  exact Sub2_mem h f hf x (contains_iff.mp hxf)

theorem post_expr (env : Env) (st : St) (sid : Nat) (e : Expr) (h : Good env st) :
    Post env st (runS env st (.expr sid e)) := by
  simp only [runS]
  refine ⟨?_, ?_, ?_, ?_, id⟩
  · intro rec hr
    simp only [List.mem_singleton] at hr
    subst hr
    refine ⟨?_, ?_⟩
    · intro hok ht hg
      simp only [Bool.and_eq_true, gExprStmt, Bool.or_eq_true] at hg
      have hs := (h ht hg.1).preW (allW e)
      have hf : freeOk (allW e ++ st.s.visList env) e = true := by
        simp only [Sp.readsOk, one, freeOkL, allWL, Bool.and_eq_true, List.append_nil] at hok
        exact hok.1.1
      have hb : ∀ x ∈ allW e ++ st.s.visList env, (preW env st.c (allW e)).vis x = true ∨ x ∈ ([] : List Name) := by
        intro x hx
        left
        rcases List.mem_append.mp hx with h1 | h1
        · rcases hg.2.1 with hw | hw
          · simp only [preW, hw, if_true]; exact (vis_addTop _ _ x).mpr (Or.inl h1)
          · have : allW e = [] := by simpa using hw
            rw [this] at h1; simp at h1
        · exact vis_preW env st.c _ x ((h ht hg.1).vis x h1)
      intro d hd
      simp only [xExprStmt, List.mem_append, List.mem_singleton] at hd
      rcases hd with hd | hd
      · -- operands of a BoolOp / UnaryOp statement
        cases e with
        | lam ps b => simp [xD] at hd
        | _ =>
          refine keep_ne_offer (xD_keep env _ [] _ hb _ hf ?_) d hd
          rcases hg.2.2 with (hl | hl) | hl
          · exact Or.inl hl
          · simp [isLam] at hl
          · exact Or.inr hl
      · subst hd
        simp only
        split
        · intro hc; cases hc
        · have : inScope env (preW env st.c (allW e)) [] e = true ∨ isLam e = true := by
            rcases hg.2.2 with (hl | hl) | hl
            · exact Or.inl (inScope_of_free env _ [] _ e hf (Or.inl hl) hb)
            · exact Or.inr hl
            · exact Or.inl (inScope_of_free env _ [] _ e hf (Or.inr hl) hb)
          have : (inScope env (preW env st.c (allW e)) [] e || isLam e) = true := by simpa using this
          simp [this]
    · intro hsh ht hg
      simp only [Bool.and_eq_true] at hg
      have hs := (h ht hg.1).preW (allW e)
      cases e with
      | name x =>
        simp only [Sp.userBound, Bool.or_eq_true] at hsh
        have hnb : bareBuiltin env (preW env st.c (allW (.name x))) (.name x) = false := by
          simp only [bareBuiltin]
          rcases hsh with hu | hf
          · have := hs.sessUser x (contains_iff.mp hu)
            simp [this]
          · obtain ⟨l, hl, hxl⟩ := Sub2_levels_mem hs.frames hf
            simp only [Ctxs.levels, List.mem_append, List.mem_singleton] at hl
            rcases hl with hl | hl
            · have : (preW env st.c (allW (.name x))).inner.any (·.contains x) = true := by
                simp only [List.any_eq_true]; exact ⟨l, hl, contains_iff.mpr hxl⟩
              simp only [this, Bool.not_true, Bool.and_false]
            · subst hl; simp [hxl]
        intro d hd
        simp only [xExprStmt, xD, List.nil_append, List.mem_singleton] at hd
        subst hd
        simp only [hnb, Bool.false_eq_true, if_false]
        split <;> simp
      | _ => simp [Sp.userBound] at hsh
  · intro ht hg
    simp only [Bool.and_eq_true, gExprStmt, Bool.or_eq_true] at hg
    refine ((h ht hg.1).preW (allW e)).bind _ ?_
    intro x hx
    rcases hg.2.1 with hw | hw
    · simp only [preW, hw, if_true, top_addTop]; exact List.mem_append.mpr (Or.inl hx)
    · have : allW e = [] := by simpa using hw
      rw [this] at hx; simp at hx
  · simp [frames_bind, length_addHead]
  · intro hg; simp only [Bool.and_eq_true] at hg; exact hg.1

theorem post_header (env : Env) (st : St) (sid : Nat) (es : Exprs) (ws ys zs rs : List Name) (g : Bool) (dr : List Name)
    (hws : ws = allWL es) (hgood : Good env st)
    (hg : g = true → st.g = true ∧ gExprs env.fx es = true)
    (hz : g = true → ∀ x ∈ zs, x ∈ ys ∨ x ∈ st.c.top) :
    Post env st
      ([⟨sid, st.s.readsOk env es rs, dr, st.tame, false, g, (xEs env [] ((preW env st.c ws).addTop ys) es).1⟩],
       { st with c := (xEs env [] ((preW env st.c ws).addTop ys) es).2, s := st.s.bind (ws ++ zs), g := g }) := by
  have hh := header_step env st sid es ws ys zs rs g dr hws hgood hg hz
  refine ⟨?_, hh.2, ?_, fun h => (hg h).1, id⟩
  · intro rec hr; simp only [List.mem_singleton] at hr; subst hr; exact hh.1
  · simp [frames_bind, length_addHead]

theorem post_assign (env : Env) (st : St) (sid : Nat) (tgts : Tgts) (v : Expr) (h : Good env st) :
    Post env st (runS env st (.assign sid tgts v)) := by
  simp only [runS]
  refine post_header env st sid (one v) (allW v) _ (tBindsL tgts) _ _ [] (allWL_one v).symm h ?_ ?_
  · intro hg; simp only [Bool.and_eq_true] at hg; exact hg.1
  · intro hg x hx
    simp only [Bool.and_eq_true, Bool.or_eq_true] at hg
    left
    rcases hg.2 with hn | hn
    · simp [hn, tBindsL_sub tgts x hx]
    · exact List.mem_append.mpr (Or.inl (subset_iff.mp hn x hx))

theorem post_annassign (env : Env) (st : St) (sid : Nat) (t : Tgt) (ann : Expr) (v : Exprs) (h : Good env st) :
    Post env st (runS env st (.annassign sid t ann v)) := by
  simp only [runS]
  refine post_header env st sid (.cons ann v) _ _ _ _ _ [] rfl h ?_ ?_
  · intro hg; simp only [Bool.and_eq_true] at hg; exact hg.1
  · intro hg x hx
    simp only [Bool.and_eq_true, Bool.or_eq_true] at hg
    left
    cases v with
    | nil => simp at hx
    | cons _ _ =>
      rcases hg.2 with hn | hn
      · simp [hn, hx]
      · exact List.mem_append.mpr (Or.inl (subset_iff.mp hn x hx))

theorem post_augassign (env : Env) (st : St) (sid : Nat) (t : Tgt) (v : Expr) (h : Good env st) :
    Post env st (runS env st (.augassign sid t v)) := by
  simp only [runS]
  have := post_header env st sid (one v) (allW v) [] [] (tNames t) (st.g && gExprs env.fx (one v)) []
    (allWL_one v).symm h (fun hg => by simpa using hg) (fun _ x hx => by simp at hx)
  simpa [addTop_nil] using this

theorem post_ret (env : Env) (st : St) (sid : Nat) (v : Exprs) (h : Good env st) :
    Post env st (runS env st (.ret sid v)) := by
  simp only [runS]
  have := post_header env st sid v (allWL v) [] [] [] (st.g && gExprs env.fx v) []
    rfl h (fun hg => by simpa using hg) (fun _ x hx => by simp at hx)
  simpa [addTop_nil] using this

/-! ### statements with nested blocks (the blocks' correctness is the induction hypothesis) -/

def BlockOk (env : Env) (b : Stmts) : Prop := ∀ st, Good env st → Post env st (runL env st b)
def HandlersOk (env : Env) (hs : Handlers) : Prop := ∀ st, Good env st → Post env st (runH env st hs)

theorem post_for (env : Env) (st : St) (sid : Nat) (tgt : Tgt) (iter : Expr) (body orelse : Stmts)
    (hb : BlockOk env body) (ho : BlockOk env orelse) (h : Good env st) :
    Post env st (runS env st (.for_ sid tgt iter body orelse)) := by
  simp only [runS]
  have p0 := post_header env st sid (one iter) (allW iter) (tNames tgt) (tBinds tgt) (tReads tgt)
    (st.g && gExprs env.fx (one iter)) [] (allWL_one iter).symm h (fun hg => by simpa using hg)
    (fun _ x hx => Or.inl (tBinds_sub tgt x hx))
  have pb := hb _ p0.good
  have po := ho _ pb.good
  exact p0.seq (pb.seq po)

theorem post_while (env : Env) (st : St) (sid : Nat) (test : Expr) (body orelse : Stmts)
    (hb : BlockOk env body) (ho : BlockOk env orelse) (h : Good env st) :
    Post env st (runS env st (.while_ sid test body orelse)) := by
  simp only [runS]
  have p0 := post_header env st sid (one test) (allW test) [] [] [] (st.g && gExprs env.fx (one test)) []
    (allWL_one test).symm h (fun hg => by simpa using hg) (fun _ x hx => by simp at hx)
  simp only [addTop_nil, List.append_nil] at p0
  have pb := hb _ p0.good
  have po := ho _ pb.good
  exact p0.seq (pb.seq po)

theorem post_if (env : Env) (st : St) (sid : Nat) (test : Expr) (body orelse : Stmts)
    (hb : BlockOk env body) (ho : BlockOk env orelse) (h : Good env st) :
    Post env st (runS env st (.if_ sid test body orelse)) := by
  simp only [runS]
  have p0 := post_header env st sid (one test) (allW test) [] [] [] (st.g && gExprs env.fx (one test)) []
    (allWL_one test).symm h (fun hg => by simpa using hg) (fun _ x hx => by simp at hx)
  simp only [addTop_nil, List.append_nil] at p0
  have pb := hb _ p0.good
  have po := ho _ pb.good
  exact p0.seq (pb.seq po)

theorem post_with (env : Env) (st : St) (sid : Nat) (ctxs : Exprs) (tgts : Tgts) (body : Stmts)
    (hb : BlockOk env body) (h : Good env st) :
    Post env st (runS env st (.with_ sid ctxs tgts body)) := by
  simp only [runS]
  have p0 := post_header env st sid ctxs (allWL ctxs) (tNamesL tgts) (tBindsL tgts) (tReadsL tgts)
    (st.g && gExprs env.fx ctxs) [] rfl h (fun hg => by simpa using hg)
    (fun _ x hx => Or.inl (tBindsL_sub tgts x hx))
  have pb := hb _ p0.good
  exact p0.seq pb

theorem post_try (env : Env) (st : St) (sid : Nat) (body : Stmts) (hs : Handlers) (orelse final : Stmts)
    (hb : BlockOk env body) (hh : HandlersOk env hs) (ho : BlockOk env orelse) (hf : BlockOk env final) (h : Good env st) :
    Post env st (runS env st (.try_ sid body hs orelse final)) := by
  simp only [runS]
  have h0 : Good env { st with c := st.c.addTop hs.names } := fun ht hg => (h ht hg).addTop _
  have pb := hb _ h0
  have ph := hh _ pb.good
  have po := ho _ ph.good
  have pf := hf _ po.good
  have := pb.seq (ph.seq (po.seq pf))
  exact ⟨this.recs, this.good, this.len, this.gmono, this.tmono⟩

theorem post_handler (env : Env) (st : St) (sid : Nat) (ty : Exprs) (nm : Option Name) (body : Stmts) (rest : Handlers)
    (hb : BlockOk env body) (hr : HandlersOk env rest) (h : Good env st) :
    Post env st (runH env st (.cons sid ty nm body rest)) := by
  simp only [runH]
  have p0 := post_header env st sid ty (allWL ty) (if env.fx.handler then optName nm else []) (optName nm) []
    (st.g && gExprs env.fx ty && (env.fx.handler || subset (optName nm) st.c.top)) [] rfl h
    (fun hg => by simp only [Bool.and_eq_true] at hg; exact hg.1)
    (fun hg x hx => by
      simp only [Bool.and_eq_true, Bool.or_eq_true] at hg
      rcases hg.2 with hh | hh
      · left; simp [hh, hx]
      · exact Or.inr (subset_iff.mp hh x hx))
  have pb := hb _ p0.good
  have pr := hr _ pb.good
  exact p0.seq (pb.seq pr)

theorem visList_pop (env : Env) (s : Sp) (x : Name) (h : x ∈ s.pop.visList env) : x ∈ s.visList env := by
  simp only [Sp.visList, Sp.pop, List.mem_append, List.mem_flatten] at h ⊢
  rcases h with h | h | ⟨f, hf, hx⟩
  · exact Or.inl h
  · exact Or.inr (Or.inl h)
  · exact Or.inr (Or.inr ⟨f, List.mem_of_mem_tail hf, hx⟩)

theorem Sim.frames_pos {env : Env} {s : Sp} {c : Ctxs} (h : Sim env s c) : 1 ≤ s.frames.length := by
  have := Sub2_length h.frames
  simp [Ctxs.levels] at this
  omega

/-- the part of `def` / `class` after the header: the body, then the decorators (visited in the body's scope), then the pop -/
theorem post_scope_tail (env : Env) (st st1 : St) (sid : Nat) (ok : Bool) (body : Stmts) (decos : Exprs)
    (hb : BlockOk env body) (h : Good env st) (h1 : Good env st1)
    (hlen : st1.s.frames.length = st.s.frames.length + 1)
    (hg1 : st1.g = true → st.g = true ∧ gVL env.fx decos = true) (ht1 : st1.tame = true → st.tame = true) :
    Post env st
      ((runL env st1 body).1 ++
        [⟨sid, ok && freeOkL ((runL env st1 body).2.s.pop.visList env) decos, [], (runL env st1 body).2.tame, false,
          (runL env st1 body).2.g, (xEs env [] (runL env st1 body).2.c decos).1⟩],
       { (runL env st1 body).2 with c := (xEs env [] (runL env st1 body).2.c decos).2.pop, s := (runL env st1 body).2.s.pop }) := by
  have pb := hb st1 h1
  generalize runL env st1 body = rb at pb ⊢
  refine ⟨?_, ?_, ?_, fun hg => (hg1 (pb.gmono hg)).1, fun ht => ht1 (pb.tmono ht)⟩
  · intro rec hr
    rcases List.mem_append.mp hr with hr | hr
    · exact pb.recs rec hr
    · simp only [List.mem_singleton] at hr; subst hr
      refine ⟨?_, fun hsh => by simp at hsh⟩
      intro hok ht hg
      simp only [Bool.and_eq_true] at hok
      have hs := pb.good ht hg
      refine keep_ne_offer (xEs_keep env decos [] _ rb.2.c ?_ hok.2 (hg1 (pb.gmono hg)).2)
      intro x hx
      exact Or.inl (hs.vis x (visList_pop env _ x hx))
  · intro ht hg
    have hs := pb.good ht hg
    have hs0 := h (ht1 (pb.tmono ht)) (hg1 (pb.gmono hg)).1
    show Sim env rb.2.s.pop (xEs env [] rb.2.c decos).2.pop
    rw [xEs_ctx]
    refine (hs.addTop _).pop ?_
    have := hs0.frames_pos
    rw [pb.len, hlen]; omega
  · show rb.2.s.pop.frames.length = st.s.frames.length
    simp only [Sp.pop, List.length_tail, pb.len, hlen]
    omega

theorem post_fdef (env : Env) (st : St) (sid : Nat) (f : Name) (ps : List Name) (defaults : Exprs) (body : Stmts) (decos : Exprs)
    (hb : BlockOk env body) (h : Good env st) :
    Post env st (runS env st (.fdef sid f ps defaults body decos)) := by
  simp only [runS]
  -- the header record
  have hrec : RecOk ⟨sid, st.s.readsOk env (defaults.append decos) [], [], st.tame, false,
      st.g && gHeader env.fx (defaults.append decos),
      (xEs env [] (((preW env st.c (allWL (defaults.append decos))).addTop [f]).push.addTop ps) defaults).1⟩ := by
    refine ⟨?_, fun hsh => by simp at hsh⟩
    intro hok ht hg
    simp only [Bool.and_eq_true, gHeader, Bool.or_eq_true] at hg
    simp only [Sp.readsOk, Bool.and_eq_true, freeOkL_append] at hok
    rw [gVL_append, Bool.and_eq_true] at hg
    have hs := h ht hg.1
    refine keep_ne_offer (xEs_keep env defaults [] _ _ ?_ hok.1.1 hg.2.1.1)
    intro x hx
    left
    rw [vis_addTop]; right
    rw [vis_push, vis_addTop]; right
    rcases List.mem_append.mp hx with h1 | h1
    · rcases hg.2.2 with hw | hw
      · simp only [preW, hw, if_true]; exact (vis_addTop _ _ x).mpr (Or.inl h1)
      · have : allWL (defaults.append decos) = [] := by simpa using hw
        rw [this] at h1; simp at h1
    · exact vis_preW env st.c _ x (hs.vis x h1)
  have hgood1 : Good env { st with
      c := (xEs env [] (((preW env st.c (allWL (defaults.append decos))).addTop [f]).push.addTop ps) defaults).2,
      s := ((st.s.bind (allWL (defaults.append decos))).bind [f]).push ps,
      g := st.g && gHeader env.fx (defaults.append decos) } := by
    intro ht hg
    simp only [Bool.and_eq_true, gHeader, Bool.or_eq_true] at hg
    have hs := h ht hg.1
    show Sim env (((st.s.bind _).bind [f]).push ps) (xEs env [] _ defaults).2
    rw [xEs_ctx]
    refine Sim.addTop ?_ _
    refine Sim.push ?_ ps
    refine Sim.bind (Sim.addTop ?_ _) [f] (by intro x hx; rw [top_addTop]; exact List.mem_append.mpr (Or.inl hx))
    refine Sim.bind (hs.preW _) _ ?_
    intro x hx
    rcases hg.2.2 with hw | hw
    · simp only [preW, hw, if_true, top_addTop]; exact List.mem_append.mpr (Or.inl hx)
    · have : allWL (defaults.append decos) = [] := by simpa using hw
      rw [this] at hx; simp at hx
  have ptail := post_scope_tail env st _ sid (st.s.readsOk env (defaults.append decos) []) body decos hb h hgood1
    (by simp [Sp.push, frames_bind, length_addHead])
    (by
      intro hg
      simp only [Bool.and_eq_true, gHeader] at hg
      have := hg.2.1
      rw [gVL_append, Bool.and_eq_true] at this
      exact ⟨hg.1, this.2⟩)
    (fun ht => ht)
  refine ⟨?_, ptail.good, ptail.len, ptail.gmono, ptail.tmono⟩
  intro rec hr
  rcases List.mem_cons.mp hr with hr | hr
  · subst hr; exact hrec
  · exact ptail.recs rec hr

theorem post_cdef (env : Env) (st : St) (sid : Nat) (cn : Name) (bases : Exprs) (body : Stmts) (decos : Exprs)
    (hb : BlockOk env body) (h : Good env st) :
    Post env st (runS env st (.cdef sid cn bases body decos)) := by
  simp only [runS]
  have hrec : RecOk ⟨sid, st.s.readsOk env (bases.append decos) [], [], st.tame, false,
      st.g && gHeader env.fx (bases.append decos),
      (xEs env [] ((preW env st.c (allWL (bases.append decos))).addTop [cn]).push bases).1⟩ := by
    refine ⟨?_, fun hsh => by simp at hsh⟩
    intro hok ht hg
    simp only [Bool.and_eq_true, gHeader, Bool.or_eq_true] at hg
    simp only [Sp.readsOk, Bool.and_eq_true, freeOkL_append] at hok
    rw [gVL_append, Bool.and_eq_true] at hg
    have hs := h ht hg.1
    refine keep_ne_offer (xEs_keep env bases [] _ _ ?_ hok.1.1 hg.2.1.1)
    intro x hx
    left
    rw [vis_push, vis_addTop]; right
    rcases List.mem_append.mp hx with h1 | h1
    · rcases hg.2.2 with hw | hw
      · simp only [preW, hw, if_true]; exact (vis_addTop _ _ x).mpr (Or.inl h1)
      · have : allWL (bases.append decos) = [] := by simpa using hw
        rw [this] at h1; simp at h1
    · exact vis_preW env st.c _ x (hs.vis x h1)
  have hgood1 : Good env { st with
      c := (xEs env [] ((preW env st.c (allWL (bases.append decos))).addTop [cn]).push bases).2,
      s := ((st.s.bind (allWL (bases.append decos))).bind [cn]).push [],
      g := st.g && gHeader env.fx (bases.append decos) } := by
    intro ht hg
    simp only [Bool.and_eq_true, gHeader, Bool.or_eq_true] at hg
    have hs := h ht hg.1
    show Sim env (((st.s.bind _).bind [cn]).push []) (xEs env [] _ bases).2
    rw [xEs_ctx]
    refine Sim.addTop ?_ _
    have hp : ∀ c : Ctxs, c.push = c.push.addTop [] := fun c => (addTop_nil _).symm
    rw [hp]
    refine Sim.push ?_ []
    refine Sim.bind (Sim.addTop ?_ _) [cn] (by intro x hx; rw [top_addTop]; exact List.mem_append.mpr (Or.inl hx))
    refine Sim.bind (hs.preW _) _ ?_
    intro x hx
    rcases hg.2.2 with hw | hw
    · simp only [preW, hw, if_true, top_addTop]; exact List.mem_append.mpr (Or.inl hx)
    · have : allWL (bases.append decos) = [] := by simpa using hw
      rw [this] at hx; simp at hx
  have ptail := post_scope_tail env st _ sid (st.s.readsOk env (bases.append decos) []) body decos hb h hgood1
    (by simp [Sp.push, frames_bind, length_addHead])
    (by
      intro hg
      simp only [Bool.and_eq_true, gHeader] at hg
      have := hg.2.1
      rw [gVL_append, Bool.and_eq_true] at this
      exact ⟨hg.1, this.2⟩)
    (fun ht => ht)
  refine ⟨?_, ptail.good, ptail.len, ptail.gmono, ptail.tmono⟩
  intro rec hr
  rcases List.mem_cons.mp hr with hr | hr
  · subst hr; exact hrec
  · exact ptail.recs rec hr

/-! ### the whole walk -/
mutual
theorem runS_post (env : Env) : ∀ (s : Stmt) (st : St), Good env st → Post env st (runS env st s)
  | .expr sid e, st, h => post_expr env st sid e h
  | .assign sid tgts v, st, h => post_assign env st sid tgts v h
  | .annassign sid t ann v, st, h => post_annassign env st sid t ann v h
  | .augassign sid t v, st, h => post_augassign env st sid t v h
  | .imp sid items, st, h => post_imp env st sid items h
  | .impFrom sid items, st, h => post_impFrom env st sid items h
  | .fdef sid f ps dfl body decos, st, h => post_fdef env st sid f ps dfl body decos (fun st' h' => runL_post env body st' h') h
  | .cdef sid cn bases body decos, st, h => post_cdef env st sid cn bases body decos (fun st' h' => runL_post env body st' h') h
  | .for_ sid tgt iter body orelse, st, h =>
    post_for env st sid tgt iter body orelse (fun st' h' => runL_post env body st' h') (fun st' h' => runL_post env orelse st' h') h
  | .while_ sid test body orelse, st, h =>
    post_while env st sid test body orelse (fun st' h' => runL_post env body st' h') (fun st' h' => runL_post env orelse st' h') h
  | .if_ sid test body orelse, st, h =>
    post_if env st sid test body orelse (fun st' h' => runL_post env body st' h') (fun st' h' => runL_post env orelse st' h') h
  | .with_ sid ctxs tgts body, st, h => post_with env st sid ctxs tgts body (fun st' h' => runL_post env body st' h') h
  | .try_ sid body hs orelse final, st, h =>
    post_try env st sid body hs orelse final (fun st' h' => runL_post env body st' h') (fun st' h' => runH_post env hs st' h')
      (fun st' h' => runL_post env orelse st' h') (fun st' h' => runL_post env final st' h') h
  | .global_ sid xs, st, h => post_global env st sid xs h
  | .del sid names nested, st, h => post_del env st sid names nested h
  | .ret sid v, st, h => post_ret env st sid v h
  | .pass sid, st, h => post_pass env st sid h
theorem runL_post (env : Env) : ∀ (ss : Stmts) (st : St), Good env st → Post env st (runL env st ss)
  | .nil, st, h => by simp only [runL]; exact Post.nil env st h
  | .cons s ss, st, h => by
    simp only [runL]
    have p1 := runS_post env s st h
    exact p1.seq (runL_post env ss _ p1.good)
theorem runH_post (env : Env) : ∀ (hs : Handlers) (st : St), Good env st → Post env st (runH env st hs)
  | .nil, st, h => by simp only [runH]; exact Post.nil env st h
  | .cons sid ty nm body rest, st, h =>
    post_handler env st sid ty nm body rest (fun st' h' => runL_post env body st' h') (fun st' h' => runH_post env rest st' h') h
end

theorem Sim.init (env : Env) : Sim env (Sp.init env) (Ctxs.init env) :=
  ⟨fun x hx => by simp only [Sp.init] at hx; simp [Ctxs.init, hx],
   fun x hx => by simpa [Sp.init] using hx,
   fun x hx => by simp [Ctxs.init, hx],
   by simp [Sp.init, Ctxs.init, Ctxs.levels, Sub2]⟩

end Scope
