/-
Helper lemmas for C02: with every mechanism repaired (`Fixes.all`) no guard is ever violated (`Rec.g` is constantly true).
-/
import XonshVerif.Lemmas.ScopeWalk
namespace Scope

theorem all_dotted : Fixes.all.dotted = true := rfl
theorem all_walrus : Fixes.all.walrus = true := rfl
theorem all_lam : Fixes.all.lam = true := rfl
theorem all_comp : Fixes.all.comp = true := rfl
theorem all_delB : Fixes.all.delB = true := rfl
theorem all_nested : Fixes.all.nested = true := rfl
theorem all_handler : Fixes.all.handler = true := rfl

mutual
theorem gV_all : ∀ e : Expr, gV Fixes.all e = true
  | .name _ => by simp [gV]
  | .const _ => by simp [gV]
  | .node _ cs => by simp [gV, gVL_all cs]
  | .boolop _ => by simp [gV, all_dotted, all_walrus, all_lam, all_comp, all_delB, all_nested, all_handler]
  | .unary _ => by simp [gV, all_dotted, all_walrus, all_lam, all_comp, all_delB, all_nested, all_handler]
  | .lam _ b => by simp [gV, gV_all b, all_dotted, all_walrus, all_lam, all_comp, all_delB, all_nested, all_handler]
  | .comp elt _ _ _ => by simp [gV, gV_all elt, all_dotted, all_walrus, all_lam, all_comp, all_delB, all_nested, all_handler]
  | .walrus _ v => by simp [gV, gV_all v]
theorem gVL_all : ∀ es : Exprs, gVL Fixes.all es = true
  | .nil => by simp [gVL]
  | .cons e es => by simp [gVL, gV_all e, gVL_all es]
end

theorem gExprs_all (es : Exprs) : gExprs Fixes.all es = true := by simp [gExprs, gVL_all, all_dotted, all_walrus, all_lam, all_comp, all_delB, all_nested, all_handler]
theorem gHeader_all (es : Exprs) : gHeader Fixes.all es = true := by simp [gHeader, gVL_all, all_dotted, all_walrus, all_lam, all_comp, all_delB, all_nested, all_handler]
theorem gExprStmt_all (e : Expr) : gExprStmt Fixes.all e = true := by simp [gExprStmt, all_dotted, all_walrus, all_lam, all_comp, all_delB, all_nested, all_handler]
theorem subset_refl (xs : List Name) : subset xs xs = true := by simp [subset]

theorem gDel_all (B U : List Name) : ∀ (xs : List Name) (s : Sp), gDel ⟨B, U, Fixes.all⟩ s xs = true := by
  intro xs
  induction xs with
  | nil => intro s; rfl
  | cons x xs ih => intro s; simp [gDel, ih, all_dotted, all_walrus, all_lam, all_comp, all_delB, all_nested, all_handler]

/-- records and final state of a walk that started with `g = true` -/
def GAll (st : St) (r : List Rec × St) : Prop := st.g = true → (∀ rec ∈ r.1, rec.g = true) ∧ r.2.g = true

theorem GAll.seq {st : St} {r1 r2 : List Rec × St} (h1 : GAll st r1) (h2 : GAll r1.2 r2) : GAll st (r1.1 ++ r2.1, r2.2) := by
  intro hg
  have a := h1 hg
  have b := h2 a.2
  exact ⟨fun rec hr => by
    rcases List.mem_append.mp hr with h | h
    · exact a.1 rec h
    · exact b.1 rec h, b.2⟩

mutual
theorem runS_gAll (B U : List Name) : ∀ (s : Stmt) (st : St), GAll st (runS ⟨B, U, Fixes.all⟩ st s)
  | .expr _ _, st => by intro hg; simp [runS, hg, gExprStmt_all]
  | .assign _ _ _, st => by intro hg; simp [runS, hg, gExprs_all, all_dotted, all_walrus, all_lam, all_comp, all_delB, all_nested, all_handler]
  | .annassign _ _ _ _, st => by intro hg; simp [runS, hg, gExprs_all, all_dotted, all_walrus, all_lam, all_comp, all_delB, all_nested, all_handler]
  | .augassign _ _ _, st => by intro hg; simp [runS, hg, gExprs_all]
  | .imp _ _, st => by intro hg; simp [runS, hg, subset_refl]
  | .impFrom _ _, st => by intro hg; simp [runS, hg, subset_refl]
  | .global_ _ _, st => by intro hg; simp [runS, hg]
  | .del _ _ _, st => by intro hg; simp [runS, hg, gDel_all]
  | .ret _ _, st => by intro hg; simp [runS, hg, gExprs_all]
  | .pass _, st => by intro hg; simp [runS, hg]
  | .fdef sid f ps dfl body decos, st => by
    intro hg
    simp only [runS]
    have hb := runL_gAll B U body
      { st with c := (xEs ⟨B, U, Fixes.all⟩ [] (((preW ⟨B, U, Fixes.all⟩ st.c (allWL (dfl.append decos))).addTop [f]).push.addTop ps) dfl).2,
                s := ((st.s.bind (allWL (dfl.append decos))).bind [f]).push ps,
                g := st.g && gHeader Fixes.all (dfl.append decos) } (by simp [hg, gHeader_all])
    refine ⟨?_, hb.2⟩
    intro rec hr
    rcases List.mem_cons.mp hr with h | h
    · subst h; simp [hg, gHeader_all]
    · rcases List.mem_append.mp h with h | h
      · exact hb.1 rec h
      · simp only [List.mem_singleton] at h; subst h; exact hb.2
  | .cdef sid cn bases body decos, st => by
    intro hg
    simp only [runS]
    have hb := runL_gAll B U body
      { st with c := (xEs ⟨B, U, Fixes.all⟩ [] ((preW ⟨B, U, Fixes.all⟩ st.c (allWL (bases.append decos))).addTop [cn]).push bases).2,
                s := ((st.s.bind (allWL (bases.append decos))).bind [cn]).push [],
                g := st.g && gHeader Fixes.all (bases.append decos) } (by simp [hg, gHeader_all])
    refine ⟨?_, hb.2⟩
    intro rec hr
    rcases List.mem_cons.mp hr with h | h
    · subst h; simp [hg, gHeader_all]
    · rcases List.mem_append.mp h with h | h
      · exact hb.1 rec h
      · simp only [List.mem_singleton] at h; subst h; exact hb.2
  | .for_ sid tgt iter body orelse, st => by
    intro hg
    simp only [runS]
    have h0 : GAll st ([⟨sid, st.s.readsOk ⟨B, U, Fixes.all⟩ (one iter) (tReads tgt), [], st.tame, false,
        st.g && gExprs Fixes.all (one iter), (xEs ⟨B, U, Fixes.all⟩ [] ((preW ⟨B, U, Fixes.all⟩ st.c (allW iter)).addTop (tNames tgt)) (one iter)).1⟩],
        { st with c := (xEs ⟨B, U, Fixes.all⟩ [] ((preW ⟨B, U, Fixes.all⟩ st.c (allW iter)).addTop (tNames tgt)) (one iter)).2,
                  s := st.s.bind (allW iter ++ tBinds tgt), g := st.g && gExprs Fixes.all (one iter) }) := by
      intro hg; simp [hg, gExprs_all]
    exact (h0.seq ((runL_gAll B U body _).seq (runL_gAll B U orelse _))) hg
  | .while_ sid test body orelse, st => by
    intro hg
    simp only [runS]
    have h0 : GAll st ([⟨sid, st.s.readsOk ⟨B, U, Fixes.all⟩ (one test) [], [], st.tame, false,
        st.g && gExprs Fixes.all (one test), (xEs ⟨B, U, Fixes.all⟩ [] (preW ⟨B, U, Fixes.all⟩ st.c (allW test)) (one test)).1⟩],
        { st with c := (xEs ⟨B, U, Fixes.all⟩ [] (preW ⟨B, U, Fixes.all⟩ st.c (allW test)) (one test)).2,
                  s := st.s.bind (allW test), g := st.g && gExprs Fixes.all (one test) }) := by
      intro hg; simp [hg, gExprs_all]
    exact (h0.seq ((runL_gAll B U body _).seq (runL_gAll B U orelse _))) hg
  | .if_ sid test body orelse, st => by
    intro hg
    simp only [runS]
    have h0 : GAll st ([⟨sid, st.s.readsOk ⟨B, U, Fixes.all⟩ (one test) [], [], st.tame, false,
        st.g && gExprs Fixes.all (one test), (xEs ⟨B, U, Fixes.all⟩ [] (preW ⟨B, U, Fixes.all⟩ st.c (allW test)) (one test)).1⟩],
        { st with c := (xEs ⟨B, U, Fixes.all⟩ [] (preW ⟨B, U, Fixes.all⟩ st.c (allW test)) (one test)).2,
                  s := st.s.bind (allW test), g := st.g && gExprs Fixes.all (one test) }) := by
      intro hg; simp [hg, gExprs_all]
    exact (h0.seq ((runL_gAll B U body _).seq (runL_gAll B U orelse _))) hg
  | .with_ sid ctxs tgts body, st => by
    intro hg
    simp only [runS]
    have h0 : GAll st ([⟨sid, st.s.readsOk ⟨B, U, Fixes.all⟩ ctxs (tReadsL tgts), [], st.tame, false,
        st.g && gExprs Fixes.all ctxs, (xEs ⟨B, U, Fixes.all⟩ [] ((preW ⟨B, U, Fixes.all⟩ st.c (allWL ctxs)).addTop (tNamesL tgts)) ctxs).1⟩],
        { st with c := (xEs ⟨B, U, Fixes.all⟩ [] ((preW ⟨B, U, Fixes.all⟩ st.c (allWL ctxs)).addTop (tNamesL tgts)) ctxs).2,
                  s := st.s.bind (allWL ctxs ++ tBindsL tgts), g := st.g && gExprs Fixes.all ctxs }) := by
      intro hg; simp [hg, gExprs_all]
    exact (h0.seq (runL_gAll B U body _)) hg
  | .try_ sid body hs orelse final, st => by
    intro hg
    simp only [runS]
    have := ((runL_gAll B U body { st with c := st.c.addTop hs.names }).seq
      ((runH_gAll B U hs _).seq ((runL_gAll B U orelse _).seq (runL_gAll B U final _)))) hg
    exact this
theorem runL_gAll (B U : List Name) : ∀ (ss : Stmts) (st : St), GAll st (runL ⟨B, U, Fixes.all⟩ st ss)
  | .nil, st => by intro hg; simp [runL, hg]
  | .cons s ss, st => by
    simp only [runL]
    exact (runS_gAll B U s st).seq (runL_gAll B U ss _)
theorem runH_gAll (B U : List Name) : ∀ (hs : Handlers) (st : St), GAll st (runH ⟨B, U, Fixes.all⟩ st hs)
  | .nil, st => by intro hg; simp [runH, hg]
  | .cons sid ty nm body rest, st => by
    intro hg
    simp only [runH]
    have h0 : GAll st ([⟨sid, st.s.readsOk ⟨B, U, Fixes.all⟩ ty [], [], st.tame, false,
        st.g && gExprs Fixes.all ty && (Fixes.all.handler || subset (optName nm) st.c.top),
        (xEs ⟨B, U, Fixes.all⟩ [] ((preW ⟨B, U, Fixes.all⟩ st.c (allWL ty)).addTop (if Fixes.all.handler then optName nm else [])) ty).1⟩],
        { st with c := (xEs ⟨B, U, Fixes.all⟩ [] ((preW ⟨B, U, Fixes.all⟩ st.c (allWL ty)).addTop (if Fixes.all.handler then optName nm else [])) ty).2,
                  s := st.s.bind (allWL ty ++ optName nm),
                  g := st.g && gExprs Fixes.all ty && (Fixes.all.handler || subset (optName nm) st.c.top) }) := by
      intro hg; simp [hg, gExprs_all, all_dotted, all_walrus, all_lam, all_comp, all_delB, all_nested, all_handler]
    exact (h0.seq ((runL_gAll B U body _).seq (runH_gAll B U rest _))) hg
end

end Scope
