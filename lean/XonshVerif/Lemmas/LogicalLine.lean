import XonshVerif.Model.LogicalLine
/-
C03 — lemmas about get_logical_line / replace_logical_line (Model/LogicalLine.lean).
-/
namespace LogicalLine

/-- the accumulated text after `m` forward steps from `start` -/
def accLine (sc : Scan) (ls : List Line) (start : Nat) : Nat → Line
  | 0 => ls.getD start []
  | m + 1 => stepLine sc (accLine sc ls start m) (ls.getD (start + m + 1) [])

/-- what the forward walk computes when every link of the window is a backslash continuation -/
def glue : List Line → Line → Line
  | [], last => last
  | l :: ws, last => l.dropLast ++ glue ws last

/-- every line of the window ends with the continuation character and is followed by text that starts with a blank -/
def SplitsBack : List Line → Line → Prop
  | [], _ => True
  | l :: ws, last => l.getLast? = some '\\' ∧ (glue ws last).head? = some ' ' ∧ SplitsBack ws last

-- ------------------------------------------------------------------------------------------ bounds
theorem backStart_le (sc : Scan) (ls : List Line) : ∀ i, backStart sc ls i ≤ i := by
  intro i
  induction i with
  | zero => simp [backStart]
  | succ i ih => simp only [backStart]; split <;> omega

theorem fwd_n (sc : Scan) : ∀ (rest : List Line) (line : Line) (n : Nat),
    n ≤ (fwd sc line rest n).2 ∧ (fwd sc line rest n).2 ≤ n + rest.length := by
  intro rest
  induction rest with
  | nil => intro line n; simp [fwd]
  | cons l rest ih =>
    intro line n
    simp only [fwd]
    split
    · have := ih (stepLine sc line l) (n + 1); simp; omega
    · simp

theorem get_bounds (sc : Scan) (ls : List Line) (idx : Nat) (h : idx < ls.length) :
    (getLogical sc ls idx).2.2 ≤ idx ∧ 1 ≤ (getLogical sc ls idx).2.1 ∧
      (getLogical sc ls idx).2.2 + (getLogical sc ls idx).2.1 ≤ ls.length := by
  have hs := backStart_le sc ls idx
  have hf := fwd_n sc (ls.drop (backStart sc ls idx + 1)) (ls.getD (backStart sc ls idx) []) 1
  simp only [getLogical]
  simp only [List.length_drop] at hf
  refine ⟨hs, hf.1, ?_⟩
  omega

-- ------------------------------------------------------------------------------------------ the window
theorem back_links (sc : Scan) (ls : List Line) (link : Nat → Bool) (hb : ∀ k, backTest sc ls k = link k) :
    ∀ idx, (∀ k, backStart sc ls idx ≤ k → k < idx → link k = true) ∧
      (backStart sc ls idx = 0 ∨ link (backStart sc ls idx - 1) = false) := by
  intro idx
  induction idx with
  | zero => simp [backStart]
  | succ i ih =>
    simp only [backStart]
    by_cases hl : backTest sc ls i = true
    · simp only [hl, if_true]
      refine ⟨?_, ih.2⟩
      intro k hk hki
      by_cases hk' : k < i
      · exact ih.1 k hk hk'
      · have : k = i := by omega
        subst this; rw [← hb]; exact hl
    · rw [if_neg hl]
      refine ⟨by intro k hk hki; omega, Or.inr ?_⟩
      simp only [Nat.add_sub_cancel]
      rw [← hb]; simpa using hl

theorem fwd_links (sc : Scan) (ls : List Line) (start : Nat) :
    ∀ (rest : List Line) (m : Nat), rest = ls.drop (start + m + 1) → start + m + 1 ≤ ls.length →
      m + 1 ≤ (fwd sc (accLine sc ls start m) rest (m + 1)).2 ∧
      (∀ k, m ≤ k → k + 1 < (fwd sc (accLine sc ls start m) rest (m + 1)).2 → joins sc (accLine sc ls start k) = true) ∧
      (start + (fwd sc (accLine sc ls start m) rest (m + 1)).2 = ls.length ∨
        joins sc (accLine sc ls start ((fwd sc (accLine sc ls start m) rest (m + 1)).2 - 1)) = false) := by
  intro rest
  induction rest with
  | nil =>
    intro m hr hle
    have : ls.length ≤ start + m + 1 := by
      have := congrArg List.length hr; simp at this; omega
    simp only [fwd]
    refine ⟨by omega, by intro k hk hk2; omega, Or.inl (by omega)⟩
  | cons l rest ih =>
    intro m hr hle
    have hlt : start + m + 1 < ls.length := by
      have := congrArg List.length hr; simp at this; omega
    have hl : l = ls.getD (start + m + 1) [] := by
      have h0 : (ls.drop (start + m + 1))[0]? = some l := by rw [← hr]; rfl
      simp [List.getElem?_drop] at h0
      simp [List.getD, h0]
    have hrest : rest = ls.drop (start + (m + 1) + 1) := by
      have : (l :: rest).tail = (ls.drop (start + m + 1)).tail := by rw [hr]
      simpa [List.tail_drop, Nat.add_assoc] using this
    simp only [fwd]
    by_cases hj : joins sc (accLine sc ls start m) = true
    · simp only [hj, if_true]
      have hacc : stepLine sc (accLine sc ls start m) l = accLine sc ls start (m + 1) := by
        simp [accLine, hl]
      rw [hacc]
      have := ih (m + 1) hrest (by omega)
      refine ⟨by omega, ?_, this.2.2⟩
      intro k hk hk2
      by_cases hkm : k = m
      · subst hkm; exact hj
      · exact this.2.1 k (by omega) hk2
    · simp only [hj]
      refine ⟨by simp, by intro k hk hk2; simp at hk2; omega, Or.inr ?_⟩
      simpa using hj

theorem get_window (sc : Scan) (ls : List Line) (idx : Nat) (link : Nat → Bool) (h : idx < ls.length)
    (hb : ∀ k, backTest sc ls k = link k)
    (hf : ∀ m, joins sc (accLine sc ls (backStart sc ls idx) m) = link (backStart sc ls idx + m)) :
    let start := (getLogical sc ls idx).2.2
    let n := (getLogical sc ls idx).2.1
    start ≤ idx ∧ idx < start + n ∧ (∀ k, start ≤ k → k + 1 < start + n → link k = true) ∧
      (start = 0 ∨ link (start - 1) = false) ∧ (start + n = ls.length ∨ link (start + n - 1) = false) := by
  have hs := backStart_le sc ls idx
  have hbk := back_links sc ls link hb idx
  have hfw := fwd_links sc ls (backStart sc ls idx) (ls.drop (backStart sc ls idx + 0 + 1)) 0 rfl (by omega)
  simp only [getLogical]
  simp only [Nat.add_zero, accLine, Nat.zero_add] at hfw
  generalize hst : backStart sc ls idx = start at *
  generalize hn : (fwd sc (ls.getD start []) (ls.drop (start + 1)) 1).2 = n at *
  have hlinks : ∀ k, start ≤ k → k + 1 < start + n → link k = true := by
    intro k hk hk2
    have := hfw.2.1 (k - start) (by omega) (by omega)
    rw [hf] at this
    have e : start + (k - start) = k := by omega
    rw [e] at this; exact this
  have hend : start + n = ls.length ∨ link (start + n - 1) = false := by
    cases hfw.2.2 with
    | inl e => exact Or.inl e
    | inr e =>
      rw [hf] at e
      have e2 : start + (n - 1) = start + n - 1 := by omega
      rw [e2] at e; exact Or.inr e
  refine ⟨hs, ?_, hlinks, hbk.2, hend⟩
  cases hend with
  | inl e => omega
  | inr e =>
    by_cases hlt : idx < start + n
    · exact hlt
    · exfalso
      have := hbk.1 (start + n - 1) (by omega) (by omega)
      rw [this] at e; cases e

-- ------------------------------------------------------------------------------------------ replace
theorem pieces_spec : ∀ (lens : List Nat) (logical : Line),
    (pieces lens logical).1.length = lens.length ∧
      ((pieces lens logical).1.map Prod.fst).flatten ++ (pieces lens logical).2 = logical := by
  intro lens
  induction lens with
  | nil => intro logical; simp [pieces]
  | cons a as ih =>
    intro logical
    simp only [pieces]
    split
    · have := ih []
      simp only [List.length_cons, List.map_cons, List.flatten_cons]
      refine ⟨by rw [this.1], ?_⟩
      rw [List.append_assoc, this.2, List.append_nil]
    · rename_i b hb
      have := ih (logical.drop b)
      simp only [List.length_cons, List.map_cons, List.flatten_cons]
      refine ⟨by rw [this.1], ?_⟩
      rw [List.append_assoc, this.2, List.take_append_drop]

theorem replace_content (ls : List Line) (logical : Line) (idx n : Nat) (hn : 2 ≤ n)
    (hnl : logical.contains '\n' = false) (hin : idx + n ≤ ls.length) :
    ∃ (ps : List (Line × Bool)) (last : Line),
      replaceLogical ls logical idx n = some (ls.take idx ++ ps.map renderPiece ++ [last] ++ ls.drop (idx + n)) ∧
      ps.length = n - 1 ∧ (ps.map Prod.fst).flatten ++ last = logical ∧
      (ls.take idx ++ ps.map renderPiece ++ [last] ++ ls.drop (idx + n)).length = ls.length := by
  have hsp := pieces_spec (((ls.drop idx).take (n - 1)).map List.length) logical
  have hlen : (pieces (((ls.drop idx).take (n - 1)).map List.length) logical).1.length = n - 1 := by
    rw [hsp.1]; simp only [List.length_map, List.length_take, List.length_drop]; omega
  refine ⟨(pieces (((ls.drop idx).take (n - 1)).map List.length) logical).1,
    (pieces (((ls.drop idx).take (n - 1)).map List.length) logical).2, ?_, hlen, hsp.2, ?_⟩
  · have h0 : ¬ n = 0 := by omega
    have h1 : ¬ n = 1 := by omega
    simp only [replaceLogical]
    rw [if_neg h0, if_neg h1]
    simp only [hnl, Bool.false_eq_true, if_false]
    rw [if_pos hin]
  · simp only [List.length_append, List.length_map, List.length_take, List.length_drop, List.length_cons,
      List.length_nil, hlen]
    omega

theorem findSpaceFrom_skip : ∀ (xs ys : Line) (p : Nat),
    findSpaceFrom (xs ++ ' ' :: ys) xs.length p = some (p + xs.length) := by
  intro xs
  induction xs with
  | nil => intro ys p; simp [findSpaceFrom]
  | cons x xs ih =>
    intro ys p
    simp only [List.cons_append, List.length_cons, findSpaceFrom]
    rw [ih]; congr 1; omega

theorem replace_get (ws : List Line) (last : Line) (h : SplitsBack ws last) :
    pieces (ws.map List.length) (glue ws last) = (ws.map (fun l => (l.dropLast, true)), last) ∧
      (ws.map (fun l => renderPiece (l.dropLast, true))) = ws := by
  induction ws with
  | nil => simp [pieces, glue]
  | cons l ws ih =>
    obtain ⟨hl, hhead, hrest⟩ := h
    have ih := ih hrest
    obtain ⟨ys, rfl⟩ := List.getLast?_eq_some_iff.mp hl
    obtain ⟨g, hg⟩ : ∃ g, glue ws last = ' ' :: g := by
      cases hgl : glue ws last with
      | nil => simp [hgl] at hhead
      | cons c g => simp [hgl] at hhead; exact ⟨g, by rw [hhead]⟩
    have hdl : (ys ++ ['\\']).dropLast = ys := by simp
    have hfind : pyFind (glue ((ys ++ ['\\']) :: ws) last) (ys ++ ['\\']).length = some ys.length := by
      have h0 : ¬ (ys ++ ['\\']).length = 0 := by simp
      simp only [pyFind, h0, if_false, glue, hg, hdl]
      have : (ys ++ ['\\']).length - 1 = ys.length := by simp
      rw [this, findSpaceFrom_skip]; simp
    constructor
    · simp only [List.map_cons, pieces, hfind]
      have e1 : (glue ((ys ++ ['\\']) :: ws) last).drop ys.length = glue ws last := by simp [glue]
      have e2 : (glue ((ys ++ ['\\']) :: ws) last).take ys.length = ys := by simp [glue]
      rw [e1, e2, ih.1, hdl]
    · have e := ih.2
      simp only [renderPiece] at e
      simp only [List.map_cons, renderPiece, hdl, e]

end LogicalLine
