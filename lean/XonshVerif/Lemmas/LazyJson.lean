import XonshVerif.Model.LazyJson
namespace LJ

/-! offsets do not influence the text, the length or the sizes -/
mutual
theorem ser_indep (v : J) (off : Nat) :
    (ser v off).text = (ser v 0).text ∧ (ser v off).n = (ser v 0).n ∧ (ser v off).sizes = (ser v 0).sizes := by
  cases v with
  | leaf t => simp [ser]
  | arr xs =>
    have h := serList_indep xs (off + 1) 
    have h0 := serList_indep xs (0 + 1)
    simp only [ser]
    rw [h.1, h.2, h0.1, h0.2]
    simp
  | obj kvs =>
    have h := serKvs_indep kvs (off + 1)
    have h0 := serKvs_indep kvs (0 + 1)
    simp only [ser]
    rw [h.1, h.2, h0.1, h0.2]
    simp
theorem serList_indep (xs : List J) (j : Nat) :
    (serList xs j).1 = (serList xs 0).1 ∧ (serList xs j).2.2 = (serList xs 0).2.2 := by
  cases xs with
  | nil => simp [serList]
  | cons x xs =>
    have hx := ser_indep x j
    have h1 := serList_indep xs (j + (ser x j).n + 2)
    have h2 := serList_indep xs (0 + (ser x 0).n + 2)
    simp only [serList]
    rw [hx.1, hx.2.2, h1.1, h1.2, h2.1, h2.2]
    simp
theorem serKvs_indep (kvs : List (Str × J)) (j : Nat) :
    (serKvs kvs j).1 = (serKvs kvs 0).1 ∧ (serKvs kvs j).2.2 = (serKvs kvs 0).2.2 := by
  cases kvs with
  | nil => simp [serKvs]
  | cons kv kvs =>
    obtain ⟨k, v⟩ := kv
    have hx := ser_indep v (j + k.length + 2)
    have hx0 := ser_indep v (0 + k.length + 2)
    have h1 := serKvs_indep kvs (j + k.length + 2 + (ser v (j + k.length + 2)).n + 2)
    have h2 := serKvs_indep kvs (0 + k.length + 2 + (ser v (0 + k.length + 2)).n + 2)
    simp only [serKvs]
    rw [hx.1, hx.2.2, h1.1, h1.2, h2.1, h2.2, hx0.1, hx0.2.2]
    simp
end

end LJ

namespace LJ

theorem ser_n (v : J) (off : Nat) : (ser v off).n = (ser v off).text.length := by
  cases v <;> simp [ser]

theorem slice_left (a b : Str) (x s : Nat) (h : x + s ≤ a.length) : slice (a ++ b) x s = slice a x s := by
  unfold slice
  rw [List.drop_append_of_le_length (by omega)]
  rw [List.take_append_of_le_length (by simp; omega)]

theorem slice_right (a r : Str) (y s : Nat) : slice (a ++ r) (a.length + y) s = slice r y s := by
  unfold slice
  rw [List.drop_append]
  have : List.drop (a.length + y) a = [] := List.drop_eq_nil_of_le (by omega)
  rw [this]
  simp

theorem slice_take (b : Str) (m y s : Nat) (h : y + s ≤ m) : slice (b.take m) y s = slice b y s := by
  unfold slice
  rw [List.drop_take, List.take_take]
  congr 1
  omega

theorem slice_all (t : Str) : slice t 0 t.length = t := by simp [slice]

-- every node of a value together with the offset and the size its index entries record
mutual
def nodes : J → Idx → Idx → List (J × Nat × Nat)
  | .leaf t, o, s => [(.leaf t, o.self, s.self)]
  | .arr xs, .arr os t, .arr ss t' => (.arr xs, t, t') :: nodesList xs os ss
  | .obj kvs, .obj os t, .obj ss t' => (.obj kvs, t, t') :: nodesKvs kvs os ss
  | _, _, _ => []
def nodesList : List J → List Idx → List Idx → List (J × Nat × Nat)
  | x :: xs, o :: os, s :: ss => nodes x o s ++ nodesList xs os ss
  | _, _, _ => []
def nodesKvs : List (Str × J) → List (Str × Idx) → List (Str × Idx) → List (J × Nat × Nat)
  | (_, v) :: kvs, (_, o) :: os, (_, s) :: ss => nodes v o s ++ nodesKvs kvs os ss
  | _, _, _ => []
end

/-- where a node's own text sits, relative to the start `off` of the enclosing serialisation -/
def Located (text : Str) (off : Nat) (extra : Nat) (d : J) (o s : Nat) : Prop :=
  off ≤ o ∧ o + s + extra ≤ off + text.length ∧ slice text (o - off) s = (ser d 0).text

mutual
theorem nodes_located (v : J) (off : Nat) :
    ∀ d o s, (d, o, s) ∈ nodes v (ser v off).offs (ser v off).sizes → Located (ser v off).text off 0 d o s := by
  cases v with
  | leaf t =>
    intro d o s h
    simp only [ser, nodes, Idx.self, List.mem_singleton, Prod.mk.injEq] at h
    obtain ⟨rfl, rfl, rfl⟩ := h
    refine ⟨Nat.le_refl _, by simp [ser], ?_⟩
    simp [ser, slice]
  | arr xs =>
    intro d o s h
    have hl := nodesList_located xs (off + 1)
    simp only [ser, nodes, List.mem_cons, Prod.mk.injEq] at h
    rcases h with ⟨rfl, rfl, rfl⟩ | h
    · refine ⟨Nat.le_refl _, by simp [ser], ?_⟩
      have := (ser_indep (.arr xs) o).1
      simp only [Nat.sub_self]
      rw [← this]
      simp only [ser]
      exact slice_all _
    · obtain ⟨h1, h2, h3⟩ := hl d o s h
      generalize hb : (serList xs (off + 1)).1 = body at h2 h3
      have hne : body ≠ [] := by intro e; subst e; simp at h2; omega
      have hs : stripSep body = body.take (body.length - 2) := by
        unfold stripSep; simp [hne]
      simp only [ser, hb, hs]
      refine ⟨by omega, by simp; omega, ?_⟩
      have e1 : o - off = [('[' : Char)].length + (o - (off + 1)) := by simp; omega
      have e2 : ('[' :: List.take (body.length - 2) body ++ [']', '\n'] : Str) =
          [('[' : Char)] ++ (List.take (body.length - 2) body ++ [']', '\n']) := rfl
      rw [e2, e1, slice_right, slice_left _ _ _ _ (by simp; omega), slice_take _ _ _ _ (by omega)]
      exact h3
  | obj kvs =>
    intro d o s h
    have hl := nodesKvs_located kvs (off + 1)
    simp only [ser, nodes, List.mem_cons, Prod.mk.injEq] at h
    rcases h with ⟨rfl, rfl, rfl⟩ | h
    · refine ⟨Nat.le_refl _, by simp [ser], ?_⟩
      have := (ser_indep (.obj kvs) o).1
      simp only [Nat.sub_self]
      rw [← this]
      simp only [ser]
      exact slice_all _
    · obtain ⟨h1, h2, h3⟩ := hl d o s h
      generalize hb : (serKvs kvs (off + 1)).1 = body at h2 h3
      have hne : body ≠ [] := by intro e; subst e; simp at h2; omega
      have hs : stripSep body = body.take (body.length - 2) := by
        unfold stripSep; simp [hne]
      simp only [ser, hb, hs]
      refine ⟨by omega, by simp; omega, ?_⟩
      have e1 : o - off = [('{' : Char)].length + (o - (off + 1)) := by simp; omega
      have e2 : ('{' :: List.take (body.length - 2) body ++ ['}', '\n'] : Str) =
          [('{' : Char)] ++ (List.take (body.length - 2) body ++ ['}', '\n']) := rfl
      rw [e2, e1, slice_right, slice_left _ _ _ _ (by simp; omega), slice_take _ _ _ _ (by omega)]
      exact h3
theorem nodesList_located (xs : List J) (j : Nat) :
    ∀ d o s, (d, o, s) ∈ nodesList xs (serList xs j).2.1 (serList xs j).2.2 → Located (serList xs j).1 j 2 d o s := by
  cases xs with
  | nil => intro d o s h; simp [serList, nodesList] at h
  | cons x xs =>
    intro d o s h
    have hx := nodes_located x j
    have hr := nodesList_located xs (j + (ser x j).n + 2)
    have hn := ser_n x j
    simp only [serList, nodesList, List.mem_append] at h
    simp only [serList]
    rcases h with h | h
    · obtain ⟨h1, h2, h3⟩ := hx d o s h
      refine ⟨h1, by simp [sep]; omega, ?_⟩
      rw [List.append_assoc, slice_left _ _ _ _ (by omega)]
      exact h3
    · obtain ⟨h1, h2, h3⟩ := hr d o s h
      refine ⟨by omega, by simp [sep]; omega, ?_⟩
      have e1 : o - j = ((ser x j).text ++ sep).length + (o - (j + (ser x j).n + 2)) := by
        simp [sep]; omega
      rw [e1, slice_right]
      exact h3
theorem nodesKvs_located (kvs : List (Str × J)) (j : Nat) :
    ∀ d o s, (d, o, s) ∈ nodesKvs kvs (serKvs kvs j).2.1 (serKvs kvs j).2.2 → Located (serKvs kvs j).1 j 2 d o s := by
  cases kvs with
  | nil => intro d o s h; simp [serKvs, nodesKvs] at h
  | cons kv kvs =>
    obtain ⟨k, v⟩ := kv
    intro d o s h
    have hx := nodes_located v (j + k.length + 2)
    have hr := nodesKvs_located kvs (j + k.length + 2 + (ser v (j + k.length + 2)).n + 2)
    have hn := ser_n v (j + k.length + 2)
    simp only [serKvs, nodesKvs, List.mem_append] at h
    simp only [serKvs]
    rcases h with h | h
    · obtain ⟨h1, h2, h3⟩ := hx d o s h
      refine ⟨by omega, by simp [sep, kvSep]; omega, ?_⟩
      have e1 : o - j = (k ++ kvSep).length + (o - (j + k.length + 2)) := by simp [kvSep]; omega
      have e2 : k ++ kvSep ++ (ser v (j + k.length + 2)).text ++ sep ++ (serKvs kvs (j + k.length + 2 + (ser v (j + k.length + 2)).n + 2)).1 =
          (k ++ kvSep) ++ ((ser v (j + k.length + 2)).text ++ (sep ++ (serKvs kvs (j + k.length + 2 + (ser v (j + k.length + 2)).n + 2)).1)) := by
        simp [List.append_assoc]
      rw [e2, e1, slice_right, slice_left _ _ _ _ (by omega)]
      exact h3
    · obtain ⟨h1, h2, h3⟩ := hr d o s h
      refine ⟨by omega, by simp [sep, kvSep]; omega, ?_⟩
      have e1 : o - j = (k ++ kvSep ++ (ser v (j + k.length + 2)).text ++ sep).length +
          (o - (j + k.length + 2 + (ser v (j + k.length + 2)).n + 2)) := by
        simp [sep, kvSep]; omega
      rw [e1, slice_right]
      exact h3
end

end LJ
