/-
Helper lemmas for C02 (Props/C02.lean): the simulation between the property's scopes (`Sp`) and the transformer's
context stack (`Ctxs`).
-/
import XonshVerif.Lemmas.Scope
namespace Scope

/-- the context stack innermost first, down to contexts[1] -/
def Ctxs.levels (c : Ctxs) : List (List Name) := c.inner ++ [c.glob]

def addHead (xs : List Name) : List (List Name) → List (List Name)
  | [] => []
  | l :: ls => (xs ++ l) :: ls

/-- level by level, every name of the left stack is in the right stack -/
def Sub2 : List (List Name) → List (List Name) → Prop
  | [], [] => True
  | f :: fs, l :: ls => (∀ x ∈ f, x ∈ l) ∧ Sub2 fs ls
  | _, _ => False

theorem Sub2_length : ∀ {fs ls : List (List Name)}, Sub2 fs ls → fs.length = ls.length
  | [], [], _ => rfl
  | _ :: fs, _ :: ls, h => by simp [Sub2_length h.2]
  | [], _ :: _, h => by simp [Sub2] at h
  | _ :: _, [], h => by simp [Sub2] at h

theorem Sub2_mem : ∀ {fs ls : List (List Name)}, Sub2 fs ls → ∀ f ∈ fs, ∀ x ∈ f, ∃ l ∈ ls, x ∈ l
  | [], [], _, f, hf, _, _ => by simp at hf
  | f0 :: fs, l0 :: ls, h, f, hf, x, hx => by
    rcases List.mem_cons.mp hf with e | e
    · subst e; exact ⟨l0, List.mem_cons_self .., h.1 x hx⟩
    · obtain ⟨l, hl, hxl⟩ := Sub2_mem h.2 f e x hx
      exact ⟨l, List.mem_cons_of_mem _ hl, hxl⟩
  | [], _ :: _, h, _, _, _, _ => by simp [Sub2] at h
  | _ :: _, [], h, _, _, _, _ => by simp [Sub2] at h

theorem Sub2_addHead_right (xs : List Name) : ∀ {fs ls : List (List Name)}, Sub2 fs ls → Sub2 fs (addHead xs ls)
  | [], [], _ => by simp [addHead, Sub2]
  | f :: fs, l :: ls, h => by
    refine ⟨fun x hx => List.mem_append.mpr (Or.inr (h.1 x hx)), h.2⟩
  | [], _ :: _, h => by simp [Sub2] at h
  | _ :: _, [], h => by simp [Sub2] at h

theorem Sub2_addHead_left (xs : List Name) : ∀ {fs ls : List (List Name)}, Sub2 fs ls →
    (∀ x ∈ xs, ∀ l ∈ ls.head?, x ∈ l) → Sub2 (addHead xs fs) ls
  | [], [], _, _ => by simp [addHead, Sub2]
  | f :: fs, l :: ls, h, hx => by
    refine ⟨fun x hxm => ?_, h.2⟩
    rcases List.mem_append.mp hxm with h1 | h1
    · exact hx x h1 l (by simp)
    · exact h.1 x h1
  | [], _ :: _, h, _ => by simp [Sub2] at h
  | _ :: _, [], h, _ => by simp [Sub2] at h

theorem levels_ne_nil (c : Ctxs) : c.levels ≠ [] := by simp [Ctxs.levels]

theorem levels_head (c : Ctxs) : c.levels.head? = some c.top := by
  obtain ⟨b, g, i⟩ := c
  cases i <;> simp [Ctxs.levels, Ctxs.top]

theorem levels_addTop (c : Ctxs) (xs : List Name) : (c.addTop xs).levels = addHead xs c.levels := by
  obtain ⟨b, g, i⟩ := c
  cases i <;> simp [Ctxs.levels, Ctxs.addTop, addHead]

theorem top_addTop (c : Ctxs) (xs : List Name) : (c.addTop xs).top = xs ++ c.top := by
  obtain ⟨b, g, i⟩ := c
  cases i <;> simp [Ctxs.top, Ctxs.addTop]

theorem base_addTop (c : Ctxs) (xs : List Name) : (c.addTop xs).base = c.base := by
  obtain ⟨b, g, i⟩ := c
  cases i <;> simp [Ctxs.addTop]

theorem frames_bind (s : Sp) (xs : List Name) : (s.bind xs).frames = addHead xs s.frames := by
  obtain ⟨f, d, ss⟩ := s
  cases f <;> simp [Sp.bind, addHead]

theorem sess_bind (s : Sp) (xs : List Name) : (s.bind xs).sess = s.sess := by
  obtain ⟨f, d, ss⟩ := s
  cases f <;> simp [Sp.bind]

theorem length_addHead (xs : List Name) (l : List (List Name)) : (addHead xs l).length = l.length := by
  cases l <;> simp [addHead]

/-- the simulation invariant -/
structure Sim (env : Env) (s : Sp) (c : Ctxs) : Prop where
  sessBase : ∀ x ∈ s.sess, x ∈ c.base
  sessUser : ∀ x ∈ s.sess, x ∈ env.U
  builtins : ∀ x ∈ env.B, x ∈ c.base
  frames : Sub2 s.frames c.levels

theorem Sim.vis {env : Env} {s : Sp} {c : Ctxs} (h : Sim env s c) : ∀ x ∈ s.visList env, c.vis x = true := by
  intro x hx
  simp only [Sp.visList, List.mem_append, List.mem_flatten] at hx
  rw [vis_iff]
  rcases hx with hx | hx | ⟨f, hf, hxf⟩
  · exact Or.inr (Or.inr (h.builtins x hx))
  · exact Or.inr (Or.inr (h.sessBase x hx))
  · obtain ⟨l, hl, hxl⟩ := Sub2_mem h.frames f hf x hxf
    simp only [Ctxs.levels, List.mem_append, List.mem_singleton] at hl
    rcases hl with hl | hl
    · exact Or.inl ⟨l, hl, hxl⟩
    · subst hl; exact Or.inr (Or.inl hxl)

theorem Sim.addTop {env : Env} {s : Sp} {c : Ctxs} (h : Sim env s c) (xs : List Name) : Sim env s (c.addTop xs) :=
  ⟨by rw [base_addTop]; exact h.sessBase, h.sessUser, by rw [base_addTop]; exact h.builtins,
   by rw [levels_addTop]; exact Sub2_addHead_right xs h.frames⟩

theorem Sim.bind {env : Env} {s : Sp} {c : Ctxs} (h : Sim env s c) (xs : List Name) (hx : ∀ x ∈ xs, x ∈ c.top) :
    Sim env (s.bind xs) c :=
  ⟨by rw [sess_bind]; exact h.sessBase, by rw [sess_bind]; exact h.sessUser, h.builtins,
   by
    rw [frames_bind]
    refine Sub2_addHead_left xs h.frames ?_
    intro x hxm l hl
    rw [levels_head] at hl
    simp at hl; subst hl; exact hx x hxm⟩

theorem Sim.preW {env : Env} {s : Sp} {c : Ctxs} (h : Sim env s c) (ws : List Name) : Sim env s (preW env c ws) := by
  unfold Scope.preW; split
  · exact h.addTop ws
  · exact h

theorem Sim.push {env : Env} {s : Sp} {c : Ctxs} (h : Sim env s c) (ps : List Name) :
    Sim env (s.push ps) (c.push.addTop ps) := by
  obtain ⟨b, g, i⟩ := c
  refine ⟨h.sessBase, h.sessUser, h.builtins, ?_⟩
  show Sub2 (ps :: s.frames) _
  simp only [Ctxs.push, Ctxs.addTop, Ctxs.levels, List.append_nil, List.cons_append]
  exact ⟨fun x hx => hx, h.frames⟩

theorem Sim.pop {env : Env} {s : Sp} {c : Ctxs} (h : Sim env s c) (hl : 2 ≤ s.frames.length) : Sim env s.pop c.pop := by
  obtain ⟨b, g, i⟩ := c
  have hlen := Sub2_length h.frames
  cases i with
  | nil => simp [Ctxs.levels] at hlen; omega
  | cons t r =>
    refine ⟨h.sessBase, h.sessUser, h.builtins, ?_⟩
    have hf := h.frames
    cases hfs : s.frames with
    | nil => rw [hfs] at hl; simp at hl
    | cons f fs =>
      rw [hfs] at hf
      simp only [Ctxs.levels, List.cons_append] at hf
      simp only [Sp.pop, Ctxs.pop, Ctxs.levels, hfs, List.tail_cons]
      exact hf.2

theorem bindLast_append (inner : List (List Name)) (g xs : List Name) :
    bindLast (inner ++ [g]) xs = inner ++ [xs ++ g] := by
  induction inner with
  | nil => simp [bindLast]
  | cons t r ih =>
    cases r with
    | nil => simp [bindLast]
    | cons t2 r2 => simp only [List.cons_append] at ih ⊢; simp [bindLast, ih]

theorem Sub2_bindLast (xs : List Name) : ∀ {fs ls : List (List Name)}, Sub2 fs ls → Sub2 (bindLast fs xs) (bindLast ls xs)
  | [], [], _ => by simp [bindLast, Sub2]
  | [f], [l], h => by
    simp only [bindLast, Sub2] at h ⊢
    refine ⟨fun x hx => ?_, trivial⟩
    rcases List.mem_append.mp hx with h1 | h1
    · exact List.mem_append.mpr (Or.inl h1)
    · exact List.mem_append.mpr (Or.inr (h.1 x h1))
  | f :: f2 :: fs, l :: l2 :: ls, h => by
    simp only [bindLast]
    exact ⟨h.1, Sub2_bindLast xs h.2⟩
  | [_], _ :: _ :: _, h => by simp [Sub2] at h
  | _ :: _ :: _, [_], h => by simp [Sub2] at h
  | [], _ :: _, h => by simp [Sub2] at h
  | _ :: _, [], h => by simp [Sub2] at h

theorem Sim.global {env : Env} {s : Sp} {c : Ctxs} (h : Sim env s c) (xs : List Name) :
    Sim env (s.bindGlobal xs) (c.addGlob xs) := by
  refine ⟨h.sessBase, h.sessUser, h.builtins, ?_⟩
  have := Sub2_bindLast xs h.frames
  simp only [Ctxs.levels, bindLast_append] at this
  simpa [Sp.bindGlobal, Ctxs.addGlob, Ctxs.levels] using this

theorem length_bindLast (xs : List Name) : ∀ l : List (List Name), (bindLast l xs).length = l.length
  | [] => rfl
  | [_] => rfl
  | _ :: t2 :: r => by simp [bindLast, length_bindLast xs (t2 :: r)]

/-! ### `del` -/

theorem mem_filter_ne {l : List Name} {x y : Name} : y ∈ l.filter (· != x) ↔ y ∈ l ∧ y ≠ x := by
  simp [List.mem_filter]

/-- the property deletes, the transformer does nothing: the invariant survives -/
theorem Sim.specDel {env : Env} {s : Sp} {c : Ctxs} (h : Sim env s c) (x : Name) : Sim env (s.del1 x) c := by
  refine ⟨?_, ?_, h.builtins, ?_⟩
  · intro y hy
    simp only [Sp.del1] at hy
    split at hy
    · exact h.sessBase y (mem_filter_ne.mp hy).1
    · exact h.sessBase y hy
  · intro y hy
    simp only [Sp.del1] at hy
    split at hy
    · exact h.sessUser y (mem_filter_ne.mp hy).1
    · exact h.sessUser y hy
  · have hf := h.frames
    simp only [Sp.del1]
    cases hfs : s.frames with
    | nil => rw [hfs] at hf; simpa [strikeTop] using hf
    | cons f fs =>
      rw [hfs] at hf
      cases hl : c.levels with
      | nil => rw [hl] at hf; simp [Sub2] at hf
      | cons l ls =>
        rw [hl] at hf
        exact ⟨fun y hy => hf.1 y (mem_filter_ne.mp hy).1, hf.2⟩

theorem removeInner_top (t : List Name) (r : List (List Name)) (x : Name) (h : x ∈ t) :
    removeInner (t :: r) x = some (t.filter (· != x) :: r) := by
  simp [removeInner, h]

/-- a `del` Python can execute, which does not strike a builtin's only record -/
theorem Sim.del {env : Env} {s : Sp} {c : Ctxs} (h : Sim env s c) (x : Name)
    (ht : s.tame x = true) (hg : env.fx.delB = true ∨ x ∉ env.B ∨ topHas s x = true) :
    Sim env (s.del1 x) (c.remove env x) := by
  obtain ⟨b, g, i⟩ := c
  have hf := h.frames
  cases hfs : s.frames with
  | nil => simp [Sp.tame, hfs] at ht
  | cons f fs =>
    rw [hfs] at hf
    cases i with
    | nil =>
      -- module level
      simp only [Ctxs.levels, List.nil_append] at hf
      have hfs0 : fs = [] := by
        cases fs with
        | nil => rfl
        | cons _ _ => simp [Sub2] at hf
      subst hfs0
      have hfg : ∀ y ∈ f, y ∈ g := hf.1
      have hsess : (s.del1 x).sess = s.sess.filter (· != x) := by simp [Sp.del1, hfs]
      have hframes : (s.del1 x).frames = [f.filter (· != x)] := by simp [Sp.del1, hfs, strikeTop]
      simp only [Ctxs.remove, removeInner]
      by_cases hgx : g.contains x = true
      · simp only [hgx, if_true]
        split
        · rename_i hcond
          simp at hcond
          refine ⟨?_, ?_, ?_, ?_⟩
          · intro y hy; rw [hsess] at hy
            have := mem_filter_ne.mp hy
            exact mem_filter_ne.mpr ⟨h.sessBase y this.1, this.2⟩
          · intro y hy; rw [hsess] at hy; exact h.sessUser y (mem_filter_ne.mp hy).1
          · intro y hy
            refine mem_filter_ne.mpr ⟨h.builtins y hy, ?_⟩
            intro e; subst e; exact hcond.2 hy
          · rw [hframes]; simp only [Ctxs.levels, List.nil_append]
            exact ⟨fun y hy => mem_filter_ne.mpr ⟨hfg y (mem_filter_ne.mp hy).1, (mem_filter_ne.mp hy).2⟩, trivial⟩
        · refine ⟨?_, ?_, h.builtins, ?_⟩
          · intro y hy; rw [hsess] at hy; exact h.sessBase y (mem_filter_ne.mp hy).1
          · intro y hy; rw [hsess] at hy; exact h.sessUser y (mem_filter_ne.mp hy).1
          · rw [hframes]; simp only [Ctxs.levels, List.nil_append]
            exact ⟨fun y hy => mem_filter_ne.mpr ⟨hfg y (mem_filter_ne.mp hy).1, (mem_filter_ne.mp hy).2⟩, trivial⟩
      · have hgx' : g.contains x = false := by simpa using hgx
        have hxf : x ∉ f := fun hx => by
          have := hfg x hx
          simp [this] at hgx
        simp only [hgx', Bool.false_eq_true, if_false]
        have hstay : Sub2 (s.del1 x).frames (Ctxs.levels ⟨b, g, []⟩) := by
          rw [hframes]; simp only [Ctxs.levels, List.nil_append]
          exact ⟨fun y hy => hfg y (mem_filter_ne.mp hy).1, trivial⟩
        split
        · split
          · refine ⟨?_, ?_, h.builtins, hstay⟩
            · intro y hy; rw [hsess] at hy; exact h.sessBase y (mem_filter_ne.mp hy).1
            · intro y hy; rw [hsess] at hy; exact h.sessUser y (mem_filter_ne.mp hy).1
          · rename_i hnb
            simp at hnb
            have hxB : x ∉ env.B := by
              rcases hg with hg | hg | hg
              · exact fun hb => by simp [hnb hg] at hb
              · exact hg
              · simp [topHas, hfs] at hg; exact absurd hg hxf
            refine ⟨?_, ?_, ?_, hstay⟩
            · intro y hy; rw [hsess] at hy
              have := mem_filter_ne.mp hy
              exact mem_filter_ne.mpr ⟨h.sessBase y this.1, this.2⟩
            · intro y hy; rw [hsess] at hy; exact h.sessUser y (mem_filter_ne.mp hy).1
            · intro y hy
              refine mem_filter_ne.mpr ⟨h.builtins y hy, ?_⟩
              intro e; subst e; exact hxB hy
        · refine ⟨?_, ?_, h.builtins, hstay⟩
          · intro y hy; rw [hsess] at hy; exact h.sessBase y (mem_filter_ne.mp hy).1
          · intro y hy; rw [hsess] at hy; exact h.sessUser y (mem_filter_ne.mp hy).1
    | cons t r =>
      simp only [Ctxs.levels, List.cons_append] at hf
      have hfs1 : fs ≠ [] := by
        intro e; subst e
        have := Sub2_length hf.2
        simp at this
      have hxf : x ∈ f := by
        cases fs with
        | nil => exact absurd rfl hfs1
        | cons f2 fs2 => simpa [Sp.tame, hfs] using ht
      have hxt : x ∈ t := hf.1 x hxf
      have hlen : (s.frames.length == 1) = false := by
        cases fs with
        | nil => exact absurd rfl hfs1
        | cons f2 fs2 => simp [hfs]
      simp only [Ctxs.remove, removeInner_top t r x hxt]
      refine ⟨?_, ?_, h.builtins, ?_⟩
      · intro y hy; simp only [Sp.del1, hlen] at hy; exact h.sessBase y hy
      · intro y hy; simp only [Sp.del1, hlen] at hy; exact h.sessUser y hy
      · simp only [Sp.del1, hfs, strikeTop, Ctxs.levels, List.cons_append]
        exact ⟨fun y hy => mem_filter_ne.mpr ⟨hf.1 y (mem_filter_ne.mp hy).1, (mem_filter_ne.mp hy).2⟩, hf.2⟩

theorem length_del1 (s : Sp) (x : Name) : (s.del1 x).frames.length = s.frames.length := by
  simp only [Sp.del1]; cases s.frames <;> simp [strikeTop]

theorem length_delAll (xs : List Name) : ∀ s : Sp, (s.delAll xs).frames.length = s.frames.length := by
  induction xs with
  | nil => intro s; rfl
  | cons x xs ih => intro s; simp only [Sp.delAll]; rw [ih, length_del1]

theorem Sim.specDelAll {env : Env} {c : Ctxs} (xs : List Name) : ∀ {s : Sp}, Sim env s c → Sim env (s.delAll xs) c := by
  induction xs with
  | nil => intro s h; exact h
  | cons x xs ih => intro s h; exact ih (h.specDel x)

/-- a whole `del` statement: the names the transformer strikes (`ns`), then names only the property deletes (`ms`) -/
theorem Sim.delAll {env : Env} (ns : List Name) : ∀ {s : Sp} {c : Ctxs}, Sim env s c →
    s.tameAll ns = true → gDel env s ns = true → Sim env (s.delAll ns) (c.removeAll env ns) := by
  induction ns with
  | nil => intro s c h _ _; exact h
  | cons x xs ih =>
    intro s c h ht hg
    simp only [Sp.tameAll, Bool.and_eq_true] at ht
    simp only [gDel, Bool.and_eq_true, Bool.or_eq_true, Bool.not_eq_true', ] at hg
    simp only [Sp.delAll, Ctxs.removeAll]
    refine ih (h.del x ht.1 ?_) ht.2 hg.2
    rcases hg.1 with (h1 | h1) | h1
    · exact Or.inl h1
    · right; left; intro hb; simp [hb] at h1
    · exact Or.inr (Or.inr h1)

theorem tameAll_append (ns ms : List Name) : ∀ s : Sp, s.tameAll (ns ++ ms) = (s.tameAll ns && (s.delAll ns).tameAll ms) := by
  induction ns with
  | nil => intro s; simp [Sp.tameAll, Sp.delAll]
  | cons x xs ih => intro s; simp [Sp.tameAll, Sp.delAll, ih, Bool.and_assoc]

theorem gDel_append (env : Env) (ns ms : List Name) : ∀ s : Sp, gDel env s (ns ++ ms) = (gDel env s ns && gDel env (s.delAll ns) ms) := by
  induction ns with
  | nil => intro s; simp [gDel, Sp.delAll]
  | cons x xs ih => intro s; simp [gDel, Sp.delAll, ih, Bool.and_assoc]

theorem delAll_append (ns ms : List Name) : ∀ s : Sp, s.delAll (ns ++ ms) = (s.delAll ns).delAll ms := by
  induction ns with
  | nil => intro s; rfl
  | cons x xs ih => intro s; simp [Sp.delAll, ih]

theorem removeAll_append (env : Env) (ns ms : List Name) : ∀ c : Ctxs, c.removeAll env (ns ++ ms) = (c.removeAll env ns).removeAll env ms := by
  induction ns with
  | nil => intro c; rfl
  | cons x xs ih => intro c; simp [Ctxs.removeAll, ih]

/-! ### a statement's own expressions -/

theorem allWL_one (e : Expr) : allWL (one e) = allW e := by simp [one, allWL]

theorem freeOkL_append (b : List Name) : ∀ (xs ys : Exprs), freeOkL b (xs.append ys) = (freeOkL b xs && freeOkL b ys)
  | .nil, ys => by simp [Exprs.append, freeOkL]
  | .cons e es, ys => by simp [Exprs.append, freeOkL, freeOkL_append b es ys, Bool.and_assoc]

theorem allWL_append : ∀ (xs ys : Exprs), allWL (xs.append ys) = allWL xs ++ allWL ys
  | .nil, ys => by simp [Exprs.append, allWL]
  | .cons e es, ys => by simp [Exprs.append, allWL, allWL_append es ys]

theorem gVL_append (fx : Fixes) : ∀ (xs ys : Exprs), gVL fx (xs.append ys) = (gVL fx xs && gVL fx ys)
  | .nil, ys => by simp [Exprs.append, gVL]
  | .cons e es, ys => by simp [Exprs.append, gVL, gVL_append fx es ys, Bool.and_assoc]

theorem subset_iff {xs ys : List Name} : subset xs ys = true ↔ ∀ x ∈ xs, x ∈ ys := by
  simp [subset, List.all_eq_true]

theorem vis_preW (env : Env) (c : Ctxs) (ws : List Name) (x : Name) (h : c.vis x = true) : (preW env c ws).vis x = true := by
  unfold preW; split
  · exact (vis_addTop c ws x).mpr (Or.inr h)
  · exact h

theorem top_preW (env : Env) (c : Ctxs) (ws : List Name) (x : Name) (h : x ∈ c.top) : x ∈ (preW env c ws).top := by
  unfold preW; split
  · rw [top_addTop]; exact List.mem_append.mpr (Or.inr h)
  · exact h

/-- THE STEP used by every statement that visits its own expressions generically: from contexts `c` (simulating `σ`),
after the walrus pre-pass and after the statement recorded the names `ys`:
every verdict is `keep` if all free reads are bound; the invariant holds afterwards; the statement's walrus targets and `ys`
are in the innermost context -/
theorem visit_ok (env : Env) (σ : Sp) (c : Ctxs) (es : Exprs) (ys : List Name)
    (hs : Sim env σ c) (hg : gExprs env.fx es = true) :
    (freeOkL (allWL es ++ σ.visList env) es = true →
      ∀ d ∈ (xEs env [] ((preW env c (allWL es)).addTop ys) es).1, d.v = Verdict.keep) ∧
    Sim env σ (xEs env [] ((preW env c (allWL es)).addTop ys) es).2 ∧
    (∀ x ∈ allWL es ++ ys, x ∈ (xEs env [] ((preW env c (allWL es)).addTop ys) es).2.top) ∧
    (∀ x ∈ c.top, x ∈ (xEs env [] ((preW env c (allWL es)).addTop ys) es).2.top) := by
  simp only [gExprs, Bool.and_eq_true, Bool.or_eq_true] at hg
  refine ⟨?_, ?_, ?_, ?_⟩
  · intro hf d hd
    rcases hg.2 with hw | hw
    · -- repaired: the walrus targets were recorded on entry
      refine xEs_keep env es [] _ _ ?_ hf hg.1 d hd
      intro x hx
      left
      rw [vis_addTop]; right
      rcases List.mem_append.mp hx with h1 | h1
      · simp only [preW, hw, if_true]; exact (vis_addTop c _ x).mpr (Or.inl h1)
      · exact vis_preW env c _ x (hs.vis x h1)
    · rcases hw.1 with he | hdf
      · have he' : allWL es = [] := by simpa using he
        rw [he'] at hf hd
        refine xEs_keep env es [] _ _ ?_ (by simpa using hf) hg.1 d hd
        intro x hx
        left
        rw [vis_addTop]; right
        exact vis_preW env c _ x (hs.vis x hx)
      · rw [xEs_decFree env es [] _ hdf] at hd; simp at hd
  · rw [xEs_ctx]
    exact ((hs.preW _).addTop ys).addTop _
  · intro x hx
    rw [xEs_ctx, top_addTop, top_addTop]
    rcases List.mem_append.mp hx with h1 | h1
    · rcases hg.2 with hw | hw
      · refine List.mem_append.mpr (Or.inr (List.mem_append.mpr (Or.inr ?_)))
        simp only [preW, hw, if_true, top_addTop]
        exact List.mem_append.mpr (Or.inl h1)
      · exact List.mem_append.mpr (Or.inl (subset_iff.mp hw.2 x h1))
    · exact List.mem_append.mpr (Or.inr (List.mem_append.mpr (Or.inl h1)))
  · intro x hx
    rw [xEs_ctx, top_addTop, top_addTop]
    exact List.mem_append.mpr (Or.inr (List.mem_append.mpr (Or.inr (top_preW env c _ x hx))))

theorem vis_push (c : Ctxs) (x : Name) : c.push.vis x = c.vis x := by
  simp [Ctxs.push, Ctxs.vis]

mutual
theorem tBinds_sub : ∀ (t : Tgt) (x : Name), x ∈ tBinds t → x ∈ tNames t
  | .name _, x, hx => by simpa [tBinds, tNames] using hx
  | .attr _, x, hx => by simp [tBinds] at hx
  | .star _, x, hx => by simpa [tBinds, tNames] using hx
  | .seq _ ts, x, hx => by simp only [tBinds, tNames] at hx ⊢; exact tBindsL_sub ts x hx
theorem tBindsL_sub : ∀ (ts : Tgts) (x : Name), x ∈ tBindsL ts → x ∈ tNamesL ts
  | .nil, x, hx => by simp [tBindsL] at hx
  | .cons t ts, x, hx => by
    simp only [tBindsL, tNamesL, List.mem_append] at hx ⊢
    rcases hx with h | h
    · exact Or.inl (tBinds_sub t x h)
    · exact Or.inr (tBindsL_sub ts x h)
end

end Scope
