import XonshVerif.Model.HistGcSpec
namespace HistGc
open Py

theorem loopBreak_congr {α σ : Type} (xs : List α) (s : σ) (f g : α → σ → Except σ σ)
    (h : ∀ x s, f x s = g x s) : loopBreak xs s f = loopBreak xs s g := by
  have : f = g := by funext x s; exact h x s
  rw [this]

theorem sumW_nil (w : F → Int) : sumW w [] = 0 := by simp [sumW]
theorem sumW_cons (w : F → Int) (f : F) (fs : List F) : sumW w (f :: fs) = w f + sumW w fs := by
  simp [sumW]
theorem sumW_append (w : F → Int) (xs ys : List F) : sumW w (xs ++ ys) = sumW w xs + sumW w ys := by
  simp [sumW, List.sum_append]
theorem sumW_reverse (w : F → Int) (xs : List F) : sumW w xs.reverse = sumW w xs := by
  induction xs with
  | nil => rfl
  | cons x xs ih => simp [sumW_append, sumW_cons, ih, sumW_nil]; omega

theorem sumW_nonneg (w : F → Int) (xs : List F) (h : ∀ x ∈ xs, 0 ≤ w x) : 0 ≤ sumW w xs := by
  induction xs with
  | nil => simp [sumW]
  | cons x xs ih =>
    rw [sumW_cons]
    have := h x (by simp)
    have := ih (fun y hy => h y (by simp [hy]))
    omega

/-- the cumulative loop computes `fitCount` -/
theorem loop_cum (w : F → Int) (limit : Int) (xs : List F) (n acc : Int) :
    (loopBreak xs (n, acc) (cumBody w limit)).1 = n + fitCount w limit xs acc := by
  induction xs generalizing n acc with
  | nil => simp [loopBreak, fitCount]
  | cons x xs ih =>
    by_cases hx : acc + w x > limit
    · simp [loopBreak, fitCount, cumBody, hx]
    · simp [loopBreak, fitCount, cumBody, hx, ih]; omega

theorem loop_sum (w : F → Int) (xs : List F) (acc : Int) :
    loopBreak xs acc (sumBody w) = acc + sumW w xs := by
  induction xs generalizing acc with
  | nil => simp [loopBreak, sumW]
  | cons x xs ih => simp [loopBreak, sumBody, ih, sumW_cons]; omega

theorem loop_old (limit now : Int) (xs : List F) (n : Int) :
    loopBreak xs n (oldBody limit now) = n + oldCount limit now xs := by
  induction xs generalizing n with
  | nil => simp [loopBreak, oldCount]
  | cons x xs ih =>
    by_cases hx : now - ts x < limit
    · simp [loopBreak, oldCount, oldBody, hx]
    · simp [loopBreak, oldCount, oldBody, hx, ih]; omega

theorem fitCount_le (w : F → Int) (limit : Int) (xs : List F) (acc : Int) :
    fitCount w limit xs acc ≤ xs.length := by
  induction xs generalizing acc with
  | nil => simp [fitCount]
  | cons x xs ih => simp only [fitCount]; split <;> simp; have := ih (acc + w x); omega

theorem oldCount_le (limit now : Int) (xs : List F) : oldCount limit now xs ≤ xs.length := by
  induction xs with
  | nil => simp [oldCount]
  | cons x xs ih => simp only [oldCount]; split <;> simp; omega

/-- with non-negative weights, a list whose total fits is counted completely -/
theorem fitCount_all (w : F → Int) (limit : Int) (xs : List F) (acc : Int)
    (hn : ∀ x ∈ xs, 0 ≤ w x) (h : acc + sumW w xs ≤ limit) :
    fitCount w limit xs acc = xs.length := by
  induction xs generalizing acc with
  | nil => simp [fitCount]
  | cons x xs ih =>
    have hx := hn x (by simp)
    have hs := sumW_nonneg w xs (fun y hy => hn y (by simp [hy]))
    rw [sumW_cons] at h
    have : ¬ (acc + w x > limit) := by omega
    simp only [fitCount, this, if_false]
    rw [ih (acc + w x) (fun y hy => hn y (by simp [hy])) (by omega)]
    simp; omega

/-- one more (older) element at the far end of the scan -/
theorem fitCount_snoc (w : F → Int) (limit : Int) (xs : List F) (f : F) (acc : Int) :
    fitCount w limit (xs ++ [f]) acc =
      if fitCount w limit xs acc = xs.length ∧ acc + sumW w xs + w f ≤ limit
      then xs.length + 1 else fitCount w limit xs acc := by
  induction xs generalizing acc with
  | nil =>
    simp only [List.nil_append, fitCount, sumW_nil, List.length_nil]
    by_cases h : acc + w f > limit
    · have : ¬ (acc + 0 + w f ≤ limit) := by omega
      simp [h, this]
    · have : acc + 0 + w f ≤ limit := by omega
      simp [h, this]
  | cons x xs ih =>
    simp only [List.cons_append, fitCount]
    by_cases hx : acc + w x > limit
    · simp [hx]
    · simp only [hx, if_false, List.length_cons, sumW_cons]
      rw [ih (acc + w x)]
      have e : acc + w x + sumW w xs + w f = acc + (w x + sumW w xs) + w f := by omega
      rw [e]
      by_cases hc : fitCount w limit xs (acc + w x) = xs.length ∧ acc + (w x + sumW w xs) + w f ≤ limit
      · have hc' : 1 + fitCount w limit xs (acc + w x) = xs.length + 1 ∧ acc + (w x + sumW w xs) + w f ≤ limit :=
          ⟨by omega, hc.2⟩
        rw [if_pos hc, if_pos hc']; omega
      · have hc' : ¬ (1 + fitCount w limit xs (acc + w x) = xs.length + 1 ∧ acc + (w x + sumW w xs) + w f ≤ limit) := by
          intro ⟨a, b⟩; exact hc ⟨by omega, b⟩
        rw [if_neg hc, if_neg hc']

/-- the newest-first cumulative scan keeps exactly what the oldest-first spec keeps -/
theorem cum_is_spec (w : F → Int) (limit : Int) (files : List F) (hn : ∀ x ∈ files, 0 ≤ w x) :
    files.take (files.length - fitCount w limit files.reverse 0) = cumSpec w limit files := by
  induction files with
  | nil => simp [cumSpec]
  | cons f fs ih =>
    have hfs : ∀ x ∈ fs, 0 ≤ w x := fun y hy => hn y (by simp [hy])
    have hk := fitCount_le w limit fs.reverse 0
    simp only [List.reverse_cons, fitCount_snoc, List.length_reverse, sumW_reverse, cumSpec]
    by_cases hfit : sumW w (f :: fs) ≤ limit
    · have hall : fitCount w limit fs.reverse 0 = fs.length := by
        have := fitCount_all w limit fs.reverse 0 (by simpa using hfs)
          (by rw [sumW_reverse]; rw [sumW_cons] at hfit; have := hn f (by simp); omega)
        simpa using this
      rw [sumW_cons] at hfit
      have hc : fitCount w limit fs.reverse 0 = fs.length ∧ 0 + sumW w fs + w f ≤ limit := ⟨hall, by omega⟩
      have hfit' : sumW w (f :: fs) ≤ limit := by rw [sumW_cons]; omega
      rw [if_pos hc, if_pos hfit']
      simp
    · have hc : ¬ (fitCount w limit fs.reverse 0 = fs.length ∧ 0 + sumW w fs + w f ≤ limit) := by
        intro ⟨_, b⟩; rw [sumW_cons] at hfit; omega
      simp only [hc, if_false, hfit]
      have ih' := ih hfs
      simp only [List.length_reverse] at hk
      have : (f :: fs).length - fitCount w limit fs.reverse 0 = (fs.length - fitCount w limit fs.reverse 0) + 1 := by
        simp; omega
      rw [this, List.take_succ_cons]
      congr 1

end HistGc
