/-
Helper lemmas for C04 about the string-literal machine of `Model/PyStr.lean`.
-/
import XonshVerif.Model.PyStr
namespace PyStr

theorem run_cons (cfg : LitCfg) (st : St) (c : Nat) (cs : Str) :
    run cfg st (c :: cs) =
      match step cfg st c with
      | none => none
      | some (out, st') => (run cfg st' cs).map (out ++ ·) := rfl

theorem hexChar_ge (d : Nat) : 48 ≤ hexChar d := by
  unfold hexChar; split <;> omega

theorem hexVal_hexChar (d : Nat) (h : d < 16) : hexVal (hexChar d) = some d := by
  unfold hexChar hexVal
  by_cases h10 : d < 10
  · simp [h10]; omega
  · simp [h10]
    have h1 : ¬ (48 ≤ 87 + d ∧ 87 + d ≤ 57) := by omega
    have h2 : (97 ≤ 87 + d ∧ 87 + d ≤ 102) := by omega
    simp [h1, h2]

/-- a step from plain text on a character that is not special there -/
theorem stepN_plain (cfg : LitCfg) (c : Nat) (h92 : c ≠ 92) (hq : c ≠ cfg.qc)
    (hnl : ¬ (c = 10 ∧ cfg.triple = false)) (hlb : ¬ (cfg.f = true ∧ c = 123)) (hrb : ¬ (cfg.f = true ∧ c = 125)) :
    stepN cfg 0 c = some ([c], .n 0) := by
  unfold stepN
  simp [h92, hq, hnl, hlb, hrb]

theorem run_plain (cfg : LitCfg) (c : Nat) (rest : Str) (h92 : c ≠ 92) (hq : c ≠ cfg.qc)
    (hnl : ¬ (c = 10 ∧ cfg.triple = false)) (hlb : ¬ (cfg.f = true ∧ c = 123)) (hrb : ¬ (cfg.f = true ∧ c = 125)) :
    run cfg (.n 0) (c :: rest) = (run cfg (.n 0) rest).map (c :: ·) := by
  rw [run_cons]
  simp only [step, stepN_plain cfg c h92 hq hnl hlb hrb]
  rfl

/-- backslash + a single-character escape -/
theorem run_simpleEsc (cfg : LitCfg) (hraw : cfg.raw = false) (e v : Nat) (rest : Str) (he : simpleEsc e = some v)
    (hne : e ≠ 10) (hb : e ≠ 123 ∧ e ≠ 125) :
    run cfg (.n 0) (92 :: e :: rest) = (run cfg (.n 0) rest).map (v :: ·) := by
  rw [run_cons]
  have h1 : step cfg (.n 0) 92 = some ([], .b) := by simp [step, stepN]
  simp only [h1]
  rw [run_cons]
  have h2 : step cfg .b e = some ([v], .n 0) := by
    simp [step, stepB, hraw, he, hne, hb.1, hb.2]
  simp only [h2]
  cases run cfg (.n 0) rest <;> simp

theorem run_hex2 (cfg : LitCfg) (hraw : cfg.raw = false) (c : Nat) (rest : Str) (h : c < 256) :
    run cfg (.n 0) (92 :: 120 :: (hex2 c ++ rest)) = (run cfg (.n 0) rest).map (c :: ·) := by
  have h1 : step cfg (.n 0) 92 = some ([], .b) := by simp [step, stepN]
  have h2 : step cfg .b 120 = some ([], .h 2 0) := by
    simp [step, stepB, hraw, simpleEsc, isOct]
  have hv1 := hexVal_hexChar (c / 16) (by omega)
  have hv2 := hexVal_hexChar (c % 16) (by omega)
  have h3 : step cfg (.h 2 0) (hexChar (c / 16)) = some ([], .h 1 (c / 16)) := by
    simp [step, hv1]
  have h4 : step cfg (.h 1 (c / 16)) (hexChar (c % 16)) = some ([c], .n 0) := by
    simp only [step, hv2]
    have : c / 16 * 16 + c % 16 = c := by omega
    simp [this]; omega
  simp only [hex2, List.cons_append, List.nil_append]
  rw [run_cons]; simp only [h1]
  rw [run_cons]; simp only [h2]
  rw [run_cons]; simp only [h3]
  rw [run_cons]; simp only [h4]
  cases run cfg (.n 0) rest <;> simp

theorem run_hex4 (cfg : LitCfg) (hraw : cfg.raw = false) (c : Nat) (rest : Str) (h : c < 65536) :
    run cfg (.n 0) (92 :: 117 :: (hex4 c ++ rest)) = (run cfg (.n 0) rest).map (c :: ·) := by
  have h1 : step cfg (.n 0) 92 = some ([], .b) := by simp [step, stepN]
  have h2 : step cfg .b 117 = some ([], .h 4 0) := by
    simp [step, stepB, hraw, simpleEsc, isOct]
  have hv1 := hexVal_hexChar (c / 4096) (by omega)
  have hv2 := hexVal_hexChar (c / 256 % 16) (by omega)
  have hv3 := hexVal_hexChar (c / 16 % 16) (by omega)
  have hv4 := hexVal_hexChar (c % 16) (by omega)
  have h3 : step cfg (.h 4 0) (hexChar (c / 4096)) = some ([], .h 3 (c / 4096)) := by
    simp [step, hv1]
  have h4 : step cfg (.h 3 (c / 4096)) (hexChar (c / 256 % 16)) = some ([], .h 2 (c / 4096 * 16 + c / 256 % 16)) := by
    simp [step, hv2]
  have h5 : step cfg (.h 2 (c / 4096 * 16 + c / 256 % 16)) (hexChar (c / 16 % 16)) =
      some ([], .h 1 ((c / 4096 * 16 + c / 256 % 16) * 16 + c / 16 % 16)) := by
    simp [step, hv3]
  have h6 : step cfg (.h 1 ((c / 4096 * 16 + c / 256 % 16) * 16 + c / 16 % 16)) (hexChar (c % 16)) = some ([c], .n 0) := by
    simp only [step, hv4]
    have : ((c / 4096 * 16 + c / 256 % 16) * 16 + c / 16 % 16) * 16 + c % 16 = c := by omega
    simp [this]; omega
  simp only [hex4, List.cons_append, List.nil_append]
  rw [run_cons]; simp only [h1]
  rw [run_cons]; simp only [h2]
  rw [run_cons]; simp only [h3]
  rw [run_cons]; simp only [h4]
  rw [run_cons]; simp only [h5]
  rw [run_cons]; simp only [h6]
  cases run cfg (.n 0) rest <;> simp

theorem run_hex8 (cfg : LitCfg) (hraw : cfg.raw = false) (c : Nat) (rest : Str) (h : c ≤ 1114111) :
    run cfg (.n 0) (92 :: 85 :: (hex8 c ++ rest)) = (run cfg (.n 0) rest).map (c :: ·) := by
  have h1 : step cfg (.n 0) 92 = some ([], .b) := by simp [step, stepN]
  have h2 : step cfg .b 85 = some ([], .h 8 0) := by
    simp [step, stepB, hraw, simpleEsc, isOct]
  have hv0 := hexVal_hexChar (c / 268435456) (by omega)
  have hv1 := hexVal_hexChar (c / 16777216 % 16) (by omega)
  have hv2 := hexVal_hexChar (c / 1048576 % 16) (by omega)
  have hv3 := hexVal_hexChar (c / 65536 % 16) (by omega)
  have hv4 := hexVal_hexChar (c / 4096 % 16) (by omega)
  have hv5 := hexVal_hexChar (c / 256 % 16) (by omega)
  have hv6 := hexVal_hexChar (c / 16 % 16) (by omega)
  have hv7 := hexVal_hexChar (c % 16) (by omega)
  have s0 : step cfg (.h 8 (0)) (hexChar (c / 268435456)) = some ([], .h 7 (c / 268435456)) := by
    simp only [step, hv0]
    have : (0) * 16 + (c / 268435456) = c / 268435456 := by omega
    simp [this]
  have s1 : step cfg (.h 7 (c / 268435456)) (hexChar (c / 16777216 % 16)) = some ([], .h 6 (c / 16777216)) := by
    simp only [step, hv1]
    have : (c / 268435456) * 16 + (c / 16777216 % 16) = c / 16777216 := by omega
    simp [this]
  have s2 : step cfg (.h 6 (c / 16777216)) (hexChar (c / 1048576 % 16)) = some ([], .h 5 (c / 1048576)) := by
    simp only [step, hv2]
    have : (c / 16777216) * 16 + (c / 1048576 % 16) = c / 1048576 := by omega
    simp [this]
  have s3 : step cfg (.h 5 (c / 1048576)) (hexChar (c / 65536 % 16)) = some ([], .h 4 (c / 65536)) := by
    simp only [step, hv3]
    have : (c / 1048576) * 16 + (c / 65536 % 16) = c / 65536 := by omega
    simp [this]
  have s4 : step cfg (.h 4 (c / 65536)) (hexChar (c / 4096 % 16)) = some ([], .h 3 (c / 4096)) := by
    simp only [step, hv4]
    have : (c / 65536) * 16 + (c / 4096 % 16) = c / 4096 := by omega
    simp [this]
  have s5 : step cfg (.h 3 (c / 4096)) (hexChar (c / 256 % 16)) = some ([], .h 2 (c / 256)) := by
    simp only [step, hv5]
    have : (c / 4096) * 16 + (c / 256 % 16) = c / 256 := by omega
    simp [this]
  have s6 : step cfg (.h 2 (c / 256)) (hexChar (c / 16 % 16)) = some ([], .h 1 (c / 16)) := by
    simp only [step, hv6]
    have : (c / 256) * 16 + (c / 16 % 16) = c / 16 := by omega
    simp [this]
  have s7 : step cfg (.h 1 (c / 16)) (hexChar (c % 16)) = some ([c], .n 0) := by
    simp only [step, hv7]
    have : (c / 16) * 16 + (c % 16) = c := by omega
    simp [this]; omega
  simp only [hex8, List.cons_append, List.nil_append]
  rw [run_cons]; simp only [h1]
  rw [run_cons]; simp only [h2]
  rw [run_cons]; simp only [s0]
  rw [run_cons]; simp only [s1]
  rw [run_cons]; simp only [s2]
  rw [run_cons]; simp only [s3]
  rw [run_cons]; simp only [s4]
  rw [run_cons]; simp only [s5]
  rw [run_cons]; simp only [s6]
  rw [run_cons]; simp only [s7]
  cases run cfg (.n 0) rest <;> simp

theorem run_hexEsc (cfg : LitCfg) (hraw : cfg.raw = false) (c : Nat) (rest : Str) (h : c ≤ 1114111) :
    run cfg (.n 0) (hexEsc c ++ rest) = (run cfg (.n 0) rest).map (c :: ·) := by
  unfold hexEsc
  split
  · exact run_hex2 cfg hraw c rest (by assumption)
  · split
    · exact run_hex4 cfg hraw c rest (by assumption)
    · exact run_hex8 cfg hraw c rest h

theorem quote_ch (q : Quote) : q.ch = 39 ∨ q.ch = 34 := by cases q <;> simp [Quote.ch]

theorem run_brace (cfg : LitCfg) (hf : cfg.f = true) (hq : cfg.qc = 39 ∨ cfg.qc = 34) (c : Nat) (hc : c = 123 ∨ c = 125) (rest : Str) :
    run cfg (.n 0) (c :: c :: rest) = (run cfg (.n 0) rest).map (c :: ·) := by
  rcases hc with rfl | rfl
  · have h1 : step cfg (.n 0) 123 = some ([], .lb) := by
      rcases hq with h | h <;> simp [step, stepN, hf, h]
    have h2 : step cfg .lb 123 = some ([123], .n 0) := by simp [step]
    rw [run_cons]; simp only [h1]
    rw [run_cons]; simp only [h2]
    generalize run cfg (.n 0) rest = r
    cases r <;> simp
  · have h1 : step cfg (.n 0) 125 = some ([], .rb) := by
      rcases hq with h | h <;> simp [step, stepN, hf, h]
    have h2 : step cfg .rb 125 = some ([125], .n 0) := by simp [step]
    rw [run_cons]; simp only [h1]
    rw [run_cons]; simp only [h2]
    generalize run cfg (.n 0) rest = r
    cases r <;> simp

/-- every rendered character takes the machine from plain text back to plain text and yields exactly that character -/
theorem run_renderChar (f rawNl : Bool) (q : Quote) (esc : Bool) (c : Nat) (rest : Str) (hc : c ≤ 1114111)
    (hnl : rawNl = true → q.triple = true) :
    run (mkCfg false f q) (.n 0) (renderChar f rawNl esc c ++ rest) =
      (run (mkCfg false f q) (.n 0) rest).map (c :: ·) := by
  have hraw : (mkCfg false f q).raw = false := rfl
  have hqc : (mkCfg false f q).qc = q.ch := rfl
  have hq := quote_ch q
  unfold renderChar
  by_cases h92 : c = 92
  · subst h92; simp only [if_true]
    exact run_simpleEsc _ hraw 92 92 rest (by simp [simpleEsc]) (by decide) (by decide)
  simp only [h92, if_false]
  by_cases h39 : c = 39
  · subst h39; simp only [if_true]
    exact run_simpleEsc _ hraw 39 39 rest (by simp [simpleEsc]) (by decide) (by decide)
  simp only [h39, if_false]
  by_cases h34 : c = 34
  · subst h34; simp only [if_true]
    exact run_simpleEsc _ hraw 34 34 rest (by simp [simpleEsc]) (by decide) (by decide)
  simp only [h34, if_false]
  by_cases h10 : c = 10
  · subst h10; simp only [if_true]
    by_cases hr : rawNl = true
    · simp only [hr, if_true]
      have ht := hnl hr
      apply run_plain
      · decide
      · rw [hqc]; rcases hq with h | h <;> omega
      · simp [mkCfg, ht]
      · simp
      · simp
    · simp only [hr, if_false]
      exact run_simpleEsc _ hraw 110 10 rest (by simp [simpleEsc]) (by decide) (by decide)
  simp only [h10, if_false]
  by_cases hx : mustHex c = true ∨ esc = true
  · simp only [hx, if_true]
    exact run_hexEsc _ hraw c rest hc
  simp only [hx, if_false]
  by_cases hl : f = true ∧ c = 123
  · simp only [hl, if_true]
    obtain ⟨hf, rfl⟩ := hl
    exact run_brace _ rfl hq 123 (Or.inl rfl) rest
  simp only [hl, if_false]
  by_cases hr : f = true ∧ c = 125
  · simp only [hr, if_true]
    obtain ⟨hf, rfl⟩ := hr
    exact run_brace _ rfl hq 125 (Or.inr rfl) rest
  simp only [hr, if_false]
  apply run_plain
  · exact h92
  · rw [hqc]; rcases hq with h | h <;> omega
  · intro h; exact h10 h.1
  · simpa [mkCfg] using hl
  · simpa [mkCfg] using hr

theorem run_render (f rawNl : Bool) (q : Quote) (hnl : rawNl = true → q.triple = true) :
    ∀ (s : Str) (choices : List Bool), validStr s →
      run (mkCfg false f q) (.n 0) (render f rawNl choices s) = some s := by
  intro s
  induction s with
  | nil => intro choices _; cases choices <;> simp [render, run, finish]
  | cons c cs ih =>
    intro choices hv
    have hc : c ≤ 1114111 := hv c (List.mem_cons_self ..)
    have hcs : validStr cs := fun x hx => hv x (List.mem_cons_of_mem _ hx)
    cases choices with
    | nil =>
      simp only [render]
      rw [run_renderChar f rawNl q false c _ hc hnl, ih [] hcs]; rfl
    | cons e es =>
      simp only [render]
      rw [run_renderChar f rawNl q e c _ hc hnl, ih es hcs]; rfl

theorem normNlGo_id (t : Str) (h : ¬ 13 ∈ t) : normNlGo false t = t := by
  induction t with
  | nil => rfl
  | cons c cs ih =>
    have hc : c ≠ 13 := fun e => h (e ▸ List.mem_cons_self ..)
    have hcs : ¬ 13 ∈ cs := fun m => h (List.mem_cons_of_mem _ m)
    simp [normNlGo, hc, ih hcs]

theorem hexEsc_ge (c x : Nat) (h : x ∈ hexEsc c) : 48 ≤ x := by
  unfold hexEsc hex2 hex4 hex8 at h
  split at h
  · simp only [List.mem_cons, List.not_mem_nil, or_false] at h
    rcases h with rfl | rfl | rfl | rfl <;> first | omega | exact hexChar_ge _
  · split at h
    · simp only [List.mem_cons, List.not_mem_nil, or_false] at h
      rcases h with rfl | rfl | rfl | rfl | rfl | rfl <;> first | omega | exact hexChar_ge _
    · simp only [List.mem_cons, List.not_mem_nil, or_false] at h
      rcases h with rfl | rfl | rfl | rfl | rfl | rfl | rfl | rfl | rfl | rfl <;> first | omega | exact hexChar_ge _

theorem hexEsc_no13 (c : Nat) : ¬ 13 ∈ hexEsc c := fun h => by
  have := hexEsc_ge c 13 h
  omega

theorem renderChar_no13 (f rawNl esc : Bool) (c : Nat) : ¬ 13 ∈ renderChar f rawNl esc c := by
  intro h
  by_cases h13 : c = 13
  · subst h13
    simp [renderChar, mustHex] at h
    exact hexEsc_no13 13 h
  · unfold renderChar at h
    repeat' split at h
    all_goals first
      | exact hexEsc_no13 c h
      | (simp only [List.mem_cons, List.not_mem_nil, or_false] at h; omega)

theorem render_no13 (f rawNl : Bool) : ∀ (s : Str) (choices : List Bool), ¬ 13 ∈ render f rawNl choices s := by
  intro s
  induction s with
  | nil => intro choices; cases choices <;> simp [render]
  | cons c cs ih =>
    intro choices
    cases choices with
    | nil => simp only [render, List.mem_append]; exact fun h => h.elim (renderChar_no13 f rawNl false c) (ih [])
    | cons e es => simp only [render, List.mem_append]; exact fun h => h.elim (renderChar_no13 f rawNl e c) (ih es)


/-- what a raw-literal state still owes to the output -/
def owed (cfg : LitCfg) : St → Str
  | .n k => List.replicate k cfg.qc
  | .b => [92]
  | _ => []

def rawState : St → Prop
  | .n _ => True
  | .b => True
  | _ => False

/-- a raw (non-f) literal's value is its body, character for character -/
theorem raw_run (cfg : LitCfg) (hraw : cfg.raw = true) (hf : cfg.f = false) :
    ∀ (body : Str) (st : St) (v : Str), rawState st → run cfg st body = some v → v = owed cfg st ++ body := by
  intro body
  induction body with
  | nil =>
    intro st v hs h
    cases st with
    | n k =>
      cases k with
      | zero => simp [run, finish] at h; simp [owed, h]
      | succ k => simp [run, finish] at h
    | b => simp [run, finish] at h
    | _ => exact hs.elim
  | cons c cs ih =>
    intro st v hs h
    rw [run_cons] at h
    cases st with
    | n k =>
      simp only [step, stepN] at h
      by_cases h92 : c = 92
      · subst h92
        simp only [if_true] at h
        cases hr : run cfg .b cs with
        | none => simp [hr] at h
        | some v' =>
          simp [hr] at h
          have := ih .b v' trivial hr
          simp [owed] at this ⊢
          rw [← h, this]
      · simp only [h92, if_false] at h
        by_cases hq : c = cfg.qc
        · simp only [hq, if_true] at h
          by_cases ht : cfg.triple = true ∧ k + 1 < 3
          · simp only [ht, and_self, if_true] at h
            cases hr : run cfg (.n (k + 1)) cs with
            | none => simp [hr] at h
            | some v' =>
              simp [hr] at h
              have := ih (.n (k + 1)) v' trivial hr
              simp only [owed] at this ⊢
              rw [← h, this, hq, List.replicate_succ']
              simp
          · simp [ht] at h
        · simp only [hq, if_false] at h
          by_cases hn : c = 10 ∧ cfg.triple = false
          · simp [hn] at h
          · simp only [hn, if_false, hf] at h
            simp only [Bool.false_eq_true, false_and, if_false] at h
            cases hr : run cfg (.n 0) cs with
            | none => simp [hr] at h
            | some v' =>
              simp [hr] at h
              have := ih (.n 0) v' trivial hr
              simp only [owed, List.replicate_zero, List.nil_append] at this ⊢
              rw [← h, this]
    | b =>
      simp only [step, stepB, hf, hraw] at h
      simp only [Bool.false_eq_true, false_and, if_false, if_true] at h
      cases hr : run cfg (.n 0) cs with
      | none => simp [hr] at h
      | some v' =>
        simp [hr] at h
        have := ih (.n 0) v' trivial hr
        simp only [owed, List.replicate_zero, List.nil_append] at this ⊢
        rw [← h, this]; simp
    | _ => exact hs.elim

end PyStr
